#!/usr/bin/env python3
"""Regenerates /verif/MANIFEST.json.  A property is claimed as soon as its theorem module
lean/Micromap/Props/<Cxx>.lean exists; everything else is listed under not_applicable with
the reason (kept current by re-running this script)."""
import json
import os

ROOT = os.path.dirname(os.path.dirname(os.path.abspath(__file__)))

TEXT = {
    "C01": ("Lean theorems: every dictionary operation of the L0 model refines the list-level reference dictionary "
            "(return value, panic class, resulting associations) for all capacities, states and arguments; lookups by "
            "borrowed form equal lookups by key; index panics iff absent. Model tied to the code by differential "
            "execution over the layout x operation product and random sequences, debug and release.", "7/C01"),
    "C02": ("Lean theorems: no operation of the L0 model (any oracle, any injection point, either profile) reads, moves or "
            "drops a non-live slot (never `ub`), Safe is preserved, and benign runs conserve objects (each is stored, "
            "returned, dropped once or leaked by forget). Ledger-instrumented differential execution ties the model to "
            "the code.", "7/C02"),
    "C03": ("Lean theorems: on a full Safe container an absent key makes every insertion entry point panic in both "
            "profiles with the container unchanged and the arguments dropped once; checked_insert returns None; "
            "replace-on-full succeeds; len <= cap is invariant. Differential execution in debug and release builds with "
            "canaries.", "7/C03"),
    "C04": ("Lean theorems: for every operation, state, oracle and injection point the L0 model ends ok or panic, never "
            "`ub`, and leaves every container Safe (and key-unique under a lawful oracle). Fault enumeration (one run per "
            "callback position) ties the model to the code.", "7/C04"),
    "C05": ("Lean theorems: WF (Safe + pairwise-unequal keys) is preserved by every operation including those ending in "
            "the container's own panic; iteration yields exactly len entries, each retrievable. Differential execution "
            "with get sweeps.", "7/C05"),
    "C06": ("Partial: allocator calls and no_std linkage are facts about compiled code that no executable model "
            "exhibits. What the model can say is checked: references are slot positions inside the container "
            "(correspondence on every reference-returning operation + `inside` flag), measured allocation count is 0 on "
            "every non-panicking operation, the import frontier of the crate is regenerated and decided in Lean.", "7/C06"),
    "C07": ("Lean theorems: every Set operation is the Map<T,(),N> operation it forwards to and refines the reference "
            "finite set; insert/remove/take/contains/get report presence truthfully. Differential execution.", "7/C07"),
    "C08": ("Lean theorems over arbitrary duplicate-free lists: the four lazy iterators yield exactly filter-defined "
            "union/intersection/difference/symmetric difference without repeats, predicates equal mathematical truth, "
            "size_hint brackets the remainder at every prefix, fold = next-stepping. Differential execution over all "
            "ordered pairs of layouts.", "7/C08"),
    "C09": ("Lean theorems: borrowing iterators yield exactly the live prefix in slot order with exact len/size_hint/"
            "count at every step, None forever after, clones continue identically, writes through iter_mut are what "
            "lookups return. Differential execution over scripts.", "7/C09"),
    "C10": ("Lean theorems: into_iter yields the reverse of the live prefix, drain the prefix; exact lengths; after drain "
            "the container is Rep [] whatever was taken/forgotten. Differential execution with every take count.", "7/C10"),
    "C11": ("Lean theorems: entry(k) is Occupied iff contains_key; or_insert* insert only when vacant running the closure "
            "exactly once; occupied/vacant methods equal the direct operations. Differential execution over entry chains.",
            "7/C11"),
    "C12": ("Lean theorems: on a present key insert/checked_insert/entry keep the stored key object and drop the "
            "supplied one; insert_key_value/replace store the supplied key and return the old; lookups expose the stored "
            "object. Differential execution with equal-but-distinguishable keys.", "7/C12"),
    "C13": ("Lean theorems: for pairwise-unequal requests get_disjoint_mut returns per position the slot get_mut finds, "
            "returned slots are pairwise distinct and < len; equal requests panic `overlap`. Differential execution over "
            "all tuples of length 0..4.", "7/C13"),
    "C14": ("Lean theorems: map/set equality holds iff same keys with equal values (pigeonhole on unique keys), is "
            "symmetric and permutation-invariant. Differential execution over all ordered layout pairs.", "7/C14"),
    "C15": ("Lean theorems: clone yields Rep of the element-wise clone with exactly one cloneK and one cloneV per entry in "
            "slot order, source unchanged. Differential execution followed by mutations of either copy.", "7/C15"),
    "C16": ("Lean theorems: from_iter/From/extend equal folding insert over the items (last value wins, first key "
            "kept, repeats consume no capacity, one pull per item + final). Differential execution over all short "
            "sequences.", "7/C16"),
    "C17": ("Lean theorems quantified over every equality oracle (a function of call number and operands): no `ub`, Safe "
            "preserved (len <= cap = iteration length), get_disjoint_mut slots pairwise distinct. Differential execution "
            "under table and stateful lying oracles with ledger and canaries.", "7/C17"),
    "C18": ("Lean theorems: within the contract insert_i = insert_ii (result, state, events) and "
            "get_disjoint_unchecked_mut = get_disjoint_mut. Differential execution on twin states.", "7/C18"),
    "C19": ("Lean theorems: Debug/Display of containers equal std's builders over iter(), the hand-written Display loop "
            "equals intercalate, iterator Debug shows exactly the not-yet-yielded entries. Differential execution "
            "against real format!.", "7/C19"),
    "C20": ("Lean theorems over the abstract serde data model: serialize announces and emits exactly len entries; "
            "deserializing them into sufficient capacity yields an equal container. Differential execution with token "
            "recording and bincode round trips (feature serde).", "7/C20"),
}

NOTE = ("Trusted: Lean 4.33 kernel (axioms propext, Classical.choice, Quot.sound only; audited per theorem on every run); "
        "the hand-written L0 model and the modelled semantics of MaybeUninit/indexing/unwinding (DESIGN.md 3.1, 9); the "
        "harness, generator and comparator. The model is tied to /repo by differential execution on every run, not by "
        "translation.")


def main():
    checks = []
    na = []
    for i in range(1, 21):
        p = f"C{i:02d}"
        if os.path.exists(os.path.join(ROOT, "lean", "Micromap", "Props", p + ".lean")):
            level = "other" if p == "C06" else "proof"
            checks.append({
                "property_id": p,
                "quick_cmd": f"./check {p} quick",
                "thorough_cmd": f"./check {p} thorough",
                "evidence_file": f"/verif/evidence/{p}.json",
                "replay_cmd_template": "./check replay {path}",
                "engine": "lean4-model+correspondence",
                "level_claimed": {"category": level, "text": TEXT[p][0], "design_ref": "DESIGN.md §" + TEXT[p][1]},
                "level_note": NOTE,
                "technique": "Lean 4 theorems about a hand-written executable model + differential correspondence check against the real crate",
            })
        else:
            na.append({"property_id": p,
                       "reason": "not claimed yet: the correspondence check for it runs, but its Lean theorem module "
                                 "(lean/Micromap/Props/%s.lean) is still being written; it will be claimed once proved" % p})
    m = {
        "version": 1,
        "setup_cmd": "./check setup",
        "hooks": {
            "guard": "micromap_verif",
            "enable": "not used: every observable is reachable through the public API, the harness needs no source hook",
            "baseline_off_cmd": "cd /repo && cargo test --workspace --no-fail-fast --offline",
            "source_commits": [],
            "add_only": True,
        },
        "engines": [{
            "name": "lean4-model+correspondence",
            "path": "/verif/check",
            "serves_properties": [c["property_id"] for c in checks],
            "kind_free_text": "Lean 4 proofs over a hand-written executable model (lean/), Rust harness driving the real crate "
                              "(harness/), line-protocol differential comparison (tools/)",
        }],
        "checks": checks,
        "not_applicable": na,
        "notes": "fix: commits in /repo: f1d9076 (clear), 09f1297 (remove_index_drop/retain), 992fc5c (clone) — see known_findings.txt",
    }
    with open(os.path.join(ROOT, "MANIFEST.json"), "w") as f:
        json.dump(m, f, indent=1)
    print("claimed:", [c["property_id"] for c in checks])


if __name__ == "__main__":
    main()
