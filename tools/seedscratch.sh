#!/bin/bash
# Development aid: run the quick checks against a seeded change WITHOUT touching /repo or /verif:
# a copy of /verif under $SV/verif is pointed at a scratch worktree of /repo ($SV/repo) that has
# the patch applied.   usage: seedscratch.sh <name> <patch.diff> [Cxx ...]
# (The prescribed confirmation — git -C /repo apply; ./check; git -C /repo checkout -- . — is
#  tools/seedtest.py.)
set -u
name=$1; patch=$2; shift 2
SV=/tmp/sv-$name
rm -rf $SV; mkdir -p $SV
git -C /repo worktree add -q --detach $SV/repo HEAD || exit 2
git -C $SV/repo apply $patch || { echo "patch does not apply"; git -C /repo worktree remove --force $SV/repo; exit 2; }
# the copy is taken from a frozen snapshot of /verif if there is one (VERIF_SRC, default
# /tmp/verif-snap when it exists): /verif itself may be in the middle of a build
SRC=${VERIF_SRC:-$([ -d /tmp/verif-snap ] && echo /tmp/verif-snap || echo /verif)}
rsync -a --exclude .git --exclude work --exclude 'evidence/replays' $SRC/ $SV/verif/
sed -i "s#path = \"/repo\"#path = \"$SV/repo\"#" $SV/verif/harness/Cargo.toml
props=${@:-C01 C02 C03 C04 C05 C06 C07 C08 C09 C10 C11 C12 C13 C14 C15 C16 C17 C18 C19 C20}
caught=""
for p in $props; do
  skip=1; [ $p = C06 ] && skip=     # C06 regenerates Gen/Frontier.lean from the tree: its proof obligation depends on /repo
  full=$(cd $SV/verif && VERIF_SKIP_PROOF=$skip ./check $p quick 2>&1; echo "EXIT=$?")
  out=$(echo "$full" | grep -E "^VIOLATION|^KNOWN|harness does not build" | head -3 | tr '\n' ';')
  # a check that could not run (exit 2) must never look like "not caught"
  echo "$full" | grep -q "EXIT=2" && out="COULD-NOT-RUN $(echo "$full" | tail -4 | tr '\n' ' ' | cut -c1-300);$out"
  rc=$([ -n "$out" ] && echo 1 || echo 0)
  echo "$p rc=$rc $out"
  [ $rc = 1 ] && caught="$caught $p"
done
echo "CAUGHT-BY:${caught:- (none)}"
mkdir -p /tmp/seedlog/replays-$name; cp $SV/verif/evidence/replays/* /tmp/seedlog/replays-$name/ 2>/dev/null
[ -n "${KEEP:-}" ] || { git -C /repo worktree remove --force $SV/repo; rm -rf $SV; }
