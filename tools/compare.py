#!/usr/bin/env python3
"""Comparison of the implementation trace (harness) with the model trace (Lean driver)
under a per-property projection, plus the direct oracles carried in the harness trace
(ledger, canaries, allocation count, reference positions)."""
import re

RE_KEY = re.compile(r"K(\d+)\.(\d+)")
RE_VAL = re.compile(r"V(\d+)\.(-?\d+)")

# ev: None (ignored) | 'm' (multiset) | 'o' (ordered);  evk: event kinds kept
#   d = drops (dk/dv), c = clones (ck/cv), e = comparisons (ek/eq/ev), f = closure calls, p = pulls
PROJ = {
    "C01": dict(ret="c", snap="c", ev=None),
    "C02": dict(ret="i", snap="i", ev="m", evk="dc", leaks=True),
    "C03": dict(ret="c", snap="i", ev="m", evk="d"),
    "C04": dict(ret="i", snap="i", ev="o", evk="dcefp", nc=True, leaks=True),
    "C05": dict(ret="c", snap="c", ev=None),
    "C06": dict(ret="c", snap=None, ev=None),
    "C07": dict(ret="c", snap="c", ev=None),
    "C08": dict(ret="i", snap="i", ev=None),
    "C09": dict(ret="i", snap="i", ev=None),
    "C10": dict(ret="i", snap="i", ev="m", evk="d", leaks=True),
    "C11": dict(ret="c", snap="i", ev="m", evk="df"),
    "C12": dict(ret="i", snap="i", ev="m", evk="d"),
    "C13": dict(ret="c", snap="c", ev=None),
    "C14": dict(ret="c", snap=None, ev=None),
    "C15": dict(ret="i", snap="i", ev="m", evk="dc", leaks=True),
    "C16": dict(ret="i", snap="i", ev="m", evk="dp"),
    "C17": dict(ret="i", snap="i", ev="o", evk="dcefp", nc=True, leaks=True),
    "C18": dict(ret="i", snap="i", ev="m", evk="d"),
    "C19": dict(ret="c", snap=None, ev=None),
    "C20": dict(ret="c", snap="c", ev=None),
}

# operations whose lines are compared for a property (None: every line).  Other operations of a
# case only build the state; a deviation there is visible in the snapshots of the compared ones.
RELEVANT = {
    "C08": {"alg", "is_subset", "is_superset", "is_disjoint", "sub", "sweep"},
    "C09": {"iter", "get", "get_mut", "shapes", "sweep"},
    "C13": {"gdm", "gdum", "get_mut", "sweep", "shapes"},
    "C14": {"eq", "sweep"},
    "C19": {"fmt", "iter", "alg", "drain", "into_iter", "sweep"},
    "C20": {"serde", "serde_wrong", "serde_zst", "deser", "eq", "len", "get", "iter"},
}

# which of the harness-side oracles count for which property
ORACLES = {
    "C02": {"led", "leak"}, "C03": {"can", "led"}, "C04": {"led"}, "C06": {"al", "in"},
    "C10": {"led"}, "C13": {"led"}, "C15": {"led"}, "C17": {"led", "can"}, "C18": {"led"},
}


def strip_ids(s):
    s = RE_KEY.sub(lambda m: "K" + m.group(1), s)
    s = RE_VAL.sub(lambda m: "V" + m.group(2), s)
    return s


def ev_kind(e):
    if e.startswith("dk") or e.startswith("dv"):
        return "d"
    if e.startswith("ck") or e.startswith("cv"):
        return "c"
    if e.startswith("ek") or e.startswith("eq") or e.startswith("ev"):
        return "e"
    if e == "p":
        return "p"
    if e.startswith("c"):
        return "f"
    return "?"


def split_line(line):
    """-> (left, right-hand oracle fields dict)"""
    if " | " in line:
        left, right = line.split(" | ", 1)
    else:
        left, right = line, ""
    rf = {}
    for t in right.split():
        if "=" in t:
            a, b = t.split("=", 1)
            rf[a] = b
    return left, rf


def fields(left):
    toks = left.split(" ")
    out = {"outcome": toks[0], "snaps": []}
    for t in toks[1:]:
        if "=" not in t:
            continue
        a, b = t.split("=", 1)
        if a in ("ret", "nc", "ev", "leaks"):
            out[a] = b
        else:
            out["snaps"].append((a, b))
    return out


def project(prop, left):
    p = PROJ[prop]
    if left.startswith("case ") or left in ("bad-op", "bad-case"):
        return left
    f = fields(left)
    oc = f["outcome"]
    if oc.startswith("panic:") and oc != "panic:inject":
        oc = "panic:own"          # which check of the container fired, and its message text, are not compared
    parts = [oc]
    if p.get("ret"):
        r = f.get("ret", "")
        parts.append("ret=" + (strip_ids(r) if p["ret"] == "c" else r))
    if p.get("nc"):
        parts.append("nc=" + f.get("nc", ""))
    if p.get("ev"):
        evs = [] if f.get("ev", "-") == "-" else f["ev"].split(",")
        evs = [e for e in evs if ev_kind(e) in p.get("evk", "")]
        if p["ev"] == "m":
            evs = sorted(evs)
        parts.append("ev=" + ",".join(evs))
    if p.get("snap"):
        for (a, b) in f["snaps"]:
            parts.append(a + "=" + (strip_ids(b) if p["snap"] == "c" else b))
    if p.get("leaks") and "leaks" in f:
        parts.append("leaks=" + f["leaks"])
    return " ".join(parts)


def load_cases(ops_path):
    """-> list of cases: dict(name, lines=[op lines incl. comments], nlines=count of traced lines)"""
    cases = []
    cur = None
    pre = {"name": "-", "lines": [], "traced": []}
    for line in open(ops_path):
        line = line.rstrip("\n")
        if not line.strip():
            continue
        if line.startswith("case "):
            cur = {"name": line.split()[1], "lines": [line], "traced": [line]}
            cases.append(cur)
            continue
        tgt = cur if cur is not None else pre
        tgt["lines"].append(line)
        if not line.startswith("#"):
            tgt["traced"].append(line)
    return cases


def compare(prop, ops_path, impl_path, model_path, max_report=20):
    """returns dict(cases, ops, mismatches=[...], oracle_failures=[...], stats)"""
    cases = load_cases(ops_path)
    impl = [l.rstrip("\n") for l in open(impl_path)]
    model = [l.rstrip("\n") for l in open(model_path)]
    res = {"cases": len(cases), "ops": 0, "mismatches": [], "oracle_failures": [], "panics": {},
           "impl_lines": len(impl), "model_lines": len(model), "nontrivial": 0}
    oracles = ORACLES.get(prop, set())
    idx = 0
    seen = set()
    for c in cases:
        n = len(c["traced"])
        il = impl[idx:idx + n]
        ml = model[idx:idx + n]
        idx += n
        mism = None
        ofail = None
        nontrivial = False
        for j in range(n):
            a = il[j] if j < len(il) else "<missing: harness output ends here (crash?)>"
            b = ml[j] if j < len(ml) else "<missing: model output ends here>"
            left, rf = split_line(a)
            res["ops"] += 1
            oc = left.split(" ", 1)[0]
            if oc.startswith("panic:"):
                res["panics"][oc] = res["panics"].get(oc, 0) + 1
            if not left.startswith("case") and ("[K" in left):
                nontrivial = True
            pa, pb = project(prop, left), project(prop, split_line(b)[0])
            rel = RELEVANT.get(prop)
            if rel is not None:
                tk = c["traced"][j].split()
                if len(tk) >= 2 and tk[0] not in ("case", "end") and tk[1] not in rel:
                    pa = pb = ""
            if pa != pb and mism is None:
                mism = {"case": c["name"], "line": j, "op": c["traced"][j], "impl": a, "model": b,
                        "impl_proj": pa, "model_proj": pb}
            if "UB" == b.split(" ", 1)[0] and mism is None:
                mism = {"case": c["name"], "line": j, "op": c["traced"][j], "impl": a, "model": b,
                        "impl_proj": pa, "model_proj": "model reached UB"}
            if ofail is None and rf:
                bad = []
                if "led" in oracles and rf.get("led", "ok") != "ok":
                    bad.append("ledger:" + rf["led"])
                if "can" in oracles and rf.get("can", "ok") != "ok":
                    bad.append("canary:" + rf["can"])
                if "in" in oracles and rf.get("in", "1") != "1":
                    bad.append("reference-outside-container")
                # (`shapes` builds Strings / Rcs inside its scenarios and checks the allocator calls of the
                #  container operations that matter itself)
                if "al" in oracles and rf.get("al", "0") != "0" and oc == "ok" and c["traced"][j].split()[1:2] != ["shapes"]:
                    bad.append("allocations:" + rf["al"])
                if bad:
                    ofail = {"case": c["name"], "line": j, "op": c["traced"][j], "impl": a,
                             "what": ";".join(bad)}
        if nontrivial:
            key = "\n".join(l for l in c["traced"][1:])
            key = re.sub(r"#\d+", "#", key)
            if key not in seen:
                seen.add(key)
                res["nontrivial"] += 1
        if mism:
            mism["case_lines"] = c["lines"]
            res["mismatches"].append(mism)
        if ofail:
            ofail["case_lines"] = c["lines"]
            res["oracle_failures"].append(ofail)
    if idx != len(impl) or idx != len(model):
        if not res["mismatches"]:
            res["mismatches"].append({"case": "-", "line": 0, "op": "-", "impl": f"{len(impl)} lines",
                                      "model": f"{len(model)} lines", "impl_proj": "", "model_proj": "",
                                      "case_lines": ["# trace length differs from the operation file"]})
    return res
