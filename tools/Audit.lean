/-
Axiom audit: lists every theorem declared in the namespace of a property module
together with the axioms it depends on (the programmatic `#print axioms`).

usage (from /verif/lean): lake env lean --run ../tools/Audit.lean Micromap.Props.C01
output: one line `THEOREM <name> <axiom>*` per theorem.
-/
import Lean
open Lean

def main (args : List String) : IO UInt32 := do
  let some modStr := args[0]? | do
    IO.eprintln "usage: Audit <module>"
    return 2
  let modName := modStr.toName
  initSearchPath (← findSysroot)
  let env ← importModules #[{ module := modName }] {} 0
  let names := env.constants.fold (init := #[]) fun acc n ci =>
    if modName.isPrefixOf n && !n.isInternal then
      match ci with
      | .thmInfo _ => acc.push n
      | _ => acc
    else acc
  let names := names.qsort (fun a b => a.toString < b.toString)
  for n in names do
    let (axs, _) ← ((collectAxioms n : CoreM _).toIO
      { fileName := "<audit>", fileMap := default } { env := env })
    IO.println s!"THEOREM {n} {" ".intercalate (axs.toList.map toString)}"
  return 0
