#!/usr/bin/env python3
"""Fills the `model` field of tools/inventory.json: for every function of the crate, the
definition of the Lean model (lean/Micromap/Model) or the std definition that stands for it.
Run after `inventory.py --write` when the crate gains or loses functions ON PURPOSE; the result is
committed.  Rules are by (type, function); anything not matched is listed and must be added here."""
import json, os, re, sys
ROOT = os.path.dirname(os.path.dirname(os.path.abspath(__file__)))
BASE = os.path.join(ROOT, "tools", "inventory.json")
d = json.load(open(BASE))

def ty(impl):
    m = re.search(r"for\s+&?(?:'\w+\s+)?(?:mut\s+)?([A-Za-z]+)", impl)
    if m: return m.group(1)
    m = re.search(r"impl\s*(?:<.*?>\s+)?([A-Za-z]+)<", impl)
    return m.group(1) if m else ""

def trait(impl):
    m = re.search(r">\s*([A-Za-z:]+)(?:<.*>)?\s+for\b", impl)
    return m.group(1).split("::")[-1] if m else ""

BORROW = {"Iter", "IterMut", "Keys", "Values", "ValuesMut", "SetIter"}
CONSUME = {"IntoIter", "IntoKeys", "IntoValues", "SetIntoIter"}
ALG = {"Difference", "DifferenceRef", "Intersection", "Union", "SymmetricDifference"}
MAPFN = {"new": "Raw.new", "with_capacity": "Raw.new (Step.stepMapOp .with_capacity: capacity assertion)",
         "default": "Raw.new", "capacity": "capacity", "len": "len", "is_empty": "is_empty", "clear": "clear",
         "retain": "retain / retainLoop", "item_drop": "itemDrop", "item_mut": "itemRef (mutable use: valueReplace)",
         "item_read": "itemRead", "item_ref": "itemRef", "item_write": "itemWrite", "value_mut": "itemRef / valueReplace",
         "remove_index_drop": "remove_index_drop", "remove_index_read": "remove_index_read",
         "checked_insert": "checked_insert", "contains_key": "contains_key", "get": "get", "get_key_value": "get",
         "get_mut": "get_mut", "insert": "insert", "insert_i": "insert_i / insert_i_loop", "insert_ii": "insert_ii",
         "insert_ii_for_full": "insert_ii_for_full", "insert_key_value": "insert_key_value",
         "insert_unchecked": "insert_unchecked", "remove": "remove", "remove_entry": "remove_entry",
         "get_disjoint_mut": "get_disjoint_mut", "get_disjoint_unchecked_mut": "get_disjoint_unchecked_mut",
         "entry": "entry", "drain": "drainStart", "iter": "iterStartR", "iter_mut": "iterStartR", "keys": "iterStartR",
         "values": "iterStartR", "values_mut": "iterStartR", "into_keys": "intoIterOp .keys",
         "into_values": "intoIterOp .values", "into_iter": "intoIterOp .pairs"}
SETFN = {"new": "Raw.new (V = Unit)", "default": "Raw.new (V = Unit)", "capacity": "capacity", "len": "len",
         "is_empty": "is_empty", "clear": "clear", "drain": "drainStart", "retain": "retain", "contains": "contains_key",
         "get": "get", "insert": "insert (V = Unit)", "replace": "insert_key_value (V = Unit)", "remove": "remove",
         "take": "remove_entry", "is_disjoint": "is_disjoint", "is_subset": "is_subset", "is_superset": "is_superset",
         "iter": "iterStartR", "into_iter": "intoIterOp .keys", "difference": "algStart .difference",
         "difference_ref": "algStart .difference (Set<&T>: same code shape as `difference`; exercised by the harness op `alg difference` only through `difference`) — NOT separately modelled",
         "intersection": "algStart .intersection", "union": "algStart .union",
         "symmetric_difference": "algStart .symmetric_difference"}
ENTRY = {"or_insert": "or_insert", "or_insert_with": "or_insert_with", "or_insert_with_key": "or_insert_with (key passed to the closure)",
         "or_default": "or_insert_with (V::default)", "and_modify": "and_modify", "key": "entry_key",
         "get": "occ_get", "get_mut": "occ_get_mut", "insert": "occ_insert", "into_mut": "occ_get (consuming)",
         "remove": "occ_remove", "remove_entry": "occ_remove_entry", "into_key": "entry_key (consuming)"}

missing = []
for k, v in d["functions"].items():
    t, tr, fn, f = ty(v["impl"]), trait(v["impl"]), v["fn"], v["file"]
    m = ""
    if "fields" in v:
        name = k.split()[-1]
        m = {"Map": "Raw (cap, len, slots)", "Set": "Raw K Unit (a Map<T, (), N>)",
             "Entry": "Entry.occ / Entry.vac (Model/Entry.lean)", "OccupiedEntry": "Entry.occ (slot index)",
             "VacantEntry": "Entry.vac (the key)", "Drain": "SliceIt over the drained slots (drainStart)",
             "IntoIter": "the wrapped Raw (intoIterOp)", "IntoKeys": "the wrapped Raw (intoIterOp .keys)",
             "IntoValues": "the wrapped Raw (intoIterOp .values)", "SetIntoIter": "the wrapped Raw (intoIterOp .keys)",
             "SetDrain": "SliceIt over the drained slots (drainStart)"}.get(name, "SliceIt / AlgIt (Model/Iter.lean)")
    elif fn == "slice_iter": m = "SliceIt.restR / renderRest (Debug of the not-yet-yielded slots)"
    elif "serialization" in f:
        m = {"serialize": "serializeR", "deserialize": "deserializeInto", "visit_map": "visitLoop", "visit_seq": "visitLoop",
             "expecting": "the text after `expected` in serde's invalid-type error (driver op serde_wrong)"}[fn]
    elif tr == "Clone" and t in ("Map", "Set"): m = "cloneInto / cloneLoop"
    elif tr == "Drop" and t == "Map": m = "dropMap"
    elif tr == "Drop" and t == "Drain": m = "drainDrop"
    elif tr in ("Debug", "Display") and t in ("Map", "Set"): m = "fmtMap / fmtSet (Spec.StdFmt)"
    elif tr == "Debug": m = "renderRest / algScript debug (Spec.StdFmt over the entries not yet yielded)"
    elif tr == "PartialEq": m = "mapEq / eqLoop"
    elif tr in ("FromIterator", "From"): m = "from_iter / extendLoop"
    elif tr == "Extend": m = "extendLoop"
    elif tr in ("Index", "IndexMut"): m = "index" if fn == "index" else "index_mut"
    elif tr == "Sub": m = "subInto / subLoop"
    elif tr == "IntoIterator" and t in ("Map", "Set"):
        m = "iterStartR" if "&" in v["impl"] else ("intoIterOp .pairs" if t == "Map" else "intoIterOp .keys")
    elif tr == "Default" and (t in BORROW or t in CONSUME): m = "iterStartR / intoIterOp on an empty container"
    elif tr == "Clone" and (t in BORROW or t in ALG): m = "copy of the iterator state (IterCmd.clone: iterRunForks / algRunForks)"
    elif t == "Drain" or t == "SetDrain":
        m = {"next": "drainNext", "size_hint": "SliceIt.len", "len": "SliceIt.len"}.get(fn, "")
    elif t in BORROW:
        m = {"next": "iterNextR", "size_hint": "SliceIt.len", "len": "SliceIt.len", "count": "SliceIt.len (IterCmd.count)"}.get(fn, "")
    elif t in CONSUME:
        m = {"next": "intoIterNext / intoIterNextK", "size_hint": "len of the wrapped map", "len": "len of the wrapped map",
             "count": "len of the wrapped map"}.get(fn, "")
    elif t in ALG:
        m = {"next": "algNext (filtNext / algFstNext / algSndNext)", "size_hint": "algHint (diffHint / interHint / addHint)",
             "fold": "algFold (filtFoldR / algFstFold / algSndFold)", "count": "algFold (count through fold)"}.get(fn, "")
    elif t in ("Entry", "OccupiedEntry", "VacantEntry"):
        m = "vacant_insert" if (t == "VacantEntry" and fn == "insert") else ENTRY.get(fn, "")
    elif t == "Map": m = MAPFN.get(fn, "")
    elif t == "Set": m = SETFN.get(fn, "")
    if not m: missing.append(k)
    v["model"] = m
json.dump(d, open(BASE, "w"), indent=1, sort_keys=True)
print("unmapped:", len(missing))
for k in missing: print("  ", k)
