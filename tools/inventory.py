#!/usr/bin/env python3
"""Inventory of the functions of /repo's non-test code, and its comparison with the committed
baseline `tools/inventory.json`, which records for every function the model definition (or the
std definition) that stands for it.

The correspondence check exercises the functions the harness knows about.  A function that is
ADDED to the crate (an `nth`/`last`/`fold`/`clone_from` override, a new inherent method) is code
the model does not describe and the harness never calls: the tie between model and code no longer
covers the crate.  This scanner makes that visible: every `fn` item of src/**/*.rs outside
`#[cfg(test)]`, keyed by file, enclosing `impl` header and name.

usage: inventory.py [--write] [repo]
"""
import json
import os
import re
import sys

sys.path.insert(0, os.path.dirname(os.path.abspath(__file__)))
from srcscan import strip, drop_cfg_test      # noqa: E402

ROOT = os.path.dirname(os.path.dirname(os.path.abspath(__file__)))
BASE = os.path.join(ROOT, "tools", "inventory.json")


def norm(h):
    h = re.sub(r"\s+", " ", h).strip()
    h = re.sub(r"\s*where .*$", "", h)
    return h


def impl_id(header):
    """`impl <generics> Trait<..> for Type<..>` -> `Trait<..> for Type<..>`: the identity of an impl block
    does not depend on how its generic parameters are bounded."""
    h = header[len("impl"):].strip() if header.startswith("impl") else header
    if h.startswith("<"):
        depth = 0
        for i, ch in enumerate(h):
            if ch == "<":
                depth += 1
            elif ch == ">" and (i == 0 or h[i - 1] != "-"):
                depth -= 1
                if depth == 0:
                    h = h[i + 1:].strip()
                    break
    return h


def scan_file(path, rel):
    src = drop_cfg_test(strip(open(path, encoding="utf-8").read()))
    out = {}
    # walk the braces; remember the header of every open block
    stack = []          # (kind, header)
    i, n = 0, len(src)
    last = 0            # start of the current header text
    par = 0             # depth of ( and [ : a `;` inside `[T; N]` does not end an item
    while i < n:
        ch = src[i]
        if ch in "([":
            par += 1
        elif ch in ")]":
            par = max(0, par - 1)
        if ch == "{":
            header = norm(src[last:i])
            m_impl = re.search(r"\bimpl\b(.*)$", header)
            m_fn = re.search(r"\bfn\s+([A-Za-z_][A-Za-z0-9_]*)", header)
            m_mod = re.search(r"\bmod\s+([A-Za-z_][A-Za-z0-9_]*)\s*$", header)
            m_st = re.search(r"\b(struct|enum|union)\s+([A-Za-z_][A-Za-z0-9_]*)", header)
            if m_st and not m_fn and not m_impl and not stack:
                depth, j = 0, i
                while j < n:
                    if src[j] == "{":
                        depth += 1
                    elif src[j] == "}":
                        depth -= 1
                        if depth == 0:
                            break
                    j += 1
                m_pv = re.search(r"\bpub\b(\s*\([^)]*\))?\s+(?:struct|enum|union)\b", header)
                out["%s :: %s %s" % (rel, m_st.group(1), m_st.group(2))] = {
                    "file": rel, "impl": "", "fn": "", "unsafe": False,
                    "vis": "" if not m_pv else ("pub" if not m_pv.group(1) else "restricted"),
                    "fields": re.sub(r"\s+", " ", re.sub(r"#\[[^\]]*\]", "", src[i + 1:j])).strip()}
            if m_fn and not any(k == "fn" for k, _ in stack):
                impl = next((h for k, h in reversed(stack) if k == "impl"), "")
                # find the end of the body to look for unsafe code in it
                depth, j = 0, i
                while j < n:
                    if src[j] == "{":
                        depth += 1
                    elif src[j] == "}":
                        depth -= 1
                        if depth == 0:
                            break
                    j += 1
                body = src[i:j + 1]
                key = "%s :: %s :: %s" % (rel, impl_id(impl), m_fn.group(1))
                k2, c = key, 1
                while k2 in out:
                    c += 1
                    k2 = "%s #%d" % (key, c)
                fn_at = last + src[last:i].find(m_fn.group(0).split()[0] if False else "fn " + m_fn.group(1))
                m_vis = re.search(r"\bpub\b(\s*\([^)]*\))?(?=[^;{}]*\bfn\s+" + re.escape(m_fn.group(1)) + r"\b)", header)
                vis = "" if not m_vis else ("pub" if not m_vis.group(1) else "restricted")
                import hashlib
                out[k2] = {"file": rel, "impl": impl, "fn": m_fn.group(1), "vis": vis,
                           "line": src.count("\n", 0, fn_at) + 1,
                           "unsafe": bool(re.search(r"\bunsafe\b", header + body)),
                           # the text (comments and layout removed) the model was validated against
                           "text": hashlib.sha1(re.sub(r"\s+", " ", header + body).encode()).hexdigest()[:12]}
                stack.append(("fn", header))
            elif m_impl and not m_fn:
                stack.append(("impl", "impl " + m_impl.group(1).strip()))
            elif m_mod:
                stack.append(("mod", m_mod.group(1)))
            else:
                stack.append(("block", ""))
            last = i + 1
        elif ch == "}":
            if stack:
                stack.pop()
            last = i + 1
        elif ch == ";" and par == 0:
            last = i + 1
        i += 1
    return out


def scan(repo):
    out = {}
    srcdir = os.path.join(repo, "src")
    for d, _, fs in sorted(os.walk(srcdir)):
        for f in sorted(fs):
            if f.endswith(".rs"):
                p = os.path.join(d, f)
                out.update(scan_file(p, os.path.relpath(p, repo)))
    return out


def impl_type(impl):
    """name of the type an impl block is for."""
    h = impl_id(impl)
    m = re.search(r"\bfor\s+&?\s*(?:'\w+\s+)?(?:mut\s+)?([A-Za-z_][A-Za-z0-9_]*)", h)
    if m:
        return m.group(1)
    m = re.match(r"([A-Za-z_][A-Za-z0-9_]*)", h)
    return m.group(1) if m else ""


def is_surface(v, public_types):
    """does this item add to what a user of the crate can call?  A `pub fn`, or a method of a trait
    implemented for a public type (an override of a provided method, a new trait impl).  Private and
    crate-visible helpers are reachable only through the existing entry points, which the
    correspondence exercises; private types (serde visitors) are not reachable at all."""
    if not v.get("fn"):
        return False
    if " for " in impl_id(v["impl"]) and v["impl"]:
        return impl_type(v["impl"]) in public_types
    return v.get("vis") == "pub"


def compare(repo="/repo"):
    """-> (added, removed, notes): PUBLIC-SURFACE functions of the tree that the baseline does not list;
    baseline functions that are gone; other differences (new private helpers, changed fields) as notes."""
    cur = scan(repo)
    base = json.load(open(BASE))["functions"]
    for v in cur.values():
        v.pop("line", None)
    public_types = {k.split()[-1] for k, v in cur.items() if "fields" in v and v.get("vis") == "pub"}
    public_types |= {"Map", "Set"}
    added, notes = {}, []
    for k, v in cur.items():
        if k not in base:
            if is_surface(v, public_types):
                added[k] = v
            else:
                notes.append("new item outside the public surface: " + k)
        elif "fields" in v and v["fields"] != base[k].get("fields"):
            notes.append("fields changed: " + k)
    removed = [k for k in base if k not in cur]
    return added, removed, notes


def changed(repo="/repo"):
    """functions whose text (comments and layout aside) differs from the text recorded in the baseline —
    the text the model was last validated against — plus functions the baseline does not have."""
    cur = scan(repo)
    base = json.load(open(BASE))["functions"]
    out = []
    for k, v in sorted(cur.items()):
        if not v.get("fn"):
            continue
        if k not in base or base[k].get("text") != v.get("text"):
            out.append(k)
    return out


def main():
    args = [a for a in sys.argv[1:] if not a.startswith("--")]
    repo = args[0] if args else "/repo"
    cur = scan(repo)
    if "--write" in sys.argv:
        old = json.load(open(BASE))["functions"] if os.path.exists(BASE) else {}
        for k, v in cur.items():
            v["model"] = old.get(k, {}).get("model", "")
            v.pop("line", None)          # line numbers are not part of the baseline
            v.pop("vis", None) if False else None
        json.dump({"functions": cur}, open(BASE, "w"), indent=1, sort_keys=True)
        print("wrote %d functions to %s" % (len(cur), BASE))
        return
    added, removed, notes = compare(repo)
    print(json.dumps({"functions": len(cur), "added": sorted(added), "removed": removed, "notes": notes}))


if __name__ == "__main__":
    main()
