#!/usr/bin/env python3
"""Apply a seeded change to /repo, run quick checks, undo it.

usage: seedtest.py <patch.diff> [Cxx ...]      (default: all twenty properties)
Prints one line per property: rc and the VIOLATION lines.  /repo is always restored.
"""
import subprocess
import sys

ROOT = "/verif"


def main():
    patch = sys.argv[1]
    props = sys.argv[2:] or [f"C{i:02d}" for i in range(1, 21)]
    st = subprocess.run(["git", "-C", "/repo", "status", "--porcelain"], capture_output=True, text=True).stdout
    if st.strip():
        print("refusing: /repo is not clean:\n" + st)
        return 2
    r = subprocess.run(["git", "-C", "/repo", "apply", patch], capture_output=True, text=True)
    if r.returncode != 0:
        print("patch does not apply:", r.stderr)
        return 2
    res = {}
    try:
        for p in props:
            r = subprocess.run([ROOT + "/check", p, "quick"], capture_output=True, text=True, cwd=ROOT)
            lines = [l for l in r.stdout.splitlines() if l.startswith(("VIOLATION", "KNOWN"))]
            err = r.stderr.strip().splitlines()[-3:] if r.returncode == 2 else []
            res[p] = (r.returncode, lines)
            print(p, "rc=%d" % r.returncode, "; ".join(lines + err)[:600], flush=True)
    finally:
        subprocess.run(["git", "-C", "/repo", "checkout", "--", "."])
        subprocess.run(["git", "-C", "/repo", "clean", "-fdq", "--", "src", "tests"])
    caught = [p for p, (rc, _) in res.items() if rc == 1]
    print("CAUGHT-BY:", " ".join(caught) if caught else "(none)")
    return 0


if __name__ == "__main__":
    sys.exit(main())
