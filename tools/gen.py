#!/usr/bin/env python3
"""Operation-file generator for the micromap correspondence check.

usage: gen.py <property> <tier> <seed> <out.ops> [--inject-from <trace>]

All randomness derives from one PRNG seeded by <seed>; every file is
self-contained and replays exactly.  A file is a sequence of cases; each case
starts with a `case` line (fresh registers, fresh world) and ends with `end`.
A line `# test` marks the operation under test of a product case (used by the
fault enumeration of C04 and by the coverage statistics).
"""
import itertools
import random
import sys

MENU = [0, 1, 2, 3, 4, 6]


class Out:
    def __init__(self):
        self.lines = []
        self.ncases = 0
        self.hist = {}

    # with `--random-only` (extra seeds of an escalated run) only the cases that depend on the seed are
    # kept: random sequences (tag r) and sweeps (tag w); the enumerated products are the same for every seed
    random_only = False
    skip = False
    nid = 0

    def case(self, m0=0, m1=0, s0=0, s1=0, eq="lawful", tag="c"):
        self.skip = self.random_only and tag not in ("r", "w")
        if self.skip:
            return
        self.ncases += 1
        self.nid = 0
        self.lines.append(f"case {tag}{self.ncases} m0={m0} m1={m1} s0={s0} s1={s1} eq={eq}")

    def id(self):
        self.nid += 1
        return self.nid

    def k(self, cls):
        return f"{cls}#{self.id()}"

    def v(self, val=None):
        i = self.id()
        return f"{i}#{val if val is not None else i % 7}"

    def op(self, line, test=False):
        if self.skip:
            return
        name = line.split()[1] if len(line.split()) > 1 else line
        self.hist[name] = self.hist.get(name, 0) + 1
        if test:
            self.lines.append("# test")
        self.lines.append(line)

    def end(self):
        if self.skip:
            return
        self.lines.append("end")


def layouts(n, classes):
    """every duplicate-free ordered list of length <= n over `classes`."""
    for k in range(0, n + 1):
        for perm in itertools.permutations(classes, k):
            yield list(perm)


def build_map(o, reg, layout, via_removal=False, extra_cls=9):
    """insert the layout's classes in order; optionally leave a moved-out slot behind."""
    for c in layout:
        o.op(f"{reg} insert {o.k(c)} {o.v()}")
    if via_removal and len(layout) >= 1:
        # remove the last and re-insert it: the slot beyond it has been written and moved out
        c = layout[-1]
        o.op(f"{reg} remove q:{c}#0")
        o.op(f"{reg} insert {o.k(c)} {o.v()}")


def build_set(o, reg, layout):
    for c in layout:
        o.op(f"{reg} insert {o.k(c)}")


def probes(u):
    return [f"q:{c}#0" for c in u] + [f"k:{c}#0" for c in u]


def sweep(o, reg, u, kind="q"):
    for c in u:
        o.op(f"{reg} get {kind}:{c}#0")


def map_ops_basic(reg, u, full_args=True):
    """operation templates of the dictionary API, every argument over the universe."""
    ops = []
    for c in u:
        ops += [f"{reg} insert {{k{c}}} {{v}}", f"{reg} insert_key_value {{k{c}}} {{v}}",
                f"{reg} checked_insert {{k{c}}} {{v}}"]
        for p in (f"q:{c}#0", f"k:{c}#0"):
            ops += [f"{reg} get {p}", f"{reg} get_key_value {p}", f"{reg} get_mut {p} 3",
                    f"{reg} contains_key {p}", f"{reg} index {p}", f"{reg} index_mut {p} 2",
                    f"{reg} remove {p}", f"{reg} remove_entry {p}"]
    for mask in ([0, 1, 2, 5, 10, 15, 7, 8] if full_args else [5, 10]):
        ops.append(f"{reg} retain {mask} 1")
    # stateful predicates (the answer depends on the call number): 0x15555, 0x1AAAA, 0x13333, "reject one call"
    for mask in (87381, 109226, 78643, 131071 - 8):
        ops.append(f"{reg} retain {mask} 1")
    ops += [f"{reg} clear", f"{reg} len", f"{reg} is_empty", f"{reg} capacity", f"{reg} defaults"]
    for t in range(0, 5):
        ops.append(f"{reg} drain {t} drop")
    return ops


def inst(o, tmpl):
    """fill {kC} / {v} placeholders with fresh objects."""
    out = tmpl
    while "{k" in out:
        i = out.index("{k")
        j = out.index("}", i)
        cls = int(out[i + 2:j])
        out = out[:i] + o.k(cls) + out[j + 1:]
    while "{v}" in out:
        out = out.replace("{v}", o.v(), 1)
    return out


def umap_templates(u, what):
    """operation templates on a `Map<Key, (), N>` register (`u0`): the zero-sized-value shape."""
    t = []
    for c in u:
        if "insert" in what:
            t += [f"u0 insert {{k{c}}} 0#0", f"u0 insert_key_value {{k{c}}} 0#0", f"u0 checked_insert {{k{c}}} 0#0"]
        if "lookup" in what:
            for p in (f"q:{c}#0", f"k:{c}#0"):
                t += [f"u0 get {p}", f"u0 get_key_value {p}", f"u0 get_mut {p} 1", f"u0 contains_key {p}",
                      f"u0 index {p}", f"u0 index_mut {p} 1"]
        if "remove" in what:
            t += [f"u0 remove q:{c}#0", f"u0 remove_entry k:{c}#0"]
        if "entry_ins" in what:
            t += [f"u0 entry {{k{c}}} [1] oi:0#0", f"u0 entry {{k{c}}} [] oiw:0#0", f"u0 entry {{k{c}}} [1,1] oiwk:0#0",
                  f"u0 entry {{k{c}}} [] v.insert:0#0"]
        if "entry" in what:
            t += [f"u0 entry {{k{c}}} [1] oi:0#0", f"u0 entry {{k{c}}} [] oiw:0#0", f"u0 entry {{k{c}}} [1,1] oiwk:0#0",
                  f"u0 entry {{k{c}}} [] o.get", f"u0 entry {{k{c}}} [] o.get_mut:1", f"u0 entry {{k{c}}} [] o.into_mut",
                  f"u0 entry {{k{c}}} [] o.insert:0#0", f"u0 entry {{k{c}}} [] o.remove", f"u0 entry {{k{c}}} [] o.remove_entry",
                  f"u0 entry {{k{c}}} [] o.key", f"u0 entry {{k{c}}} [] v.insert:0#0", f"u0 entry {{k{c}}} [] v.key",
                  f"u0 entry {{k{c}}} [] v.into_key", f"u0 entry {{k{c}}} [] key", f"u0 entry {{k{c}}} [] drop"]
    if "bulk" in what:
        t += [f"u0 retain {m} 0" for m in (0, 5, 10, 15)] + ["u0 clear", "u0 len", "u0 is_empty", "u0 capacity"]
    if "iter" in what:
        t += [f"u0 iter {k} 0 {sc}" for k in ("iter", "keys", "values", "iter_mut", "values_mut")
              for sc in ("lhnlhnlhnlhncl", "nxnn", "nnnnnc", "dDndD")]
    if "consume" in what:
        for take in (0, 1, 2, 3):
            for e in ("drop", "forget"):
                t += [f"u0 drain {take} {e}"] + [f"u0 into_iter {k} {take} {e}" for k in ("pairs", "keys", "values")]
        t += ["u0 drop"]
    if "fmt" in what:
        t += ["u0 fmt debug", "u0 fmt debug#"]          # not `{:30?}`: `()` itself honours the width
    return t


def umap_product(o, n, what, full_only=False):
    """every layout of a `Map<Key, (), N>` x every template, followed by observations through
    both views of the register (the map API and the `Set` API)."""
    for nn in range(0, n + 1):
        u = list(range(nn + 1))
        for lay in layouts(nn, u):
            if full_only and len(lay) < nn - 1:
                continue
            for tmpl in umap_templates(u, what):
                o.case(s0=nn, s1=nn, tag="z")
                for c in lay:
                    o.op(f"u0 insert {o.k(c)} 0#0")
                o.op(inst(o, tmpl), test=True)
                o.op("u0 len")
                o.op("u0 iter values 0 lnnnnl")
                o.op("s0 iter lnnnnl")
                for c in u:
                    o.op(f"u0 get_key_value q:{c}#0")
                o.end()


def product_map(o, n, templates_fn, u=None, suffix=None, eq="lawful", removal_variants=True,
                m1=None, layouts_filter=None):
    u = u if u is not None else list(range(n + 1))
    for lay in layouts(n, u):
        if layouts_filter and not layouts_filter(lay, n):
            continue
        for variant in ([False, True] if (removal_variants and lay) else [False]):
            for tmpl in templates_fn("m0", u, lay):
                o.case(m0=n, m1=(m1 if m1 is not None else n), s0=0, s1=0, eq=eq)
                build_map(o, "m0", lay, via_removal=variant)
                o.op(inst(o, tmpl), test=True)
                if suffix:
                    suffix(o, u, lay)
                o.end()


WIDE = ((4, 4), (6, 4), (6, 5), (6, 6), (300, 9))


def wide_map_product(o, templates_fn, suffix=None, inst_fn=None, sizes=WIDE):
    """layouts of 4..9 entries (capacities 4, 6 and 300), with and without a preceding
    swap-remove: every slot position of scans that work in blocks of 2, 4 or 8 is reached by
    every per-key operation.  One insertion order per size (the permutations are covered at
    sizes <= 3)."""
    inst_fn = inst_fn or inst
    for cap, L in sizes:
        lay = list(range(L))
        u = lay + [L]
        for rem in (False, True):
            for tmpl in templates_fn("m0", u, lay):
                o.case(m0=cap, m1=cap, tag="w")
                build_map(o, "m0", lay)
                if rem:
                    o.op("m0 remove q:0#0")
                o.op(inst_fn(o, tmpl), test=True)
                if suffix:
                    suffix(o, u, lay)
                o.end()


def wide_set_product(o, templates_fn, suffix=None, sizes=WIDE):
    for cap, L in sizes:
        lay = list(range(L))
        u = lay + [L]
        for rem in (False, True):
            for tmpl in templates_fn("s0", u):
                o.case(s0=cap, s1=cap, tag="w")
                build_set(o, "s0", lay)
                if rem:
                    o.op("s0 remove q:0#0")
                o.op(inst(o, tmpl), test=True)
                if suffix:
                    suffix(o, u, lay)
                o.end()


# ---------------------------------------------------------------------------- bit-width boundaries

BOUND = ((64, 63), (64, 64), (300, 65), (300, 257))


def boundary_cases(o, fams):
    """containers whose length or capacity sits on a bit-width boundary — 63, 64, 65 and 257 entries, a
    capacity of exactly 64, completely full — for the operation families `fams`
    (d dictionary, e entry API, g get_disjoint_mut, q clone / ==, s Set operations, i borrowing iterators,
    c consuming iterators and drain, b bulk construction).  Bookkeeping in one machine word (a 64-bit mask
    of slots, `1 << len`), 8-bit slot indices and block-wise scans go wrong exactly here; the layouts of
    the products stop at 9 entries and the big-map cases sit at 300 of 300."""
    for cap, L in BOUND:
        P = sorted({0, 1, 7, 8, 31, 32, 62, 63, 64, 255, 256, L - 2, L - 1} & set(range(L)))
        heavy = L > 100       # the model's slots are closures: a 257-entry container costs seconds, so only a few cases
        few = [256] if heavy else sorted({0, 63, 64, L - 1} & set(range(L)))
        absent = L
        for rem in ((False,) if heavy else (False, True)):
            def start(regs="m", m1cap=None):
                o.case(m0=cap if "m" in regs else 0, m1=(m1cap if m1cap is not None else cap) if "m" in regs else 0,
                       s0=cap if "s" in regs else 0, s1=cap if "s" in regs else 0, tag="b")
                for c in range(L):
                    if "m" in regs:
                        o.op(f"m0 insert {o.k(c)} {o.id()}#{c % 7}")
                    if "s" in regs:
                        o.op(f"s0 insert {o.k(c)}")
                if rem:
                    # swap-remove in slot 1 (the last entry moves there), then the removed key comes back last
                    if "m" in regs:
                        o.op("m0 remove q:1#0")
                        o.op(f"m0 insert {o.k(1)} {o.id()}#1")
                    if "s" in regs:
                        o.op("s0 remove q:1#0")
                        o.op(f"s0 insert {o.k(1)}")

            def look(reg="m0"):
                o.op(f"{reg} len")
                for c in few + [absent]:
                    o.op(f"{reg} get_key_value q:{c}#0" if reg == "m0" else f"{reg} get q:{c}#0")

            if "d" in fams:
                start()
                for c in P + [absent]:
                    for p in (f"q:{c}#0", f"k:{c}#0"):
                        for kind in ("get", "get_key_value", "contains_key", "index"):
                            o.op(f"m0 {kind} {p}", test=True)
                        o.op(f"m0 get_mut {p} 3", test=True)
                        o.op(f"m0 index_mut {p} 2", test=True)
                o.op("m0 len")
                o.end()
                for c in few + ([] if heavy else [absent]):
                    for tmpl in ((f"m0 insert_key_value {{k{c}}} {{v}}", f"m0 remove q:{c}#0") if heavy else
                                 (f"m0 insert {{k{c}}} {{v}}", f"m0 insert_key_value {{k{c}}} {{v}}",
                                  f"m0 checked_insert {{k{c}}} {{v}}", f"m0 remove q:{c}#0", f"m0 remove_entry k:{c}#0")):
                        start()
                        o.op(inst(o, tmpl), test=True)
                        look()
                        o.end()
                for tmpl in (() if heavy else ("m0 retain 87381 1", "m0 retain 5 0", "m0 clear")):
                    start()
                    o.op(tmpl, test=True)
                    look()
                    o.end()
            if "e" in fams:
                for c in few + ([] if heavy else [absent]):
                    for mods, fin in ((("[2]", "o.get_mut:2"), ("[]", "o.remove_entry"), ("[1]", "oi:{v}")) if heavy else
                                     (("[1]", "oi:{v}"), ("[]", "o.get"), ("[2]", "o.get_mut:2"), ("[]", "o.insert:{v}"),
                                      ("[]", "o.remove"), ("[]", "o.remove_entry"), ("[]", "o.key"), ("[]", "key"),
                                      ("[]", "v.insert:{v}"), ("[1,2]", "od:{v0}"))):
                        start()
                        o.op(inst_fin(o, f"m0 entry {{k{c}}} {mods} {fin}"), test=True)
                        look()
                        o.end()
            if "g" in fams:
                tups = [[63, 62], [L - 1, 0], [0, L - 1, 63], [absent, 63, 7], [63, 63], [7, absent, 7]]
                if L > 64:
                    tups += [[64, 63], [63, 64, 0], [64, 64]]
                if L > 256:
                    tups = [[256, 255], [255, 256, 0], [256, 0, 256]]
                for name in (["gdm", "gdum"] if "u" in fams else ["gdm"]):
                    for tup in tups:
                        if name == "gdum" and (len(set(tup)) != len(tup)):
                            continue
                        start()
                        ks = ",".join(f"q:{c}#0" for c in tup)
                        o.op(f"m0 {name} 1 [{ks}]", test=True)
                        for c in tup:
                            o.op(f"m0 get_mut q:{c}#0 0")
                        o.end()
            if "q" in fams and not heavy:
                for m1cap in ((cap,) if heavy else (cap, 300 if cap == 64 else 64)):
                    if m1cap < L:
                        continue
                    start("ms", m1cap)
                    o.op("m0 clone m1", test=True) if m1cap == cap else [
                        o.op(f"m1 insert {o.k(c)} {o.id()}#{c % 7}") for c in reversed(range(L))]
                    o.op("m0 eq m1", test=True)
                    o.op("m1 eq m0", test=True)
                    o.op("m0 eq m0", test=True)
                    o.op(f"m1 get_mut q:{L - 1}#0 5")
                    o.op("m0 eq m1", test=True)
                    o.op("m1 eq m0", test=True)
                    o.op(f"m1 remove q:{L - 1}#0")
                    o.op("m0 eq m1", test=True)
                    o.op("m1 eq m0", test=True)
                    if m1cap == cap:
                        o.op("s0 clone s1", test=True)
                        o.op("s0 eq s1", test=True)
                        o.op("s1 eq s0", test=True)
                        o.op(f"s1 remove q:{L - 1}#0")
                        o.op("s0 eq s1", test=True)
                        o.op("s1 eq s0", test=True)
                        o.op("m0 clone_from m1", test=True)
                        o.op("m0 eq m1", test=True)
                        o.op("m1 len")
                    o.end()
            if "s" in fams:
                start("s")
                for c in P + [absent]:
                    for p in (f"q:{c}#0", f"k:{c}#0"):
                        o.op(f"s0 contains {p}", test=True)
                        o.op(f"s0 get {p}", test=True)
                o.end()
                for c in few + ([] if heavy else [absent]):
                    for tmpl in ((f"s0 replace {{k{c}}}", f"s0 take k:{c}#0") if heavy else
                                 (f"s0 insert {{k{c}}}", f"s0 replace {{k{c}}}", f"s0 remove q:{c}#0", f"s0 take k:{c}#0")):
                        start("s")
                        o.op(inst(o, tmpl), test=True)
                        look("s0")
                        o.end()
            if "a" in fams and not heavy:
                for kind in ("union", "intersection", "difference", "symmetric_difference"):
                    start("s")
                    for c in list(range(L - 3, L + 2)):
                        o.op(f"s1 insert {o.k(c)}")
                    o.op(f"s0 alg {kind} s1 hxf", test=True)
                    o.op(f"s1 alg {kind} s0 nnhf", test=True)
                    for pred in ("is_subset", "is_superset", "is_disjoint"):
                        o.op(f"s0 {pred} s1", test=True)
                        o.op(f"s1 {pred} s0", test=True)
                    o.end()
            if "i" in fams and not heavy:
                start("ms")
                for kind in ("iter", "keys", "values", "iter_mut", "values_mut"):
                    o.op(f"m0 iter {kind} 1 lhnlhx", test=True)
                    o.op(f"m0 iter {kind} 0 nnz", test=True)
                    o.op(f"m0 iter {kind} 0 t9t9t9t9t9t9t9nlh", test=True)
                o.op("s0 iter lhnlhx", test=True)
                o.op("s0 iter nnz", test=True)
                o.end()
            if "c" in fams and not heavy:
                for line in (f"m0 drain {L + 1} drop", "m0 drain 2 drop", "m0 drain 1 forget", f"m0 into_iter pairs {L + 1} drop",
                             "m0 into_iter keys 2 drop", "m0 into_iter values t9 count", "m0 into_iter pairs z drop",
                             "m0 drain tM drop"):
                    start()
                    o.op(line, test=True)
                    o.op("m0 len")
                    o.op(f"m0 insert {o.k(3)} {o.v()}")
                    look()
                    o.end()
            if "b" in fams and not rem and not heavy:
                for pulls in ((0, 1, 3) if L == cap else (1, 3)):
                    o.case(m0=cap, m1=cap, s0=cap, s1=cap, tag="b")
                    xs = ",".join(f"{o.k(c)}={o.id()}#{c % 7}" for c in range(L))
                    o.op(f"m0 from_iter {pulls} [{xs}]", test=True)
                    look()
                    if pulls != 0:
                        ys = ",".join(f"{o.k(c)}={o.id()}#{c % 5}" for c in list(range(L)) + [63, 0, L - 1])
                        o.op(f"m0 from_iter {pulls} [{ys}]", test=True)
                        look()
                        zs = ",".join(f"{o.k(c)}" for c in list(range(L)) + [63, 0, L - 1])
                        o.op(f"s0 extend {pulls} [{zs}]", test=True)
                        look("s0")
                    o.end()


# ---------------------------------------------------------------------------- random sequences

def random_map_seq(o, rng, n, length, u, with_iters=True, with_forget=True, unsafe_ok=False,
                   regs=("m0", "m1")):
    state_len = {r: 0 for r in regs}
    for _ in range(length):
        reg = rng.choice(regs)
        c = rng.choice(u)
        r = rng.random()
        if rng.random() < 0.02:
            o.op(f"{reg} defaults")
            continue
        if r < 0.30:
            kind = rng.choice(["insert", "insert", "insert_key_value", "checked_insert"])
            o.op(f"{reg} {kind} {o.k(c)} {o.v()}")
        elif r < 0.45:
            p = rng.choice(["q", "k"])
            kind = rng.choice(["get", "get_key_value", "contains_key", "index", "get_mut", "index_mut"])
            if kind in ("get_mut", "index_mut"):
                o.op(f"{reg} {kind} {p}:{c}#0 {rng.randint(-3, 3)}")
            else:
                o.op(f"{reg} {kind} {p}:{c}#0")
        elif r < 0.58:
            p = rng.choice(["q", "k"])
            o.op(f"{reg} {rng.choice(['remove', 'remove_entry'])} {p}:{c}#0")
        elif r < 0.63:
            o.op(f"{reg} retain {rng.choice([rng.randint(0, 31), 65536 + rng.randint(0, 65535)])} {rng.randint(0, 2)}")
        elif r < 0.66:
            o.op(f"{reg} {rng.choice(['clear', 'len', 'is_empty', 'capacity'])}")
        elif r < 0.71:
            e = rng.choice(["drop", "forget"]) if with_forget else "drop"
            o.op(f"{reg} drain {rng.randint(0, n + 1)} {e}")
        elif r < 0.75 and with_iters:
            e = rng.choice(["drop", "forget"]) if with_forget else "drop"
            o.op(f"{reg} into_iter {rng.choice(['pairs', 'keys', 'values'])} {rng.randint(0, n + 1)} {e}")
        elif r < 0.80 and with_iters:
            kind = rng.choice(["iter", "keys", "values", "iter_mut", "values_mut"])
            script = "".join(rng.choice("nnnlhdDcx") for _ in range(rng.randint(1, 6)))
            o.op(f"{reg} iter {kind} {rng.randint(0, 2)} {script}")
        elif r < 0.84:
            other = rng.choice(regs)
            o.op(f"{reg} {rng.choice(['clone', 'clone_from', 'eq'])} {other}")
        elif r < 0.88:
            k = rng.randint(0, n + 2)
            xs = ",".join(f"{o.k(rng.choice(u))}={o.v()}" for _ in range(k))
            o.op(f"{reg} from_iter {rng.choice([0, 1, 3])} [{xs}]")
        elif r < 0.95:
            mods = ",".join(str(rng.randint(1, 3)) for _ in range(rng.randint(0, 2)))
            fin = rng.choice(ENTRY_ENDS)
            o.op(f"{reg} entry {o.k(c)} [{mods}] {inst_fin(o, fin)}")
        else:
            j = rng.randint(0, 4)
            kind = rng.choice(["q", "k"])
            ks = ",".join(f"{kind}:{rng.choice(u)}#{o.id()}" for _ in range(j))
            o.op(f"{reg} gdm {rng.randint(1, 3)} [{ks}]")


ENTRY_ENDS = ["oi:{v}", "oiw:{v}", "oiwk:{v}", "od:{v0}", "key", "drop", "o.key", "o.get", "o.get_mut:2",
              "o.insert:{v}", "o.remove", "o.remove_entry", "o.into_mut", "v.key", "v.into_key",
              "v.insert:{v}"]


def inst_fin(o, fin):
    if "{v0}" in fin:
        fin = fin.replace("{v0}", f"{o.id()}#0")
    return inst(o, fin)


def random_set_seq(o, rng, n, length, u):
    for _ in range(length):
        reg = rng.choice(["s0", "s1"])
        other = "s1" if reg == "s0" else "s0"
        c = rng.choice(u)
        r = rng.random()
        p = rng.choice(["q", "k"])
        if rng.random() < 0.03:
            a = ",".join(str(rng.randint(0, 5)) for _ in range(rng.randint(0, 3)))
            b = ",".join(str(rng.randint(0, 7)) for _ in range(rng.randint(0, 5)))
            o.op(rng.choice([f"{reg} extend_ref [{a}] [{b}]", f"{reg} defaults", f"{reg} extend_from {other}"]))
            continue
        if r < 0.30:
            o.op(f"{reg} {rng.choice(['insert', 'insert', 'replace'])} {o.k(c)}")
        elif r < 0.45:
            o.op(f"{reg} {rng.choice(['contains', 'get'])} {p}:{c}#0")
        elif r < 0.57:
            o.op(f"{reg} {rng.choice(['remove', 'take'])} {p}:{c}#0")
        elif r < 0.62:
            o.op(f"{reg} retain {rng.choice([rng.randint(0, 31), 65536 + rng.randint(0, 65535)])}")
        elif r < 0.65:
            o.op(f"{reg} {rng.choice(['clear', 'len', 'is_empty', 'capacity'])}")
        elif r < 0.70:
            o.op(f"{reg} drain {rng.randint(0, n + 1)} {rng.choice(['drop', 'forget'])}")
        elif r < 0.73:
            o.op(f"{reg} into_iter {rng.randint(0, n + 1)} {rng.choice(['drop', 'forget'])}")
        elif r < 0.77:
            script = "".join(rng.choice("nnnlhcx") for _ in range(rng.randint(1, 6)))
            o.op(f"{reg} iter {script}")
        elif r < 0.80:
            o.op(f"{reg} {rng.choice(['clone', 'clone_from', 'eq'])} {other}")
        elif r < 0.85:
            k = rng.randint(0, n + 1)
            xs = ",".join(o.k(rng.choice(u)) for _ in range(k))
            o.op(f"{reg} {rng.choice(['from_iter', 'extend'])} {rng.choice([0, 1, 3])} [{xs}]")
        elif r < 0.93:
            kind = rng.choice(["union", "intersection", "difference", "symmetric_difference"])
            script = "".join(rng.choice("nnnhdDcfx") for _ in range(rng.randint(1, 6)))
            o.op(f"{reg} alg {kind} {other} {script}")
        elif r < 0.97:
            o.op(f"{reg} {rng.choice(['is_subset', 'is_superset', 'is_disjoint'])} {other}")
        else:
            o.op(f"{reg} sub {other} {rng.choice(['s0', 's1'])}")


# ---------------------------------------------------------------------------- per-property generators

def tier_n(tier):
    return 3 if tier == "quick" else 4


def exhaustive_sequences(o, length, kind="map"):
    """thorough tier: EVERY sequence of `length` operations over a small alphabet on a capacity-2
    container with a 3-class universe (so full, empty, duplicate and swap-remove situations all
    occur), each followed by observations."""
    if kind == "map":
        alpha = ([f"m0 insert {{k{c}}} {{v}}" for c in range(3)] +
                 [f"m0 remove q:{c}#0" for c in range(3)] +
                 [f"m0 insert_key_value {{k0}} {{v}}", f"m0 checked_insert {{k2}} {{v}}", "m0 remove_entry k:1#0",
                  "m0 retain 5 1", "m0 clear", "m0 drain 1 drop", "m0 get_mut q:0#0 2", "m0 entry {k1} [1] oi:{v}"])
        tail = ["m0 len", "m0 iter iter 0 nnn", "m0 get q:0#0", "m0 get q:1#0", "m0 get q:2#0"]
        caps = dict(m0=2, m1=2)
    else:
        alpha = ([f"s0 insert {{k{c}}}" for c in range(3)] + [f"s0 remove q:{c}#0" for c in range(3)] +
                 ["s0 replace {k0}", "s0 take k:1#0", "s0 retain 5", "s0 clear", "s0 drain 1 drop",
                  "s0 extend 1 [{k1},{k2}]"])
        tail = ["s0 len", "s0 iter nnn", "s0 contains q:0#0", "s0 contains q:1#0", "s0 contains q:2#0"]
        caps = dict(s0=2, s1=2)
    for seq in itertools.product(alpha, repeat=length):
        o.case(tag="x", **caps)
        for t in seq:
            o.op(inst(o, t))
        for t in tail:
            o.op(t)
        o.end()


def shapes_cases(o):
    """other element shapes (padding, unsized borrowed forms), one self-checking scenario per capacity."""
    for cap in (0, 1, 2, 3, 4, 6, 64):
        o.case(m0=cap, m1=cap, tag="s")
        o.op("m0 shapes", test=True)
        o.end()


def sweep_cases(o, fam, tier, seed0=1):
    """generic differential sweeps of the harness (harness/src/sweep.rs) over element shapes the
    instrumented registers do not have — zero-sized pairs, keys without drop glue whose equal values
    are distinguishable, over-aligned elements, padding, slices sharing their start address,
    reference-counted elements — for the operation families `fam` of the property."""
    nseeds = 4 if tier == "quick" else 40
    for cap in (0, 1, 2, 3, 4, 6, 300):
        for sd in range(seed0, seed0 + (nseeds if cap < 300 else max(1, nseeds // 4))):
            o.case(m0=cap, m1=cap, tag="w")
            o.op(f"m0 sweep {fam} {sd}", test=True)
            o.end()


SWEEP_FAMILIES = {"C01": "d", "C02": "dcq", "C03": "des", "C05": "descq", "C07": "s", "C08": "a", "C09": "i", "C10": "c",
                  "C11": "e", "C12": "des", "C13": "g", "C14": "q", "C15": "q", "C16": "bs", "C18": "u", "C19": "f"}


def gen_C01(o, rng, tier):
    boundary_cases(o, "d")
    shapes_cases(o)
    n = tier_n(tier)
    for nn in range(0, n + 1):
        product_map(o, nn, lambda reg, u, lay: map_ops_basic(reg, u, full_args=(nn <= 2)),
                    suffix=lambda o, u, lay: sweep(o, "m0", u))
    for _ in range(60 if tier == "quick" else 600):
        nn = rng.choice([1, 2, 3, 4, 6])
        o.case(m0=nn, m1=nn, tag="r")
        random_map_seq(o, rng, nn, rng.randint(10, 60), list(range(nn + 2)), with_iters=False,
                       with_forget=False)
        o.end()
    umap_product(o, 2, {'insert', 'lookup', 'remove', 'bulk'})
    wide_map_product(o, lambda reg, u, lay: map_ops_basic(reg, u, full_args=False),
                     suffix=lambda o, u, lay: sweep(o, "m0", u))
    if tier == "thorough":
        for ln in (1, 2, 3, 4):
            exhaustive_sequences(o, ln, "map")


def gen_C02(o, rng, tier):
    n = min(tier_n(tier), 3)

    def tmpls(reg, u, lay):
        t = []
        for take in range(0, len(lay) + 2):
            for e in ("drop", "forget"):
                t.append(f"{reg} drain {take} {e}")
                for kind in ("pairs", "keys", "values"):
                    t.append(f"{reg} into_iter {kind} {take} {e}")
        # std's provided methods on the owning iterators: nth(k), nth(usize::MAX), last(), count()
        for take in [f"t{k}" for k in range(0, len(lay) + 1)] + ["tM", "z", "1"]:
            for e in ("drop", "forget", "count"):
                if (take == "z" and e != "drop") or (take == "1" and e != "count"):
                    continue
                t.append(f"{reg} drain {take} {e}")
                for kind in ("pairs", "keys", "values"):
                    t.append(f"{reg} into_iter {kind} {take} {e}")
        for c in u:
            t += [f"{reg} insert {{k{c}}} {{v}}", f"{reg} checked_insert {{k{c}}} {{v}}",
                  f"{reg} insert_key_value {{k{c}}} {{v}}", f"{reg} remove q:{c}#0",
                  f"{reg} remove_entry q:{c}#0", f"{reg} entry {{k{c}}} [] drop",
                  f"{reg} entry {{k{c}}} [] oi:{{v}}", f"{reg} entry {{k{c}}} [] o.remove"]
        t += [f"{reg} clear", f"{reg} drop", f"{reg} forget", f"{reg} retain 5 0", f"{reg} clone m1"]
        return t

    def suffix(o, u, lay):
        # reuse after the operation: refill, then drop everything at `end`
        for c in u[:2]:
            o.op(f"m0 insert {o.k(c)} {o.v()}")

    for nn in range(0, n + 1):
        product_map(o, nn, tmpls, suffix=suffix)
    wide_map_product(o, tmpls, suffix=suffix, sizes=WIDE[:4])
    umap_product(o, 2, {'consume', 'remove', 'bulk'})
    for nn in range(0, 3):
        clone_from_product(o, nn)
    # sets: drains / consuming iterators
    for nn in range(0, n + 1):
        u = list(range(nn + 1))
        for lay in layouts(nn, u):
            for take in list(range(0, len(lay) + 2)) + ["t0", "t1", "tM", "z"]:
                for e in ("drop", "forget", "count"):
                    if (take == "z" and e != "drop") or (e == "count" and take not in (1, "t0")):
                        continue
                    for kind in ("drain", "into_iter"):
                        o.case(s0=nn, s1=nn)
                        build_set(o, "s0", lay)
                        o.op(f"s0 {kind} {take} {e}", test=True)
                        o.op(f"s0 insert {o.k(0)}")
                        o.end()
    for _ in range(60 if tier == "quick" else 800):
        nn = rng.choice([1, 2, 3, 4, 6])
        o.case(m0=nn, m1=nn, s0=nn, s1=rng.choice([1, 2, 3, 4, 6]), tag="r")
        random_map_seq(o, rng, nn, rng.randint(10, 50), list(range(nn + 2)))
        random_set_seq(o, rng, nn, rng.randint(5, 25), list(range(nn + 2)))
        o.end()


def insertion_entry_points(reg, u):
    t = []
    for c in u:
        t += [f"{reg} insert {{k{c}}} {{v}}", f"{reg} insert_key_value {{k{c}}} {{v}}",
              f"{reg} checked_insert {{k{c}}} {{v}}",
              f"{reg} entry {{k{c}}} [] oi:{{v}}", f"{reg} entry {{k{c}}} [] oiw:{{v}}",
              f"{reg} entry {{k{c}}} [] oiwk:{{v}}", f"{reg} entry {{k{c}}} [] od:{{v}}",
              f"{reg} entry {{k{c}}} [1] v.insert:{{v}}"]
    return t


def gen_C03(o, rng, tier):
    boundary_cases(o, "d")
    n = tier_n(tier)
    for nn in range(0, n + 1):
        # full (and nearly full) layouts only
        product_map(o, nn, lambda reg, u, lay: insertion_entry_points(reg, u) +
                    [f"{reg} capacity", f"{reg} len"],
                    suffix=lambda o, u, lay: (sweep(o, "m0", u), o.op(f"m0 insert {o.k(u[0])} {o.v()}"),
                                              o.op("m0 capacity"), o.op("m0 len")),
                    layouts_filter=lambda lay, n: len(lay) >= n - 1)
        # bulk construction overflowing at the first surplus item
        u = list(range(nn + 2))
        for k in range(0, nn + 3):
            for seq in itertools.islice(itertools.product(u, repeat=k), 0, 400 if tier == "quick" else 4000):
                for pulls in (0, 1, 2, 3, 4):   # 2/3/4: source whose size_hint understates / is exact / overstates
                    o.case(m0=nn, m1=nn, s0=nn, s1=nn)
                    xs = ",".join(f"{o.k(c)}={o.v()}" for c in seq)
                    o.op(f"m0 from_iter {pulls} [{xs}]", test=True)
                    o.op("m0 len")
                    ys = ",".join(o.k(c) for c in seq)
                    o.op(f"s0 from_iter {pulls} [{ys}]", test=True)
                    zs = ",".join(o.k(c) for c in seq)
                    o.op(f"s1 extend {pulls} [{zs}]", test=True)
                    o.op("s1 len")
                    o.end()
        # sets
        for lay in layouts(nn, list(range(nn + 1))):
            if len(lay) < nn - 1:
                continue
            for c in range(nn + 1):
                for kind in ("insert", "replace"):
                    o.case(s0=nn, s1=nn)
                    build_set(o, "s0", lay)
                    o.op(f"s0 {kind} {o.k(c)}", test=True)
                    o.op("s0 len")
                    o.op("s0 capacity")
                    o.op(f"s0 contains q:{c}#0")
                    o.end()
    o.case(m0=3, m1=3)
    o.op("m0 with_capacity 3")
    o.op("m0 with_capacity 4")
    o.end()
    umap_product(o, 2, {'insert', 'entry_ins'}, full_only=True)


def gen_C04_phase1(o, rng, tier):
    n = 2 if tier == "quick" else 3

    def tmpls(reg, u, lay):
        t = []
        for c in u:
            t += [f"{reg} insert {{k{c}}} {{v}}", f"{reg} insert_key_value {{k{c}}} {{v}}",
                  f"{reg} checked_insert {{k{c}}} {{v}}", f"{reg} remove q:{c}#0",
                  f"{reg} remove_entry k:{c}#0", f"{reg} get q:{c}#0", f"{reg} contains_key k:{c}#0",
                  f"{reg} entry {{k{c}}} [1] oi:{{v}}", f"{reg} entry {{k{c}}} [] oiw:{{v}}",
                  f"{reg} entry {{k{c}}} [] od:{{v}}", f"{reg} entry {{k{c}}} [] o.remove",
                  f"{reg} entry {{k{c}}} [] drop", f"{reg} entry {{k{c}}} [] key",
                  f"{reg} entry {{k{c}}} [] oiwk:{{v}}", f"{reg} entry {{k{c}}} [2] o.insert:{{v}}",
                  f"{reg} entry {{k{c}}} [] o.remove_entry", f"{reg} entry {{k{c}}} [] v.insert:{{v}}",
                  f"{reg} entry {{k{c}}} [] v.into_key", f"{reg} entry {{k{c}}} [] v.key",
                  f"{reg} get_mut k:{c}#0 3", f"{reg} index q:{c}#0", f"{reg} index_mut k:{c}#0 2",
                  f"{reg} get_key_value q:{c}#0"]
        t += [f"{reg} clear", f"{reg} drop", f"{reg} retain 5 1", f"{reg} retain 0 0", f"{reg} retain 2 0",
              f"{reg} clone m1", f"{reg} eq m1", f"m1 eq {reg}", f"{reg} clone_from m1", f"m1 clone_from {reg}",
              f"{reg} drain 1 drop", f"{reg} drain 0 drop", f"{reg} into_iter pairs 1 drop",
              f"{reg} into_iter keys 0 drop", f"{reg} into_iter keys 2 drop", f"{reg} into_iter values 2 drop",
              f"{reg} into_iter values 1 forget", f"{reg} drain 1 forget", f"{reg} drain 3 drop",
              # std's provided methods on the owning iterators (Model/StdIter.lean): the skipped items
              # are destroyed between the calls of `next`, while the iterator still owns the rest
              f"{reg} into_iter pairs t1 drop", f"{reg} into_iter pairs t2 drop", f"{reg} into_iter pairs t0 count",
              f"{reg} into_iter pairs 1 count", f"{reg} into_iter keys t1 drop", f"{reg} into_iter values t1 drop",
              f"{reg} into_iter keys 0 count", f"{reg} into_iter values 1 count", f"{reg} into_iter pairs tM drop",
              f"{reg} drain t1 drop", f"{reg} drain t2 drop", f"{reg} drain 0 count", f"{reg} drain t0 count",
              f"{reg} drain tM drop", f"{reg} into_iter pairs z drop", f"{reg} into_iter keys z drop",
              f"{reg} into_iter values z drop", f"{reg} drain z drop"]
        for k in range(0, 4):
            for seq in itertools.islice(itertools.product(u[:3], repeat=k), 0, 12):
                xs = ",".join(f"{{k{c}}}={{v}}" for c in seq)
                t.append(f"{reg} from_iter 1 [{xs}]")
                if k == len(u) - 1:
                    t.append(f"{reg} from_iter 0 [{xs}]")      # `Map::from(array)`: length = capacity
        if len(u) >= 2:
            t.append(f"{reg} gdm 1 [q:{u[0]}#0,q:{u[1]}#0]")
            t.append(f"{reg} gdm 1 [k:{u[0]}#7001,k:{u[1]}#7002,k:{u[-1]}#7003]")
            t.append(f"{reg} gdum 1 [k:{u[0]}#7001,k:{u[1]}#7002]")
        # the unsafe fast path inside its contract (key present, or room left): user code runs in it too
        for c in u:
            if c in lay or len(lay) < len(u) - 1:
                t.append(f"{reg} insert_unchecked {{k{c}}} {{v}}")
        return t

    for nn in range(0, n + 1):
        u = list(range(nn + 1))
        for lay in layouts(nn, u):
            for tmpl in tmpls("m0", u, lay):
                o.case(m0=nn, m1=nn, s0=nn, s1=nn)
                build_map(o, "m0", lay)
                # m1: a neighbour with one differing value, so that `eq` goes deep
                for c in lay:
                    o.op(f"m1 insert {o.k(c)} {o.v(1)}")
                o.op(inst(o, tmpl), test=True)
                o.end()
        # sets
        for lay in layouts(nn, u):
            for lay2 in ([[], list(reversed(lay)), lay[:1]]):
                for op in (["s0 clone s1", "s0 clone_from s1", "s1 clone_from s0", "s0 extend_from s1", "s1 extend_from s0",
                            "s0 sub s1 s1", "s0 sub s1 s0", "s0 eq s1", "s0 is_subset s1",
                            "s0 is_disjoint s1", "s0 alg union s1 nnnn", "s0 alg symmetric_difference s1 df",
                            "s0 alg intersection s1 cnn", "s0 retain 5", "s0 clear", "s0 drain 1 drop",
                            "s0 drain t1 drop", "s0 drain 0 count", "s0 into_iter t1 drop", "s0 into_iter 1 count",
                            "s0 into_iter tM drop", "s0 into_iter z drop", "s0 drain z drop"] +
                           [f"s0 extend 1 [{{k{a}}},{{k{b}}}]" for a in u[:2] for b in u[:2]] +
                           [f"s0 from_iter 1 [{{k{a}}},{{k{b}}}]" for a in u[:2] for b in u[:2]] +
                           ([f"s0 from_iter 0 [{{k{a}}},{{k{b}}}]" for a in u[:2] for b in u[:2]] if nn == 2 else []) +
                           [f"s0 insert {{k{a}}}" for a in u] + [f"s0 replace {{k{a}}}" for a in u] +
                           [f"s0 take q:{a}#0" for a in u]):
                    o.case(m0=0, m1=0, s0=nn, s1=nn)
                    build_set(o, "s0", lay)
                    build_set(o, "s1", lay2)
                    o.op(inst(o, op), test=True)
                    o.end()


def gen_C04_phase2(o, trace_path, ops_path):
    """one run per injection point 0..c-1 of every operation under test, followed by a probe
    suffix that keeps using the containers and finally drops them."""
    ops = open(ops_path).read().split("\n")
    trace = open(trace_path).read().split("\n")
    # align: every non-comment, non-empty ops line has one trace line
    ti = 0
    cases = []
    cur = None
    mark = False
    for line in ops:
        if not line.strip():
            continue
        if line.startswith("#"):
            mark = True
            continue
        tl = trace[ti] if ti < len(trace) else ""
        ti += 1
        if line.startswith("case "):
            cur = {"head": line, "ops": [], "test": None, "nc": 0}
            cases.append(cur)
            continue
        if line == "end":
            continue
        if mark:
            cur["test"] = len(cur["ops"])
            nc = 0
            for f in tl.split():
                if f.startswith("nc="):
                    nc = int(f[3:])
            cur["nc"] = nc
            mark = False
        cur["ops"].append(line)
    n = 0
    for c in cases:
        if c["test"] is None:
            continue
        for j in range(c["nc"]):
            n += 1
            head = c["head"].split()
            head[1] = f"f{n}"
            o.lines.append(" ".join(head))
            o.ncases += 1
            for i, l in enumerate(c["ops"]):
                if i == c["test"]:
                    o.lines.append(f"inject {j}")
                    o.lines.append("# test")
                o.op(l)
            regs = ("m0", "m1") if c["ops"][c["test"]].startswith("m") else ("s0", "s1")
            if regs[0] == "m0":
                for r in regs:
                    o.op(f"{r} len")
                    o.op(f"{r} insert 0#900{1 if r == 'm0' else 2} 900{3 if r == 'm0' else 4}#1")
                    o.op(f"{r} get q:1#0")
                    o.op(f"{r} remove q:0#0")
                    o.op(f"{r} iter iter 0 nnnnn")
                o.op("m0 clear")
            else:
                for r in regs:
                    o.op(f"{r} len")
                    o.op(f"{r} insert 0#900{1 if r == 's0' else 2}")
                    o.op(f"{r} contains q:1#0")
                    o.op(f"{r} remove q:0#0")
                    o.op(f"{r} iter nnnnn")
                o.op("s0 clear")
            o.end()


def gen_C05(o, rng, tier):
    boundary_cases(o, "de")
    deser_cases(o, caps=(2, 3, 4))
    n = tier_n(tier)

    def tmpls(reg, u, lay):
        t = map_ops_basic(reg, u, full_args=False)
        for c in u:
            t += [f"{reg} entry {{k{c}}} [] oi:{{v}}", f"{reg} entry {{k{c}}} [] o.remove",
                  f"{reg} entry {{k{c}}} [] v.insert:{{v}}"]
        t += [f"{reg} gdm 1 [q:{u[0]}#0,q:{u[0]}#0]", f"{reg} into_iter pairs 1 drop"]
        return t

    for nn in range(0, n + 1):
        product_map(o, nn, tmpls, suffix=lambda o, u, lay: (
            o.op("m0 len"), o.op("m0 is_empty"), o.op("m0 capacity"), o.op("m0 iter iter 0 lnnnnnl"),
            sweep(o, "m0", u, "k")))
    wide_map_product(o, tmpls, suffix=lambda o, u, lay: (
        o.op("m0 len"), o.op("m0 iter iter 0 l" + "n" * (len(lay) + 2) + "l"), sweep(o, "m0", u, "k")))
    for _ in range(60 if tier == "quick" else 600):
        nn = rng.choice([1, 2, 3, 4, 6])
        o.case(m0=nn, m1=nn, s0=nn, s1=nn, tag="r")
        random_map_seq(o, rng, nn, rng.randint(10, 50), list(range(nn + 2)), with_forget=False)
        random_set_seq(o, rng, nn, rng.randint(5, 20), list(range(nn + 2)))
        for r in ("m0", "m1"):
            o.op(f"{r} len")
            o.op(f"{r} iter iter 0 lnnnnnnnl")
        o.end()
    for cap in (0, 1, 2, 3, 4, 6):
        for a, b in (("[]", "[3,5,3,9,5]"), ("[1,2]", "[2,7]"), ("[1]", "[1,1]"), ("[]", "[]"), ("[4,5,6]", "[6,5,4,3]"),
                     ("[]", "[2,2]"), ("[]", "[1,2,1]"), ("[7]", "[8,7,8]")):
            o.case(s0=cap, s1=cap, tag="e")
            o.op(f"s0 extend_ref {a} {b}", test=True)      # `Extend<&T>` on a set of plain numbers
            o.end()
    umap_product(o, 2, {'insert', 'remove', 'entry_ins', 'bulk'})


def gen_C06(o, rng, tier):
    shapes_cases(o)
    # whole language once per state of a small product + random; `al` and `in` are what matters
    n = 2 if tier == "quick" else 3

    def tmpls(reg, u, lay):
        t = map_ops_basic(reg, u, full_args=False)
        for c in u:
            t += [f"{reg} entry {{k{c}}} [1] oi:{{v}}", f"{reg} entry {{k{c}}} [] o.get",
                  f"{reg} entry {{k{c}}} [] o.into_mut", f"{reg} entry {{k{c}}} [] od:{{v}}",
                  f"{reg} entry {{k{c}}} [] key", f"{reg} entry {{k{c}}} [] o.key", f"{reg} entry {{k{c}}} [1] o.get_mut:2",
                  f"{reg} entry {{k{c}}} [] oiw:{{v}}", f"{reg} entry {{k{c}}} [] oiwk:{{v}}", f"{reg} entry {{k{c}}} [] v.insert:{{v}}"]
        t += [f"{reg} iter {k} 1 nhldDcnx" for k in ("iter", "keys", "values", "iter_mut", "values_mut")]
        t += [f"{reg} clone m1", f"{reg} eq m1", f"{reg} fmt debug", f"{reg} fmt debug#", f"{reg} fmt display",
              f"{reg} fmt display>", f"{reg} fmt display#", f"{reg} fmt debug>",
              f"{reg} into_iter pairs 1 drop", f"{reg} from_iter 0 [{{k0}}={{v}}]",
              f"{reg} gdm 1 [q:{u[0]}#0,q:{u[-1]}#0]", f"{reg} gdm 1 []"]
        return t

    for nn in range(0, n + 1):
        product_map(o, nn, tmpls, removal_variants=False)
    for nn in range(0, n + 1):
        u = list(range(nn + 1))
        for lay in layouts(nn, u):
            for lay2 in ([[], list(reversed(lay)), lay[:1], u[:nn]]):
                o.case(s0=nn, s1=nn)
                build_set(o, "s0", lay)
                build_set(o, "s1", lay2)
                for kind in ("union", "intersection", "difference", "symmetric_difference"):
                    o.op(f"s0 alg {kind} s1 hnhndDcnf")
                    o.op(f"s0 alg {kind} s1 x")
                for p in ("is_subset", "is_superset", "is_disjoint", "eq"):
                    o.op(f"s0 {p} s1")
                o.op("s0 iter nlhcnx")
                o.op("s0 fmt debug")
                o.op("s0 fmt display")
                o.op("s0 fmt display>")
                o.op("s0 get q:0#0")
                o.op("s0 sub s1 s1")
                o.op("s0 clone s1")
                o.end()
    umap_product(o, 2, {'insert', 'lookup', 'entry', 'iter', 'fmt'})
    # large containers and large request arrays: sorting, scanning and copying code that switches
    # strategy with the size must still not allocate
    wide_gdm(o, "gdm", "lawful", present=(200, 64, 0))
    o.case(m0=300, m1=300, s0=300, s1=300, tag="wide")
    for i in range(290):
        o.op(f"m0 insert {o.k(i)} {o.v()}")
        if i % 2 == 0:
            o.op(f"s0 insert {o.k(i)}")
        if i % 3 == 0:
            o.op(f"s1 insert {o.k(i)}")
    for op in ("m0 clone m1", "m0 eq m1", "m0 retain 21 1", "m0 iter iter 0 lhnnnx", "m0 fmt debug", "s0 sub s1 s1",
               "s0 alg union s1 hnnnx", "s0 alg symmetric_difference s1 f", "s0 is_subset s1", "s0 clone s1",
               "m0 drain 5 drop", "m1 into_iter keys 7 drop", "s0 clear"):
        o.op(op, test=True)
    o.end()


def set_ops_basic(reg, u):
    t = []
    for c in u:
        t += [f"{reg} insert {{k{c}}}", f"{reg} replace {{k{c}}}"]
        for p in (f"q:{c}#0", f"k:{c}#0"):
            t += [f"{reg} contains {p}", f"{reg} get {p}", f"{reg} remove {p}", f"{reg} take {p}"]
    for mask in (0, 5, 10, 15, 87381, 109226, 78643, 131071 - 8):
        t.append(f"{reg} retain {mask}")
    t += [f"{reg} clear", f"{reg} len", f"{reg} is_empty", f"{reg} capacity", f"{reg} defaults"]
    for a, b in (("[]", "[3,5,3,9,5]"), ("[1,2]", "[2,7]"), ("[1]", "[1,1]"), ("[]", "[]"), ("[4,5,6]", "[6,5,4,3]"),
                 ("[1,2,3,4]", "[9]"), ("[0]", "[1,2,3,4,5,6,7]")):
        t.append(f"{reg} extend_ref {a} {b}")
    for take in range(0, 4):
        t.append(f"{reg} drain {take} drop")
    for k in range(0, 4):
        for seq in itertools.islice(itertools.product(u[:3], repeat=k), 0, 10):
            xs = ",".join(f"{{k{c}}}" for c in seq)
            t.append(f"{reg} extend 1 [{xs}]")
            t.append(f"{reg} extend 0 [{xs}]")
            t.append(f"{reg} extend 3 [{xs}]")
    return t


def gen_C07(o, rng, tier):
    boundary_cases(o, "s")
    shapes_cases(o)
    n = tier_n(tier)
    for nn in range(0, n + 1):
        u = list(range(nn + 1))
        for lay in layouts(nn, u):
            for tmpl in set_ops_basic("s0", u):
                o.case(s0=nn, s1=nn)
                build_set(o, "s0", lay)
                o.op(inst(o, tmpl), test=True)
                for c in u:
                    o.op(f"s0 contains q:{c}#0")
                o.op("s0 len")
                o.end()
    for nn in range(0, 3 if tier == "quick" else 4):
        extend_from_product(o, nn, caps=[(nn, nn), (nn + 1, nn), (nn, nn + 1)] if nn < 3 else None)
    wide_set_product(o, set_ops_basic, suffix=lambda o, u, lay: (
        [o.op(f"s0 contains q:{c}#0") for c in u], o.op("s0 len")))
    for _ in range(60 if tier == "quick" else 600):
        nn = rng.choice([1, 2, 3, 4, 6])
        o.case(s0=nn, s1=rng.choice([1, 2, 3, 4, 6]), tag="r")
        random_set_seq(o, rng, nn, rng.randint(10, 60), list(range(nn + 2)))
        o.end()
    if tier == "thorough":
        for ln in (1, 2, 3, 4):
            exhaustive_sequences(o, ln, "set")


def gen_C08(o, rng, tier):
    boundary_cases(o, "a")
    nu = 3 if tier == "quick" else 4
    u = list(range(nu))
    caps = [(3, 3), (3, 4), (4, 3), (0, 3), (3, 0), (0, 0), (1, 2)] if tier == "quick" else \
        [(4, 4), (4, 6), (6, 4), (0, 4), (4, 0), (0, 0), (1, 3), (3, 1)]
    scripts = ["hnhnhnhnhnhnhn", "cf", "hnhcnhf", "x", "dnnDn", "nnhx", "z", "nz", "t0hn", "t1hnn", "ct2hn", "nt1"]
    for (c0, c1) in caps:
        for a in layouts(min(c0, nu), u):
            for b in layouts(min(c1, nu), u):
                o.case(s0=c0, s1=c1)
                build_set(o, "s0", a)
                build_set(o, "s1", b)
                for kind in ("union", "intersection", "difference", "symmetric_difference", "difference_ref"):
                    for sc in (scripts if (c0, c1) == caps[0] else scripts[:2]):
                        o.op(f"s0 alg {kind} s1 {sc}", test=True)
                for p in ("is_subset", "is_superset", "is_disjoint"):
                    o.op(f"s0 {p} s1", test=True)
                    o.op(f"s1 {p} s0", test=True)
                o.end()
                o.case(s0=c0, s1=c1)
                build_set(o, "s0", a)
                build_set(o, "s1", b)
                o.op("s0 sub s1 s1", test=True)
                o.op("s0 len")
                o.end()


def gen_C09(o, rng, tier):
    boundary_cases(o, "i")
    shapes_cases(o)
    n = tier_n(tier)
    kinds = ["iter", "keys", "values", "iter_mut", "values_mut"]
    for nn in range(0, n + 1):
        u = list(range(nn + 1))
        for lay in layouts(nn, u):
            for variant in ([False, True] if lay else [False]):
                o.case(m0=nn, m1=nn, s0=nn, s1=nn)
                build_map(o, "m0", lay, via_removal=variant)
                build_set(o, "s0", lay)
                for kind in kinds:
                    full = "lh" + "nlh" * (len(lay) + 2)
                    o.op(f"m0 iter {kind} 1 {full}", test=True)
                    o.op(f"m0 iter {kind} 0 {full}", test=True)   # twice: same order
                    for k in range(0, len(lay) + 1):
                        o.op(f"m0 iter {kind} 0 {'n' * k}c{'n' * (len(lay) - k + 1)}", test=True)
                        o.op(f"m0 iter {kind} 0 {'n' * k}x", test=True)
                        # std's provided methods: nth(j) and last() after k steps
                        o.op(f"m0 iter {kind} 2 {'n' * k}zn", test=True)     # mutable kinds: only the item received is written
                        for j in range(0, len(lay) - k + 2):
                            o.op(f"m0 iter {kind} 3 {'n' * k}t{j}lhnl", test=True)
                    sweep(o, "m0", u)
                full = "lh" + "nlh" * (len(lay) + 2)
                o.op(f"s0 iter {full}", test=True)
                for k in range(0, len(lay) + 1):
                    o.op(f"s0 iter {'n' * k}c{'n' * (len(lay) - k + 1)}", test=True)
                    o.op(f"s0 iter {'n' * k}x", test=True)
                    o.op(f"s0 iter {'n' * k}zn", test=True)
                    for j in range(0, len(lay) - k + 2):
                        o.op(f"s0 iter {'n' * k}t{j}lhnl", test=True)
                o.end()
    umap_product(o, 2 if tier == 'quick' else 3, {'iter'})


def gen_C10(o, rng, tier):
    boundary_cases(o, "c")
    shapes_cases(o)
    n = tier_n(tier)
    for nn in range(0, n + 1):
        u = list(range(nn + 1))
        for lay in layouts(nn, u):
            for variant in ([False, True] if lay else [False]):
                # `take`: k calls of next, `tK` = nth(K), `z` = last(); end: drop / forget / count()
                takes = [str(t) for t in range(0, len(lay) + 3)] + [f"t{k}" for k in range(0, len(lay) + 2)] + ["z", "tM"]
                for take in takes:
                    for e in ("drop", "forget", "count"):
                        if take == "z" and e != "drop":
                            continue
                        ops = [f"m0 drain {take} {e}", f"m0 into_iter pairs {take} {e}"]
                        # IntoKeys / IntoValues: `next` drops the other half; std's provided methods
                        # (Model/StdIter.lean) are built on that `next`
                        ops += [f"m0 into_iter {k} {take} {e}" for k in ("keys", "values")]
                        for op in ops:
                            o.case(m0=nn, m1=nn)
                            build_map(o, "m0", lay, via_removal=variant)
                            o.op(op, test=True)
                            o.op("m0 len")
                            o.op("m0 is_empty")
                            for c in u:          # fully reusable: refill to capacity
                                o.op(f"m0 insert {o.k(c)} {o.v()}")
                            o.end()
                        if variant:
                            continue
                        for kind in ("drain", "into_iter"):
                            o.case(s0=nn, s1=nn)
                            build_set(o, "s0", lay)
                            o.op(f"s0 {kind} {take} {e}", test=True)
                            o.op("s0 len")
                            for c in u:
                                o.op(f"s0 insert {o.k(c)}")
                            o.end()
    # the zero-sized-value shape: keys with a destructor, values without one
    umap_product(o, 2 if tier == "quick" else 3, {'consume'})


def gen_C11(o, rng, tier):
    boundary_cases(o, "e")
    n = tier_n(tier)

    def tmpls(reg, u, lay):
        t = []
        for c in u:
            for mods in ("[]", "[1]", "[1,2]"):
                for fin in ENTRY_ENDS:
                    if mods != "[]" and fin not in ("oi:{v}", "oiw:{v}", "od:{v0}", "o.get", "key"):
                        continue
                    t.append(f"{reg} entry {{k{c}}} {mods} {fin}")
        return t

    def suffix(o, u, lay):
        sweep(o, "m0", u)

    for nn in range(0, n + 1):
        u = list(range(nn + 1))
        for lay in layouts(nn, u):
            for tmpl in tmpls("m0", u, lay):
                o.case(m0=nn, m1=nn)
                build_map(o, "m0", lay)
                o.op(inst_fin(o, tmpl), test=True)
                suffix(o, u, lay)
                o.end()
    wide_map_product(o, tmpls, suffix=suffix, inst_fn=inst_fin)
    umap_product(o, 2, {'entry'})


def gen_C12(o, rng, tier):
    boundary_cases(o, "ds")
    n = tier_n(tier)

    def tmpls(reg, u, lay):
        t = []
        for c in u:
            t += [f"{reg} insert {{k{c}}} {{v}}", f"{reg} insert_key_value {{k{c}}} {{v}}",
                  f"{reg} checked_insert {{k{c}}} {{v}}", f"{reg} entry {{k{c}}} [] oi:{{v}}",
                  f"{reg} entry {{k{c}}} [] o.insert:{{v}}", f"{reg} entry {{k{c}}} [] key",
                  f"{reg} get_key_value q:{c}#0", f"{reg} remove_entry q:{c}#0",
                  f"{reg} from_iter 1 [{{k{c}}}={{v}},{{k{c}}}={{v}}]",
                  f"{reg} from_iter 3 [{{k{c}}}={{v}},{{k{c}}}={{v}}]",
                  f"{reg} from_iter 0 [{{k{c}}}={{v}},{{k{c}}}={{v}}]"]
        return t

    def suffix(o, u, lay):
        for c in u:
            o.op(f"m0 get_key_value q:{c}#0")
        o.op("m0 iter keys 0 nnnnn")

    for nn in range(0, n + 1):
        product_map(o, nn, tmpls, suffix=suffix)
        u = list(range(nn + 1))
        for lay in layouts(nn, u):
            for c in u:
                for op in (f"s0 insert {{k{c}}}", f"s0 replace {{k{c}}}", f"s0 get q:{c}#0", f"s0 take q:{c}#0"):
                    o.case(s0=nn, s1=nn)
                    build_set(o, "s0", lay)
                    o.op(inst(o, op), test=True)
                    for d in u:
                        o.op(f"s0 get q:{d}#0")
                    o.op("s0 iter nnnnn")
                    o.end()
    wide_map_product(o, tmpls, suffix=lambda o, u, lay: (
        [o.op(f"m0 get_key_value q:{c}#0") for c in u], o.op("m0 iter keys 0 " + "n" * (len(lay) + 2))))
    wide_set_product(o, lambda reg, u: [t for c in u for t in (
        f"{reg} insert {{k{c}}}", f"{reg} replace {{k{c}}}", f"{reg} get q:{c}#0", f"{reg} take q:{c}#0")],
        suffix=lambda o, u, lay: ([o.op(f"s0 get q:{d}#0") for d in u], o.op("s0 iter " + "n" * (len(lay) + 2))))
    umap_product(o, 2, {'insert', 'lookup', 'remove', 'entry_ins'})


def gen_C13(o, rng, tier, unchecked=False, eq="lawful"):
    if eq == "lawful":
        boundary_cases(o, "gu" if unchecked else "g")
        shapes_cases(o)
    n = tier_n(tier)
    name = "gdum" if unchecked else "gdm"
    for nn in range(0, n + 1):
        u = list(range(nn + 1))
        for lay in layouts(nn, u):
            for j in range(0, 5):
                tuples = list(itertools.product(u, repeat=j))
                if len(tuples) > (80 if tier == "quick" else 700):
                    tuples = rng.sample(tuples, 80 if tier == "quick" else 700)
                for tup in tuples:
                    if unchecked and len(set(tup)) != len(tup):
                        continue
                    for kind in ("q", "k"):
                        o.case(m0=nn, m1=nn, eq=eq)
                        build_map(o, "m0", lay)
                        ks = ",".join(f"{kind}:{c}#{o.id()}" for c in tup)
                        o.op(f"m0 {name} 1 [{ks}]", test=True)
                        for c in tup:
                            o.op(f"m0 get_mut q:{c}#0 0")
                        o.end()
    big_map_gdm(o, rng, name, eq)
    # the zero-sized-value shape (`Map<Key, (), N>`) and an array of 200 requests
    for nn in range(0, 3):
        u = list(range(nn + 1))
        for lay in layouts(nn, u):
            for j in range(0, 4):
                for tup in itertools.product(u, repeat=j):
                    if unchecked and len(set(tup)) != len(tup):
                        continue
                    o.case(s0=nn, s1=nn, eq=eq, tag="z")
                    for c in lay:
                        o.op(f"u0 insert {o.k(c)} 0#0")
                    ks = ",".join(f"q:{c}#0" for c in tup)
                    o.op(f"u0 {name} 1 [{ks}]", test=True)
                    o.op("s0 len")
                    o.end()
    wide_gdm(o, name, eq)


def wide_gdm(o, name, eq, present=(180, 0, 1)):
    """200 requests at once against a map of capacity 300 holding 180 / 0 / 1 of the requested keys;
    8, 9, 32, 33, 63, 64, 65 requests (the boundaries of 8-, 32- and 64-bit bookkeeping), all present, some
    absent, and with the first key requested again at the end."""
    for np_ in present:
        o.case(m0=300, m1=0, eq=eq, tag="wide")
        for i in range(np_):
            o.op(f"m0 insert {o.k(i)} {o.v()}")
        ks = ",".join(f"q:{199 - c}#0" for c in range(200))
        o.op(f"m0 {name} 1 [{ks}]", test=True)
        o.op("m0 len")
        o.end()
    for j in (8, 9, 32, 33, 63, 64, 65):
        for np_ in (70, j // 2):
            o.case(m0=300, m1=0, eq=eq, tag="wide")
            for i in range(np_):
                o.op(f"m0 insert {o.k(i)} {o.v()}")
            ks = ",".join(f"q:{j - 1 - c}#0" for c in range(j))
            o.op(f"m0 {name} 1 [{ks}]", test=True)
            ks = ",".join(f"q:{c}#0" for c in range(j))
            o.op(f"m0 {name} 2 [{ks}]", test=True)
            if name == "gdm":
                ks = ",".join(f"q:{c}#0" for c in list(range(j - 1)) + [0])
                o.op(f"m0 {name} 1 [{ks}]", test=True)
            for c in (0, j - 1, j // 2):
                o.op(f"m0 get q:{c}#0")
            o.op("m0 len")
            o.end()


def big_map_gdm(o, rng, name, eq):
    """a map with more than 256 entries: slot positions that do not fit a byte."""
    picks = [[3, 260], [1, 257], [299, 0, 256], [255, 256], [298, 42, 299, 1]]
    for _ in range(3):
        picks.append(rng.sample(range(300), rng.randint(2, 4)))
    for tup in picks:
        o.case(m0=300, m1=0, eq=eq, tag="big")
        for i in range(300):
            o.op(f"m0 insert {o.k(i)} {o.v()}")
        # a removal in the middle moves the last entry to slot 7
        o.op("m0 remove q:7#0")
        ks = ",".join(f"q:{c}#0" for c in tup)
        o.op(f"m0 {name} 1 [{ks}]", test=True)
        for c in tup:
            o.op(f"m0 get_mut q:{c}#0 0")
        o.op("m0 get q:299#0")
        o.op("m0 get q:7#0")
        o.op("m0 len")
        o.end()


def gen_C14(o, rng, tier):
    boundary_cases(o, "q")
    nu = 3
    u = list(range(nu))
    caps = [(3, 3), (3, 4), (4, 3), (0, 3), (3, 0), (0, 0), (1, 6), (6, 1)]
    for (c0, c1) in caps:
        for a in layouts(min(nu, c0), u):
            for b in layouts(min(nu, c1), u):
                if tier == "quick" and (c0, c1) != (3, 3) and min(c0, c1) > 0 and rng.random() < 0.7:
                    continue
                for dv in ([None] if not b else [None, 0, len(b) - 1]):
                    o.case(m0=c0, m1=c1, s0=c0, s1=c1)
                    for c in a:
                        o.op(f"m0 insert {o.k(c)} {o.id()}#{c}")
                    for i, c in enumerate(b):
                        val = c if dv != i else c + 10
                        o.op(f"m1 insert {o.k(c)} {o.id()}#{val}")
                    o.op("m0 eq m1", test=True)
                    o.op("m1 eq m0", test=True)
                    o.op("m0 eq m0", test=True)
                    if dv is None:
                        build_set(o, "s0", a)
                        build_set(o, "s1", b)
                        o.op("s0 eq s1", test=True)
                        o.op("s1 eq s0", test=True)
                        o.op("s0 eq s0", test=True)
                    o.end()


def extend_from_product(o, n, caps=None):
    """`a.extend(b)` with `b` a set that is consumed, for every pair of layouts."""
    u = list(range(n + 1))
    for (c0, c1) in (caps or [(n, n)]):
        for a in layouts(min(n, c0), u):
            for b in layouts(min(n, c1), u):
                o.case(s0=c0, s1=c1, tag="x")
                build_set(o, "s0", a)
                build_set(o, "s1", b)
                o.op("s0 extend_from s1", test=True)
                o.op("s0 len")
                o.op("s1 len")
                o.op("s0 iter " + "n" * (c0 + 1))
                for c in u:
                    o.op(f"s0 contains q:{c}#0")
                o.op(f"s1 insert {o.k(0)}")
                o.end()


def clone_from_product(o, n):
    """`dst.clone_from(&src)` for every pair of layouts: the destination may hold more, fewer or
    the same number of entries as the source."""
    u = list(range(n + 1))
    for a in layouts(n, u):
        for b in layouts(n, u):
            o.case(m0=n, m1=n, s0=n, s1=n, tag="f")
            build_map(o, "m0", a)
            build_map(o, "m1", b)
            o.op("m0 clone_from m1", test=True)
            o.op("m0 eq m1")
            o.op("m1 len")
            o.op("m1 iter iter 0 " + "n" * (n + 1))
            o.op("m0 iter iter 0 " + "n" * (n + 1))
            for c in u[:2]:
                o.op(f"m1 insert {o.k(c)} {o.v()}")
            build_set(o, "s0", a)
            build_set(o, "s1", b)
            o.op("s0 clone_from s1", test=True)
            o.op("s0 eq s1")
            o.op("s1 iter " + "n" * (n + 1))
            o.end()


def gen_C15(o, rng, tier):
    boundary_cases(o, "q")
    shapes_cases(o)
    n = tier_n(tier)
    for nn in range(0, n + 1):
        u = list(range(nn + 1))
        for lay in layouts(nn, u):
            for variant in ([False, True] if lay else [False]):
                for after in range(0, 6):
                    o.case(m0=nn, m1=nn, s0=nn, s1=nn)
                    build_map(o, "m0", lay, via_removal=variant)
                    o.op("m0 clone m1", test=True)
                    o.op("m0 eq m1")
                    o.op("m1 eq m0")
                    a, b = ("m0", "m1") if after % 2 == 0 else ("m1", "m0")
                    if after < 2:
                        o.op(f"{a} clear")
                    elif after < 4:
                        o.op(f"{a} iter values_mut 5 nnnnn")
                        o.op(f"{a} remove q:{u[0]}#0")
                        o.op(f"{a} insert {o.k(u[-1])} {o.v()}")
                    else:
                        o.op(f"{a} drop")
                    o.op(f"{b} iter iter 0 nnnnn")
                    sweep(o, b, u)
                    build_set(o, "s0", lay)
                    o.op("s0 clone s1", test=True)
                    o.op("s0 eq s1")
                    o.op("s0 clear" if after % 2 == 0 else "s1 clear")
                    o.op("s0 iter nnnnn")
                    o.op("s1 iter nnnnn")
                    o.end()
    for nn in range(0, 3 if tier == "quick" else 4):
        clone_from_product(o, nn)
    # plain elements (no destructor, counting Clone): a clone still makes one call per key and value
    for nn in (0, 1, 2, 3, 4, 6):
        for k in range(0, nn + 1):
            o.case(m0=nn, m1=nn, s0=nn, s1=nn, tag="p")
            o.op("m0 clone_plain [" + ",".join(f"{c + 1}={10 * c + 3}" for c in range(k)) + "]", test=True)
            o.op("s0 clone_plain [" + ",".join(str(c + 1) for c in range(k)) + "]", test=True)
            if k >= 2:
                o.op("m0 clone_plain [" + ",".join(f"{(c % (k - 1)) + 1}={10 * c + 3}" for c in range(k)) + "]", test=True)
            o.end()
    for _ in range(40 if tier == "quick" else 400):
        nn = rng.choice([1, 2, 3, 4, 6])
        o.case(m0=nn, m1=nn, tag="r")
        random_map_seq(o, rng, nn, rng.randint(5, 20), list(range(nn + 2)), regs=("m0",))
        o.op("m0 clone m1")
        o.op("m0 eq m1")
        random_map_seq(o, rng, nn, rng.randint(5, 30), list(range(nn + 2)))
        o.end()


def gen_C16(o, rng, tier):
    boundary_cases(o, "b")
    n = tier_n(tier)
    for nn in range(0, n + 1):
        u = list(range(nn + 2))
        for k in range(0, nn + 3):
            seqs = list(itertools.product(u, repeat=k))
            cap = 300 if tier == "quick" else 3000
            if len(seqs) > cap:
                seqs = rng.sample(seqs, cap)
            for seq in seqs:
                for pulls in (1, 0, 2, 3, 4):
                    o.case(m0=nn, m1=nn, s0=nn, s1=nn)
                    xs = ",".join(f"{o.k(c)}={o.v()}" for c in seq)
                    o.op(f"m0 from_iter {pulls} [{xs}]", test=True)
                    # the same items one by one into m1
                    for c in seq:
                        o.op(f"m1 insert {o.k(c)} {o.v()}")
                    o.op("m0 len")
                    o.op("m1 len")
                    ys = ",".join(o.k(c) for c in seq)
                    o.op(f"s0 from_iter {pulls} [{ys}]", test=True)
                    zs = ",".join(o.k(c) for c in seq[: len(seq) // 2])
                    ws = ",".join(o.k(c) for c in seq[len(seq) // 2:])
                    o.op(f"s1 extend {pulls} [{zs}]", test=True)
                    o.op(f"s1 extend {pulls} [{ws}]", test=True)
                    o.end()
    for cap in (0, 1, 2, 3, 4, 6):
        for a, b in (("[]", "[3,5,3,9,5]"), ("[1,2]", "[2,7]"), ("[1]", "[1,1]"), ("[]", "[]"), ("[4,5,6]", "[6,5,4,3]"),
                     ("[]", "[2,2]"), ("[]", "[1,2,1]"), ("[7]", "[8,7,8]")):
            o.case(s0=cap, s1=cap, tag="e")
            o.op(f"s0 extend_ref {a} {b}", test=True)      # `Extend<&T>` on a set of plain numbers
            o.end()
    for nn in range(0, 3):
        extend_from_product(o, nn)
    # arrays / sources of 4 and 6 items with repeats in every position pattern (`From<[_; N]>` when the
    # length equals the capacity)
    pats = [[1, 1, 2, 3], [1, 2, 1, 3], [1, 2, 3, 1], [1, 1, 2, 2], [1, 2, 2, 1], [1, 2, 1, 2], [1, 1, 1, 2], [1, 1, 1, 1],
            [1, 2, 3, 4], [2, 1, 1, 3], [1, 1, 2, 3, 4, 5], [1, 2, 1, 3, 2, 4], [1, 2, 3, 3, 2, 1], [1, 1, 2, 2, 3, 3],
            [1, 2, 3, 4, 5, 1], [1, 2, 1, 2, 1, 2]]
    for pat in pats:
        for cap in sorted({len(pat), 6}):
            for pulls in (0, 1, 3):
                o.case(m0=cap, m1=cap, s0=cap, s1=cap, tag="a")
                xs = ",".join(f"{o.k(c)}={o.v()}" for c in pat)
                o.op(f"m0 from_iter {pulls} [{xs}]", test=True)
                for c in pat:
                    o.op(f"m1 insert {o.k(c)} {o.v()}")
                o.op("m0 len")
                o.op("m0 iter iter 0 " + "n" * (len(pat) + 1))
                ys = ",".join(o.k(c) for c in pat)
                o.op(f"s0 from_iter {pulls} [{ys}]", test=True)
                o.op("s0 iter " + "n" * (len(pat) + 1))
                o.end()
    # extending sets that already hold 4..9 elements (block-wise duplicate scans)
    def ext(reg, u):
        L = len(u) - 1
        seqs = [[L], [0, L], [L, L], [3, L, 0], [L, 2, L, 3], [1, 2, 3, 0], [L, 3, 3, L]]
        return [f"{reg} extend {p} [" + ",".join(f"{{k{c}}}" for c in sq) + "]" for sq in seqs for p in (1, 3)]
    wide_set_product(o, ext, suffix=lambda o, u, lay: (
        o.op("s0 len"), o.op("s0 iter " + "n" * (len(lay) + 3)), [o.op(f"s0 contains q:{c}#0") for c in u]))


def gen_C17(o, rng, tier):
    shapes_cases(o)
    nseeds = 6 if tier == "quick" else 40
    # product of small states x every operation under fixed-but-lying oracles
    n = 2 if tier == "quick" else 3
    for seed in range(1, (3 if tier == "quick" else 8)):
        eq = f"table:{seed + 100 * rng.randint(0, 9)}"

        def tmpls(reg, u, lay):
            t = map_ops_basic(reg, u, full_args=False)
            for c in u:
                t += [f"{reg} entry {{k{c}}} [1] oi:{{v}}", f"{reg} entry {{k{c}}} [] o.remove"]
            t += [f"{reg} gdm 1 [q:{a}#0,q:{b}#0]" for a in u for b in u]
            t += [f"{reg} gdm 1 [k:{a}#{7000 + a},k:{b}#{7100 + b},k:{u[0]}#7200]" for a in u for b in u]
            t += [f"{reg} clone m1", f"{reg} eq m1", f"{reg} from_iter 1 [{{k0}}={{v}},{{k1}}={{v}},{{k0}}={{v}}]"]
            return t

        for nn in range(0, n + 1):
            product_map(o, nn, tmpls, eq=eq, removal_variants=False,
                        suffix=lambda o, u, lay: (o.op("m0 len"), o.op("m0 iter iter 0 lnnnnnl")))
    for i in range(nseeds * 10):
        nn = rng.choice([1, 2, 3, 4, 6])
        mode = rng.choice(["table", "stateful", "stateful"])
        o.case(m0=nn, m1=nn, s0=nn, s1=rng.choice([1, 2, 3, 4, 6]), eq=f"{mode}:{rng.randint(1, 10**6)}", tag="r")
        random_map_seq(o, rng, nn, rng.randint(10, 60), list(range(nn + 2)))
        random_set_seq(o, rng, nn, rng.randint(5, 30), list(range(nn + 2)))
        for r in ("m0", "m1"):
            o.op(f"{r} len")
            o.op(f"{r} iter iter 0 lnnnnnnnl")
        o.end()


def gen_C18(o, rng, tier):
    n = tier_n(tier)
    for nn in range(0, n + 1):
        u = list(range(nn + 1))
        for lay in layouts(nn, u):
            for variant in ([False, True] if lay else [False]):
                for c in u:
                    if len(lay) >= nn and c not in lay:
                        continue           # outside the contract: full and key absent
                    # twin states: unsafe method on m0, safe one on m1 with the same ids
                    o.case(m0=nn, m1=nn)
                    build_map(o, "m0", lay, via_removal=variant)
                    o.op("m0 clone m1")
                    kid, vid = o.id(), o.id()
                    o.op(f"m0 insert_unchecked {c}#{kid} {vid}#4", test=True)
                    o.op(f"m1 insert {c}#{kid + 50000} {vid + 50000}#4", test=True)
                    o.op("m0 eq m1")
                    sweep(o, "m0", u)
                    o.end()
    gen_C13(o, rng, tier, unchecked=True)


def gen_C19(o, rng, tier):
    n = tier_n(tier)
    for nn in range(0, n + 1):
        u = list(range(nn + 1))
        for lay in layouts(nn, u):
            for variant in ([False, True] if lay else [False]):
                o.case(m0=nn, m1=nn, s0=nn, s1=nn)
                build_map(o, "m0", lay, via_removal=variant)
                build_set(o, "s0", lay)
                build_set(o, "s1", list(reversed(lay))[:2])
                for f in ("debug", "debug#", "display", "display>", "display#", "debug>"):
                    o.op(f"m0 fmt {f}", test=True)
                    o.op(f"s0 fmt {f}", test=True)
                for kind in ("iter", "keys", "values", "iter_mut", "values_mut"):
                    script = "dD" + "ndD" * (len(lay) + 1)
                    o.op(f"m0 iter {kind} 0 {script}", test=True)
                for kind in ("union", "intersection", "difference", "symmetric_difference", "difference_ref"):
                    script = "dD" + "ndD" * (len(lay) + 2)
                    o.op(f"s0 alg {kind} s1 {script}", test=True)
                o.op("m0 fmt debug")
                o.end()
                for take in range(0, len(lay) + 2):
                    for op in ([f"m0 drain {take} drop"] +
                               [f"m0 into_iter {k} {take} drop" for k in ("pairs", "keys", "values")]):
                        o.case(m0=nn, m1=nn)
                        build_map(o, "m0", lay, via_removal=variant)
                        o.op(op, test=True)
                        o.end()
    umap_product(o, 2, {'fmt', 'iter'})


def deser_cases(o, caps=(0, 1, 2, 3, 4, 6)):
    """token streams that no `Serialize` of the crate writes but any other producer may: repeated keys
    (the later value wins, one entry stays), repeats when the container is already full, more distinct
    keys than capacity; every size_hint behaviour of the deserializer."""
    streams = [[], [1], [1, 1], [1, 2, 1], [2, 1, 1, 2], [1, 2, 3, 1], [1, 2, 3, 3, 2, 1], [3, 3, 3], [1, 2, 3, 4, 1],
               [5, 4, 3, 2, 1, 0, 5, 6], [0, 0, 1, 1, 2, 2, 3, 3]]
    for cap in caps:
        for xs in streams:
            for h in range(4):
                o.case(m0=cap, m1=cap, s0=cap, s1=cap, tag="t")
                o.op(f"m0 insert {o.k(7)} {o.v()}")
                o.op(f"m0 deser {h} [" + ",".join(f"{c}={10 * i + c}" for i, c in enumerate(xs)) + "]", test=True)
                o.op("m0 len")
                o.op("m0 iter iter 0 " + "n" * (cap + 1))
                for c in sorted(set(xs)):
                    o.op(f"m0 get q:{c}#0")
                o.op(f"s0 deser {h} [" + ",".join(str(c) for c in xs) + "]", test=True)
                o.op("s0 len")
                o.op("s0 iter " + "n" * (cap + 1))
                o.end()


def gen_C20(o, rng, tier):
    deser_cases(o)
    """serde round trips: every layout (with and without a removal in its history) of every source
    capacity into every target capacity of the menu (sufficient, exactly sufficient, insufficient),
    maps and sets; then the decoded container is compared and used."""
    n = 3 if tier == "quick" else 4
    menu = [0, 1, 2, 3, 4, 6]
    for c in menu:
        o.case(m0=c, m1=c, s0=c, s1=c)
        o.op("m0 serde_wrong", test=True)      # wrong input type: the visitors' `expecting` text
        o.op("s0 serde_wrong", test=True)
        for k in ((0,) if c == 0 else (0, 1, 2)):      # zero-sized elements
            o.op(f"s0 serde_zst {k}", test=True)
            o.op(f"m0 serde_zst {k}", test=True)
        o.end()
    hcount = 0
    for nn in range(0, n + 1):
        u = list(range(nn + 1))
        for lay in layouts(nn, u):
            for variant in ([False, True] if lay else [False]):
                for dcap in menu:
                    if tier == "quick" and dcap > len(lay) + 1 and dcap != 6:
                        continue
                    o.case(m0=nn, m1=dcap, s0=nn, s1=dcap)
                    build_map(o, "m0", lay, via_removal=variant)
                    o.op("m0 serde m1", test=True)
                    o.op("m0 eq m1")
                    o.op("m1 eq m0")
                    o.op("m1 len")
                    for c in u:
                        o.op(f"m1 get q:{c}#0")
                    build_set(o, "s0", lay)
                    o.op("s0 serde s1", test=True)
                    o.op("s0 eq s1")
                    o.op("s1 eq s0")
                    o.op("s1 iter nnnnn")
                    o.end()
                    # the same through the token format (serde's data model itself), once per
                    # `size_hint` behaviour of the deserializer: none / exact / Some(0) / overstating
                    hcount += 1
                    for h in (range(4) if tier != "quick" else [hcount % 4]):
                        o.case(m0=nn, m1=dcap, s0=nn, s1=dcap, tag="t%d" % h)
                        build_map(o, "m0", lay, via_removal=variant)
                        o.op(f"m0 serde m1 tok{h}", test=True)
                        o.op("m0 eq m1")
                        o.op("m1 eq m0")
                        o.op("m1 len")
                        for c in u:
                            o.op(f"m1 get q:{c}#0")
                        build_set(o, "s0", lay)
                        o.op(f"s0 serde s1 tok{h}", test=True)
                        o.op("s0 eq s1")
                        o.op("s1 eq s0")
                        o.op("s1 iter nnnnn")
                        o.end()
                        # `deserialize_in_place` into a destination that already holds other entries
                        if dcap > 0:
                            o.case(m0=nn, m1=dcap, s0=nn, s1=dcap, tag="t%d" % (4 + h))
                            build_map(o, "m0", lay, via_removal=variant)
                            for c in ([nn + 1, 0][:dcap]):
                                o.op(f"m1 insert {o.k(c)} {o.v()}")
                                o.op(f"s1 insert {o.k(c)}")
                            o.op(f"m0 serde m1 tok{4 + h}", test=True)
                            o.op("m0 eq m1")
                            o.op("m1 len")
                            build_set(o, "s0", lay)
                            o.op(f"s0 serde s1 tok{4 + h}", test=True)
                            o.op("s0 eq s1")
                            o.op("s1 len")
                            o.end()
    for _ in range(40 if tier == "quick" else 400):
        nn = rng.choice([2, 3, 4, 6])
        dn = rng.choice(menu)
        o.case(m0=nn, m1=dn, s0=nn, s1=dn, tag="r")
        random_map_seq(o, rng, nn, rng.randint(5, 25), list(range(nn + 2)), with_forget=False, regs=("m0",))
        fmt = rng.choice(["", "", " tok0", " tok1", " tok2", " tok3"])
        o.op("m0 serde m1" + fmt, test=True)
        o.op("m0 eq m1")
        o.op("m1 iter iter 0 nnnnnnn")
        random_set_seq(o, rng, min(nn, dn) if dn else 0, rng.randint(3, 12), list(range(nn + 2)))
        o.op("s0 serde s1" + fmt, test=True)
        o.op("s1 eq s0")
        o.end()


GENS = {
    "C01": gen_C01, "C02": gen_C02, "C03": gen_C03, "C04": gen_C04_phase1, "C05": gen_C05, "C06": gen_C06,
    "C07": gen_C07, "C08": gen_C08, "C09": gen_C09, "C10": gen_C10, "C11": gen_C11, "C12": gen_C12,
    "C13": gen_C13, "C14": gen_C14, "C15": gen_C15, "C16": gen_C16, "C17": gen_C17, "C18": gen_C18,
    "C19": gen_C19, "C20": gen_C20,
}


def main():
    prop, tier, seed, out = sys.argv[1], sys.argv[2], int(sys.argv[3]), sys.argv[4]
    rng = random.Random(f"{prop}-{seed}")
    o = Out()
    o.random_only = "--random-only" in sys.argv
    if "--inject-from" in sys.argv:
        i = sys.argv.index("--inject-from")
        gen_C04_phase2(o, sys.argv[i + 1], sys.argv[i + 2])
    else:
        GENS[prop](o, rng, tier)
        if prop in SWEEP_FAMILIES:
            sweep_cases(o, SWEEP_FAMILIES[prop], tier, seed)
    with open(out, "w") as f:
        f.write("\n".join(o.lines) + "\n")
    import json
    print(json.dumps({"cases": o.ncases, "lines": len(o.lines), "op_histogram": o.hist}))


if __name__ == "__main__":
    main()
