#!/bin/bash
# Confirms a seeded change in a scratch worktree of /repo (never in /repo itself):
#   demo on the clean tree (debug, release) must pass; with the patch it must fail in at least one
#   profile; the whole existing suite must pass with the patch (debug and release).
# usage: seedconfirm.sh <name> <patch.diff> <demo.rs>     -> transcript on stdout, exit 0 if confirmed
set -u
name=$1; patch=$2; demo=$3
W=/tmp/sc-$name
rm -rf $W; mkdir -p $W
git -C /repo worktree add -q --detach $W/repo HEAD || exit 2
trap 'git -C /repo worktree remove --force $W/repo 2>/dev/null; rm -rf $W' EXIT
cd $W/repo
export CARGO_NET_OFFLINE=true CARGO_TARGET_DIR=$W/target
cp $demo tests/demo_seed.rs
feat=""
grep -q "serde" $demo && feat="--features serde"
run() { cargo test --offline $feat $1 --test demo_seed 2>&1 | grep -E "^test result|^error(\[|:)|warning: unused" | head -4; }
echo "== demo without the change (debug)";   a=$(run "");          echo "$a"
echo "== demo without the change (release)"; b=$(run "--release"); echo "$b"
git apply $patch || { echo "PATCH DOES NOT APPLY"; exit 1; }
echo "== demo with the change (debug)";      c=$(run "");          echo "$c"
echo "== demo with the change (release)";    d=$(run "--release"); echo "$d"
rm tests/demo_seed.rs
echo "== existing suite with the change (debug)"
e=$(cargo test --offline 2>&1 | grep -E "^test result|^error" ); echo "$e"
echo "== existing suite with the change (release)"
f=$(cargo test --offline --release 2>&1 | grep -E "^test result|^error" ); echo "$f"
ok=1
echo "$a" | grep -q "test result: ok" || ok=0
echo "$b" | grep -q "test result: ok" || ok=0
(echo "$c"; echo "$d") | grep -q "FAILED\|^error" || ok=0
echo "$e$f" | grep -q "FAILED\|^error" && ok=0
echo "$e" | grep -q "131 passed" || ok=0
echo "CONFIRMED=$ok"
[ $ok = 1 ]
