#!/bin/bash
# confirm a seeded change and run every quick check against it on scratch copies.
# usage: seedrun.sh <id> <dir with patch_n.diff demo_n.rs> <n>      logs: /tmp/seedlog/<id>.{confirm,log}
id=$1; dir=$2; n=$3
mkdir -p /tmp/seedlog
/verif/tools/seedconfirm.sh $id $dir/patch_$n.diff $dir/demo_$n.rs > /tmp/seedlog/$id.confirm 2>&1
if ! grep -q "CONFIRMED=1" /tmp/seedlog/$id.confirm; then echo "$id NOT-CONFIRMED"; exit 1; fi
/verif/tools/seedscratch.sh $id $dir/patch_$n.diff > /tmp/seedlog/$id.log 2>&1
echo "$id $(grep CAUGHT-BY /tmp/seedlog/$id.log)"
