#!/usr/bin/env python3
"""Refreshes seeded/*/meta.json (`reported_by`, `reported_with_failing_input_by`) from the logs of a
matrix run (every seeded change x every quick check; logs <dir>/final-<id>.log as written by
tools/seedscratch.sh) and rewrites the table between the markers `<!-- matrix:begin -->` /
`<!-- matrix:end -->` in DESIGN.md.   usage: mkmatrix.py <logdir>"""
import json, os, re, sys
ROOT = os.path.dirname(os.path.dirname(os.path.abspath(__file__)))
logdir = sys.argv[1]
rows = []
for sid in sorted(os.listdir(os.path.join(ROOT, "seeded"))):
    mp = os.path.join(ROOT, "seeded", sid, "meta.json")
    meta = json.load(open(mp))
    lg = os.path.join(logdir, "final-%s.log" % sid)
    if os.path.exists(lg):
        rep, inp, ran = set(), set(), set()
        for line in open(lg):
            m = re.match(r"(C\d\d) rc=(\d) ?(.*)", line)
            if not m:
                continue
            ran.add(m.group(1))
            if m.group(2) == "1":
                rep.add(m.group(1))
                if any(v.startswith("VIOLATION") and not v.strip().endswith("no-failing-input-found")
                       for v in m.group(3).split(";")):
                    inp.add(m.group(1))
        if len(ran) == 20:
            meta["reported_by"], meta["reported_with_failing_input_by"] = sorted(rep), sorted(inp)
            meta["checks_run"] = ("every ./check Cxx quick against the change, final machinery (tools/seedscratch.sh: scratch copy "
                                  "of /verif pointed at a scratch worktree of /repo with the patch applied; proof obligations "
                                  "skipped since a /repo change cannot touch the Lean side); VIOLATION lines ending in "
                                  "no-failing-input-found are counted in reported_by only")
            json.dump(meta, open(mp, "w"), indent=1)
    rows.append(meta)
def short(s, n=110):
    s = re.sub(r"\s+", " ", s)
    return s if len(s) <= n else s[:n - 1] + "…"
out = ["<!-- matrix:begin -->",
       "| change | breaks | needs, to manifest | intended check | all checks that report it (**bold**: with a failing input) |",
       "|---|---|---|---|---|"]
hit = inp_hit = 0
for m in rows:
    b = m["breaks_property"]
    rep, inp = m["reported_by"], m["reported_with_failing_input_by"]
    status = "failing input" if b in inp else ("reported, no input" if b in rep else "**missed**")
    hit += b in rep
    inp_hit += b in inp
    allc = ", ".join(("**%s**" % c) if c in inp else c for c in rep) or "—"
    out.append("| %s | %s | %s | %s | %s |" % (m["id"], b, short(m["needs_to_manifest"]), status, allc))
out.append("")
out.append("%d seeded changes; the check of the property the change breaks reports %d of them, %d with a failing input."
           % (len(rows), hit, inp_hit))
out.append("<!-- matrix:end -->")
p = os.path.join(ROOT, "DESIGN.md")
s = open(p).read()
if "<!-- matrix:begin -->" in s:
    i, j = s.index("<!-- matrix:begin -->"), s.index("<!-- matrix:end -->") + len("<!-- matrix:end -->")
    s = s[:i] + "\n".join(out) + s[j:]
    open(p, "w").write(s)
print("\n".join(out[-3:-1]))
