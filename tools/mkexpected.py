#!/usr/bin/env python3
"""(Re)generates tools/expected_theorems.json: the property theorems each check insists on finding
in the compiled module Micromap.Props.<Cxx>.  Run by hand after adding theorems and commit the
result; a theorem that later disappears or is renamed then counts as a broken proof obligation."""
import json, os, re
ROOT = os.path.dirname(os.path.dirname(os.path.abspath(__file__)))
out = {}
d = os.path.join(ROOT, "lean", "Micromap", "Props")
for f in sorted(os.listdir(d)):
    if f.endswith(".lean"):
        src = open(os.path.join(d, f)).read()
        src = re.sub(r"/-.*?-/", "", src, flags=re.S)
        names = re.findall(r"^theorem\s+([A-Za-z_][\w.']*)", src, flags=re.M)
        out[f[:-5]] = [n for n in names if not re.match(r"ex([A-Z0-9_]|$)", n)]
json.dump(out, open(os.path.join(ROOT, "tools", "expected_theorems.json"), "w"), indent=1)
print({k: len(v) for k, v in out.items()})
