"""Property oracles evaluated on the implementation's own trace, independent of the Lean model.
(filled in per property; see DESIGN.md §6)"""
EXPECTED_THEOREMS = {
    "C01": ["step_refines", "history_refines", "history_from_new", "get_by_borrowed_form", "srun_borrowed",
            "index_panics_iff_absent", "sim_observables"],
    "C07": ["set_step_refines", "set_history_refines", "set_history_from_new", "insert_true_iff_absent",
            "remove_reports_presence", "sset_borrowed"],
    "C12": ["insert_keeps_stored_key", "checked_insert_keeps_stored_key", "insert_key_value_swaps_key",
            "insert_ii_for_full_identity", "get_exposes_stored", "remove_entry_exposes_stored",
            "iteration_exposes_stored", "set_insert_keeps_stored", "set_replace_swaps"],
    "C03": ["insert_full_absent", "insert_key_value_full_absent", "checked_insert_full_absent",
            "insert_present_on_full", "checked_insert_present_on_full", "insert_key_value_present_on_full",
            "insert_len_le_cap"],
}
LAST_COUNT = [0]


def run(prop, ops_path, impl_path, profile):
    LAST_COUNT[0] = 0
    return []
