"""Property oracles evaluated on the implementation's own trace, independent of the Lean model
(DESIGN.md §6).  One-step reference semantics: for every operation the pre-state of a register
is the last snapshot the *implementation* printed for it, the oracle computes what an ideal
dictionary / set / iterator would return and leave behind, and compares order-insensitively.
A failure here is an input on which the real crate breaks the property (replayable).
"""
import re

EXPECTED_THEOREMS = {}          # filled from tools/expected_theorems.json at import time
LAST_COUNT = [0]

RE_SNAP = re.compile(r"^(\d+)/(\d+)/([01])\[(.*)\]$")
RE_ENT = re.compile(r"K(\d+)\.(\d+)(?::V(\d+)\.(-?\d+))?")


def _load_expected():
    import json
    import os
    p = os.path.join(os.path.dirname(os.path.abspath(__file__)), "expected_theorems.json")
    if os.path.exists(p):
        EXPECTED_THEOREMS.update(json.load(open(p)))


_load_expected()


def parse_snap(s):
    m = RE_SNAP.match(s)
    if not m:
        return None
    ents = []
    body = m.group(4)
    if body:
        for e in body.split(","):
            me = RE_ENT.fullmatch(e)
            if not me:
                return None
            ents.append((int(me.group(1)), int(me.group(2)),
                         int(me.group(3)) if me.group(3) is not None else None,
                         int(me.group(4)) if me.group(4) is not None else None))
    return {"len": int(m.group(1)), "cap": int(m.group(2)), "empty": m.group(3) == "1", "ents": ents}


def parse_line(line):
    left = line.split(" | ", 1)[0]
    toks = left.split(" ")
    out = {"outcome": toks[0], "ret": None, "snaps": {}, "ev": [], "leaks": None}
    for t in toks[1:]:
        if "=" not in t:
            continue
        a, b = t.split("=", 1)
        if a == "ret":
            out["ret"] = b
        elif a == "ev":
            out["ev"] = [] if b == "-" else b.split(",")
        elif a == "nc":
            out["nc"] = b
        elif a == "leaks":
            out["leaks"] = b
        elif re.fullmatch(r"[ms][01]", a):
            out["snaps"][a] = parse_snap(b)
    return out


def split_top(s):
    """split a bracketed list body at top-level commas (strings in double quotes respected)."""
    out, depth, cur, q = [], 0, "", False
    for ch in s:
        if ch == '"':
            q = not q
        if not q:
            if ch in "[(":
                depth += 1
            elif ch in "])":
                depth -= 1
            elif ch == "," and depth == 0:
                out.append(cur)
                cur = ""
                continue
        cur += ch
    if cur or out:
        out.append(cur)
    return out


def keyarg(t):
    c, i = t.split("#")
    return int(c), int(i)


def valarg(t):
    i, v = t.split("#")
    return int(i), int(v)


def probe_cls(t):
    return int(t.split(":", 1)[1].split("#")[0])


def is_own_panic(outcome):
    """a panic raised by the container itself (not the injected user-code panic): the properties say
    THAT these situations panic, not with which message — the message text is the model's business."""
    return outcome.startswith("panic:") and outcome != "panic:inject"


def is_overflow(outcome):
    return is_own_panic(outcome)


def find(ents, cls):
    for e in ents:
        if e[0] == cls:
            return e
    return None


def ms(ents, ids):
    """multiset view of entries: with or without object ids."""
    if ids:
        return sorted(ents, key=lambda e: tuple(-1 if x is None else x for x in e))
    return sorted(((e[0], e[3]) for e in ents), key=lambda e: tuple(-10**9 if x is None else x for x in e))


def show_v(e, ids):
    return ("V%d.%d" % (e[2], e[3])) if ids else ("V%d" % e[3])


def show_k(e, ids):
    return ("K%d.%d" % (e[0], e[1])) if ids else ("K%d" % e[0])


def strip_ids(s):
    s = re.sub(r"K(\d+)\.(\d+)", lambda m: "K" + m.group(1), s)
    s = re.sub(r"V(\d+)\.(-?\d+)", lambda m: "V" + m.group(2), s)
    return s


def strip_slot(s):
    return re.sub(r"@\d+(?:\.\d+)?=", "", s)


# which oracle families count for which property
FAMILIES = {
    "C01": {"struct", "dict"}, "C02": {"struct", "leak", "dict", "set", "consume", "bulk", "clone"},
    "C03": {"struct", "full", "bulk", "leak"}, "C04": {"struct", "uniq", "dict", "set"},
    "C05": {"struct", "uniq", "sweep"}, "C06": {"shapes"}, "C07": {"struct", "set", "bulk"}, "C08": {"alg"},
    "C09": {"iter"}, "C10": {"consume", "struct", "leak"}, "C11": {"struct", "entry", "leak"}, "C12": {"ident", "bulk"},
    "C13": {"gdm"}, "C14": {"eq"}, "C15": {"clone"}, "C16": {"bulk", "struct"}, "C17": {"struct"},
    "C18": {"struct", "unchecked"}, "C19": {"fmt", "dbg"}, "C20": {"serde"},
}


class Case:
    def __init__(self, head):
        self.caps = {}
        self.lawful = True
        for t in head.split()[2:]:
            a, b = t.split("=")
            if a == "eq":
                self.lawful = (b == "lawful")
            else:
                self.caps[a] = int(b)
        self.state = {r: {"len": 0, "cap": c, "empty": True, "ents": []} for r, c in self.caps.items()}
        self.injected = False
        self.forgot = False
        self.calls = 0           # user callbacks made so far in this case (sum of the `nc` fields)


def retain_calls(case, t, pre, mask, got, reg, fails):
    """`retain`: the predicate is asked exactly once per entry; with a STATEFUL predicate (mask >= 65536:
    the answer is bit (call number mod 16) of the mask) as many entries go as calls answered false."""
    ev = t["ev"]
    asks = [j for j, e in enumerate(ev) if e == "c0"]
    if len(asks) != len(pre):
        fails.append("%s retain asked the predicate %d times about %d entries" % (reg, len(asks), len(pre)))
    if mask >= 65536 and got is not None:
        rejects = sum(1 for j in asks if not (mask >> ((case.calls + j + 1) % 16)) & 1)
        if len(got["ents"]) != len(pre) - rejects:
            fails.append("%s retain: the predicate rejected %d of %d entries, %d are left" % (reg, rejects, len(pre), len(got["ents"])))
        if not {(e[0], e[1]) for e in got["ents"]} <= {(e[0], e[1]) for e in pre}:
            fails.append("%s retain: an entry appeared that was not there: %s" % (reg, got["ents"]))


def check_struct(case, reg, snap, fam, fails):
    if snap is None:
        fails.append("unparsable snapshot of " + reg)
        return
    if snap["len"] != len(snap["ents"]):
        fails.append("%s: len()=%d but iteration yields %d entries" % (reg, snap["len"], len(snap["ents"])))
    if snap["len"] > snap["cap"]:
        fails.append("%s: len()=%d exceeds capacity()=%d" % (reg, snap["len"], snap["cap"]))
    if snap["cap"] != case.caps.get(reg, snap["cap"]):
        fails.append("%s: capacity() changed to %d" % (reg, snap["cap"]))
    if snap["empty"] != (snap["len"] == 0):
        fails.append("%s: is_empty() disagrees with len()" % reg)
    if "uniq" in fam and case.lawful:
        cl = [e[0] for e in snap["ents"]]
        if len(set(cl)) != len(cl):
            fails.append("%s: iteration yields two equal keys" % reg)


def expect_state(reg, got, want, ids, fails, what):
    if got is None:
        return
    if ms(got["ents"], ids) != ms(want, ids):
        fails.append("%s after %s: holds %s, an ideal %s holds %s" % (
            reg, what, ms(got["ents"], ids), "container", ms(want, ids)))


def dict_step(case, reg, toks, t, fam, ids, fails):
    """reference semantics of the dictionary API (maps); returns True when handled."""
    pre = case.state[reg]["ents"]
    cap = case.caps[reg]
    got = t["snaps"].get(reg)
    op = toks[1]
    ret = t["ret"]
    oc = t["outcome"]
    cmp_ret = (lambda a: a) if ids else strip_ids

    def want_ret(w):
        if oc != "ok":
            fails.append("%s %s: ended %s, an ideal dictionary returns %s" % (reg, op, oc, w))
        elif cmp_ret(strip_slot(ret)) != cmp_ret(w):
            fails.append("%s %s: returned %s, an ideal dictionary returns %s" % (reg, op, ret, w))

    if op in ("insert", "insert_key_value", "checked_insert"):
        kc, ki = keyarg(toks[2])
        vi, vv = valarg(toks[3])
        old = find(pre, kc)
        if old is not None:
            newkey = (kc, ki) if op == "insert_key_value" else (old[0], old[1])
            post = [(newkey[0], newkey[1], vi, vv) if e is old else e for e in pre]
            if op == "insert":
                want_ret("+" + show_v(old, True))
            elif op == "insert_key_value":
                want_ret("+%s:%s" % (show_k(old, True), show_v(old, True)))
            else:
                want_ret("++" + show_v(old, True))
            expect_state(reg, got, post, ids, fails, op)
        elif len(pre) < cap:
            want_ret("+-" if op == "checked_insert" else "-")
            expect_state(reg, got, pre + [(kc, ki, vi, vv)], ids, fails, op)
        else:
            if op == "checked_insert":
                want_ret("-")
            elif not is_overflow(oc):
                fails.append("%s %s of a new key into a full container ended %s instead of panicking" % (reg, op, oc))
            expect_state(reg, got, pre, True, fails, op + " on a full container")
        return True
    if op in ("get", "get_key_value", "get_mut", "contains_key", "index", "index_mut"):
        c = probe_cls(toks[2])
        e = find(pre, c)
        add = int(toks[3]) if op in ("get_mut", "index_mut") else 0
        post = [(x[0], x[1], x[2], x[3] + add) if x is e else x for x in pre]
        if op == "contains_key":
            want_ret("1" if e else "0")
        elif op in ("index", "index_mut"):
            if e is None:
                if not is_own_panic(oc):
                    fails.append("%s %s of a missing key ended %s instead of the no-entry panic" % (reg, op, oc))
            else:
                want_ret("V%d.%d" % (e[2], e[3] + add))
        elif e is None:
            want_ret("-")
        elif op == "get_key_value":
            want_ret("+%s:%s" % (show_k(e, True), show_v(e, True)))
        else:
            want_ret("+V%d.%d" % (e[2], e[3] + add))
        expect_state(reg, got, post, ids, fails, op)
        return True
    if op in ("remove", "remove_entry"):
        c = probe_cls(toks[2])
        e = find(pre, c)
        if e is None:
            want_ret("-")
        elif op == "remove":
            want_ret("+" + show_v(e, True))
        else:
            want_ret("+%s:%s" % (show_k(e, True), show_v(e, True)))
        expect_state(reg, got, [x for x in pre if x is not e], ids, fails, op)
        return True
    if op == "retain":
        mask, bump = int(toks[2]), int(toks[3])
        if oc != "ok":
            fails.append("%s retain ended %s" % (reg, oc))
        retain_calls(case, t, pre, mask, got, reg, fails)
        if mask < 65536:
            post = [(x[0], x[1], x[2], x[3] + bump) for x in pre if (mask >> x[0]) & 1]
            expect_state(reg, got, post, ids, fails, op)
        return True
    if op == "clear":
        expect_state(reg, got, [], ids, fails, op)
        return True
    if op in ("len", "capacity", "is_empty"):
        w = {"len": str(len(pre)), "capacity": str(cap), "is_empty": "1" if not pre else "0"}[op]
        want_ret(w)
        expect_state(reg, got, pre, ids, fails, op)
        return True
    return False


def set_step(case, reg, toks, t, ids, fails):
    pre = case.state[reg]["ents"]
    cap = case.caps[reg]
    got = t["snaps"].get(reg)
    op = toks[1]
    ret = t["ret"]
    oc = t["outcome"]
    cmp_ret = (lambda a: a) if ids else strip_ids

    def want_ret(w):
        if oc != "ok":
            fails.append("%s %s: ended %s, an ideal set returns %s" % (reg, op, oc, w))
        elif cmp_ret(strip_slot(ret)) != cmp_ret(w):
            fails.append("%s %s: returned %s, an ideal set returns %s" % (reg, op, ret, w))

    if op in ("insert", "replace"):
        kc, ki = keyarg(toks[2])
        old = find(pre, kc)
        if old is not None:
            if op == "insert":
                want_ret("0")
                expect_state(reg, got, pre, ids, fails, op)
            else:
                want_ret("+" + show_k(old, True))
                expect_state(reg, got, [(kc, ki, None, None) if e is old else e for e in pre], ids, fails, op)
        elif len(pre) < cap:
            want_ret("1" if op == "insert" else "-")
            expect_state(reg, got, pre + [(kc, ki, None, None)], ids, fails, op)
        else:
            if not is_overflow(oc):
                fails.append("%s %s of a new element into a full set ended %s instead of panicking" % (reg, op, oc))
            expect_state(reg, got, pre, True, fails, op + " on a full set")
        return True
    if op in ("contains", "get", "remove", "take"):
        c = probe_cls(toks[2])
        e = find(pre, c)
        if op in ("contains", "remove"):
            want_ret("1" if e else "0")
        else:
            want_ret(("+" + show_k(e, True)) if e else "-")
        post = pre if op in ("contains", "get") else [x for x in pre if x is not e]
        expect_state(reg, got, post, ids, fails, op)
        return True
    if op == "retain":
        mask = int(toks[2])
        retain_calls(case, t, pre, mask, got, reg, fails)
        if mask < 65536:
            expect_state(reg, got, [x for x in pre if (mask >> x[0]) & 1], ids, fails, op)
        return True
    if op == "clear":
        expect_state(reg, got, [], ids, fails, op)
        return True
    if op in ("len", "capacity", "is_empty"):
        w = {"len": str(len(pre)), "capacity": str(cap), "is_empty": "1" if not pre else "0"}[op]
        want_ret(w)
        return True
    return False


def bulk_step(case, reg, toks, t, ids, fails):
    """from_iter / extend = inserting the items one by one in order."""
    op = toks[1]
    isset = reg.startswith("s")
    items = toks[3].strip("[]")
    items = [x for x in items.split(",") if x]
    cur = [] if op == "from_iter" else list(case.state[reg]["ents"])
    cap = case.caps[reg]
    overflow = False
    for it in items:
        if isset:
            kc, ki = keyarg(it)
            vi = vv = None
        else:
            a, b = it.split("=")
            kc, ki = keyarg(a)
            vi, vv = valarg(b)
        old = find(cur, kc)
        if old is not None:
            cur = [(old[0], old[1], vi, vv) if e is old else e for e in cur]
        elif len(cur) < cap:
            cur.append((kc, ki, vi, vv))
        else:
            overflow = True
            break
    got = t["snaps"].get(reg)
    if overflow:
        if not is_overflow(t["outcome"]):
            fails.append("%s %s with more distinct keys than capacity ended %s instead of panicking" % (reg, op, t["outcome"]))
        return True
    if t["outcome"] != "ok":
        fails.append("%s %s ended %s although all distinct keys fit" % (reg, op, t["outcome"]))
        return True
    expect_state(reg, got, cur, ids, fails, op + " (= inserting one by one)")
    if toks[2] == "1":
        pulls = sum(1 for e in t["ev"] if e == "p")
        if pulls != len(items) + 1:
            fails.append("%s %s pulled the source %d times for %d items" % (reg, op, pulls, len(items)))
    return True


def alg_step(case, reg, toks, t, fails):
    op = toks[1]
    a = case.state[reg]["ents"]
    if op in ("is_subset", "is_superset", "is_disjoint"):
        b = case.state[toks[2]]["ents"]
        ca, cb = {e[0] for e in a}, {e[0] for e in b}
        w = {"is_subset": ca <= cb, "is_superset": ca >= cb, "is_disjoint": not (ca & cb)}[op]
        if t["outcome"] == "ok" and t["ret"] != ("1" if w else "0"):
            fails.append("%s %s %s returned %s, mathematically %s" % (reg, op, toks[2], t["ret"], w))
        return True
    if op == "sub":
        b = case.state[toks[2]]["ents"]
        dst = toks[3]
        got = t["snaps"].get(dst)
        cb = {e[0] for e in b}
        want = sorted(e[0] for e in a if e[0] not in cb)
        if t["outcome"] == "ok" and got is not None and sorted(e[0] for e in got["ents"]) != want:
            fails.append("%s - %s gave classes %s, mathematically %s" % (reg, toks[2], sorted(e[0] for e in got["ents"]), want))
        return True
    if op == "alg":
        kind, other, script = toks[2], toks[3], toks[4]
        if kind == "difference_ref":
            kind = "difference"      # the same operation on sets of references to the elements
        b = case.state[other]["ents"]
        ca, cb = [e[0] for e in a], [e[0] for e in b]
        want = {"union": set(ca) | set(cb), "intersection": set(ca) & set(cb),
                "difference": set(ca) - set(cb), "symmetric_difference": set(ca) ^ set(cb)}[kind]
        if t["outcome"] != "ok" or not t["ret"]:
            return True
        parts = split_top(t["ret"][1:-1])
        yielded = []
        pi = 0
        ended = False
        consumed = False
        fork = None
        for ch in script_tokens(script):
            if pi >= len(parts):
                break
            p = parts[pi]
            if ch[0] == "t" or ch == "z":
                # nth(k) / last(): which element comes out depends on the (unspecified) order; it must
                # be an element of the result that was not yielded before, and after last() — or an
                # nth() that runs off the end — nothing may follow
                pi += 1
                remaining = len(want) - len(yielded)
                k = int(ch[1:]) if ch[0] == "t" else max(remaining - 1, 0)
                if p == "-":
                    if k < remaining:
                        fails.append("%s %s: %s returned None with %d items to come" % (reg, kind, ch, remaining))
                    ended = True
                    yielded += [c for c in want if c not in yielded]     # everything was consumed
                else:
                    m = re.match(r"\+@(\d+)\.(\d+)=K(\d+)\.(\d+)", p)
                    if m:
                        cls = int(m.group(3))
                        if k >= remaining or cls in yielded or cls not in want:
                            fails.append("%s %s: %s yielded %s; not yet yielded of the result: %s"
                                         % (reg, kind, ch, p, sorted(set(want) - set(yielded))))
                        skipped_unknown = True
                if ch == "z":
                    break
                # the identity of the skipped elements is not observable: stop the per-item accounting
                return True
            if ch == "n":
                pi += 1
                if p == "-":
                    ended = True
                else:
                    if ended:
                        fails.append("%s %s: yields an item after returning None" % (reg, kind))
                    m = re.match(r"\+@(\d+)\.(\d+)=K(\d+)\.(\d+)", p)
                    if m:
                        operand, slot, cls, kid = map(int, m.groups())
                        yielded.append(cls)
                        if kind in ("intersection", "difference"):
                            if operand != 0 or not any(e[0] == cls and e[1] == kid for e in a):
                                fails.append("%s %s: yields an element that is not the left operand's own" % (reg, kind))
            elif ch == "h":
                pi += 1
                m = re.match(r"(\d+)\.\.(\d*)", p)
                if m:
                    lo = int(m.group(1))
                    hi = int(m.group(2)) if m.group(2) else None
                    remaining = len(want) - len(yielded)
                    if not ended and (lo > remaining or (hi is not None and hi < remaining)):
                        fails.append("%s %s: size_hint %s does not bracket the %d items still to come" % (reg, kind, p, remaining))
            elif ch in ("x", "f"):
                pi += 1
                remaining = len(want) - len(yielded)
                if ch == "x" and (not p.isdigit() or int(p) != remaining):
                    fails.append("%s %s: count()=%s but %d items remain" % (reg, kind, p, remaining))
                if ch == "f":
                    items = [x for x in split_top(p[1:-1]) if x]
                    cl = []
                    for x in items:
                        m = re.match(r"@(\d+)\.(\d+)=K(\d+)\.(\d+)", x)
                        if m:
                            cl.append(int(m.group(3)))
                            if kind in ("intersection", "difference") and (
                                    int(m.group(1)) != 0 or not any(e[0] == int(m.group(3)) and e[1] == int(m.group(4)) for e in a)):
                                fails.append("%s %s: fold visits an element that is not the left operand's own: %s" % (reg, kind, x))
                    if sorted(cl + yielded) != sorted(want):
                        fails.append("%s %s: fold visits %s after next yielded %s; the result is %s" % (reg, kind, cl, yielded, sorted(want)))
                    yielded += cl
                consumed = True
                break
            elif ch in ("d", "D"):
                pi += 1
                if p != '"nodebug"':
                    inb = lambda e: any(x[0] == e[0] for x in b)
                    ina = lambda e: any(x[0] == e[0] for x in a)
                    own = {"union": [(e[0], e[1]) for e in b] + [(e[0], e[1]) for e in a if not inb(e)],
                           "intersection": [(e[0], e[1]) for e in a if inb(e)],
                           "difference": [(e[0], e[1]) for e in a if not inb(e)],
                           "symmetric_difference": [(e[0], e[1]) for e in a if not inb(e)] +
                                                   [(e[0], e[1]) for e in b if not ina(e)]}[kind]
                    togo = sorted(x for x in own if x[0] not in yielded)
                    shown = sorted(dbg_keys_in(p))
                    if shown != togo:
                        fails.append("%s %s: Debug after yielding %s prints the elements %s, still to come are %s"
                                     % (reg, kind, yielded, shown, togo))
            elif ch == "c":
                if fork is None:
                    fork = list(yielded)
            elif ch == "l":
                pass
        if fork is not None and parts and parts[-1].startswith("[") and pi < len(parts):
            ms_ = [m for m in (re.match(r"@(\d+)\.(\d+)=K(\d+)\.(\d+)", x)
                               for x in split_top(parts[-1][1:-1]) if x) if m]
            cl = [int(m.group(3)) for m in ms_]
            if kind in ("intersection", "difference") and any(
                    int(m.group(1)) != 0 or not any(e[0] == int(m.group(3)) and e[1] == int(m.group(4)) for e in a) for m in ms_):
                fails.append("%s %s: the clone yields an element that is not the left operand's own: %s" % (reg, kind, parts[-1]))
            if sorted(cl + fork) != sorted(want):
                fails.append("%s %s: the clone taken after %s yields %s; the result is %s" % (reg, kind, fork, cl, sorted(want)))
        if len(set(yielded)) != len(yielded):
            fails.append("%s %s: an element is yielded twice: %s" % (reg, kind, yielded))
        if not set(yielded) <= want:
            fails.append("%s %s: yields %s, the mathematical result is %s" % (reg, kind, yielded, sorted(want)))
        if ended and set(yielded) != want:
            fails.append("%s %s: ended after %s, the mathematical result is %s" % (reg, kind, yielded, sorted(want)))
        # operands unchanged
        for r2, pre in ((reg, a), (other, b)):
            g = t["snaps"].get(r2)
            if g is not None and g["ents"] != pre:
                fails.append("%s %s: operand %s changed" % (reg, kind, r2))
        return True
    return False


def eq_step(case, reg, toks, t, fails):
    a = case.state[reg]["ents"]
    b = case.state[toks[2]]["ents"]
    w = sorted((e[0], e[3]) for e in a) == sorted((e[0], e[3]) for e in b)
    if t["outcome"] == "ok" and t["ret"] != ("1" if w else "0"):
        fails.append("%s == %s returned %s; same keys with equal values: %s" % (reg, toks[2], t["ret"], w))
    if t["outcome"] != "ok" and case.lawful and not case.injected and "inject" not in t["outcome"]:
        fails.append("%s == %s ended %s; a comparison never panics by itself (same keys with equal values: %s)" % (reg, toks[2], t["outcome"], w))
    for r2, pre in ((reg, a), (toks[2], b)):
        g = t["snaps"].get(r2)
        if g is not None and g["ents"] != pre:
            fails.append("comparison changed operand %s" % r2)
    return True


def extref_step(case, reg, toks, t, fails):
    """`Extend<&T>`: a set of plain numbers built from the first list, extended by reference with the
    second = the distinct numbers in order of first appearance; more than `capacity` of them: panic."""
    cap = case.caps[reg]
    nums = [int(x) for x in toks[2].strip("[]").split(",") if x] + [int(x) for x in toks[3].strip("[]").split(",") if x]
    want = []
    for x in nums:
        if x not in want:
            want.append(x)
    if len(want) > cap:
        if t["outcome"] == "ok":
            fails.append("%s extend_ref: %d distinct elements went into capacity %d" % (reg, len(want), cap))
        return True
    if t["outcome"] != "ok":
        fails.append("%s extend_ref of %d distinct elements (capacity %d) ended %s" % (reg, len(want), cap, t["outcome"]))
        return True
    exp = "[%d,[%s]]" % (len(want), ",".join(str(x) for x in want))
    if t["ret"] != exp:
        fails.append("%s extend_ref %s %s gives %s, the distinct elements in order are %s" % (reg, toks[2], toks[3], t["ret"], exp))
    return True


def extend_from_step(case, reg, toks, t, fails):
    """`a.extend(b)`, `b` consumed: `a` keeps its own elements and gains one element of every class
    of `b` it did not hold (`b`'s own object); `b` is empty afterwards; more distinct elements than
    `a`'s capacity: the container's panic."""
    a = case.state[reg]["ents"]
    b = case.state[toks[2]]["ents"]
    cap = case.caps[reg]
    new = []
    for e in b:
        if find(a, e[0]) is None and all(x[0] != e[0] for x in new):
            new.append(e)
    ga, gb = t["snaps"].get(reg), t["snaps"].get(toks[2])
    if len(a) + len(new) > cap:
        if t["outcome"] == "ok":
            fails.append("%s extend_from %s: %d distinct elements went into capacity %d" % (reg, toks[2], len(a) + len(new), cap))
        return True
    if t["outcome"] != "ok":
        fails.append("%s extend_from %s ended %s" % (reg, toks[2], t["outcome"]))
        return True
    if ga is not None:
        got = [(e[0], e[1]) for e in ga["ents"]]
        want = [(e[0], e[1]) for e in a] + [(e[0], e[1]) for e in new]
        if sorted(got) != sorted(want):
            fails.append("%s after extend_from %s holds %s, expected its own %s plus %s" % (
                reg, toks[2], got, want[:len(a)], want[len(a):]))
    if gb is not None and (gb["len"] != 0 or gb["ents"]):
        fails.append("%s is not empty after it was consumed: %s" % (toks[2], gb["ents"]))
    return True


def aux_step(case, reg, toks, t, fails):
    """auxiliary element shapes: `clone_plain` (destructor-free elements with a counting Clone) and
    `serde_zst` (zero-sized elements)."""
    op = toks[1]
    if t["outcome"] != "ok":
        fails.append("%s %s ended %s" % (reg, op, t["outcome"]))
        return True
    if op == "clone_plain":
        items = [x for x in toks[2].strip("[]").split(",") if x]
        ents = []
        for it in items:
            k, _, v = it.partition("=")
            for e in ents:
                if e[0] == k:
                    e[1] = v
                    break
            else:
                ents.append([k, v])
        n = len(ents)
        isset = reg.startswith("s")
        body = ",".join(e[0] if isset else "%s:%s" % (e[0], e[1]) for e in ents)
        want = "[%d,%d,%d,[%s],1]" % (n, n, 0 if isset else n, body)
        if t["ret"] != want:
            fails.append("%s clone of %d plain entries reports %s, expected %s (len, key clones, value clones, entries, equal)"
                         % (reg, n, t["ret"], want))
    if op == "serde_zst":
        n = min(int(toks[2]), 1)
        want = "[%d,%d,%d]" % (n, n, n)
        if t["ret"] != want:
            fails.append("%s serde of %d zero-sized element(s) reports %s, expected %s (announced, serialized, decoded)"
                         % (reg, n, t["ret"], want))
    return True


def clone_step(case, reg, toks, t, fails):
    src = case.state[reg]["ents"]
    dst = toks[2]
    g = t["snaps"].get(dst)
    if t["outcome"] != "ok" or g is None:
        return True
    if sorted((e[0], e[3]) for e in g["ents"]) != sorted((e[0], e[3]) for e in src):
        fails.append("clone of %s holds %s, the original holds %s" % (reg, g["ents"], src))
    ck = sum(1 for e in t["ev"] if e.startswith("ck"))
    cv = sum(1 for e in t["ev"] if e.startswith("cv"))
    wantv = len(src) if reg.startswith("m") else 0
    if ck != len(src) or cv != wantv:
        fails.append("clone of %s made %d key clones and %d value clones for %d entries" % (reg, ck, cv, len(src)))
    ids_src = {e[1] for e in src} | {e[2] for e in src if e[2] is not None}
    ids_dst = {e[1] for e in g["ents"]} | {e[2] for e in g["ents"] if e[2] is not None}
    if ids_src & ids_dst:
        fails.append("clone of %s shares objects with the original" % reg)
    gs = t["snaps"].get(reg)
    if gs is not None and gs["ents"] != src and reg != dst:
        fails.append("cloning changed the original %s" % reg)
    return True


def consume_step(case, reg, toks, t, fails):
    """drain / into_iter: `take` is a number of `next` calls, `tK` (= `nth(K)`) or `z` (= `last()`);
    output `[[items],len,(debug,)size_hint(,count)]` resp. `[[items],consumed]`."""
    op = toks[1]
    pre = case.state[reg]["ents"]
    isset = reg.startswith("s")
    tk = toks[2] if (op == "drain" or isset) else toks[3]
    end = toks[-1]
    if t["outcome"] != "ok" or not t["ret"]:
        return True
    parts = split_top(t["ret"][1:-1])
    items = [x for x in split_top(parts[0][1:-1]) if x]
    kind = "pairs" if (op == "drain" or isset) else toks[2]

    def show(e):
        if isset or kind == "keys":
            return "K%d.%d" % (e[0], e[1])
        if kind == "values":
            return "V%d.%d" % (e[2], e[3])
        return "K%d.%d:V%d.%d" % e
    allshown = [show(e) for e in pre]
    order = allshown if op == "drain" else list(reversed(allshown))     # documented yield order is not
    # part of the property: `order` is only used for nth/last, which are defined relative to next
    if tk == "z":
        want_n, gone = (1 if pre else 0), len(pre)
    elif tk.startswith("t"):
        k = int(tk[1:])
        want_n, gone = (1 if k < len(pre) else 0), min(k + 1, len(pre))
    else:
        want_n = gone = min(int(tk), len(pre))
    if len(items) != want_n or len(set(items)) != len(items) or not set(items) <= set(allshown):
        fails.append("%s %s %s yielded %s; it held %s" % (reg, op, tk, items, allshown))
        return True
    g = t["snaps"].get(reg)
    if g is not None and (g["len"] != 0 or g["ents"]):
        fails.append("%s is not empty after %s: %s" % (reg, op, g["ents"]))
    if tk == "z" or parts[1] == "consumed":
        return True
    remaining = int(parts[1])
    if remaining != len(pre) - gone:
        fails.append("%s %s: len() after %s is %d, %d remain" % (reg, op, tk, remaining, len(pre) - gone))
    has_dbg = not isset
    hint_i = 3 if has_dbg else 2
    if len(parts) > hint_i and parts[hint_i] != "%d..%d" % (len(pre) - gone, len(pre) - gone):
        fails.append("%s %s: size_hint after %s is %s, %d remain" % (reg, op, tk, parts[hint_i], len(pre) - gone))
    if end == "count" and (len(parts) <= hint_i + 1 or parts[hint_i + 1] != str(len(pre) - gone)):
        fails.append("%s %s: count() after %s is %s, %d remain" % (reg, op, tk, parts[hint_i + 1:], len(pre) - gone))
    if has_dbg and tk.isdigit() and parts[2] != '"nodebug"' and not (kind != "keys" and any(e[3] is None for e in pre)):
        rest = [e for e in pre if show(e) not in items]
        lk = "keys" if kind == "keys" else kind
        cands = {esc_str(dbg_list(rest, lk, False)), esc_str(dbg_list(list(reversed(rest)), lk, False))}
        if parts[2] not in cands:
            fails.append("%s %s: Debug after %d items prints %s, the entries not yet yielded render as %s"
                         % (reg, op, gone, parts[2], esc_str(dbg_list(rest, lk, False))))
    return True


def umap_iter_step(case, sreg, toks, t, fails):
    """borrowing iterators of a `Map<Key, (), N>`: every entry once, exact len / size_hint / count."""
    pre = case.state[sreg]["ents"]
    kind, script = toks[2], toks[4]
    parts = split_top(t["ret"][1:-1]) if t["ret"] else []
    pos = pi = 0
    for ch in script_tokens(script):
        if pi >= len(parts):
            break
        p = parts[pi]
        rem = len(pre) - min(pos, len(pre))
        if ch[0] == "t":
            pos += int(ch[1:])
            ch = "n"
        if ch == "n":
            pi += 1
            if pos < len(pre):
                e = pre[pos]
                w = ("+@%d=()" % pos) if kind in ("values", "values_mut") else "+@%d=K%d.%d" % (pos, e[0], e[1])
                if strip_slot(p) != strip_slot(w):
                    fails.append("%s as map, %s: step %d yielded %s, the entry there is %s" % (sreg, kind, pos, p, w))
            elif p != "-":
                fails.append("%s as map, %s: yielded %s after the end" % (sreg, kind, p))
            pos += 1
        elif ch == "l":
            pi += 1
            if p.isdigit() and int(p) != rem:
                fails.append("%s as map, %s: len()=%s with %d items to come" % (sreg, kind, p, rem))
        elif ch == "h":
            pi += 1
            if p != "%d..%d" % (rem, rem):
                fails.append("%s as map, %s: size_hint %s with %d items to come" % (sreg, kind, p, rem))
        elif ch in ("x", "f"):
            pi += 1
            if not p.isdigit() or int(p) != rem:
                fails.append("%s as map, %s: count()=%s with %d items to come" % (sreg, kind, p, rem))
            break
        elif ch in ("d", "D"):
            pi += 1
        elif ch == "z":
            break
    return True


def script_tokens(script):
    """script letters; `t<digit>` (nth) is one token."""
    out, i = [], 0
    while i < len(script):
        if script[i] == "t" and i + 1 < len(script):
            out.append(script[i:i + 2])
            i += 2
        else:
            out.append(script[i])
            i += 1
    return out


def iter_step(case, reg, toks, t, fails):
    pre = case.state[reg]["ents"]
    isset = reg.startswith("s")
    if isset:
        kind, add, script = "keys", 0, toks[2]
    else:
        kind, add, script = toks[2], int(toks[3]), toks[4]
    if t["outcome"] != "ok" or not t["ret"]:
        fails.append("%s iter ended %s" % (reg, t["outcome"]))
        return True
    parts = split_top(t["ret"][1:-1])
    pos = 0
    pi = 0
    mut = kind in ("iter_mut", "values_mut")
    fork = None
    ended = False
    touched = set()          # positions whose value was written through the iterator
    for ch in script_tokens(script):
        if pi >= len(parts):
            break
        p = parts[pi]
        rem = len(pre) - min(pos, len(pre))
        if ch[0] == "t":
            pos += int(ch[1:])       # nth(k): k entries are skipped (never handed out), then next
            ch = "n"
        elif ch == "z":
            # last(): the final entry, everything before it is skipped
            if rem > 0:
                pos = len(pre) - 1
            ch = "n"
            ended = True
        if ch == "n":
            pi += 1
            if pos < len(pre):
                touched.add(pos)
                e = pre[pos]
                val = (e[3] + add) if (mut and e[3] is not None) else e[3]
                if kind in ("iter", "iter_mut"):
                    w = "+@%d=K%d.%d:V%d.%d" % (pos, e[0], e[1], e[2], val)
                elif kind == "keys":
                    w = "+@%d=K%d.%d" % (pos, e[0], e[1])
                else:
                    w = "+@%d=V%d.%d" % (pos, e[2], val)
                if strip_slot(p) != strip_slot(w):
                    fails.append("%s %s: step %d yielded %s, the entry there is %s" % (reg, kind, pos, p, w))
            elif p != "-":
                fails.append("%s %s: yielded %s after the end" % (reg, kind, p))
            pos += 1
            if ended:
                break
        elif ch == "l":
            pi += 1
            if p.isdigit() and int(p) != rem:
                fails.append("%s %s: len()=%s with %d items to come" % (reg, kind, p, rem))
        elif ch == "h":
            pi += 1
            if p != "%d..%d" % (rem, rem):
                fails.append("%s %s: size_hint %s with %d items to come" % (reg, kind, p, rem))
        elif ch in ("x", "f"):
            pi += 1
            if not p.isdigit() or int(p) != rem:
                fails.append("%s %s: %s=%s with %d items to come" % (reg, kind, "count()" if ch == "x" else "fold", p, rem))
            ended = True
            break
        elif ch in ("d", "D"):
            pi += 1
            if p != '"nodebug"' and not (kind != "keys" and any(e[3] is None for e in pre)):
                lk = {"iter": "pairs", "iter_mut": "pairs", "keys": "keys", "values": "values", "values_mut": "values"}[kind]
                w = esc_str(dbg_list(pre[min(pos, len(pre)):], lk, ch == "D"))
                if p != w:
                    fails.append("%s %s: Debug after %d items prints %s, the entries not yet yielded render as %s"
                                 % (reg, kind, pos, p, w))
        elif ch == "c":
            if not mut and fork is None:
                fork = min(pos, len(pre))
    if fork is not None and parts and parts[-1].startswith("["):
        def show(i):
            e = pre[i]
            if kind == "iter":
                return "@%d=K%d.%d:V%d.%d" % (i, e[0], e[1], e[2], e[3])
            if kind == "keys":
                return "@%d=K%d.%d" % (i, e[0], e[1])
            return "@%d=V%d.%d" % (i, e[2], e[3])
        want = "[" + ",".join(show(i) for i in range(fork, len(pre))) + "]"
        if not isset and any(e[3] is None for e in pre):
            want = None
        if want is not None and strip_slot(parts[-1]) != strip_slot(want):
            fails.append("%s %s: the clone taken at position %d yields %s, the entries from there are %s"
                         % (reg, kind, fork, parts[-1], want))
    g = t["snaps"].get(reg)
    if g is not None:
        want = [(e[0], e[1], e[2], (e[3] + add) if (mut and i in touched and e[3] is not None) else e[3]) for i, e in enumerate(pre)]
        if g["ents"] != want:
            fails.append("%s after %s: holds %s, expected %s" % (reg, kind, g["ents"], want))
    return True


def entry_step(case, reg, toks, t, fails):
    """entry(k) … : Occupied iff present; or_insert* insert only when vacant; occupied/vacant
    methods = the direct operations on that key."""
    pre = case.state[reg]["ents"]
    cap = case.caps[reg]
    kc, ki = keyarg(toks[2])
    mods = [int(x) for x in toks[3].strip("[]").split(",") if x]
    fin = toks[4].split(":")
    e = find(pre, kc)
    got = t["snaps"].get(reg)
    want_kind = "occ" if e is not None else "vac"
    if t["outcome"] == "ok":
        parts = split_top(t["ret"][1:-1])
        if parts and parts[0] != want_kind:
            fails.append("%s entry: reported %s, the key is %s" % (reg, parts[0], "present" if e else "absent"))
            return True
        r = parts[1] if len(parts) > 1 else ""
    else:
        r = None
    # and_modify runs only when occupied
    cur = [(x[0], x[1], x[2], x[3] + (sum(mods) if x is e else 0)) for x in pre]
    e2 = find(cur, kc)
    name = fin[0]
    if name in ("oi", "oiw", "oiwk", "od", "v.insert"):
        if name == "v.insert" and e2 is not None:
            want, post = "occupied", cur
        elif e2 is not None:
            want, post = "@%d=V%d.%d" % (cur.index(e2), e2[2], e2[3]), cur
        else:
            vi, vv = valarg(fin[1])
            if len(cur) < cap:
                post = cur + [(kc, ki, vi, vv)]
                want = "@%d=V%d.%d" % (len(cur), vi, vv)
            else:
                if not is_overflow(t["outcome"]):
                    fails.append("%s entry(..).%s of a new key on a full map ended %s" % (reg, name, t["outcome"]))
                expect_state(reg, got, cur, True, fails, "rejected entry insert")
                return True
        calls = [x for x in t["ev"] if x in ("c2", "c3", "c4")]
        if name in ("oiw", "oiwk", "od") and name != "od":
            if (len(calls) == 1) != (e is None):
                fails.append("%s %s: default closure ran %d times, entry was %s" % (reg, name, len(calls), want_kind))
    elif name == "o.get" and e2 is not None:
        want, post = "@%d=V%d.%d" % (cur.index(e2), e2[2], e2[3]), cur
    elif name == "o.into_mut" and e2 is not None:
        want, post = "@%d=V%d.%d" % (cur.index(e2), e2[2], e2[3]), cur
    elif name == "o.get_mut" and e2 is not None:
        a = int(fin[1])
        post = [(x[0], x[1], x[2], x[3] + (a if x is e2 else 0)) for x in cur]
        want = "@%d=V%d.%d" % (cur.index(e2), e2[2], e2[3] + a)
    elif name == "o.insert" and e2 is not None:
        vi, vv = valarg(fin[1])
        post = [(x[0], x[1], vi, vv) if x is e2 else x for x in cur]
        want = "V%d.%d" % (e2[2], e2[3])
    elif name == "o.remove" and e2 is not None:
        post, want = [x for x in cur if x is not e2], "V%d.%d" % (e2[2], e2[3])
    elif name == "o.remove_entry" and e2 is not None:
        post, want = [x for x in cur if x is not e2], "K%d.%d:V%d.%d" % e2
    elif name == "o.key" and e2 is not None:
        post, want = cur, "K%d.%d" % (e2[0], e2[1])
    elif name in ("key",):
        post, want = cur, ("K%d.%d" % (e2[0], e2[1]) if e2 is not None else "K%d.%d" % (kc, ki))
    elif name in ("v.key", "v.into_key") and e2 is None:
        post, want = cur, "K%d.%d" % (kc, ki)
    else:
        return True
    if t["outcome"] != "ok":
        fails.append("%s entry … %s ended %s" % (reg, name, t["outcome"]))
        return True
    if r != want:
        fails.append("%s entry(%d).%s returned %s, the direct operation gives %s" % (reg, kc, name, r, want))
    if name in ("o.remove", "o.remove_entry"):
        if got is not None and ms(got["ents"], True) != ms(post, True):
            fails.append("%s after entry … %s: holds %s, expected %s" % (reg, name, got["ents"], post))
    elif got is not None and got["ents"] != post:
        fails.append("%s after entry … %s: holds %s, expected %s" % (reg, name, got["ents"], post))
    return True


def esc_str(s):
    return '"' + s.replace("\n", "\\n").replace(" ", "~") + '"'


def indent_lines(s):
    return "\n".join(("    " + l) if l else l for l in s.split("\n"))


def dbg_key(e, alt):
    return ("K(\n    %d,\n    %d,\n)" % (e[0], e[1])) if alt else "K%d.%d" % (e[0], e[1])


def dbg_val(e, alt):
    return ("V(\n    %d,\n    %d,\n)" % (e[2], e[3])) if alt else "V%d.%d" % (e[2], e[3])


def dbg_item(e, kind, alt):
    """std's Debug of one yielded item: a key, a value, or the tuple `(key, value)`."""
    if kind == "keys":
        return dbg_key(e, alt)
    if kind == "values":
        return dbg_val(e, alt)
    if alt:
        return "(\n" + indent_lines(dbg_key(e, True)) + ",\n" + indent_lines(dbg_val(e, True)) + ",\n)"
    return "(" + dbg_key(e, False) + ", " + dbg_val(e, False) + ")"


def dbg_list(ents, kind, alt):
    """std's `debug_list` rendering of the items."""
    if not alt:
        return "[" + ", ".join(dbg_item(e, kind, False) for e in ents) + "]"
    if not ents:
        return "[]"
    return "[\n" + "".join(indent_lines(dbg_item(e, kind, True)) + ",\n" for e in ents) + "]"


RE_DBG_K = re.compile(r"K(?:(\d+)\.(\d+)|\(\\n~+(\d+),\\n~+(\d+),\\n~*\))")


def dbg_keys_in(s):
    """the (class, id) of every key printed in an escaped Debug string (plain or alternate form)."""
    out = []
    for m in RE_DBG_K.finditer(s):
        g = m.groups()
        out.append((int(g[0]), int(g[1])) if g[0] is not None else (int(g[2]), int(g[3])))
    return out


def fmt_step(case, reg, toks, t, fails):
    """Debug/Display of a container: std's debug_map/debug_set layout resp. `{a, b}` over the entries
    in iteration order."""
    pre = case.state[reg]["ents"]
    kind = toks[2]
    isset = reg.startswith("s")
    if t["outcome"] != "ok":
        fails.append("%s fmt %s ended %s" % (reg, kind, t["outcome"]))
        return True
    if kind in ("display", "display>", "display#"):
        items = [("k%d.%d" % (e[0], e[1])) if isset else "k%d.%d: v%d.%d" % e for e in pre]
        want = "{" + ", ".join(items) + "}"
    elif kind in ("debug", "debug>"):
        items = [dbg_key(e, False) if isset else dbg_key(e, False) + ": " + dbg_val(e, False) for e in pre]
        want = "{" + ", ".join(items) + "}"
    elif kind == "debug#":
        if not pre:
            want = "{}"
        else:
            want = "{\n"
            for e in pre:
                if isset:
                    want += indent_lines(dbg_key(e, True)) + ",\n"
                else:
                    v = dbg_val(e, True).split("\n")
                    v = "\n".join([v[0]] + [("    " + l) if l else l for l in v[1:]])
                    want += indent_lines(dbg_key(e, True)) + ": " + v + ",\n"
            want += "}"
    else:
        return True
    if t["ret"] != esc_str(want):
        fails.append("%s fmt %s printed %s, the standard rendering of its entries is %s" % (reg, kind, t["ret"], esc_str(want)))
    g = t["snaps"].get(reg)
    if g is not None and g["ents"] != pre:
        fails.append("formatting changed %s" % reg)
    return True


def gdm_step(case, reg, toks, t, fails):
    """get_disjoint_mut: per position what get_mut finds (slot and value), pairwise distinct slots;
    two equal requests that are present must panic."""
    pre = case.state[reg]["ents"]
    add = int(toks[2])
    reqs = [x for x in toks[3].strip("[]").split(",") if x]
    classes = [probe_cls(x) for x in reqs]
    dup_present = any(classes.count(c) > 1 and find(pre, c) is not None for c in classes)
    if dup_present:
        if not is_own_panic(t["outcome"]):
            fails.append("%s get_disjoint_mut with a present key requested twice ended %s instead of panicking" % (reg, t["outcome"]))
        return True
    if len(set(classes)) != len(classes):
        return True                       # equal absent keys: not specified
    if t["outcome"] != "ok":
        fails.append("%s get_disjoint_mut with pairwise different keys ended %s" % (reg, t["outcome"]))
        return True
    parts = [x for x in split_top(t["ret"][1:-1])] if t["ret"] not in ("[]", None) else []
    if len(parts) != len(classes):
        fails.append("%s get_disjoint_mut returned %d positions for %d keys" % (reg, len(parts), len(classes)))
        return True
    slots = []
    for c, p in zip(classes, parts):
        e = find(pre, c)
        if e is None:
            if p != "-":
                fails.append("%s get_disjoint_mut: missing key %d got %s" % (reg, c, p))
        else:
            pos = pre.index(e)
            w = "+@%d=V%d.%d" % (pos, e[2], e[3] + add)
            if p != w:
                fails.append("%s get_disjoint_mut: key %d got %s, get_mut gives %s" % (reg, c, p, w))
            m = re.match(r"\+@(\d+)=", p)
            if m:
                slots.append(int(m.group(1)))
    if len(set(slots)) != len(slots):
        fails.append("%s get_disjoint_mut returned aliasing references: slots %s" % (reg, slots))
    g = t["snaps"].get(reg)
    if g is not None:
        want = [(e[0], e[1], e[2], e[3] + (add if e[0] in classes else 0)) for e in pre]
        if g["ents"] != want:
            fails.append("%s after writing through get_disjoint_mut: holds %s, expected %s" % (reg, g["ents"], want))
    return True


def serde_step(case, reg, toks, t, fails):
    src = case.state[reg]["ents"]
    dst = toks[2]
    dcap = case.caps[dst]
    if len(src) > dcap:
        return True                      # insufficient capacity: outside the property
    if t["outcome"] != "ok":
        fails.append("serde round trip of %s into capacity %d ended %s" % (reg, dcap, t["outcome"]))
        return True
    parts = t["ret"].strip("[]").split(",")
    if len(parts) != 3 or parts[2] != "ok":
        fails.append("serde round trip of %s (%d entries) into capacity %d: %s" % (reg, len(src), dcap, t["ret"]))
        return True
    if int(parts[0]) != len(src) or int(parts[1]) != len(src):
        fails.append("serialize announced %s and emitted %s entries, len() is %d" % (parts[0], parts[1], len(src)))
    g = t["snaps"].get(dst)
    if g is not None and ms(g["ents"], False) != ms(src, False):
        fails.append("decoded container holds %s, the original holds %s" % (ms(g["ents"], False), ms(src, False)))
    return True


def deser_step(case, reg, toks, t, fails):
    """deserializing a token stream = inserting its entries one by one in order (repeated keys
    included: the later value wins, one entry stays); content by class and value, identities are fresh."""
    isset = reg.startswith("s")
    items = [x for x in toks[3].strip("[]").split(",") if x]
    cap = case.caps[reg]
    cur = {}
    order = []
    overflow = False
    for it in items:
        if isset:
            kc, vv = int(it), None
        else:
            a, b = it.split("=")
            kc, vv = int(a), int(b)
        if kc in cur:
            cur[kc] = vv
        elif len(order) < cap:
            order.append(kc)
            cur[kc] = vv
        else:
            overflow = True
            break
    if overflow:
        if t["outcome"] == "ok" and t["ret"].endswith(",ok]"):
            fails.append("%s deser with more distinct keys than capacity %d ended ok" % (reg, cap))
        return True
    if t["outcome"] != "ok" or not t["ret"].endswith(",ok]"):
        fails.append("%s deser of %d entries (%d distinct) into capacity %d ended %s %s" % (reg, len(items), len(order), cap, t["outcome"], t["ret"]))
        return True
    g = t["snaps"].get(reg)
    if g is not None:
        got = sorted((e[0], e[3]) for e in g["ents"])
        want = sorted((k, cur[k]) for k in order)
        if got != want or g["len"] != len(order):
            fails.append("%s after deser holds %s (len %d), inserting the entries one by one gives %s" % (reg, got, g["len"], want))
    return True


def run(prop, ops_path, impl_path, profile):
    """-> list of failures: dict(case, op, what, impl, case_lines)"""
    import compare
    LAST_COUNT[0] = 0
    fam = FAMILIES.get(prop, set())
    if not fam:
        return []
    ids = prop in ("C02", "C12", "C03", "C10", "C15", "C16")
    cases = compare.load_cases(ops_path)
    impl = [l.rstrip("\n") for l in open(impl_path)]
    fails_all = []
    idx = 0
    for c in cases:
        n = len(c["traced"])
        il = impl[idx:idx + n]
        idx += n
        if len(il) < n or not c["traced"][0].startswith("case "):
            continue
        case = Case(c["traced"][0])
        first = None
        for j in range(1, n):
            opl = c["traced"][j]
            if j > 1:
                try:
                    case.calls += int(parse_line(il[j - 1]).get("nc") or 0)
                except (TypeError, ValueError):
                    pass
            t = parse_line(il[j])
            toks = opl.split()
            fails = []
            if toks[0] == "inject":
                case.injected = True
                continue
            if toks[0] == "end":
                if "leak" in fam and not case.injected and not case.forgot and t["leaks"] not in (None, "-"):
                    fails.append("objects never destroyed although nothing was forgotten: " + t["leaks"])
                if fails and first is None:
                    first = (j, opl, fails[0], il[j])
                continue
            reg = toks[0]
            if "forget" in opl:
                case.forgot = True
            if re.fullmatch(r"u[01]", reg):
                # map-API view of a set register (`Map<Key, (), N>`): the iterator oracle applies, with
                # `()` for the values; otherwise only the state is kept
                if "iter" in fam and len(toks) >= 5 and toks[1] == "iter" and case.lawful and t["outcome"] == "ok":
                    try:
                        umap_iter_step(case, "s" + reg[1], toks, t, fails)
                    except Exception as ex:       # noqa: BLE001
                        fails.append("oracle-error: %r" % (ex,))
                if fam & {"gdm", "unchecked"} and len(toks) >= 4 and toks[1] in ("gdm", "gdum") and case.lawful:
                    pre = case.state["s" + reg[1]]["ents"]
                    classes = [probe_cls(x) for x in toks[3].strip("[]").split(",") if x]
                    dup_present = any(classes.count(c) > 1 and find(pre, c) is not None for c in classes)
                    if dup_present and toks[1] == "gdm":
                        if not is_own_panic(t["outcome"]):
                            fails.append("%s get_disjoint_mut (zero-sized values) with a present key requested twice ended %s "
                                         "with %s instead of panicking" % (reg, t["outcome"], t["ret"]))
                    elif len(set(classes)) == len(classes) and t["outcome"] == "ok":
                        want = "[" + ",".join(("+@%d=()" % [e[0] for e in pre].index(c)) if find(pre, c) is not None else "-"
                                              for c in classes) + "]"
                        if strip_slot(t["ret"]) != strip_slot(want):
                            fails.append("%s get_disjoint_mut (zero-sized values) returned %s, get_mut gives %s" % (reg, t["ret"], want))
                for r2, sn in t["snaps"].items():
                    if sn is not None:
                        if "struct" in fam:
                            check_struct(case, r2, sn, fam, fails)
                        case.state[r2] = sn
                real = [f for f in fails if not f.startswith("oracle-error")]
                if real and first is None:
                    first = (j, opl, real[0], il[j])
                continue
            if not re.fullmatch(r"[ms][01]", reg) or len(toks) < 2:
                continue
            op = toks[1]
            LAST_COUNT[0] += 1
            if "forget" in opl:
                case.forgot = True
            # `*dst = src.clone()` / `*dst = &a - &b`: the destination register now holds a container
            # of the source's capacity
            if op in ("clone", "clone_from") and len(toks) >= 3 and t["outcome"] == "ok":
                case.caps[toks[2]] = case.caps[reg]
            if op == "sub" and len(toks) >= 4 and t["outcome"] == "ok":
                case.caps[toks[3]] = case.caps[reg]
            if "struct" in fam:
                for r2, sn in t["snaps"].items():
                    check_struct(case, r2, sn, fam, fails)
            if op == "shapes" and (t["outcome"] != "ok" or t["ret"] != '"ok"'):
                fails.append("scenario on another element shape: %s %s" % (t["outcome"], t["ret"]))
            if op == "sweep" and (t["outcome"] != "ok" or t["ret"] != '"ok"'):
                fails.append("differential sweep over element shapes (families %s, seed %s): %s %s" % (
                    toks[2] if len(toks) > 2 else "?", toks[3] if len(toks) > 3 else "?", t["outcome"],
                    t["ret"].replace("~", " ")))
            if op in ("gdm", "gdum") and t["outcome"] == "ok" and t["ret"] and fam & {"struct", "gdm", "unchecked"}:
                # whatever `==` answers: two of the returned `&mut` never point into the same slot
                # (for the unchecked variant only when the requested keys are pairwise different)
                slots = re.findall(r"\+@(\d+)=", t["ret"])
                reqs = [x for x in toks[3].strip("[]").split(",") if x]
                distinct_req = len({probe_cls(x) for x in reqs}) == len(reqs)
                if len(set(slots)) != len(slots) and (op == "gdm" or (distinct_req and case.lawful)):
                    fails.append("%s %s returned two mutable references into one slot: %s" % (reg, op, t["ret"]))
            faulted = t["outcome"] == "panic:inject"
            if case.lawful and not faulted and all(v is not None for v in t["snaps"].values()):
                try:
                    if reg.startswith("m"):
                        if "dict" in fam:
                            dict_step(case, reg, toks, t, fam, False, fails)
                        if "ident" in fam and op in ("insert", "insert_key_value", "checked_insert", "get_key_value",
                                                     "remove_entry", "remove", "get"):
                            dict_step(case, reg, toks, t, fam, True, fails)
                        if "full" in fam and op in ("insert", "insert_key_value", "checked_insert"):
                            dict_step(case, reg, toks, t, fam, True, fails)
                    else:
                        if "set" in fam:
                            set_step(case, reg, toks, t, False, fails)
                        if "ident" in fam and op in ("insert", "replace", "get", "take"):
                            set_step(case, reg, toks, t, True, fails)
                        if "full" in fam and op in ("insert", "replace"):
                            set_step(case, reg, toks, t, True, fails)
                    if (op == "clone_plain" and "clone" in fam) or (op == "serde_zst" and "serde" in fam):
                        aux_step(case, reg, toks, t, fails)
                    if op == "extend_from" and fam & {"set", "bulk", "uniq"} and reg.startswith("s"):
                        extend_from_step(case, reg, toks, t, fails)
                    if op == "extend_ref" and fam & {"set", "bulk", "uniq", "struct"}:
                        extref_step(case, reg, toks, t, fails)
                    if "bulk" in fam and op in ("from_iter", "extend"):
                        bulk_step(case, reg, toks, t, True, fails)
                    if "alg" in fam and op in ("alg", "is_subset", "is_superset", "is_disjoint", "sub"):
                        alg_step(case, reg, toks, t, fails)
                    if "eq" in fam and op == "eq":
                        eq_step(case, reg, toks, t, fails)
                    if "clone" in fam and op in ("clone", "clone_from"):
                        clone_step(case, reg, toks, t, fails)
                    if "consume" in fam and op in ("drain", "into_iter"):
                        consume_step(case, reg, toks, t, fails)
                    if "iter" in fam and op == "iter":
                        iter_step(case, reg, toks, t, fails)
                    if "dbg" in fam and op in ("iter", "drain", "into_iter", "alg"):
                        tmp = []
                        {"iter": iter_step, "drain": consume_step, "into_iter": consume_step,
                         "alg": alg_step}[op](case, reg, toks, t, tmp)
                        fails.extend(m for m in tmp if ": Debug after " in m)
                    if "entry" in fam and op == "entry" and reg.startswith("m"):
                        entry_step(case, reg, toks, t, fails)
                    if "fmt" in fam and op == "fmt":
                        fmt_step(case, reg, toks, t, fails)
                    if "unchecked" in fam and op == "insert_unchecked":
                        dict_step(case, reg, ["_", "insert"] + toks[2:], t, fam, True, fails)
                    if "unchecked" in fam and op == "gdum":
                        gdm_step(case, reg, toks, t, fails)
                    if "gdm" in fam and op == "gdm":
                        gdm_step(case, reg, toks, t, fails)
                    if "serde" in fam and op == "serde":
                        serde_step(case, reg, toks, t, fails)
                    if fam & {"serde", "uniq", "bulk"} and op == "deser":
                        deser_step(case, reg, toks, t, fails)
                except (ValueError, IndexError, KeyError) as ex:       # an oracle bug must not look like a finding
                    fails = [f for f in fails if not f.startswith("oracle-error")]
                    fails.append("oracle-error: %r on %s" % (ex, opl))
            # the pre-state of the next operation is what the implementation now shows
            for r2, sn in t["snaps"].items():
                if sn is not None:
                    case.state[r2] = sn
            real = [f for f in fails if not f.startswith("oracle-error")]
            if real and first is None:
                first = (j, opl, real[0], il[j])
        if first:
            fails_all.append({"case": c["name"], "line": first[0], "op": first[1], "what": first[2],
                              "impl": first[3], "case_lines": c["lines"]})
    return fails_all
