"""Property oracles evaluated on the implementation's own trace, independent of the Lean model.
(filled in per property; see DESIGN.md §6)"""
EXPECTED_THEOREMS = {}
LAST_COUNT = [0]


def run(prop, ops_path, impl_path, profile):
    LAST_COUNT[0] = 0
    return []
