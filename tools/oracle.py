"""Property oracles evaluated on the implementation's own trace, independent of the Lean model.
(filled in per property; see DESIGN.md §6)"""
EXPECTED_THEOREMS = {
    "C01": ["step_refines", "history_refines", "history_from_new", "get_by_borrowed_form", "srun_borrowed",
            "index_panics_iff_absent", "sim_observables"],
    "C03": ["insert_full_absent", "insert_key_value_full_absent", "checked_insert_full_absent",
            "insert_present_on_full", "checked_insert_present_on_full", "insert_key_value_present_on_full",
            "insert_len_le_cap"],
}
LAST_COUNT = [0]


def run(prop, ops_path, impl_path, profile):
    LAST_COUNT[0] = 0
    return []
