"""Property oracles evaluated on the implementation's own trace, independent of the Lean model.
(filled in per property; see DESIGN.md §6)"""
EXPECTED_THEOREMS = {
    "C01": ["step_refines", "history_refines", "history_from_new", "get_by_borrowed_form", "srun_borrowed",
            "index_panics_iff_absent", "sim_observables"],
    "C07": ["set_step_refines", "set_history_refines", "set_history_from_new", "insert_true_iff_absent",
            "remove_reports_presence", "sset_borrowed"],
    "C12": ["insert_keeps_stored_key", "checked_insert_keeps_stored_key", "insert_key_value_swaps_key",
            "insert_ii_for_full_identity", "get_exposes_stored", "remove_entry_exposes_stored",
            "iteration_exposes_stored", "set_insert_keeps_stored", "set_replace_swaps"],
    "C09": ["iter_start", "next_yields_kth", "next_none_at_end", "next_none_forever", "steps_from_start", "after_k_steps", "len_after_k_steps", "script_probes_report_len", "remaining_items", "traversal_yields_all", "traversal_projections", "two_traversals_agree", "clone_rest", "clone_continues_identically", "shared_iter_changes_nothing", "mut_iter_writes_prefix", "mut_iter_writes_all", "lookup_after_mut_iter", "iterOp_safe", "nextOut_shared", "nextOut_mut", "script_probe_after_j_steps", "script_clone_at_j", "script_clone_agrees"],
    "C10": ["no_inj", "into_iter_next", "into_iter_next_nonempty", "into_iter_none_forever", "into_iter_take_pairs", "into_iter_take", "discarded_halves", "into_iter_all", "into_iter_partition", "into_iter_take_any_world", "into_iter_op_any_world", "into_iter_op", "drain_start", "drain_take", "drain_next_none_forever", "drain_always_empties", "drain_op", "drain_op_drop", "drain_op_forget", "drain_all", "drain_partition", "drain_then_insert", "consuming_ops_safe", "no_value_glue", "set_into_iter_op", "set_drain_op"],
    "C03": ["insert_full_absent", "insert_key_value_full_absent", "checked_insert_full_absent",
            "insert_present_on_full", "checked_insert_present_on_full", "insert_key_value_present_on_full",
            "insert_len_le_cap"],
}
LAST_COUNT = [0]


def run(prop, ops_path, impl_path, profile):
    LAST_COUNT[0] = 0
    return []
