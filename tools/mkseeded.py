#!/usr/bin/env python3
"""Files a confirmed seeded change under /verif/seeded/<id>/ from the scratch output of the
sub-agent (patch_n.diff, demo_n.rs, meta_n.md), my confirmation transcript and the logs of the
runs of the checks against it.  usage: mkseeded.py <id> <srcdir> <n> <asked> <breaks> <needs> <confirm.txt> <log>..."""
import json, os, re, shutil, sys
sid, src, n, asked, breaks, needs, confirm = sys.argv[1:8]
logs = sys.argv[8:]
d = os.path.join("/verif/seeded", sid)
os.makedirs(d, exist_ok=True)
shutil.copy(os.path.join(src, f"patch_{n}.diff"), os.path.join(d, "patch.diff"))
shutil.copy(os.path.join(src, f"demo_{n}.rs"), os.path.join(d, "demo.rs"))
shutil.copy(os.path.join(src, f"meta_{n}.md"), os.path.join(d, "author_notes.md"))
rep, inp = set(), set()
for lg in logs:
    if not os.path.exists(lg):
        continue
    for line in open(lg):
        m = re.match(r"(C\d\d) rc=1 (.*)", line)
        if m:
            rep.add(m.group(1))
            for v in m.group(2).split(";"):
                if v.startswith("VIOLATION") and not v.strip().endswith("no-failing-input-found"):
                    inp.add(m.group(1))
meta = {
    "id": sid, "asked_for_property": asked, "breaks_property": breaks, "needs_to_manifest": needs,
    "confirmed_by_me": {
        "how": "scratch worktree of /repo: demo on the clean tree (debug, release), `git apply patch.diff`, demo again "
               "(debug, release), then the whole existing suite with the change (`cargo test --offline`)",
        "transcript": [l.rstrip() for l in open(confirm)] if os.path.exists(confirm) else []},
    "checks_run": "./check Cxx quick against the change (tools/seedscratch.sh: scratch copy of /verif pointed at a scratch "
                  "worktree of /repo with the patch applied; proof obligations skipped since a /repo change cannot touch "
                  "the Lean side); VIOLATION lines ending in no-failing-input-found are counted in reported_by only",
    "reported_by": sorted(rep), "reported_with_failing_input_by": sorted(inp)}
json.dump(meta, open(os.path.join(d, "meta.json"), "w"), indent=1)
print(sid, "reported_by", sorted(rep), "with input", sorted(inp))
