#!/usr/bin/env python3
"""Regenerates Appendix C of DESIGN.md (one line per property theorem: name and the first sentence of
its doc comment) from lean/Micromap/Props/*.lean.  Run by hand after adding theorems."""
import os, re
ROOT = os.path.dirname(os.path.dirname(os.path.abspath(__file__)))
d = os.path.join(ROOT, "lean", "Micromap", "Props")
out = ["## Appendix C. Property theorems (generated from `lean/Micromap/Props/*.lean`)", "",
       "One line per theorem: name and the first sentence of its doc comment.  `expected_theorems.json` holds the "
       "same names; the audit of every run lists each with its axioms.", ""]
total = 0
for f in sorted(os.listdir(d)):
    if not f.endswith(".lean"):
        continue
    src = open(os.path.join(d, f)).read()
    items = []
    docs = {m.group(2): m.group(1) for m in re.finditer(
        r"/--((?:(?!-/).)*)-/\s*(?:@\[[^\]]*\]\s*)?theorem\s+([A-Za-z_][\w.']*)", src, flags=re.S)}
    for m in re.finditer(r"^theorem\s+([A-Za-z_][\w.']*)", re.sub(r"/-.*?-/", lambda x: "\n" * x.group(0).count("\n"), src, flags=re.S), flags=re.M):
        name = m.group(1)
        doc = docs.get(name)
        first = ""
        if doc:
            t = re.sub(r"\s+", " ", doc).strip()
            first = re.split(r"(?<=[.:;])\s", t, maxsplit=1)[0][:200]
        if not re.match(r"ex([A-Z0-9_]|$)", name):
            items.append("* `%s`%s" % (name, (" — " + first) if first else ""))
    total += len(items)
    out += ["", "**%s** (%d theorems)" % (f[:-5], len(items)), ""] + items
out.append("")
s = open(os.path.join(ROOT, "DESIGN.md")).read()
i = s.index("## Appendix C. Property theorems")
s = s[:i] + "\n".join(out) + "\n"
open(os.path.join(ROOT, "DESIGN.md"), "w").write(s)
print("Appendix C:", total, "theorems")
