//! Execution of one operation against the real crate.  Every call into micromap
//! goes through `mm(..)` (allocation counting on); everything the harness itself
//! holds is wrapped in `Held` so that dropping it is not a callback of the operation.
use crate::ctl::{self, log, mm, tick, Ev};
use crate::parse::*;
use crate::regs::{Layout, MapN, SetN};
use crate::types::{Key, Probe, Val};
use micromap::{Entry, Map, Set};
use std::fmt::Write as _;
use std::mem::ManuallyDrop;

/// A value owned by the harness (returned by micromap, or a probe): dropped quietly.
pub struct Held<T>(ManuallyDrop<T>);
impl<T> Held<T> {
    pub fn new(t: T) -> Self {
        Held(ManuallyDrop::new(t))
    }
}
impl<T> std::ops::Deref for Held<T> {
    type Target = T;
    fn deref(&self) -> &T {
        &self.0
    }
}
impl<T> Drop for Held<T> {
    fn drop(&mut self) {
        ctl::quietly(|| unsafe { ManuallyDrop::drop(&mut self.0) });
    }
}

/// Formatting sink that never allocates (so that `Debug`/`Display` of a container
/// can run with allocation counting on).
pub struct BufW {
    buf: Box<[u8; 1 << 16]>,
    len: usize,
}
impl BufW {
    pub fn new() -> Self {
        BufW { buf: Box::new([0; 1 << 16]), len: 0 }
    }
    pub fn take(&mut self) -> String {
        let s = String::from_utf8_lossy(&self.buf[..self.len]).to_string();
        self.len = 0;
        s
    }
}
impl std::fmt::Write for BufW {
    fn write_str(&mut self, s: &str) -> std::fmt::Result {
        let b = s.as_bytes();
        if self.len + b.len() > self.buf.len() {
            return Err(std::fmt::Error);
        }
        self.buf[self.len..self.len + b.len()].copy_from_slice(b);
        self.len += b.len();
        Ok(())
    }
}

pub fn esc(s: &str) -> String {
    let mut o = String::from("\"");
    for c in s.chars() {
        match c {
            '\n' => o.push_str("\\n"),
            ' ' => o.push('~'),
            c => o.push(c),
        }
    }
    o.push('"');
    o
}

/// per-operation context: layout + base address of the primary container, flags.
pub struct Cx {
    pub lay: Layout,
    pub base: usize,
    pub lay2: Layout,
    pub base2: usize,
    pub all_inside: bool,
    pub buf: BufW,
}

impl Cx {
    fn slot(&mut self, addr: usize) -> i64 {
        let (s, inside) = self.lay.locate(self.base, addr);
        if !inside {
            self.all_inside = false;
        }
        s
    }
    /// slot of a reference to a zero-sized value
    fn slot_zst(&mut self, addr: usize) -> i64 {
        let (s, inside) = self.lay.locate_zst(self.base, addr);
        if !inside {
            self.all_inside = false;
        }
        s
    }
    /// operand (0 = primary, 1 = secondary) and slot of a reference into one of two sets
    fn oslot(&mut self, addr: usize) -> (u8, i64) {
        let (s, inside) = self.lay.locate(self.base, addr);
        if inside {
            return (0, s);
        }
        let (s2, inside2) = self.lay2.locate(self.base2, addr);
        if inside2 {
            return (1, s2);
        }
        self.all_inside = false;
        (9, s)
    }
}

fn mk_key(k: K) -> Key {
    Key::new(k.0, k.1)
}
fn mk_val(v: V) -> Val {
    Val::new(v.0, v.1)
}
fn show_pair(k: &Key, v: &Val) -> String {
    format!("{}:{}", k.show(), v.show())
}
fn opt_val(o: &Option<Val>) -> String {
    match o {
        None => "-".into(),
        Some(v) => format!("+{}", v.show()),
    }
}
fn hint(h: (usize, Option<usize>)) -> String {
    match h.1 {
        Some(u) => format!("{}..{}", h.0, u),
        None => format!("{}..*", h.0),
    }
}

/// A probe as the harness holds it: either a real `Key` (Q = K) or the borrowed form.
pub enum HP {
    Key(Held<Key>),
    Q(Probe),
}
fn mk_probe(p: P) -> HP {
    match p {
        P::Key(k) => HP::Key(Held::new(Key::probe(k.0, k.1))),
        P::Q(k) => HP::Q(Probe { cls: k.0, id: k.1 }),
    }
}

macro_rules! lookup {
    ($p:expr, $q:ident => $body:expr) => {
        match &$p {
            HP::Key(h) => {
                let $q: &Key = &**h;
                $body
            }
            HP::Q(pr) => {
                let $q: &Probe = pr;
                $body
            }
        }
    };
}

/// Instrumented source iterator (its buffer is built before the call into micromap; taking from it
/// and freeing it make no allocator call that is counted).
pub struct Src<T> {
    items: Vec<Option<T>>,
    pos: usize,
    pulls: bool,
}
impl<T> Src<T> {
    fn new(v: Vec<T>, pulls: bool) -> Self {
        Src { items: v.into_iter().map(Some).collect(), pos: 0, pulls }
    }
}
impl<T> Iterator for Src<T> {
    type Item = T;
    fn next(&mut self) -> Option<T> {
        if self.pulls {
            tick();
            log(Ev::Pull);
        }
        if self.pos >= self.items.len() {
            return None;
        }
        let r = self.items[self.pos].take();
        if r.is_some() {
            self.pos += 1;
        }
        r
    }
    /// a safe iterator may report any hint: modes 0/1 say nothing, 2 understates, 3 is exact, 4 overstates
    fn size_hint(&self) -> (usize, Option<usize>) {
        let rem = self.items[self.pos.min(self.items.len())..].iter().filter(|x| x.is_some()).count();
        match crate::ctl::with(|c| c.hint_mode) {
            2 => (0, Some(0)),
            3 => (rem, Some(rem)),
            4 => (rem + 3, Some(rem + 3)),
            _ => (0, None),
        }
    }
}

// ------------------------------------------------------------------ map operations

/// Element shapes the instrumented registers do not have: pairs with padding between key and value,
/// tiny and wide elements, unsized borrowed forms (`str`, `Path`) — including needles that point into
/// the map's own storage and borrowed forms whose equality ignores the spelling.  Each scenario
/// compares the container with a plain `Vec` model; the result is `"ok"` or the first discrepancy.
fn shapes<const N: usize>() -> String {
    use std::path::{Path, PathBuf};
    fn pairs<K: Ord + Clone + std::fmt::Debug, V: Ord + Clone + std::fmt::Debug, const N: usize>(
        name: &str,
        items: Vec<(K, V)>,
    ) -> Option<String> {
        let n = items.len().min(N);
        let items = &items[..n];
        let mut m: Map<K, V, N> = mm(Map::new);
        for (k, v) in items {
            mm(|| m.insert(k.clone(), v.clone()));
        }
        let bad = |what: &str| Some(format!("{name}: {what}"));
        // iteration order is not part of any property: compare as sorted sequences
        fn sorted<T: Ord>(mut v: Vec<T>) -> Vec<T> {
            v.sort();
            v
        }
        let want_k = sorted(items.iter().map(|p| p.0.clone()).collect::<Vec<_>>());
        let want_v = sorted(items.iter().map(|p| p.1.clone()).collect::<Vec<_>>());
        let want_p = sorted(items.to_vec());
        if mm(|| m.len()) != n {
            return bad("len");
        }
        if sorted(mm(|| m.keys().cloned().collect::<Vec<_>>())) != want_k {
            return bad("keys()");
        }
        if sorted(mm(|| m.values().cloned().collect::<Vec<_>>())) != want_v {
            return bad("values()");
        }
        if sorted(mm(|| m.iter().map(|(k, v)| (k.clone(), v.clone())).collect::<Vec<_>>())) != want_p {
            return bad("iter()");
        }
        if sorted(mm(|| m.values_mut().map(|v| v.clone()).collect::<Vec<_>>())) != want_v {
            return bad("values_mut()");
        }
        for (k, v) in items {
            if mm(|| m.get(k)) != Some(v) || mm(|| m.get_key_value(k)) != Some((k, v)) || !mm(|| m.contains_key(k)) {
                return bad("get / get_key_value / contains_key");
            }
        }
        let c = mm(|| m.clone());
        if !mm(|| c == m) || sorted(mm(|| c.iter().map(|(k, v)| (k.clone(), v.clone())).collect::<Vec<_>>())) != want_p {
            return bad("clone / ==");
        }
        if sorted(mm(|| c.into_values().collect::<Vec<_>>())) != want_v {
            return bad("into_values()");
        }
        if sorted(mm(|| m.clone().into_keys().collect::<Vec<_>>())) != want_k {
            return bad("into_keys()");
        }
        if n > 0 {
            let (k0, v0) = &items[0];
            if mm(|| m.remove(k0)).as_ref() != Some(v0) || mm(|| m.len()) != n - 1 || mm(|| m.contains_key(k0)) {
                return bad("remove");
            }
        }
        None
    }
    let r = pairs::<u8, u32, N>("(u8, u32)", (0..6).map(|i| (i as u8, 1000 + i as u32)).collect())
        .or_else(|| pairs::<u32, u64, N>("(u32, u64)", (0..6).map(|i| (7 + i as u32, (1u64 << 40) + i as u64)).collect()))
        .or_else(|| pairs::<u8, u8, N>("(u8, u8)", (0..6).map(|i| (i as u8, 200 - i as u8)).collect()))
        .or_else(|| pairs::<u64, u8, N>("(u64, u8)", (0..6).map(|i| (u64::MAX - i as u64, i as u8)).collect()))
        .or_else(|| pairs::<u16, [u8; 3], N>("(u16, [u8; 3])", (0..6).map(|i| (i as u16, [i as u8, 1, 2])).collect()))
        .or_else(|| pairs::<String, u16, N>("(String, u16)", (0..6).map(|i| (format!("key{i}"), i as u16)).collect()));
    if let Some(e) = r {
        return esc(&e);
    }
    if N >= 3 {
        // unsized borrowed form `str`, with needles that point into the map's own storage
        let mut m: Map<String, u32, N> = mm(Map::new);
        for (k, v) in [("abc", 1u32), ("ab", 2), ("x", 3)] {
            mm(|| m.insert(k.to_string(), v));
        }
        let stored: &str = mm(|| m.get_key_value("abc")).map(|(k, _)| k.as_str()).unwrap_or("");
        let probes: [(&str, Option<u32>); 5] =
            [(&stored[..2], Some(2)), (&stored[..1], None), (&stored[..0], None), (&stored[..3], Some(1)), ("x", Some(3))];
        for (needle, want) in probes {
            if mm(|| m.get(needle)).copied() != want || mm(|| m.contains_key(needle)) != want.is_some() {
                return esc(&format!("(String, u32) looked up by &str: needle {needle:?} (a sub-slice of a stored key)"));
            }
        }
        // `Path`: equal paths may be spelled with different lengths
        let mut p: Map<PathBuf, u32, N> = mm(Map::new);
        for (k, v) in [("usr/lib", 1u32), ("var/log/", 2), ("a", 3)] {
            mm(|| p.insert(PathBuf::from(k), v));
        }
        for (needle, want) in [("usr//lib", Some(1u32)), ("usr/lib/", Some(1)), ("var/log", Some(2)), ("a/", Some(3)), ("b", None)] {
            let q = Path::new(needle);
            let by_key = mm(|| p.get(&PathBuf::from(needle))).copied();
            if mm(|| p.get(q)).copied() != want || by_key != want || mm(|| p.contains_key(q)) != want.is_some() {
                return esc(&format!("(PathBuf, u32) looked up by &Path {needle:?}"));
            }
        }
        if mm(|| p.remove(Path::new("var//log"))) != Some(2) || mm(|| p.len()) != 2 {
            return esc("(PathBuf, u32): remove through a differently spelled &Path");
        }
        // every other operation that takes the borrowed form, through other spellings
        let mut p: Map<PathBuf, u32, N> = mm(Map::new);
        for (k, v) in [("usr/lib", 1u32), ("var/log/", 2), ("a", 3)] {
            mm(|| p.insert(PathBuf::from(k), v));
        }
        if mm(|| p.get_mut(Path::new("usr//lib"))).map(|v| {
            *v += 10;
            *v
        }) != Some(11)
        {
            return esc("(PathBuf, u32): get_mut through a differently spelled &Path");
        }
        if mm(|| p.get_key_value(Path::new("a/"))).map(|(k, v)| (k.clone(), *v)) != Some((PathBuf::from("a"), 3)) {
            return esc("(PathBuf, u32): get_key_value through a differently spelled &Path");
        }
        {
            let [x, y, z] = mm(|| p.get_disjoint_mut([Path::new("var/log"), Path::new("b"), Path::new("usr/lib/")]));
            if x.map(|v| *v) != Some(2) || y.is_some() || z.map(|v| *v) != Some(11) {
                return esc("(PathBuf, u32): get_disjoint_mut through differently spelled &Path differs from get_mut");
            }
        }
        let two = std::panic::catch_unwind(std::panic::AssertUnwindSafe(|| {
            let [a, b] = mm(|| p.get_disjoint_mut([Path::new("usr/lib"), Path::new("usr//lib")]));
            a.is_some() && b.is_some()
        }));
        if two.is_ok() {
            return esc("(PathBuf, u32): get_disjoint_mut with two spellings of one present key did not panic");
        }
        if mm(|| p.remove_entry(Path::new("var/log"))) != Some((PathBuf::from("var/log/"), 2)) || mm(|| p.len()) != 2 {
            return esc("(PathBuf, u32): remove_entry through a differently spelled &Path");
        }
        let mut ps: Set<PathBuf, N> = mm(Set::new);
        for k in ["usr/lib", "var/log/", "a"] {
            mm(|| ps.insert(PathBuf::from(k)));
        }
        if !mm(|| ps.contains(Path::new("usr//lib")))
            || mm(|| ps.get(Path::new("var/log"))) != Some(&PathBuf::from("var/log/"))
            || mm(|| ps.insert(PathBuf::from("a/")))
            || mm(|| ps.take(Path::new("usr/lib/"))) != Some(PathBuf::from("usr/lib"))
            || !mm(|| ps.remove(Path::new("a/")))
            || mm(|| ps.len()) != 1
        {
            return esc("Set<PathBuf>: contains / get / insert / take / remove through differently spelled &Path");
        }
    }
    if N >= 4 {
        // a key type without drop glue, 4 bytes wide, whose `==` is not transitive (|a - b| <= 1): one
        // query can equal two stored keys.  Wrong answers are allowed; handing out a slot that is not
        // live, leaking or destroying twice is not.
        use std::rc::Rc;
        #[derive(Clone, Copy, Debug)]
        struct Tol(u32);
        impl PartialEq for Tol {
            fn eq(&self, o: &Tol) -> bool {
                self.0.abs_diff(o.0) <= 1
            }
        }
        impl Eq for Tol {}
        let rcs: Vec<Rc<u32>> = (0..8).map(|i| Rc::new(100 + i)).collect();
        {
            let mut t: Map<Tol, Rc<u32>, N> = mm(Map::new);
            for (i, k) in [10u32, 1, 3, 20].into_iter().enumerate() {
                mm(|| t.insert(Tol(k), rcs[i].clone()));
            }
            mm(|| t.remove(&Tol(20))); // a moved-out slot above len
            for q in [2u32, 0, 4, 9, 11, 2] {
                let live: Vec<u32> = t.iter().map(|(_, v)| **v).collect();
                let got = [
                    mm(|| t.get(&Tol(q))).map(|v| **v),
                    mm(|| t.get_key_value(&Tol(q))).map(|(_, v)| **v),
                    mm(|| t.get_mut(&Tol(q))).map(|v| **v),
                ];
                for g in got.into_iter().flatten() {
                    if !live.contains(&g) {
                        return esc(&format!("Map<Tol, Rc, N> (non-transitive ==): a lookup of Tol({q}) handed out {g}, which is not a live entry"));
                    }
                }
                let _ = mm(|| t.contains_key(&Tol(q)));
                // more stored keys may match than were requested: a clean panic is a legitimate answer
                let dead = std::panic::catch_unwind(std::panic::AssertUnwindSafe(|| {
                    let [a, b] = mm(|| t.get_disjoint_mut([&Tol(q), &Tol(q + 7)]));
                    [a, b].into_iter().flatten().any(|g| !live.contains(&**g))
                }));
                if matches!(dead, Ok(true)) {
                    return esc(&format!("Map<Tol, Rc, N> (non-transitive ==): get_disjoint_mut for Tol({q}) handed out a dead entry"));
                }
            }
            mm(|| t.insert(Tol(2), rcs[4].clone()));
            let _ = mm(|| t.remove(&Tol(2)));
            let _ = mm(|| t.remove_entry(&Tol(4)));
            mm(|| t.insert(Tol(2), rcs[5].clone()));
            let _ = mm(|| t.remove(&Tol(2)));
            if mm(|| t.len()) > N || t.iter().count() != mm(|| t.len()) {
                return esc("Map<Tol, Rc, N> (non-transitive ==): len() and iteration disagree");
            }
        }
        if rcs.iter().any(|r| Rc::strong_count(r) != 1) {
            return esc("Map<Tol, Rc, N> (non-transitive ==): a value was leaked or destroyed twice");
        }
    }
    {
        // a container larger than 64 KiB: cloning, equality and iteration make no allocator call
        let mut big: Map<u64, [u64; 1100], 8> = mm(Map::new);
        for i in 0..5u64 {
            mm(|| big.insert(i, [i; 1100]));
        }
        let before = crate::ctl::allocs();
        let c = mm(|| big.clone());
        let same = mm(|| c == big);
        let n = mm(|| c.iter().count());
        let after = crate::ctl::allocs();
        if after != before {
            return esc(&format!("Map<u64, [u64; 1100], 8> (70 KiB): clone / == / iter made {} allocator call(s)", after - before));
        }
        if !same || n != 5 {
            return esc("Map<u64, [u64; 1100], 8>: the clone differs from its source");
        }
    }
    "\"ok\"".into()
}

/// take items from a drain / consuming iterator, observe it, then end it.
/// Output: `[[items],len,(debug,)size_hint(,count)]`.
fn consume<I, S, D>(cx: &mut Cx, mut it: I, take: Take, end: End, show: S, dbg: Option<D>) -> String
where
    I: Iterator + ExactSizeIterator,
    S: Fn(&I::Item) -> String,
    D: Fn(&mut Cx, &I) -> String,
{
    let mut items = Vec::new();
    match take {
        Take::Next(n) => {
            for _ in 0..n {
                match Held::new(mm(|| it.next())).as_ref() {
                    None => break,
                    Some(x) => items.push(show(x)),
                }
            }
        }
        Take::Nth(k) => {
            if let Some(x) = Held::new(mm(|| it.nth(k))).as_ref() {
                items.push(show(x));
            }
        }
        Take::Last => {
            if let Some(x) = Held::new(mm(|| it.last())).as_ref() {
                items.push(show(x));
            }
            return format!("[[{}],consumed]", items.join(","));
        }
    }
    let remaining = mm(|| it.len());
    let h = hint(mm(|| it.size_hint()));
    let d = match &dbg {
        Some(f) => format!("{},", f(cx, &it)),
        None => String::new(),
    };
    match end {
        End::Forget => {
            std::mem::forget(it);
            format!("[[{}],{},{}{}]", items.join(","), remaining, d, h)
        }
        End::Drop => {
            mm(|| drop(it));
            format!("[[{}],{},{}{}]", items.join(","), remaining, d, h)
        }
        End::Count => {
            let c = mm(|| it.count());
            format!("[[{}],{},{}{},{}]", items.join(","), remaining, d, h, c)
        }
    }
}

fn dbg_of<T: std::fmt::Debug>(cx: &mut Cx, x: &T) -> String {
    mm(|| write!(cx.buf, "{:?}", x)).unwrap();
    esc(&cx.buf.take())
}

fn run_script<I, F>(cx: &mut Cx, it: I, script: &[Cmd], can_clone: Option<fn(&I) -> I>, mut show: F) -> String
where
    I: Iterator + ExactSizeIterator + std::fmt::Debug,
    F: FnMut(&mut Cx, I::Item) -> String,
{
    let mut out: Vec<String> = Vec::new();
    let mut forks: Vec<I> = Vec::new();
    let mut it = Some(it);
    for c in script {
        let Some(cur) = it.as_mut() else { break };
        match c {
            Cmd::Next => match mm(|| cur.next()) {
                None => out.push("-".into()),
                Some(x) => {
                    let s = show(cx, x);
                    out.push(format!("+{s}"));
                }
            },
            Cmd::Len => out.push(format!("{}", mm(|| cur.len()))),
            Cmd::Hint => out.push(hint(mm(|| cur.size_hint()))),
            Cmd::Debug => {
                mm(|| write!(cx.buf, "{:?}", cur)).unwrap();
                out.push(esc(&cx.buf.take()));
            }
            Cmd::DebugAlt => {
                mm(|| write!(cx.buf, "{:#?}", cur)).unwrap();
                out.push(esc(&cx.buf.take()));
            }
            Cmd::Clone => {
                if let Some(cl) = can_clone {
                    forks.push(mm(|| cl(cur)));
                }
            }
            Cmd::Count | Cmd::Fold => {
                let i = it.take().unwrap();
                out.push(format!("{}", mm(|| i.count())));
            }
            Cmd::Nth(k) => match mm(|| cur.nth(*k)) {
                None => out.push("-".into()),
                Some(x) => {
                    let s = show(cx, x);
                    out.push(format!("+{s}"));
                }
            },
            Cmd::Last => {
                let i = it.take().unwrap();
                match mm(|| i.last()) {
                    None => out.push("-".into()),
                    Some(x) => {
                        let s = show(cx, x);
                        out.push(format!("+{s}"));
                    }
                }
            }
        }
    }
    for f in forks {
        let mut items = Vec::new();
        for x in f {
            items.push(show(cx, x));
        }
        out.push(format!("[{}]", items.join(",")));
    }
    format!("[{}]", out.join(","))
}

pub fn map_op<const N: usize>(cx: &mut Cx, m: &mut MapN<N>, op: &MapOp) -> String {
    match op {
        MapOp::Insert(k, v) => {
            let (k, v) = (mk_key(*k), mk_val(*v));
            let r = Held::new(mm(|| m.insert(k, v)));
            opt_val(&r)
        }
        MapOp::InsertKeyValue(k, v) => {
            let (k, v) = (mk_key(*k), mk_val(*v));
            let r = Held::new(mm(|| m.insert_key_value(k, v)));
            match &*r {
                None => "-".into(),
                Some((k, v)) => format!("+{}", show_pair(k, v)),
            }
        }
        MapOp::CheckedInsert(k, v) => {
            let (k, v) = (mk_key(*k), mk_val(*v));
            let r = Held::new(mm(|| m.checked_insert(k, v)));
            match &*r {
                None => "-".into(),
                Some(o) => format!("+{}", opt_val(o)),
            }
        }
        MapOp::InsertUnchecked(k, v) => {
            let (k, v) = (mk_key(*k), mk_val(*v));
            let r = Held::new(mm(|| unsafe { m.insert_unchecked(k, v) }));
            opt_val(&r)
        }
        MapOp::Get(p) => {
            let p = mk_probe(*p);
            match lookup!(p, q => mm(|| m.get(q))) {
                None => "-".into(),
                Some(v) => format!("+@{}={}", cx.slot(v as *const Val as usize), v.show()),
            }
        }
        MapOp::GetKeyValue(p) => {
            let p = mk_probe(*p);
            match lookup!(p, q => mm(|| m.get_key_value(q))) {
                None => "-".into(),
                Some((k, v)) => {
                    let s = cx.slot(k as *const Key as usize);
                    let s2 = cx.slot(v as *const Val as usize);
                    if s != s2 {
                        cx.all_inside = false;
                    }
                    format!("+@{}={}", s, show_pair(k, v))
                }
            }
        }
        MapOp::GetMut(p, add) => {
            let p = mk_probe(*p);
            match lookup!(p, q => mm(|| m.get_mut(q))) {
                None => "-".into(),
                Some(v) => {
                    v.val += *add;
                    format!("+@{}={}", cx.slot(v as *const Val as usize), v.show())
                }
            }
        }
        MapOp::ContainsKey(p) => {
            let p = mk_probe(*p);
            format!("{}", lookup!(p, q => mm(|| m.contains_key(q))) as u8)
        }
        MapOp::Index(p) => {
            let p = mk_probe(*p);
            let v: &Val = lookup!(p, q => mm(|| &m[q]));
            format!("@{}={}", cx.slot(v as *const Val as usize), v.show())
        }
        MapOp::IndexMut(p, add) => {
            let p = mk_probe(*p);
            let v: &mut Val = lookup!(p, q => mm(|| &mut m[q]));
            v.val += *add;
            format!("@{}={}", cx.slot(v as *const Val as usize), v.show())
        }
        MapOp::Remove(p) => {
            let p = mk_probe(*p);
            let r = Held::new(lookup!(p, q => mm(|| m.remove(q))));
            opt_val(&r)
        }
        MapOp::RemoveEntry(p) => {
            let p = mk_probe(*p);
            let r = Held::new(lookup!(p, q => mm(|| m.remove_entry(q))));
            match &*r {
                None => "-".into(),
                Some((k, v)) => format!("+{}", show_pair(k, v)),
            }
        }
        MapOp::Retain(mask, bump) => {
            mm(|| {
                m.retain(|k, v| {
                    tick();
                    log(Ev::Call(0));
                    // the references the predicate receives point into the container
                    cx.slot(k as *const Key as usize);
                    cx.slot(v as *const Val as usize);
                    // masks >= 65536: a STATEFUL predicate, the answer depends on the call number
                    let keep = if *mask >= 65536 {
                        (mask >> (ctl::with(|c| c.calls) % 16)) & 1 == 1
                    } else {
                        mask.checked_shr(k.p.cls as u32).unwrap_or(0) & 1 == 1
                    };
                    if keep {
                        v.val += *bump;
                    }
                    keep
                })
            });
            "()".into()
        }
        MapOp::Clear => {
            mm(|| m.clear());
            "()".into()
        }
        MapOp::Len => format!("{}", mm(|| m.len())),
        MapOp::IsEmpty => format!("{}", mm(|| m.is_empty()) as u8),
        MapOp::Capacity => format!("{}", mm(|| m.capacity())),
        #[cfg(feature = "serde")]
        MapOp::SerdeWrong => serde_rt::wrong_map::<N>(),
        #[cfg(not(feature = "serde"))]
        MapOp::SerdeWrong => "[unsupported]".into(),
        MapOp::ClonePlain(xs) => {
            use crate::types::{PK, PLAIN_CLONES, PV};
            let mut src: Map<PK, PV, N> = mm(Map::new);
            for (k, v) in xs {
                mm(|| src.insert(PK(*k), PV(*v)));
            }
            PLAIN_CLONES.with(|c| c.set((0, 0)));
            let c = mm(|| src.clone());
            let (kc, vc) = PLAIN_CLONES.with(|c| c.get());
            let items: Vec<String> = c.iter().map(|(k, v)| format!("{}:{}", k.0, v.0)).collect();
            format!("[{},{},{},[{}],{}]", mm(|| c.len()), kc, vc, items.join(","), (c == src) as u8)
        }
        #[cfg(feature = "serde")]
        MapOp::SerdeZst(k) => serde_rt::zst_map::<N>(*k),
        #[cfg(not(feature = "serde"))]
        MapOp::SerdeZst(_) => "[unsupported]".into(),
        MapOp::Shapes => shapes::<N>(),
        MapOp::Sweep(fam, seed) => esc(&crate::sweep::run::<N>(fam, *seed)),
        MapOp::Defaults => {
            let d: MapN<N> = mm(Map::default);
            let mut out = vec![format!("{}", mm(|| d.len())), format!("{}", mm(|| d.capacity()))];
            macro_rules! probe {
                ($it:expr) => {{
                    let mut it = $it;
                    out.push(match mm(|| it.next()) {
                        None => "-".into(),
                        Some(_) => "+".into(),
                    });
                    out.push(format!("{}", mm(|| it.len())));
                }};
            }
            probe!(mm(micromap::Iter::<Key, Val>::default));
            probe!(mm(micromap::Keys::<Key, Val>::default));
            probe!(mm(micromap::Values::<Key, Val>::default));
            probe!(mm(micromap::IterMut::<Key, Val>::default));
            probe!(mm(micromap::ValuesMut::<Key, Val>::default));
            probe!(mm(micromap::IntoIter::<Key, Val, N>::default));
            probe!(mm(micromap::IntoKeys::<Key, Val, N>::default));
            probe!(mm(micromap::IntoValues::<Key, Val, N>::default));
            format!("[{}]", out.join(","))
        }
        MapOp::Drain(take, end) => {
            let d = mm(|| m.drain());
            consume(cx, d, *take, *end, |x: &(Key, Val)| show_pair(&x.0, &x.1), Some(|cx: &mut Cx, i: &_| dbg_of(cx, i)))
        }
        MapOp::IntoIter(kind, take, end) => {
            let owned = std::mem::replace(m, Map::new());
            match kind {
                IntoKind::Pairs => consume(cx, mm(|| owned.into_iter()), *take, *end,
                                           |x: &(Key, Val)| show_pair(&x.0, &x.1), Some(|cx: &mut Cx, i: &_| dbg_of(cx, i))),
                IntoKind::Keys => consume(cx, mm(|| owned.into_keys()), *take, *end, |x: &Key| x.show(),
                                          Some(|cx: &mut Cx, i: &_| dbg_of(cx, i))),
                IntoKind::Values => consume(cx, mm(|| owned.into_values()), *take, *end, |x: &Val| x.show(),
                                            Some(|cx: &mut Cx, i: &_| dbg_of(cx, i))),
            }
        }
        MapOp::Iter(kind, add, script) => match kind {
            IterKind::Iter => {
                let it = mm(|| m.iter());
                run_script(cx, it, script, Some(|i| i.clone()), |cx, (k, v)| {
                    format!("@{}={}", cx.slot(k as *const Key as usize), show_pair(k, v))
                })
            }
            IterKind::Keys => {
                let it = mm(|| m.keys());
                run_script(cx, it, script, Some(|i| i.clone()), |cx, k| {
                    format!("@{}={}", cx.slot(k as *const Key as usize), k.show())
                })
            }
            IterKind::Values => {
                let it = mm(|| m.values());
                run_script(cx, it, script, Some(|i| i.clone()), |cx, v| {
                    format!("@{}={}", cx.slot(v as *const Val as usize), v.show())
                })
            }
            IterKind::IterMut => {
                // `for (k, v) in &mut map` and `map.iter_mut()` are the same iterator
                let it = if *add % 2 == 0 { mm(|| (&mut *m).into_iter()) } else { mm(|| m.iter_mut()) };
                run_script(cx, it, script, None, |cx, (k, v)| {
                    v.val += *add;
                    format!("@{}={}", cx.slot(k as *const Key as usize), show_pair(k, v))
                })
            }
            IterKind::ValuesMut => {
                let it = mm(|| m.values_mut());
                run_script(cx, it, script, None, |cx, v| {
                    v.val += *add;
                    format!("@{}={}", cx.slot(v as *const Val as usize), v.show())
                })
            }
        },
        MapOp::Entry(k, mods, fin) => entry_op(cx, m, *k, mods, *fin),
        MapOp::Gdm(unchecked, add, ps) => {
            let probes: Vec<HP> = ps.iter().map(|p| mk_probe(*p)).collect();
            let all_key = probes.iter().all(|p| matches!(p, HP::Key(_)));
            macro_rules! go {
                ($j:literal) => {{
                    if all_key {
                        let arr: [&Key; $j] = std::array::from_fn(|i| match &probes[i] {
                            HP::Key(h) => &**h,
                            _ => unreachable!(),
                        });
                        let r = if *unchecked {
                            mm(|| unsafe { m.get_disjoint_unchecked_mut(arr) })
                        } else {
                            mm(|| m.get_disjoint_mut(arr))
                        };
                        show_disjoint(cx, r.into_iter().collect(), *add)
                    } else {
                        let arr: [&Probe; $j] = std::array::from_fn(|i| match &probes[i] {
                            HP::Q(p) => p,
                            HP::Key(h) => &h.p,
                        });
                        let r = if *unchecked {
                            mm(|| unsafe { m.get_disjoint_unchecked_mut(arr) })
                        } else {
                            mm(|| m.get_disjoint_mut(arr))
                        };
                        show_disjoint(cx, r.into_iter().collect(), *add)
                    }
                }};
            }
            match probes.len() {
                0 => go!(0),
                1 => go!(1),
                2 => go!(2),
                3 => go!(3),
                4 => go!(4),
                // boundaries of 8-, 32- and 64-bit bookkeeping
                8 => go!(8),
                9 => go!(9),
                32 => go!(32),
                33 => go!(33),
                63 => go!(63),
                64 => go!(64),
                65 => go!(65),
                200 => go!(200),
                _ => "bad-arity".into(),
            }
        }
        MapOp::Fmt(kind) => {
            match kind {
                FmtKind::Debug => mm(|| write!(cx.buf, "{:?}", m)).unwrap(),
                FmtKind::DebugAlt => mm(|| write!(cx.buf, "{:#?}", m)).unwrap(),
                FmtKind::Display => mm(|| write!(cx.buf, "{}", m)).unwrap(),
                FmtKind::DisplayPad => mm(|| write!(cx.buf, "{:>30}", m)).unwrap(),
                FmtKind::DisplayAlt => mm(|| write!(cx.buf, "{:#}", m)).unwrap(),
                FmtKind::DebugPad => mm(|| write!(cx.buf, "{:30?}", m)).unwrap(),
            }
            esc(&cx.buf.take())
        }
        MapOp::Drop => {
            let owned = std::mem::replace(m, Map::new());
            mm(|| drop(owned));
            "()".into()
        }
        MapOp::Forget => {
            let owned = std::mem::replace(m, Map::new());
            std::mem::forget(owned);
            "()".into()
        }
        MapOp::WithCapacity(c) => {
            #[allow(deprecated)]
            let x: MapN<N> = mm(|| Map::with_capacity(*c));
            drop(x);
            "()".into()
        }
        MapOp::CloneTo(_) | MapOp::CloneFrom(_) | MapOp::Eq(_) | MapOp::FromIter(..) | MapOp::Serde(..) | MapOp::Deser(..) => unreachable!(),
    }
}

fn show_disjoint(cx: &mut Cx, refs: Vec<Option<&mut Val>>, add: i32) -> String {
    let mut addrs: Vec<usize> = Vec::new();
    let mut refs = refs;
    // write through every returned reference first (aliasing would show up as a double bump)
    for r in refs.iter_mut().flatten() {
        r.val += add;
    }
    let mut out = Vec::new();
    for r in refs.iter() {
        match r {
            None => out.push("-".to_string()),
            Some(v) => {
                let a = &**v as *const Val as usize;
                if addrs.contains(&a) {
                    ctl::with(|c| c.errs.push("aliasing-mut-refs".into()));
                }
                addrs.push(a);
                out.push(format!("+@{}={}", cx.slot(a), v.show()));
            }
        }
    }
    format!("[{}]", out.join(","))
}

fn entry_op<const N: usize>(cx: &mut Cx, m: &mut MapN<N>, k: K, mods: &[i32], fin: EntryEnd) -> String {
    let key = mk_key(k);
    let mut e = mm(|| m.entry(key));
    let kind = match &e {
        Entry::Occupied(_) => "occ",
        Entry::Vacant(_) => "vac",
    };
    for add in mods {
        e = mm(|| {
            e.and_modify(|v| {
                tick();
                log(Ev::Call(1));
                v.val += *add;
            })
        });
    }
    let refval = |cx: &mut Cx, r: &mut Val| format!("@{}={}", cx.slot(r as *const Val as usize), r.show());
    let r = match fin {
        EntryEnd::OrInsert(v) => {
            let v = mk_val(v);
            let r = mm(|| e.or_insert(v));
            refval(cx, r)
        }
        EntryEnd::OrInsertWith(v) => {
            let r = mm(|| {
                e.or_insert_with(|| {
                    tick();
                    log(Ev::Call(2));
                    mk_val(v)
                })
            });
            refval(cx, r)
        }
        EntryEnd::OrInsertWithKey(v) => {
            let r = mm(|| {
                e.or_insert_with_key(|_k| {
                    tick();
                    log(Ev::Call(3));
                    mk_val(v)
                })
            });
            refval(cx, r)
        }
        EntryEnd::OrDefault(v) => {
            ctl::with(|c| c.default_val = (v.0, v.1));
            let r = mm(|| e.or_default());
            refval(cx, r)
        }
        EntryEnd::Key => {
            let kr = mm(|| e.key());
            // an occupied entry shows the key that is stored: a reference into the container
            // (a vacant entry owns the key it was made with, outside the container)
            if kind == "occ" {
                cx.slot(kr as *const Key as usize);
            }
            let s = kr.show();
            mm(|| drop(e));
            s
        }
        EntryEnd::Drop => {
            mm(|| drop(e));
            "()".into()
        }
        fin => match e {
            Entry::Occupied(mut o) => match fin {
                EntryEnd::OccKey => {
                    let kr = mm(|| o.key());
                    cx.slot(kr as *const Key as usize);
                    kr.show()
                }
                EntryEnd::OccGet => {
                    let r = mm(|| o.get());
                    format!("@{}={}", cx.slot(r as *const Val as usize), r.show())
                }
                EntryEnd::OccGetMut(add) => {
                    let r = mm(|| o.get_mut());
                    r.val += add;
                    refval(cx, r)
                }
                EntryEnd::OccInsert(v) => {
                    let v = mk_val(v);
                    let old = Held::new(mm(|| o.insert(v)));
                    old.show()
                }
                EntryEnd::OccRemove => Held::new(mm(|| o.remove())).show(),
                EntryEnd::OccRemoveEntry => {
                    let p = Held::new(mm(|| o.remove_entry()));
                    let (k, v) = &*p;
                    show_pair(k, v)
                }
                EntryEnd::OccIntoMut => {
                    let r = mm(|| o.into_mut());
                    refval(cx, r)
                }
                _ => "occupied".into(),
            },
            Entry::Vacant(v) => match fin {
                EntryEnd::VacKey => {
                    let s = mm(|| v.key()).show();
                    mm(|| drop(v));
                    s
                }
                EntryEnd::VacIntoKey => Held::new(mm(|| v.into_key())).show(),
                EntryEnd::VacInsert(val) => {
                    let val = mk_val(val);
                    let r = mm(|| v.insert(val));
                    refval(cx, r)
                }
                _ => {
                    mm(|| drop(v));
                    "vacant".into()
                }
            },
        },
    };
    format!("[{kind},{r}]")
}

pub fn map_from_iter<const N: usize>(pulls: bool, xs: &[(K, V)]) -> MapN<N> {
    let items: Vec<(Key, Val)> = xs.iter().map(|(k, v)| (mk_key(*k), mk_val(*v))).collect();
    if !pulls && items.len() == N {
        let mut it = items.into_iter();
        let arr: [(Key, Val); N] = std::array::from_fn(|_| it.next().unwrap());
        mm(|| Map::from(arr))
    } else {
        let src = Src::new(items, pulls);
        mm(|| Map::from_iter(src))
    }
}

pub fn map_eq<const N: usize, const M: usize>(a: &MapN<N>, b: &MapN<M>) -> String {
    let mk = ctl::mark();
    let e = mm(|| a == b);
    // `!=` (std's provided `ne` unless the crate overrides it) must be the negation
    let n = ctl::shadow(mk, || mm(|| a != b));
    if n == e {
        return format!("\"a == b is {e} and a != b is {n}\"");
    }
    format!("{}", e as u8)
}

pub fn snap_map<const N: usize>(m: &MapN<N>) -> String {
    let items: Vec<String> = m.iter().map(|(k, v)| show_pair(k, v)).collect();
    format!("{}/{}/{}[{}]", m.len(), m.capacity(), m.is_empty() as u8, items.join(","))
}

// ------------------------------------------------------------------ set operations

pub fn set_op<const N: usize>(cx: &mut Cx, s: &mut SetN<N>, op: &SetOp) -> String {
    match op {
        SetOp::Insert(k) => {
            let k = mk_key(*k);
            format!("{}", mm(|| s.insert(k)) as u8)
        }
        SetOp::Replace(k) => {
            let k = mk_key(*k);
            match Held::new(mm(|| s.replace(k))).as_ref() {
                None => "-".into(),
                Some(k) => format!("+{}", k.show()),
            }
        }
        SetOp::Contains(p) => {
            let p = mk_probe(*p);
            format!("{}", lookup!(p, q => mm(|| s.contains(q))) as u8)
        }
        SetOp::Get(p) => {
            let p = mk_probe(*p);
            match lookup!(p, q => mm(|| s.get(q))) {
                None => "-".into(),
                Some(k) => format!("+@{}={}", cx.slot(k as *const Key as usize), k.show()),
            }
        }
        SetOp::Remove(p) => {
            let p = mk_probe(*p);
            format!("{}", lookup!(p, q => mm(|| s.remove(q))) as u8)
        }
        SetOp::Take(p) => {
            let p = mk_probe(*p);
            match Held::new(lookup!(p, q => mm(|| s.take(q)))).as_ref() {
                None => "-".into(),
                Some(k) => format!("+{}", k.show()),
            }
        }
        SetOp::Retain(mask) => {
            mm(|| {
                s.retain(|k| {
                    tick();
                    log(Ev::Call(0));
                    if *mask >= 65536 {
                        (mask >> (ctl::with(|c| c.calls) % 16)) & 1 == 1
                    } else {
                        mask.checked_shr(k.p.cls as u32).unwrap_or(0) & 1 == 1
                    }
                })
            });
            "()".into()
        }
        SetOp::Clear => {
            mm(|| s.clear());
            "()".into()
        }
        SetOp::Len => format!("{}", mm(|| s.len())),
        SetOp::IsEmpty => format!("{}", mm(|| s.is_empty()) as u8),
        SetOp::Capacity => format!("{}", mm(|| s.capacity())),
        #[cfg(feature = "serde")]
        SetOp::SerdeWrong => serde_rt::wrong_set::<N>(),
        #[cfg(not(feature = "serde"))]
        SetOp::SerdeWrong => "[unsupported]".into(),
        SetOp::ClonePlain(xs) => {
            use crate::types::{PK, PLAIN_CLONES};
            let mut src: Set<PK, N> = mm(Set::new);
            for (k, _) in xs {
                mm(|| src.insert(PK(*k)));
            }
            PLAIN_CLONES.with(|c| c.set((0, 0)));
            let c = mm(|| src.clone());
            let (kc, vc) = PLAIN_CLONES.with(|c| c.get());
            let items: Vec<String> = c.iter().map(|k| format!("{}", k.0)).collect();
            format!("[{},{},{},[{}],{}]", mm(|| c.len()), kc, vc, items.join(","), (c == src) as u8)
        }
        #[cfg(feature = "serde")]
        SetOp::SerdeZst(k) => serde_rt::zst_set::<N>(*k),
        #[cfg(not(feature = "serde"))]
        SetOp::SerdeZst(_) => "[unsupported]".into(),
        SetOp::Defaults => {
            let d: SetN<N> = mm(Set::default);
            format!("[{},{}]", mm(|| d.len()), mm(|| d.capacity()))
        }
        SetOp::Drain(take, end) => {
            let d = mm(|| s.drain());
            consume(cx, d, *take, *end, |k: &Key| k.show(), None::<fn(&mut Cx, &_) -> String>)
        }
        SetOp::IntoIter(take, end) => {
            let owned = std::mem::replace(s, Set::new());
            consume(cx, mm(|| owned.into_iter()), *take, *end, |k: &Key| k.show(), None::<fn(&mut Cx, &_) -> String>)
        }
        SetOp::Iter(script) => {
            let it = mm(|| s.iter());
            run_script_set(cx, it, script)
        }
        SetOp::Extend(pulls, xs) => {
            let items: Vec<Key> = xs.iter().map(|k| mk_key(*k)).collect();
            let src = Src::new(items, *pulls);
            mm(|| s.extend(src));
            "()".into()
        }
        SetOp::ExtendRef(init, xs) => {
            let mut c: Set<u16, N> = mm(Set::new);
            for x in init {
                mm(|| c.insert(*x));
            }
            mm(|| c.extend(xs.iter()));
            let items: Vec<String> = c.iter().map(|x| x.to_string()).collect();
            format!("[{},[{}]]", mm(|| c.len()), items.join(","))
        }
        SetOp::Fmt(kind) => {
            match kind {
                FmtKind::Debug => mm(|| write!(cx.buf, "{:?}", s)).unwrap(),
                FmtKind::DebugAlt => mm(|| write!(cx.buf, "{:#?}", s)).unwrap(),
                FmtKind::Display => mm(|| write!(cx.buf, "{}", s)).unwrap(),
                FmtKind::DisplayPad => mm(|| write!(cx.buf, "{:>30}", s)).unwrap(),
                FmtKind::DisplayAlt => mm(|| write!(cx.buf, "{:#}", s)).unwrap(),
                FmtKind::DebugPad => mm(|| write!(cx.buf, "{:30?}", s)).unwrap(),
            }
            esc(&cx.buf.take())
        }
        SetOp::Drop => {
            let owned = std::mem::replace(s, Set::new());
            mm(|| drop(owned));
            "()".into()
        }
        SetOp::Forget => {
            let owned = std::mem::replace(s, Set::new());
            std::mem::forget(owned);
            "()".into()
        }
        _ => unreachable!(),
    }
}

/// `SetIter` has no `Debug` impl: the debug commands are skipped on both sides by the generator.
fn run_script_set(cx: &mut Cx, it: micromap::SetIter<'_, Key>, script: &[Cmd]) -> String {
    let mut out: Vec<String> = Vec::new();
    let mut forks = Vec::new();
    let mut it = Some(it);
    for c in script {
        let Some(cur) = it.as_mut() else { break };
        match c {
            Cmd::Next => match mm(|| cur.next()) {
                None => out.push("-".into()),
                Some(k) => out.push(format!("+@{}={}", cx.slot(k as *const Key as usize), k.show())),
            },
            Cmd::Len => out.push(format!("{}", mm(|| cur.len()))),
            Cmd::Hint => out.push(hint(mm(|| cur.size_hint()))),
            Cmd::Debug | Cmd::DebugAlt => out.push("\"nodebug\"".into()),
            Cmd::Clone => forks.push(mm(|| cur.clone())),
            Cmd::Count | Cmd::Fold => {
                let i = it.take().unwrap();
                out.push(format!("{}", mm(|| i.count())));
            }
            Cmd::Nth(n) => match mm(|| cur.nth(*n)) {
                None => out.push("-".into()),
                Some(k) => out.push(format!("+@{}={}", cx.slot(k as *const Key as usize), k.show())),
            },
            Cmd::Last => {
                let i = it.take().unwrap();
                match mm(|| i.last()) {
                    None => out.push("-".into()),
                    Some(k) => out.push(format!("+@{}={}", cx.slot(k as *const Key as usize), k.show())),
                }
            }
        }
    }
    for f in forks {
        let mut items = Vec::new();
        for k in f {
            items.push(format!("@{}={}", cx.slot(k as *const Key as usize), k.show()));
        }
        out.push(format!("[{}]", items.join(",")));
    }
    format!("[{}]", out.join(","))
}

pub fn set_from_iter<const N: usize>(pulls: bool, xs: &[K]) -> SetN<N> {
    let items: Vec<Key> = xs.iter().map(|k| mk_key(*k)).collect();
    if !pulls && items.len() == N {
        let mut it = items.into_iter();
        let arr: [Key; N] = std::array::from_fn(|_| it.next().unwrap());
        mm(|| Set::from(arr))
    } else {
        let src = Src::new(items, pulls);
        mm(|| Set::from_iter(src))
    }
}

pub fn snap_set<const N: usize>(s: &SetN<N>) -> String {
    let items: Vec<String> = s.iter().map(|k| k.show()).collect();
    format!("{}/{}/{}[{}]", s.len(), s.capacity(), s.is_empty() as u8, items.join(","))
}

fn alg_script<'a, I>(cx: &mut Cx, it: I, script: &[Cmd]) -> String
where
    I: Iterator<Item = &'a Key> + Clone + std::fmt::Debug,
{
    let show = |cx: &mut Cx, k: &Key| {
        let (o, s) = cx.oslot(k as *const Key as usize);
        format!("@{}.{}={}", o, s, k.show())
    };
    let mut out: Vec<String> = Vec::new();
    let mut forks: Vec<I> = Vec::new();
    let mut it = Some(it);
    for c in script {
        let Some(cur) = it.as_mut() else { break };
        match c {
            Cmd::Next => match mm(|| cur.next()) {
                None => out.push("-".into()),
                Some(k) => {
                    let s = show(cx, k);
                    out.push(format!("+{s}"));
                }
            },
            Cmd::Len => {}
            Cmd::Hint => out.push(hint(mm(|| cur.size_hint()))),
            Cmd::Debug => {
                mm(|| write!(cx.buf, "{:?}", cur)).unwrap();
                out.push(esc(&cx.buf.take()));
            }
            Cmd::DebugAlt => {
                mm(|| write!(cx.buf, "{:#?}", cur)).unwrap();
                out.push(esc(&cx.buf.take()));
            }
            Cmd::Clone => forks.push(mm(|| cur.clone())),
            Cmd::Count => {
                let i = it.take().unwrap();
                out.push(format!("{}", mm(|| i.count())));
            }
            Cmd::Nth(n) => match mm(|| cur.nth(*n)) {
                None => out.push("-".into()),
                Some(k) => {
                    let s = show(cx, k);
                    out.push(format!("+{s}"));
                }
            },
            Cmd::Last => {
                let i = it.take().unwrap();
                match mm(|| i.last()) {
                    None => out.push("-".into()),
                    Some(k) => {
                        let s = show(cx, k);
                        out.push(format!("+{s}"));
                    }
                }
            }
            Cmd::Fold => {
                let i = it.take().unwrap();
                let mut acc: [Option<&Key>; 320] = [None; 320];
                let n = mm(|| {
                    i.fold(0usize, |n, k| {
                        if n < 320 {
                            acc[n] = Some(k);
                        }
                        n + 1
                    })
                });
                let items: Vec<String> = acc.iter().take(n).flatten().map(|k| show(cx, k)).collect();
                out.push(format!("[{}]", items.join(",")));
            }
        }
    }
    for f in forks {
        let mut items = Vec::new();
        let mut f = f;
        while let Some(k) = mm(|| f.next()) {
            items.push(show(cx, k));
        }
        out.push(format!("[{}]", items.join(",")));
    }
    format!("[{}]", out.join(","))
}

pub fn set_alg<const N: usize, const M: usize>(
    cx: &mut Cx,
    a: &SetN<N>,
    b: &SetN<M>,
    kind: AlgKind,
    script: &[Cmd],
) -> String {
    match kind {
        AlgKind::Difference => alg_script(cx, mm(|| a.difference(b)), script),
        AlgKind::Intersection => alg_script(cx, mm(|| a.intersection(b)), script),
        AlgKind::Union => alg_script(cx, mm(|| a.union(b)), script),
        AlgKind::SymmetricDifference => alg_script(cx, mm(|| a.symmetric_difference(b)), script),
        AlgKind::DifferenceRef => {
            // sets of references into the operands (built through `FromIterator`, which compares)
            let ra: Set<&Key, N> = mm(|| a.iter().collect());
            let rb: Set<&Key, M> = mm(|| b.iter().collect());
            let it = mm(|| ra.difference_ref(&rb));
            alg_script(cx, it, script)
        }
    }
}

pub fn set_extend_from<const N: usize, const M: usize>(dst: &mut SetN<N>, src: SetN<M>) {
    mm(|| dst.extend(src));
}

pub fn set_pred<const N: usize, const M: usize>(a: &SetN<N>, b: &SetN<M>, op: &SetOp) -> String {
    let r = match op {
        SetOp::Eq(_) => {
            let mk = ctl::mark();
            let e = mm(|| a == b);
            let n = ctl::shadow(mk, || mm(|| a != b));
            if n == e {
                return format!("\"a == b is {e} and a != b is {n}\"");
            }
            e
        }
        SetOp::IsSubset(_) => mm(|| a.is_subset(b)),
        SetOp::IsSuperset(_) => mm(|| a.is_superset(b)),
        SetOp::IsDisjoint(_) => mm(|| a.is_disjoint(b)),
        _ => unreachable!(),
    };
    format!("{}", r as u8)
}

pub fn set_sub<const N: usize, const M: usize>(a: &SetN<N>, b: &SetN<M>) -> SetN<N> {
    mm(|| a - b)
}

/// serde round trip (feature `serde`): bincode's legacy configuration writes a u64 length prefix
/// followed by the entries, every integer as 8 little-endian bytes — so the announced length and
/// the number of entries actually emitted can be read off the bytes.
#[cfg(feature = "serde")]
pub mod serde_rt {
    use crate::regs::{MapN, SetN};
    use bincode::serde::{decode_from_slice, encode_into_slice};

    use crate::tokfmt::{Tk, TokDe, TokSer};
    use serde::{Deserialize, Serialize};

    /// an encoded container: bincode bytes, or the recorded serde calls (`tokfmt`) plus the
    /// `size_hint` behaviour the deserializer is to show
    pub enum Enc {
        Bin(Vec<u8>),
        Tok(Vec<Tk>, u8),
    }

    /// `fmt` 0: bincode (legacy); `fmt` 1..=4: the token format with hint behaviour `fmt - 1`.
    /// -> (announced length, number of entries emitted, encoding)
    fn encode<T: Serialize>(m: &T, fmt: u8, per: usize) -> Option<(String, usize, Enc)> {
        if fmt == 0 {
            let mut buf = [0u8; 8192];
            let n = crate::ctl::mm(|| encode_into_slice(m, &mut buf, bincode::config::legacy())).ok()?;
            let ann = u64::from_le_bytes(buf[..8].try_into().ok()?);
            Some((ann.to_string(), (n - 8) / (8 * per), Enc::Bin(buf[..n].to_vec())))
        } else {
            let mut toks: Vec<Tk> = Vec::with_capacity(2048);
            crate::ctl::mm(|| m.serialize(TokSer(&mut toks))).ok()?;
            let ann = match toks.first() {
                Some(Tk::MapStart(Some(n))) | Some(Tk::SeqStart(Some(n))) => n.to_string(),
                Some(Tk::MapStart(None)) | Some(Tk::SeqStart(None)) => "none".into(),
                _ => return None,
            };
            if toks.last() != Some(&Tk::End) {
                return None;
            }
            let items = toks.len() - 2;
            if items % per != 0 {
                return None;
            }
            Some((ann, items / per, Enc::Tok(toks, (fmt - 1) % 4)))
        }
    }
    fn decode<T: for<'de> Deserialize<'de>>(e: &Enc) -> Option<T> {
        match e {
            Enc::Bin(b) => {
                let r: Result<(T, usize), _> = crate::ctl::mm(|| decode_from_slice(b, bincode::config::legacy()));
                match r {
                    Ok((m, used)) if used == b.len() => Some(m),
                    _ => None,
                }
            }
            Enc::Tok(t, hint) => {
                let mut de = TokDe { toks: t, pos: 0, hint: *hint };
                let r = crate::ctl::mm(|| T::deserialize(&mut de));
                match r {
                    Ok(m) if de.pos == t.len() => Some(m),
                    _ => None,
                }
            }
        }
    }

    /// `Deserialize::deserialize_in_place` into an existing container (serde's provided method is
    /// `*place = deserialize(d)?` unless the crate overrides it); token format only
    pub fn decode_in_place<T: for<'de> Deserialize<'de>>(e: &Enc, place: &mut T) -> bool {
        match e {
            Enc::Bin(_) => false,
            Enc::Tok(t, hint) => {
                let mut de = TokDe { toks: t, pos: 0, hint: *hint };
                let r = crate::ctl::mm(|| T::deserialize_in_place(&mut de, place));
                r.is_ok() && de.pos == t.len()
            }
        }
    }

    /// the token stream of a map / a set with the given entries, in that order (repeats included)
    pub fn enc_of_pairs(xs: &[(u16, i32)], hint: u8) -> Enc {
        let mut t = vec![Tk::MapStart(Some(xs.len()))];
        for (c, v) in xs {
            t.push(Tk::U64((*c as u64) << 32));
            t.push(Tk::U64((*v as u32) as u64));
        }
        t.push(Tk::End);
        Enc::Tok(t, hint % 4)
    }
    pub fn enc_of_keys(xs: &[u16], hint: u8) -> Enc {
        let mut t = vec![Tk::SeqStart(Some(xs.len()))];
        for c in xs {
            t.push(Tk::U64((*c as u64) << 32));
        }
        t.push(Tk::End);
        Enc::Tok(t, hint % 4)
    }
    pub fn encode_map<const N: usize>(m: &MapN<N>, fmt: u8) -> Option<(String, usize, Enc)> {
        encode(m, fmt, 2)
    }
    pub fn decode_map<const N: usize>(e: &Enc) -> Option<MapN<N>> {
        decode(e)
    }
    /// `[announced length, elements serialized, len after decoding]` for a container of zero-sized
    /// elements (`k` insertions of the one value there is)
    pub fn zst_set<const N: usize>(k: usize) -> String {
        use crate::types::{Z, ZST_SERIALIZED};
        let mut s: micromap::Set<Z, N> = micromap::Set::new();
        for _ in 0..k {
            crate::ctl::mm(|| s.insert(Z));
        }
        let mut buf = [0u8; 64];
        ZST_SERIALIZED.with(|c| c.set(0));
        let Ok(n) = crate::ctl::mm(|| encode_into_slice(&s, &mut buf, bincode::config::legacy())) else {
            return "[encode-error]".into();
        };
        let ann = u64::from_le_bytes(buf[..8].try_into().unwrap());
        let cnt = ZST_SERIALIZED.with(|c| c.get());
        let r: Result<(micromap::Set<Z, N>, usize), _> =
            crate::ctl::mm(|| decode_from_slice(&buf[..n], bincode::config::legacy()));
        match r {
            Ok((d, _)) => format!("[{},{},{}]", ann, cnt, d.len()),
            Err(_) => format!("[{},{},decode-error]", ann, cnt),
        }
    }
    pub fn zst_map<const N: usize>(k: usize) -> String {
        use crate::types::{Z, ZST_SERIALIZED};
        let mut s: micromap::Map<Z, Z, N> = micromap::Map::new();
        for _ in 0..k {
            crate::ctl::mm(|| s.insert(Z, Z));
        }
        let mut buf = [0u8; 64];
        ZST_SERIALIZED.with(|c| c.set(0));
        let Ok(n) = crate::ctl::mm(|| encode_into_slice(&s, &mut buf, bincode::config::legacy())) else {
            return "[encode-error]".into();
        };
        let ann = u64::from_le_bytes(buf[..8].try_into().unwrap());
        let cnt = ZST_SERIALIZED.with(|c| c.get());
        let r: Result<(micromap::Map<Z, Z, N>, usize), _> =
            crate::ctl::mm(|| decode_from_slice(&buf[..n], bincode::config::legacy()));
        match r {
            Ok((d, _)) => format!("[{},{},{}]", ann, cnt / 2, d.len()),
            Err(_) => format!("[{},{},decode-error]", ann, cnt),
        }
    }
    pub fn wrong_map<const N: usize>() -> String {
        use serde::de::value::{BoolDeserializer, Error};
        use serde::Deserialize;
        let r: Result<MapN<N>, Error> = crate::ctl::mm(|| MapN::<N>::deserialize(BoolDeserializer::new(true)));
        match r {
            Ok(_) => "\"accepted\"".into(),
            Err(e) => super::esc(&e.to_string()),
        }
    }
    pub fn wrong_set<const N: usize>() -> String {
        use serde::de::value::{BoolDeserializer, Error};
        use serde::Deserialize;
        let r: Result<SetN<N>, Error> = crate::ctl::mm(|| SetN::<N>::deserialize(BoolDeserializer::new(true)));
        match r {
            Ok(_) => "\"accepted\"".into(),
            Err(e) => super::esc(&e.to_string()),
        }
    }
    pub fn encode_set<const N: usize>(m: &SetN<N>, fmt: u8) -> Option<(String, usize, Enc)> {
        encode(m, fmt, 1)
    }
    pub fn decode_set<const N: usize>(e: &Enc) -> Option<SetN<N>> {
        decode(e)
    }
}

// ------------------------------------------------------------------ Map<Key, (), N>: zero-sized values

/// The `Map` API on a map whose value type is zero-sized (the map a `Set` wraps).  References to
/// `()` values are reported as slot positions like any other reference.
pub fn umap_op<const N: usize>(cx: &mut Cx, m: &mut Map<Key, (), N>, op: &MapOp) -> String {
    let unit = |o: Option<()>| if o.is_some() { "+()".to_string() } else { "-".to_string() };
    match op {
        MapOp::Insert(k, _) => {
            let k = mk_key(*k);
            unit(mm(|| m.insert(k, ())))
        }
        MapOp::InsertKeyValue(k, _) => {
            let k = mk_key(*k);
            let r = Held::new(mm(|| m.insert_key_value(k, ())));
            match &*r {
                None => "-".into(),
                Some((k, _)) => format!("+{}", k.show()),
            }
        }
        MapOp::CheckedInsert(k, _) => {
            let k = mk_key(*k);
            match mm(|| m.checked_insert(k, ())) {
                None => "-".into(),
                Some(o) => format!("+{}", unit(o)),
            }
        }
        MapOp::Get(p) | MapOp::GetMut(p, _) => {
            let is_mut = matches!(op, MapOp::GetMut(..));
            let p = mk_probe(*p);
            let a = if is_mut {
                lookup!(p, q => mm(|| m.get_mut(q))).map(|v| v as *const () as usize)
            } else {
                lookup!(p, q => mm(|| m.get(q))).map(|v| v as *const () as usize)
            };
            match a {
                None => "-".into(),
                Some(a) => format!("+@{}=()", cx.slot_zst(a)),
            }
        }
        MapOp::GetKeyValue(p) => {
            let p = mk_probe(*p);
            match lookup!(p, q => mm(|| m.get_key_value(q))) {
                None => "-".into(),
                Some((k, v)) => {
                    let s = cx.slot(k as *const Key as usize);
                    if s != cx.slot_zst(v as *const () as usize) {
                        cx.all_inside = false;
                    }
                    format!("+@{}={}", s, k.show())
                }
            }
        }
        MapOp::ContainsKey(p) => {
            let p = mk_probe(*p);
            format!("{}", lookup!(p, q => mm(|| m.contains_key(q))) as u8)
        }
        MapOp::Index(p) => {
            let p = mk_probe(*p);
            let v: &() = lookup!(p, q => mm(|| &m[q]));
            format!("@{}=()", cx.slot_zst(v as *const () as usize))
        }
        MapOp::IndexMut(p, _) => {
            let p = mk_probe(*p);
            let v: &mut () = lookup!(p, q => mm(|| &mut m[q]));
            format!("@{}=()", cx.slot_zst(v as *const () as usize))
        }
        MapOp::Remove(p) => {
            let p = mk_probe(*p);
            unit(lookup!(p, q => mm(|| m.remove(q))))
        }
        MapOp::RemoveEntry(p) => {
            let p = mk_probe(*p);
            let r = Held::new(lookup!(p, q => mm(|| m.remove_entry(q))));
            match &*r {
                None => "-".into(),
                Some((k, _)) => format!("+{}", k.show()),
            }
        }
        MapOp::Retain(mask, _) => {
            mm(|| {
                m.retain(|k, _| {
                    tick();
                    log(Ev::Call(0));
                    cx.slot(k as *const Key as usize);
                    if *mask >= 65536 {
                        (mask >> (ctl::with(|c| c.calls) % 16)) & 1 == 1
                    } else {
                        mask.checked_shr(k.p.cls as u32).unwrap_or(0) & 1 == 1
                    }
                })
            });
            "()".into()
        }
        MapOp::Gdm(unchecked, _, ps) => {
            let probes: Vec<HP> = ps.iter().map(|p| mk_probe(*p)).collect();
            macro_rules! go {
                ($j:literal) => {{
                    let arr: [&Probe; $j] = std::array::from_fn(|i| match &probes[i] {
                        HP::Q(p) => p,
                        HP::Key(h) => &h.p,
                    });
                    let r = if *unchecked {
                        mm(|| unsafe { m.get_disjoint_unchecked_mut(arr) })
                    } else {
                        mm(|| m.get_disjoint_mut(arr))
                    };
                    let items: Vec<String> = r
                        .into_iter()
                        .map(|o| match o {
                            None => "-".to_string(),
                            Some(u) => format!("+@{}=()", cx.slot_zst(u as *const () as usize)),
                        })
                        .collect();
                    format!("[{}]", items.join(","))
                }};
            }
            match probes.len() {
                0 => go!(0),
                1 => go!(1),
                2 => go!(2),
                3 => go!(3),
                4 => go!(4),
                _ => "bad-arity".into(),
            }
        }
        MapOp::Clear => {
            mm(|| m.clear());
            "()".into()
        }
        MapOp::Len => format!("{}", mm(|| m.len())),
        MapOp::IsEmpty => format!("{}", mm(|| m.is_empty()) as u8),
        MapOp::Capacity => format!("{}", mm(|| m.capacity())),
        MapOp::Iter(kind, _, script) => match kind {
            IterKind::Iter => {
                let it = mm(|| m.iter());
                run_script(cx, it, script, Some(|i| i.clone()), |cx, (k, _)| {
                    format!("@{}={}", cx.slot(k as *const Key as usize), k.show())
                })
            }
            IterKind::Keys => {
                let it = mm(|| m.keys());
                run_script(cx, it, script, Some(|i| i.clone()), |cx, k| {
                    format!("@{}={}", cx.slot(k as *const Key as usize), k.show())
                })
            }
            IterKind::Values => {
                let it = mm(|| m.values());
                run_script(cx, it, script, Some(|i| i.clone()), |cx, v| {
                    format!("@{}=()", cx.slot_zst(v as *const () as usize))
                })
            }
            IterKind::IterMut => {
                let it = mm(|| m.iter_mut());
                run_script(cx, it, script, None, |cx, (k, _)| {
                    format!("@{}={}", cx.slot(k as *const Key as usize), k.show())
                })
            }
            IterKind::ValuesMut => {
                let it = mm(|| m.values_mut());
                run_script(cx, it, script, None, |cx, v| format!("@{}=()", cx.slot_zst(v as *const () as usize)))
            }
        },
        MapOp::Entry(k, mods, fin) => {
            let key = mk_key(*k);
            let mut e = mm(|| m.entry(key));
            let kind = match &e {
                Entry::Occupied(_) => "occ",
                Entry::Vacant(_) => "vac",
            };
            for _ in mods {
                e = mm(|| {
                    e.and_modify(|_| {
                        tick();
                        log(Ev::Call(1));
                    })
                });
            }
            let r = match fin {
                EntryEnd::OrInsert(_) => {
                    let r = mm(|| e.or_insert(()));
                    format!("@{}=()", cx.slot_zst(r as *const () as usize))
                }
                EntryEnd::OrInsertWith(_) => {
                    let r = mm(|| {
                        e.or_insert_with(|| {
                            tick();
                            log(Ev::Call(2));
                        })
                    });
                    format!("@{}=()", cx.slot_zst(r as *const () as usize))
                }
                EntryEnd::OrInsertWithKey(_) => {
                    let r = mm(|| {
                        e.or_insert_with_key(|_k| {
                            tick();
                            log(Ev::Call(3));
                        })
                    });
                    format!("@{}=()", cx.slot_zst(r as *const () as usize))
                }
                EntryEnd::Key => {
                    let s = mm(|| e.key()).show();
                    mm(|| drop(e));
                    s
                }
                EntryEnd::Drop => {
                    mm(|| drop(e));
                    "()".into()
                }
                fin => match e {
                    Entry::Occupied(mut o) => match fin {
                        EntryEnd::OccKey => mm(|| o.key()).show(),
                        EntryEnd::OccGet => {
                            let r = mm(|| o.get());
                            format!("@{}=()", cx.slot_zst(r as *const () as usize))
                        }
                        EntryEnd::OccGetMut(_) => {
                            let r = mm(|| o.get_mut());
                            format!("@{}=()", cx.slot_zst(r as *const () as usize))
                        }
                        EntryEnd::OccIntoMut => {
                            let r = mm(|| o.into_mut());
                            format!("@{}=()", cx.slot_zst(r as *const () as usize))
                        }
                        EntryEnd::OccInsert(_) => {
                            mm(|| o.insert(()));
                            "()".into()
                        }
                        EntryEnd::OccRemove => {
                            mm(|| o.remove());
                            "()".into()
                        }
                        EntryEnd::OccRemoveEntry => {
                            let r = Held::new(mm(|| o.remove_entry()));
                            (*r).0.show()
                        }
                        _ => "occupied".into(),
                    },
                    Entry::Vacant(v) => match fin {
                        EntryEnd::VacKey => {
                            let s = mm(|| v.key()).show();
                            mm(|| drop(v));
                            s
                        }
                        EntryEnd::VacIntoKey => Held::new(mm(|| v.into_key())).show(),
                        EntryEnd::VacInsert(_) => {
                            let r = mm(|| v.insert(()));
                            format!("@{}=()", cx.slot_zst(r as *const () as usize))
                        }
                        _ => {
                            mm(|| drop(v));
                            "vacant".into()
                        }
                    },
                },
            };
            format!("[{},{}]", kind, r)
        }
        MapOp::Fmt(kind) => {
            match kind {
                FmtKind::Debug => mm(|| write!(cx.buf, "{:?}", m)).unwrap(),
                FmtKind::DebugAlt => mm(|| write!(cx.buf, "{:#?}", m)).unwrap(),
                FmtKind::DebugPad => mm(|| write!(cx.buf, "{:30?}", m)).unwrap(),
                // `()` is not `Display`, so `Map<Key, (), N>` has no `Display`
                _ => return "unsupported".into(),
            }
            esc(&cx.buf.take())
        }
        MapOp::Drain(take, end) => {
            let d = mm(|| m.drain());
            consume(cx, d, *take, *end, |x: &(Key, ())| x.0.show(), Some(|cx: &mut Cx, i: &_| dbg_of(cx, i)))
        }
        MapOp::IntoIter(kind, take, end) => {
            let owned = std::mem::replace(m, Map::new());
            match kind {
                IntoKind::Pairs => consume(cx, mm(|| owned.into_iter()), *take, *end, |x: &(Key, ())| x.0.show(),
                                           Some(|cx: &mut Cx, i: &_| dbg_of(cx, i))),
                IntoKind::Keys => consume(cx, mm(|| owned.into_keys()), *take, *end, |x: &Key| x.show(),
                                          Some(|cx: &mut Cx, i: &_| dbg_of(cx, i))),
                IntoKind::Values => consume(cx, mm(|| owned.into_values()), *take, *end, |_: &()| "()".to_string(),
                                            Some(|cx: &mut Cx, i: &_| dbg_of(cx, i))),
            }
        }
        MapOp::Drop => {
            let owned = std::mem::replace(m, Map::new());
            mm(|| drop(owned));
            "()".into()
        }
        _ => "unsupported".into(),
    }
}

/// a set register seen as the map it wraps
pub fn as_umap<const N: usize>(s: &mut SetN<N>) -> &mut Map<Key, (), N> {
    // SAFETY: `Set<T, N>` is `#[repr(transparent)]` over `Map<T, (), N>`
    unsafe { &mut *(s as *mut SetN<N> as *mut Map<Key, (), N>) }
}

