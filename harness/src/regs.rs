//! Registers: containers of a compiled-in capacity menu inside a canary cage,
//! layout discovery (slot addresses), poisoning of the dead tail.
use crate::ctl;
use crate::types::{Key, Val};
use micromap::{Map, Set};

pub const CANARY: u64 = 0xC0FF_EED1_5EA5_E5A5;

#[repr(C)]
pub struct Caged<C> {
    pub pre: [u64; 8],
    pub c: C,
    pub post: [u64; 8],
}

impl<C> Caged<C> {
    pub fn new(c: C) -> Box<Self> {
        Box::new(Caged { pre: [CANARY; 8], c, post: [CANARY; 8] })
    }
    pub fn canary(&self) -> &'static str {
        if self.pre.iter().any(|w| *w != CANARY) {
            "pre"
        } else if self.post.iter().any(|w| *w != CANARY) {
            "post"
        } else {
            "ok"
        }
    }
}

macro_rules! any_enum {
    ($name:ident, $ty:ident, $($v:ident = $n:literal),*) => {
        pub enum $name { $($v(Box<Caged<$ty<$n>>>),)* }
        impl $name {
            pub fn new(cap: usize) -> Option<Self> {
                match cap {
                    $($n => Some($name::$v(Caged::new(<$ty<$n>>::new()))),)*
                    _ => None,
                }
            }
        }
    };
}

pub type MapN<const N: usize> = Map<Key, Val, N>;
pub type SetN<const N: usize> = Set<Key, N>;

any_enum!(AnyMap, MapN, C0 = 0, C1 = 1, C2 = 2, C3 = 3, C4 = 4, C6 = 6, C64 = 64, C300 = 300);
any_enum!(AnySet, SetN, C0 = 0, C1 = 1, C2 = 2, C3 = 3, C4 = 4, C6 = 6, C64 = 64, C300 = 300);

#[macro_export]
macro_rules! with_map {
    ($reg:expr, $b:ident => $body:expr) => {
        match $reg {
            $crate::regs::AnyMap::C0($b) => $body,
            $crate::regs::AnyMap::C1($b) => $body,
            $crate::regs::AnyMap::C2($b) => $body,
            $crate::regs::AnyMap::C3($b) => $body,
            $crate::regs::AnyMap::C4($b) => $body,
            $crate::regs::AnyMap::C6($b) => $body,
            $crate::regs::AnyMap::C64($b) => $body,
            $crate::regs::AnyMap::C300($b) => $body,
        }
    };
}

#[macro_export]
macro_rules! with_set {
    ($reg:expr, $b:ident => $body:expr) => {
        match $reg {
            $crate::regs::AnySet::C0($b) => $body,
            $crate::regs::AnySet::C1($b) => $body,
            $crate::regs::AnySet::C2($b) => $body,
            $crate::regs::AnySet::C3($b) => $body,
            $crate::regs::AnySet::C4($b) => $body,
            $crate::regs::AnySet::C6($b) => $body,
            $crate::regs::AnySet::C64($b) => $body,
            $crate::regs::AnySet::C300($b) => $body,
        }
    };
}

/// Where the slot array lives inside the container value and how big a slot is.
#[derive(Clone, Copy, Debug)]
pub struct Layout {
    pub pairs_off: usize,
    pub pair_size: usize,
    pub total: usize,
    pub cap: usize,
    /// offset of the value field inside a pair (used for zero-sized values, whose address carries
    /// no slot information beyond it)
    pub val_off: usize,
}

/// Discover the layout of `Map<Key, Val, N>` from the address of the first yielded key.
/// Must be called while the ledger is in a scratch state (before `Ctl::reset`).
pub fn map_layout<const N: usize>() -> Layout {
    let pair_size = std::mem::size_of::<(Key, Val)>();
    let total = std::mem::size_of::<MapN<N>>();
    if N == 0 {
        return Layout { pairs_off: 0, pair_size, total, cap: 0, val_off: 0 };
    }
    ctl::quietly(|| {
        let t = (Key::new(0, 4_000_000_001), Val::new(4_000_000_001, 0));
        let key_in_pair = (&t.0 as *const Key as usize) - (&t as *const (Key, Val) as usize);
        let val_off = (&t.1 as *const Val as usize) - (&t as *const (Key, Val) as usize);
        let mut m: MapN<N> = Map::new();
        m.insert(Key::new(0, 4_000_000_002), Val::new(4_000_000_002, 0));
        let base = &m as *const MapN<N> as usize;
        let k0 = m.iter().next().unwrap().0 as *const Key as usize;
        Layout { pairs_off: k0 - base - key_in_pair, pair_size, total, cap: N, val_off }
    })
}

pub fn set_layout<const N: usize>() -> Layout {
    let pair_size = std::mem::size_of::<(Key, ())>();
    let total = std::mem::size_of::<SetN<N>>();
    if N == 0 {
        return Layout { pairs_off: 0, pair_size, total, cap: 0, val_off: 0 };
    }
    ctl::quietly(|| {
        let t = (Key::new(0, 4_000_000_003), ());
        let key_in_pair = (&t.0 as *const Key as usize) - (&t as *const (Key, ()) as usize);
        let val_off = (&t.1 as *const () as usize) - (&t as *const (Key, ()) as usize);
        let mut s: SetN<N> = Set::new();
        s.insert(Key::new(0, 4_000_000_004));
        let base = &s as *const SetN<N> as usize;
        let k0 = s.iter().next().unwrap() as *const Key as usize;
        Layout { pairs_off: k0 - base - key_in_pair, pair_size, total, cap: N, val_off }
    })
}

impl Layout {
    /// slot index of an address handed out by the container at `base`, and whether the
    /// address lies inside the bytes of the container value.
    pub fn locate(&self, base: usize, addr: usize) -> (i64, bool) {
        let inside = addr >= base && addr < base + self.total.max(1);
        if self.pair_size == 0 {
            return (0, inside || self.total == 0);
        }
        let off = addr as i64 - (base + self.pairs_off) as i64;
        (off.div_euclid(self.pair_size as i64), inside)
    }
    /// the same for a reference to a zero-sized value: its address is `slot start + val_off`
    /// (possibly one past the last byte of the pair, hence the inclusive upper bound).
    pub fn locate_zst(&self, base: usize, addr: usize) -> (i64, bool) {
        let inside = addr >= base && addr <= base + self.total;
        if self.pair_size == 0 {
            return (0, inside);
        }
        let off = addr as i64 - (base + self.pairs_off + self.val_off) as i64;
        let ok = off >= 0 && off % self.pair_size as i64 == 0;
        (off.div_euclid(self.pair_size as i64), inside && ok)
    }
    /// Overwrite the bytes of slots `len..cap` with 0xA5 (they are uninitialised or
    /// moved-out from the API's point of view), so that any later read of them yields an
    /// impossible object id.
    pub unsafe fn poison(&self, base: *mut u8, len: usize) {
        if len > self.cap {
            return;
        }
        for i in len..self.cap {
            std::ptr::write_bytes(base.add(self.pairs_off + i * self.pair_size), 0xA5, self.pair_size);
        }
    }
}
