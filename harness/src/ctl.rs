//! Global control shared by the instrumented element types: callback counter,
//! fault injection, event log, object ledger, allocation counter.
use std::alloc::{GlobalAlloc, Layout, System};
use std::cell::RefCell;
use std::collections::HashMap;
use std::sync::atomic::{AtomicI64, AtomicU64, Ordering};

// ---------------------------------------------------------------- allocator

pub struct CountingAlloc;
static ALLOCS: AtomicU64 = AtomicU64::new(0);
/// > 0 : counting enabled (inside a call into micromap); paused while harness
/// code (callbacks, ledger) runs.
static COUNTING: AtomicI64 = AtomicI64::new(0);

unsafe impl GlobalAlloc for CountingAlloc {
    unsafe fn alloc(&self, l: Layout) -> *mut u8 {
        if COUNTING.load(Ordering::Relaxed) > 0 {
            ALLOCS.fetch_add(1, Ordering::Relaxed);
        }
        System.alloc(l)
    }
    unsafe fn dealloc(&self, p: *mut u8, l: Layout) {
        System.dealloc(p, l)
    }
    unsafe fn realloc(&self, p: *mut u8, l: Layout, n: usize) -> *mut u8 {
        if COUNTING.load(Ordering::Relaxed) > 0 {
            ALLOCS.fetch_add(1, Ordering::Relaxed);
        }
        System.realloc(p, l, n)
    }
}

pub fn allocs() -> u64 {
    ALLOCS.load(Ordering::Relaxed)
}

struct Restore(i64);
impl Drop for Restore {
    fn drop(&mut self) {
        COUNTING.store(self.0, Ordering::Relaxed);
    }
}

/// Run a call into micromap with allocation counting on.
pub fn mm<T>(f: impl FnOnce() -> T) -> T {
    let _g = Restore(COUNTING.swap(1, Ordering::Relaxed));
    f()
}

/// Run harness code (a callback) with counting off.
pub fn paused<T>(f: impl FnOnce() -> T) -> T {
    let _g = Restore(COUNTING.swap(0, Ordering::Relaxed));
    f()
}

// ---------------------------------------------------------------- oracle for `==`

#[derive(Clone, Copy, Debug)]
pub enum EqMode {
    Lawful,
    Table(u64),
    Stateful(u64),
}

fn mix64(mut x: u64) -> u64 {
    x = (x ^ (x >> 30)).wrapping_mul(0xbf58476d1ce4e5b9);
    x = (x ^ (x >> 27)).wrapping_mul(0x94d049bb133111eb);
    x ^ (x >> 31)
}

fn hash_fields(seed: u64, fs: &[u64]) -> u64 {
    let mut h = mix64(seed.wrapping_add(0x9e3779b97f4a7c15));
    for f in fs {
        h = mix64(h ^ f.wrapping_add(0x9e3779b97f4a7c15));
    }
    h
}

pub fn oracle(mode: EqMode, kind: u64, callno: u64, a: (u16, u32), b: (u16, u32)) -> bool {
    let lawful = a.0 == b.0;
    match mode {
        EqMode::Lawful => lawful,
        EqMode::Table(seed) => {
            let h = hash_fields(seed, &[kind, a.0 as u64, a.1 as u64, b.0 as u64, b.1 as u64]);
            if h % 4 == 0 { !lawful } else { lawful }
        }
        EqMode::Stateful(seed) => {
            let h = hash_fields(
                seed,
                &[kind, a.0 as u64, a.1 as u64, b.0 as u64, b.1 as u64, callno],
            );
            if h % 4 == 0 { !lawful } else { lawful }
        }
    }
}

// ---------------------------------------------------------------- events, ledger

#[derive(Clone, Copy, Debug)]
pub enum Ev {
    Dk(u32),
    Dv(u32),
    Ck(u32, u32),
    Cv(u32, u32),
    Ek(u32, u32, bool),
    Eq(u32, u32, bool),
    EvV(u32, u32, bool),
    Call(u32),
    Pull,
}

impl Ev {
    pub fn render(&self) -> String {
        match *self {
            Ev::Dk(i) => format!("dk{i}"),
            Ev::Dv(i) => format!("dv{i}"),
            Ev::Ck(a, b) => format!("ck{a}>{b}"),
            Ev::Cv(a, b) => format!("cv{a}>{b}"),
            Ev::Ek(a, b, r) => format!("ek{a}:{b}={}", r as u8),
            Ev::Eq(a, b, r) => format!("eq{a}:{b}={}", r as u8),
            Ev::EvV(a, b, r) => format!("ev{a}:{b}={}", r as u8),
            Ev::Call(t) => format!("c{t}"),
            Ev::Pull => "p".to_string(),
        }
    }
}

#[derive(Clone, Copy, PartialEq, Eq, Debug)]
pub enum Life {
    Live,
    Dead,
}

pub struct Ctl {
    pub calls: u64,
    pub inject: Option<u64>,
    pub next_id: u32,
    /// what the next instrumented source iterator reports as its `size_hint` (see `Src::size_hint`)
    pub hint_mode: u8,
    pub events: Vec<Ev>,
    /// harness-owned drops / creations: no tick, no event
    pub quiet: bool,
    pub mode: EqMode,
    pub keys: HashMap<u32, Life>,
    pub vals: HashMap<u32, Life>,
    /// violations seen by the ledger (double drop, use of dead / never-created object)
    pub errs: Vec<String>,
    pub default_val: (u32, i32),
}

impl Ctl {
    fn new() -> Self {
        Ctl {
            calls: 0,
            inject: None,
            next_id: 100000,
            hint_mode: 0,
            events: Vec::with_capacity(1 << 14),
            quiet: false,
            mode: EqMode::Lawful,
            keys: HashMap::new(),
            vals: HashMap::new(),
            errs: Vec::new(),
            default_val: (0, 0),
        }
    }
    pub fn reset(&mut self, mode: EqMode) {
        self.calls = 0;
        self.inject = None;
        self.next_id = 100000;
        self.events.clear();
        self.quiet = false;
        self.mode = mode;
        self.keys.clear();
        self.vals.clear();
        self.errs.clear();
    }
}

thread_local! {
    pub static CTL: RefCell<Ctl> = RefCell::new(Ctl::new());
}

pub fn with<T>(f: impl FnOnce(&mut Ctl) -> T) -> T {
    paused(|| CTL.with(|c| f(&mut c.borrow_mut())))
}

pub struct InjectedPanic;

/// Every user callback passes through here; the single place an injected panic fires.
pub fn tick() {
    let fire = with(|c| {
        c.calls += 1;
        if std::thread::panicking() {
            return false;
        }
        match c.inject {
            Some(0) => {
                c.inject = None;
                true
            }
            Some(n) => {
                c.inject = Some(n - 1);
                false
            }
            None => false,
        }
    });
    if fire {
        paused(|| std::panic::panic_any(InjectedPanic));
    }
}

pub fn log(e: Ev) {
    with(|c| c.events.push(e));
}

/// Re-evaluate something as if it had been called INSTEAD of what ran since `mark` (the call
/// counter restarts at the mark, so a stateful `==` oracle answers the same way), without
/// injection, and leave no trace: used to ask `a != b` next to `a == b`.
pub fn mark() -> u64 {
    with(|c| c.calls)
}
pub fn shadow<T>(mark: u64, f: impl FnOnce() -> T) -> T {
    let (calls, inject, nev) = with(|c| {
        let s = (c.calls, c.inject, c.events.len());
        c.calls = mark;
        c.inject = None;
        s
    });
    let r = f();
    with(|c| {
        c.calls = calls;
        c.inject = inject;
        c.events.truncate(nev);
    });
    r
}

#[derive(Clone, Copy)]
pub enum Kind {
    K,
    V,
}

fn table(c: &mut Ctl, k: Kind) -> &mut HashMap<u32, Life> {
    match k {
        Kind::K => &mut c.keys,
        Kind::V => &mut c.vals,
    }
}

fn kname(k: Kind) -> &'static str {
    match k {
        Kind::K => "key",
        Kind::V => "val",
    }
}

pub fn created(k: Kind, id: u32) {
    with(|c| {
        if table(c, k).insert(id, Life::Live).is_some() {
            c.errs.push(format!("id-reused:{}{}", kname(k), id));
        }
    });
}

/// a probe object owned by the harness: may reuse an id (it never enters a container)
pub fn created_probe(k: Kind, id: u32) {
    with(|c| {
        table(c, k).insert(id, Life::Live);
    });
}

pub fn used(k: Kind, id: u32) {
    with(|c| match table(c, k).get(&id) {
        Some(Life::Live) => {}
        Some(Life::Dead) => c.errs.push(format!("use-of-dead:{}{}", kname(k), id)),
        None => c.errs.push(format!("use-of-never-created:{}{}", kname(k), id)),
    });
}

pub fn dropped(k: Kind, id: u32) {
    with(|c| match table(c, k).get(&id).copied() {
        Some(Life::Live) => {
            table(c, k).insert(id, Life::Dead);
        }
        Some(Life::Dead) => c.errs.push(format!("double-drop:{}{}", kname(k), id)),
        None => c.errs.push(format!("drop-of-never-created:{}{}", kname(k), id)),
    });
}

/// ids still live (leaked if nothing holds them any more), sorted by id then kind.
pub fn live_objects() -> Vec<String> {
    with(|c| {
        let mut v: Vec<(u32, u8)> = Vec::new();
        for (id, l) in &c.keys {
            if *l == Life::Live {
                v.push((*id, 0));
            }
        }
        for (id, l) in &c.vals {
            if *l == Life::Live {
                v.push((*id, 1));
            }
        }
        v.sort();
        v.into_iter()
            .map(|(id, k)| format!("{}{}", if k == 0 { "k" } else { "v" }, id))
            .collect()
    })
}

/// Run harness-owned code that creates or destroys objects without it counting
/// as a callback of the operation under test.
pub fn quietly<T>(f: impl FnOnce() -> T) -> T {
    let was = with(|c| std::mem::replace(&mut c.quiet, true));
    struct G(bool);
    impl Drop for G {
        fn drop(&mut self) {
            let w = self.0;
            with(|c| c.quiet = w);
        }
    }
    let _g = G(was);
    f()
}
