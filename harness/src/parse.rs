//! Operation language (text form shared with the Lean driver).

#[derive(Clone, Copy, Debug)]
pub struct K(pub u16, pub u32);
#[derive(Clone, Copy, Debug)]
pub struct V(pub u32, pub i32);

#[derive(Clone, Copy, Debug)]
pub enum P {
    Key(K),
    Q(K),
}

#[derive(Clone, Copy, Debug, PartialEq)]
pub enum Cmd {
    Next,
    Len,
    Hint,
    Debug,
    DebugAlt,
    Clone,
    Count,
    Fold,
    /// `nth(k)` (script `t<digit>`): std's provided method unless the crate overrides it
    Nth(usize),
    /// `last()` (script `z`): consumes the iterator
    Last,
}

#[derive(Clone, Copy, Debug, PartialEq)]
pub enum IterKind {
    Iter,
    Keys,
    Values,
    IterMut,
    ValuesMut,
}

#[derive(Clone, Copy, Debug, PartialEq)]
pub enum IntoKind {
    Pairs,
    Keys,
    Values,
}

#[derive(Clone, Copy, Debug, PartialEq)]
pub enum FmtKind {
    Debug,
    DebugAlt,
    Display,
    /// `{:>30}`: micromap's `Display` ignores width and fill
    DisplayPad,
    /// `{:#}`: … and the alternate flag
    DisplayAlt,
    /// `{:30?}`: width reaches the elements only (ours ignore it)
    DebugPad,
}

#[derive(Clone, Copy, Debug, PartialEq)]
pub enum AlgKind {
    Difference,
    Intersection,
    Union,
    SymmetricDifference,
    /// `Set<&T, N>::difference_ref` on sets of references to the two operands' elements
    DifferenceRef,
}

#[derive(Clone, Copy, Debug)]
pub enum EntryEnd {
    OrInsert(V),
    OrInsertWith(V),
    OrInsertWithKey(V),
    OrDefault(V),
    Key,
    Drop,
    OccKey,
    OccGet,
    OccGetMut(i32),
    OccInsert(V),
    OccRemove,
    OccRemoveEntry,
    OccIntoMut,
    VacKey,
    VacIntoKey,
    VacInsert(V),
}

#[derive(Clone, Debug)]
pub enum MapOp {
    Insert(K, V),
    InsertKeyValue(K, V),
    CheckedInsert(K, V),
    InsertUnchecked(K, V),
    Get(P),
    GetKeyValue(P),
    GetMut(P, i32),
    ContainsKey(P),
    Index(P),
    IndexMut(P, i32),
    Remove(P),
    RemoveEntry(P),
    Retain(u64, i32),
    Clear,
    Len,
    IsEmpty,
    Capacity,
    /// every `Default` impl of the container and its iterators
    Defaults,
    /// self-checking scenarios on other element shapes (paddings, unsized borrowed forms)
    Shapes,
    /// generic differential sweeps over element shapes (`sweep.rs`): families, seed
    Sweep(String, u64),
    /// clone of a container of plain (destructor-free, counting-`Clone`) elements built from the list
    ClonePlain(Vec<(u16, u16)>),
    /// serde round trip of a container of `k` zero-sized elements (at most one is stored)
    #[allow(dead_code)]
    SerdeZst(usize),
    Drain(Take, End),
    IntoIter(IntoKind, Take, End),
    Iter(IterKind, i32, Vec<Cmd>),
    CloneTo(usize),
    /// `dst.clone_from(&self)` (same capacity; otherwise treated as `dst = self.clone()`)
    CloneFrom(usize),
    Eq(usize),
    FromIter(bool, Vec<(K, V)>),
    Entry(K, Vec<i32>, EntryEnd),
    Gdm(bool, i32, Vec<P>),
    Fmt(FmtKind),
    Drop,
    Forget,
    WithCapacity(usize),
    Serde(usize, #[allow(dead_code)] u8),
    /// deserialize from a deserializer that offers a boolean: the visitor's `expecting` text
    SerdeWrong,
    /// deserialize a token stream given in the line (entries in that order, repeats allowed) into the
    /// register: hint behaviour of the deserializer, (class, value) per entry
    #[allow(dead_code)]
    Deser(u8, Vec<(u16, i32)>),
}

#[derive(Clone, Debug)]
pub enum SetOp {
    Insert(K),
    Replace(K),
    Contains(P),
    Get(P),
    Remove(P),
    Take(P),
    Retain(u64),
    Clear,
    Len,
    IsEmpty,
    Capacity,
    /// every `Default` impl of the container and its iterators
    Defaults,
    /// clone of a container of plain (destructor-free, counting-`Clone`) elements built from the list
    ClonePlain(Vec<(u16, u16)>),
    /// serde round trip of a container of `k` zero-sized elements (at most one is stored)
    #[allow(dead_code)]
    SerdeZst(usize),
    Drain(Take, End),
    IntoIter(Take, End),
    Iter(Vec<Cmd>),
    CloneTo(usize),
    /// `dst.clone_from(&self)` (same capacity; otherwise treated as `dst = self.clone()`)
    CloneFrom(usize),
    Eq(usize),
    FromIter(bool, Vec<K>),
    Extend(bool, Vec<K>),
    /// `self.extend(other)`: the other set is consumed (`for_each` over `SetIntoIter`)
    ExtendFrom(usize),
    /// `Extend<&T>` (needs `T: Copy`): a `Set<u16, N>` of this register's capacity is built from
    /// the first list, then extended BY REFERENCE with the second
    ExtendRef(Vec<u16>, Vec<u16>),
    Alg(AlgKind, usize, Vec<Cmd>),
    IsSubset(usize),
    IsSuperset(usize),
    IsDisjoint(usize),
    Sub(usize, usize),
    Fmt(FmtKind),
    Drop,
    Forget,
    Serde(usize, #[allow(dead_code)] u8),
    /// deserialize from a deserializer that offers a boolean: the visitor's `expecting` text
    SerdeWrong,
    #[allow(dead_code)]
    Deser(u8, Vec<u16>),
}

#[derive(Clone, Debug)]
pub enum Op {
    Map(usize, MapOp),
    Set(usize, SetOp),
    /// a `Map` API operation on a set register seen as the `Map<Key, (), N>` it wraps
    UMap(usize, MapOp),
    Inject(u64),
    End,
}

#[derive(Clone, Debug)]
pub struct CaseCfg {
    pub name: String,
    pub m: [usize; 2],
    pub s: [usize; 2],
    pub eq: crate::ctl::EqMode,
}

pub fn key(s: &str) -> Option<K> {
    let (a, b) = s.split_once('#')?;
    Some(K(a.parse().ok()?, b.parse().ok()?))
}
pub fn val(s: &str) -> Option<V> {
    let (a, b) = s.split_once('#')?;
    Some(V(a.parse().ok()?, b.parse().ok()?))
}
pub fn probe(s: &str) -> Option<P> {
    if let Some(r) = s.strip_prefix("k:") {
        Some(P::Key(key(r)?))
    } else if let Some(r) = s.strip_prefix("q:") {
        Some(P::Q(key(r)?))
    } else {
        None
    }
}
fn list(s: &str) -> Option<Vec<&str>> {
    let inner = s.strip_prefix('[')?.strip_suffix(']')?;
    if inner.is_empty() {
        Some(vec![])
    } else {
        Some(inner.split(',').collect())
    }
}
fn pairs(s: &str) -> Option<Vec<(K, V)>> {
    list(s)?
        .into_iter()
        .map(|it| {
            let (a, b) = it.split_once('=')?;
            Some((key(a)?, val(b)?))
        })
        .collect()
}
fn keys(s: &str) -> Option<Vec<K>> {
    list(s)?.into_iter().map(key).collect()
}
fn script(s: &str) -> Option<Vec<Cmd>> {
    if s == "-" {
        return Some(vec![]);
    }
    let mut out = Vec::new();
    let mut it = s.chars();
    while let Some(c) = it.next() {
        out.push(match c {
            'n' => Cmd::Next,
            'l' => Cmd::Len,
            'h' => Cmd::Hint,
            'd' => Cmd::Debug,
            'D' => Cmd::DebugAlt,
            'c' => Cmd::Clone,
            'x' => Cmd::Count,
            'f' => Cmd::Fold,
            't' => Cmd::Nth(it.next()?.to_digit(10)? as usize),
            'z' => Cmd::Last,
            _ => return None,
        });
    }
    Some(out)
}
fn reg(s: &str) -> Option<(bool, usize)> {
    match s {
        "m0" => Some((true, 0)),
        "m1" => Some((true, 1)),
        "s0" => Some((false, 0)),
        "s1" => Some((false, 1)),
        _ => None,
    }
}
fn mreg(s: &str) -> Option<usize> {
    match reg(s)? {
        (true, i) => Some(i),
        _ => None,
    }
}
fn sreg(s: &str) -> Option<usize> {
    match reg(s)? {
        (false, i) => Some(i),
        _ => None,
    }
}
/// what happens to a drain / consuming iterator after the items were taken
#[derive(Clone, Copy, Debug, PartialEq)]
pub enum End {
    Drop,
    Forget,
    /// `count()`: consumes the iterator, the remaining elements are destroyed
    Count,
}
/// how items are taken from a drain / consuming iterator
#[derive(Clone, Copy, Debug, PartialEq)]
pub enum Take {
    /// `n` calls of `next()`
    Next(usize),
    /// one call of `nth(k)` (std's provided method unless the crate overrides it)
    Nth(usize),
    /// `last()`: consumes the iterator
    Last,
}
fn end(s: &str) -> Option<End> {
    match s {
        "drop" => Some(End::Drop),
        "forget" => Some(End::Forget),
        "count" => Some(End::Count),
        _ => None,
    }
}
fn take(s: &str) -> Option<Take> {
    if s == "z" {
        Some(Take::Last)
    } else if s == "tM" {
        Some(Take::Nth(usize::MAX))
    } else if let Some(k) = s.strip_prefix('t') {
        Some(Take::Nth(k.parse().ok()?))
    } else {
        Some(Take::Next(s.parse().ok()?))
    }
}
fn fmtk(s: &str) -> Option<FmtKind> {
    match s {
        "debug" => Some(FmtKind::Debug),
        "debug#" => Some(FmtKind::DebugAlt),
        "display" => Some(FmtKind::Display),
        "display>" => Some(FmtKind::DisplayPad),
        "display#" => Some(FmtKind::DisplayAlt),
        "debug>" => Some(FmtKind::DebugPad),
        _ => None,
    }
}
fn entry_end(s: &str) -> Option<EntryEnd> {
    let parts: Vec<&str> = s.split(':').collect();
    Some(match parts.as_slice() {
        ["oi", v] => EntryEnd::OrInsert(val(v)?),
        ["oiw", v] => EntryEnd::OrInsertWith(val(v)?),
        ["oiwk", v] => EntryEnd::OrInsertWithKey(val(v)?),
        ["od", v] => EntryEnd::OrDefault(val(v)?),
        ["key"] => EntryEnd::Key,
        ["drop"] => EntryEnd::Drop,
        ["o.key"] => EntryEnd::OccKey,
        ["o.get"] => EntryEnd::OccGet,
        ["o.get_mut", n] => EntryEnd::OccGetMut(n.parse().ok()?),
        ["o.insert", v] => EntryEnd::OccInsert(val(v)?),
        ["o.remove"] => EntryEnd::OccRemove,
        ["o.remove_entry"] => EntryEnd::OccRemoveEntry,
        ["o.into_mut"] => EntryEnd::OccIntoMut,
        ["v.key"] => EntryEnd::VacKey,
        ["v.into_key"] => EntryEnd::VacIntoKey,
        ["v.insert", v] => EntryEnd::VacInsert(val(v)?),
        _ => return None,
    })
}

fn map_op(a: &[&str]) -> Option<MapOp> {
    Some(match a {
        ["insert", k, v] => MapOp::Insert(key(k)?, val(v)?),
        ["insert_key_value", k, v] => MapOp::InsertKeyValue(key(k)?, val(v)?),
        ["checked_insert", k, v] => MapOp::CheckedInsert(key(k)?, val(v)?),
        ["insert_unchecked", k, v] => MapOp::InsertUnchecked(key(k)?, val(v)?),
        ["get", p] => MapOp::Get(probe(p)?),
        ["get_key_value", p] => MapOp::GetKeyValue(probe(p)?),
        ["get_mut", p, n] => MapOp::GetMut(probe(p)?, n.parse().ok()?),
        ["contains_key", p] => MapOp::ContainsKey(probe(p)?),
        ["index", p] => MapOp::Index(probe(p)?),
        ["index_mut", p, n] => MapOp::IndexMut(probe(p)?, n.parse().ok()?),
        ["remove", p] => MapOp::Remove(probe(p)?),
        ["remove_entry", p] => MapOp::RemoveEntry(probe(p)?),
        ["retain", m, b] => MapOp::Retain(m.parse().ok()?, b.parse().ok()?),
        ["clear"] => MapOp::Clear,
        ["len"] => MapOp::Len,
        ["is_empty"] => MapOp::IsEmpty,
        ["capacity"] => MapOp::Capacity,
        ["defaults"] => MapOp::Defaults,
        ["shapes"] => MapOp::Shapes,
        ["sweep", fam, seed] => MapOp::Sweep(fam.to_string(), seed.parse().ok()?),
        ["clone_plain", xs] => {
            let v: Option<Vec<(u16, u16)>> = list(xs)?.into_iter().map(|it| {
                let (a, b) = it.split_once('=')?;
                Some((a.parse().ok()?, b.parse().ok()?))
            }).collect();
            MapOp::ClonePlain(v?)
        }
        ["serde_zst", k] => MapOp::SerdeZst(k.parse().ok()?),
        ["drain", t, e] => MapOp::Drain(take(t)?, end(e)?),
        ["into_iter", kind, t, e] => {
            let kind = match *kind {
                "pairs" => IntoKind::Pairs,
                "keys" => IntoKind::Keys,
                "values" => IntoKind::Values,
                _ => return None,
            };
            MapOp::IntoIter(kind, take(t)?, end(e)?)
        }
        ["iter", kind, n, s] => {
            let kind = match *kind {
                "iter" => IterKind::Iter,
                "keys" => IterKind::Keys,
                "values" => IterKind::Values,
                "iter_mut" => IterKind::IterMut,
                "values_mut" => IterKind::ValuesMut,
                _ => return None,
            };
            MapOp::Iter(kind, n.parse().ok()?, script(s)?)
        }
        ["clone", d] => MapOp::CloneTo(mreg(d)?),
        ["clone_from", d] => MapOp::CloneFrom(mreg(d)?),
        ["serde", d] => MapOp::Serde(mreg(d)?, 0),
        ["serde", d, f] => MapOp::Serde(mreg(d)?, 1 + f.strip_prefix("tok")?.parse::<u8>().ok()?),
        ["serde_wrong"] => MapOp::SerdeWrong,
        ["deser", h, xs] => {
            let ps: Option<Vec<(u16, i32)>> = list(xs)?
                .into_iter()
                .map(|it| {
                    let (a, b) = it.split_once('=')?;
                    Some((a.parse().ok()?, b.parse().ok()?))
                })
                .collect();
            MapOp::Deser(h.parse().ok()?, ps?)
        }
        ["eq", o] => MapOp::Eq(mreg(o)?),
        ["from_iter", p, xs] => {
            crate::ctl::with(|c| c.hint_mode = p.parse().unwrap_or(0));
            MapOp::FromIter(*p != "0", pairs(xs)?)
        }
        ["entry", k, mods, fin] => {
            let ms: Option<Vec<i32>> = list(mods)?.into_iter().map(|x| x.parse().ok()).collect();
            MapOp::Entry(key(k)?, ms?, entry_end(fin)?)
        }
        ["gdm", n, ks] => {
            let ps: Option<Vec<P>> = list(ks)?.into_iter().map(probe).collect();
            MapOp::Gdm(false, n.parse().ok()?, ps?)
        }
        ["gdum", n, ks] => {
            let ps: Option<Vec<P>> = list(ks)?.into_iter().map(probe).collect();
            MapOp::Gdm(true, n.parse().ok()?, ps?)
        }
        ["fmt", k] => MapOp::Fmt(fmtk(k)?),
        ["drop"] => MapOp::Drop,
        ["forget"] => MapOp::Forget,
        ["with_capacity", c] => MapOp::WithCapacity(c.parse().ok()?),
        _ => return None,
    })
}

fn set_op(a: &[&str]) -> Option<SetOp> {
    Some(match a {
        ["insert", k] => SetOp::Insert(key(k)?),
        ["replace", k] => SetOp::Replace(key(k)?),
        ["contains", p] => SetOp::Contains(probe(p)?),
        ["get", p] => SetOp::Get(probe(p)?),
        ["remove", p] => SetOp::Remove(probe(p)?),
        ["take", p] => SetOp::Take(probe(p)?),
        ["retain", m] => SetOp::Retain(m.parse().ok()?),
        ["clear"] => SetOp::Clear,
        ["len"] => SetOp::Len,
        ["is_empty"] => SetOp::IsEmpty,
        ["capacity"] => SetOp::Capacity,
        ["defaults"] => SetOp::Defaults,
        ["clone_plain", xs] => {
            let v: Option<Vec<(u16, u16)>> = list(xs)?.into_iter().map(|it| Some((it.parse().ok()?, 0))).collect();
            SetOp::ClonePlain(v?)
        }
        ["serde_zst", k] => SetOp::SerdeZst(k.parse().ok()?),
        ["drain", t, e] => SetOp::Drain(take(t)?, end(e)?),
        ["into_iter", t, e] => SetOp::IntoIter(take(t)?, end(e)?),
        ["iter", s] => SetOp::Iter(script(s)?),
        ["clone", d] => SetOp::CloneTo(sreg(d)?),
        ["clone_from", d] => SetOp::CloneFrom(sreg(d)?),
        ["serde", d] => SetOp::Serde(sreg(d)?, 0),
        ["serde", d, f] => SetOp::Serde(sreg(d)?, 1 + f.strip_prefix("tok")?.parse::<u8>().ok()?),
        ["serde_wrong"] => SetOp::SerdeWrong,
        ["deser", h, xs] => {
            let ps: Option<Vec<u16>> = list(xs)?.into_iter().map(|it| it.parse().ok()).collect();
            SetOp::Deser(h.parse().ok()?, ps?)
        }
        ["eq", o] => SetOp::Eq(sreg(o)?),
        ["from_iter", p, xs] => {
            crate::ctl::with(|c| c.hint_mode = p.parse().unwrap_or(0));
            SetOp::FromIter(*p != "0", keys(xs)?)
        }
        ["extend", p, xs] => {
            crate::ctl::with(|c| c.hint_mode = p.parse().unwrap_or(0));
            SetOp::Extend(*p != "0", keys(xs)?)
        }
        ["extend_from", o] => SetOp::ExtendFrom(sreg(o)?),
        ["extend_ref", init, xs] => {
            let a: Option<Vec<u16>> = list(init)?.into_iter().map(|x| x.parse().ok()).collect();
            let b: Option<Vec<u16>> = list(xs)?.into_iter().map(|x| x.parse().ok()).collect();
            SetOp::ExtendRef(a?, b?)
        }
        ["alg", kind, o, s] => {
            let kind = match *kind {
                "difference" => AlgKind::Difference,
                "difference_ref" => AlgKind::DifferenceRef,
                "intersection" => AlgKind::Intersection,
                "union" => AlgKind::Union,
                "symmetric_difference" => AlgKind::SymmetricDifference,
                _ => return None,
            };
            SetOp::Alg(kind, sreg(o)?, script(s)?)
        }
        ["is_subset", o] => SetOp::IsSubset(sreg(o)?),
        ["is_superset", o] => SetOp::IsSuperset(sreg(o)?),
        ["is_disjoint", o] => SetOp::IsDisjoint(sreg(o)?),
        ["sub", o, d] => SetOp::Sub(sreg(o)?, sreg(d)?),
        ["fmt", k] => SetOp::Fmt(fmtk(k)?),
        ["drop"] => SetOp::Drop,
        ["forget"] => SetOp::Forget,
        _ => return None,
    })
}

pub fn op(toks: &[&str]) -> Option<Op> {
    match toks {
        ["end"] => Some(Op::End),
        ["inject", j] => Some(Op::Inject(j.parse().ok()?)),
        [r, rest @ ..] if r.starts_with('u') => {
            let i = match *r {
                "u0" => 0,
                "u1" => 1,
                _ => return None,
            };
            Some(Op::UMap(i, map_op(rest)?))
        }
        [r, rest @ ..] => {
            let (is_map, i) = reg(r)?;
            if is_map {
                Some(Op::Map(i, map_op(rest)?))
            } else {
                Some(Op::Set(i, set_op(rest)?))
            }
        }
        _ => None,
    }
}

pub fn case(toks: &[&str]) -> Option<CaseCfg> {
    if toks.len() < 2 || toks[0] != "case" {
        return None;
    }
    let mut cfg = CaseCfg {
        name: toks[1].to_string(),
        m: [0, 0],
        s: [0, 0],
        eq: crate::ctl::EqMode::Lawful,
    };
    for t in &toks[2..] {
        let (a, b) = t.split_once('=')?;
        match a {
            "m0" => cfg.m[0] = b.parse().ok()?,
            "m1" => cfg.m[1] = b.parse().ok()?,
            "s0" => cfg.s[0] = b.parse().ok()?,
            "s1" => cfg.s[1] = b.parse().ok()?,
            "eq" => {
                cfg.eq = if let Some(n) = b.strip_prefix("table:") {
                    crate::ctl::EqMode::Table(n.parse().ok()?)
                } else if let Some(n) = b.strip_prefix("stateful:") {
                    crate::ctl::EqMode::Stateful(n.parse().ok()?)
                } else {
                    crate::ctl::EqMode::Lawful
                }
            }
            _ => {}
        }
    }
    Some(cfg)
}
