//! Instrumented element types.
use crate::ctl::{self, Ev, Kind};
use std::borrow::Borrow;
use std::fmt;

/// The borrowed form of a key (`Q`): same data, its own `PartialEq`.
#[repr(C)]
pub struct Probe {
    pub cls: u16,
    pub id: u32,
}

#[repr(C)]
pub struct Key {
    pub p: Probe,
}

pub struct Val {
    pub id: u32,
    pub val: i32,
}

impl Key {
    pub fn new(cls: u16, id: u32) -> Key {
        ctl::created(Kind::K, id);
        Key { p: Probe { cls, id } }
    }
    pub fn probe(cls: u16, id: u32) -> Key {
        ctl::created_probe(Kind::K, id);
        Key { p: Probe { cls, id } }
    }
    pub fn show(&self) -> String {
        ctl::used(Kind::K, self.p.id);
        format!("K{}.{}", self.p.cls, self.p.id)
    }
}

impl Val {
    pub fn new(id: u32, val: i32) -> Val {
        ctl::created(Kind::V, id);
        Val { id, val }
    }
    pub fn show(&self) -> String {
        ctl::used(Kind::V, self.id);
        format!("V{}.{}", self.id, self.val)
    }
}

impl Borrow<Probe> for Key {
    fn borrow(&self) -> &Probe {
        &self.p
    }
}

impl PartialEq for Key {
    fn eq(&self, o: &Key) -> bool {
        ctl::tick();
        ctl::used(Kind::K, self.p.id);
        ctl::used(Kind::K, o.p.id);
        let r = ctl::with(|c| {
            ctl::oracle(c.mode, 1, c.calls, (self.p.cls, self.p.id), (o.p.cls, o.p.id))
        });
        ctl::log(Ev::Ek(self.p.id, o.p.id, r));
        r
    }
}
impl Eq for Key {}

impl PartialEq for Probe {
    fn eq(&self, o: &Probe) -> bool {
        ctl::tick();
        let r =
            ctl::with(|c| ctl::oracle(c.mode, 2, c.calls, (self.cls, self.id), (o.cls, o.id)));
        ctl::log(Ev::Eq(self.id, o.id, r));
        r
    }
}
impl Eq for Probe {}

impl PartialEq for Val {
    fn eq(&self, o: &Val) -> bool {
        ctl::tick();
        ctl::used(Kind::V, self.id);
        ctl::used(Kind::V, o.id);
        let r = self.val == o.val;
        ctl::log(Ev::EvV(self.id, o.id, r));
        r
    }
}
impl Eq for Val {}

impl Clone for Key {
    fn clone(&self) -> Key {
        ctl::tick();
        ctl::used(Kind::K, self.p.id);
        let id = ctl::with(|c| {
            let i = c.next_id;
            c.next_id += 1;
            i
        });
        ctl::created(Kind::K, id);
        ctl::log(Ev::Ck(self.p.id, id));
        Key { p: Probe { cls: self.p.cls, id } }
    }
}

impl Clone for Val {
    fn clone(&self) -> Val {
        ctl::tick();
        ctl::used(Kind::V, self.id);
        let id = ctl::with(|c| {
            let i = c.next_id;
            c.next_id += 1;
            i
        });
        ctl::created(Kind::V, id);
        ctl::log(Ev::Cv(self.id, id));
        Val { id, val: self.val }
    }
}

impl Drop for Key {
    fn drop(&mut self) {
        let quiet = ctl::with(|c| c.quiet);
        ctl::dropped(Kind::K, self.p.id);
        if !quiet {
            ctl::log(Ev::Dk(self.p.id));
            ctl::tick();
        }
    }
}

impl Drop for Val {
    fn drop(&mut self) {
        let quiet = ctl::with(|c| c.quiet);
        ctl::dropped(Kind::V, self.id);
        if !quiet {
            ctl::log(Ev::Dv(self.id));
            ctl::tick();
        }
    }
}

/// `V::default()` for `or_default`: a callback; the object to produce is staged by the harness.
impl Default for Val {
    fn default() -> Val {
        ctl::tick();
        ctl::log(Ev::Call(4));
        let (id, val) = ctl::with(|c| c.default_val);
        Val::new(id, val)
    }
}

impl fmt::Debug for Key {
    fn fmt(&self, f: &mut fmt::Formatter<'_>) -> fmt::Result {
        ctl::used(Kind::K, self.p.id);
        // the pretty form is multi-line (like a derived tuple struct), the plain one is not
        if f.alternate() {
            write!(f, "K(\n    {},\n    {},\n)", self.p.cls, self.p.id)
        } else {
            write!(f, "K{}.{}", self.p.cls, self.p.id)
        }
    }
}
impl fmt::Display for Key {
    fn fmt(&self, f: &mut fmt::Formatter<'_>) -> fmt::Result {
        ctl::used(Kind::K, self.p.id);
        write!(f, "k{}.{}", self.p.cls, self.p.id)
    }
}
impl fmt::Debug for Val {
    fn fmt(&self, f: &mut fmt::Formatter<'_>) -> fmt::Result {
        ctl::used(Kind::V, self.id);
        if f.alternate() {
            write!(f, "V(\n    {},\n    {},\n)", self.id, self.val)
        } else {
            write!(f, "V{}.{}", self.id, self.val)
        }
    }
}
impl fmt::Display for Val {
    fn fmt(&self, f: &mut fmt::Formatter<'_>) -> fmt::Result {
        ctl::used(Kind::V, self.id);
        write!(f, "v{}.{}", self.id, self.val)
    }
}

#[cfg(feature = "serde")]
mod serde_impls {
    use super::{Key, Probe, Val};
    use crate::ctl::{self, Kind};
    use serde::{Deserialize, Deserializer, Serialize, Serializer};

    fn fresh() -> u32 {
        ctl::with(|c| {
            let i = c.next_id;
            c.next_id += 1;
            i
        })
    }

    /// a key travels as one u64 (class in the high half, object id in the low half); a decoded
    /// key is a NEW object of the same class (fresh id, like a clone, but no callback).
    impl Serialize for Key {
        fn serialize<S: Serializer>(&self, s: S) -> Result<S::Ok, S::Error> {
            ctl::used(Kind::K, self.p.id);
            s.serialize_u64(((self.p.cls as u64) << 32) | self.p.id as u64)
        }
    }
    impl<'de> Deserialize<'de> for Key {
        fn deserialize<D: Deserializer<'de>>(d: D) -> Result<Key, D::Error> {
            let w = u64::deserialize(d)?;
            let id = fresh();
            ctl::created(Kind::K, id);
            Ok(Key { p: Probe { cls: (w >> 32) as u16, id } })
        }
    }
    impl Serialize for Val {
        fn serialize<S: Serializer>(&self, s: S) -> Result<S::Ok, S::Error> {
            ctl::used(Kind::V, self.id);
            s.serialize_u64(((self.id as u64) << 32) | (self.val as u32) as u64)
        }
    }
    impl<'de> Deserialize<'de> for Val {
        fn deserialize<D: Deserializer<'de>>(d: D) -> Result<Val, D::Error> {
            let w = u64::deserialize(d)?;
            let id = fresh();
            ctl::created(Kind::V, id);
            Ok(Val { id, val: (w & 0xffff_ffff) as u32 as i32 })
        }
    }
}


// ------------------------------------------------------------------ auxiliary element shapes
// Plain elements: no destructor (so `needs_drop::<(K, V)>()` is false), not `Copy`, with a `Clone`
// that counts its calls.  Used by `clone_plain`.
thread_local! {
    pub static PLAIN_CLONES: std::cell::Cell<(u32, u32)> = const { std::cell::Cell::new((0, 0)) };
    pub static ZST_SERIALIZED: std::cell::Cell<u32> = const { std::cell::Cell::new(0) };
}
#[derive(PartialEq, Debug)]
pub struct PK(pub u16);
#[derive(PartialEq, Debug)]
pub struct PV(pub u16);
impl Clone for PK {
    fn clone(&self) -> Self {
        PLAIN_CLONES.with(|c| c.set((c.get().0 + 1, c.get().1)));
        PK(self.0)
    }
}
impl Clone for PV {
    fn clone(&self) -> Self {
        PLAIN_CLONES.with(|c| c.set((c.get().0, c.get().1 + 1)));
        PV(self.0)
    }
}

/// A zero-sized element whose `Serialize` counts its calls.  Used by `serde_zst`.
#[derive(PartialEq, Debug)]
#[allow(dead_code)]
pub struct Z;
#[cfg(feature = "serde")]
impl serde::Serialize for Z {
    fn serialize<S: serde::Serializer>(&self, s: S) -> Result<S::Ok, S::Error> {
        ZST_SERIALIZED.with(|c| c.set(c.get() + 1));
        s.serialize_unit()
    }
}
#[cfg(feature = "serde")]
impl<'de> serde::Deserialize<'de> for Z {
    fn deserialize<D: serde::Deserializer<'de>>(d: D) -> Result<Self, D::Error> {
        <()>::deserialize(d).map(|_| Z)
    }
}
