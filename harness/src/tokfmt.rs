//! A second serde format next to bincode: the serde *data model* itself.  `TokSer` records the calls
//! a `Serialize` impl makes (`serialize_map(len)`, one key and one value per entry, `end`);
//! `TokDe` feeds such a recording to a `Deserialize` impl through `MapAccess` / `SeqAccess` with a
//! chosen `size_hint` behaviour (none / exact / understating / overstating) — what JSON-like formats
//! (no length known in advance) and length-prefixed formats look like to a visitor.
use serde::de::{self, DeserializeSeed, MapAccess, SeqAccess, Visitor};
use serde::ser::{self, Impossible, SerializeMap, SerializeSeq};
use serde::Serialize;
use std::fmt;

#[derive(Clone, Copy, Debug, PartialEq)]
pub enum Tk {
    MapStart(Option<usize>),
    SeqStart(Option<usize>),
    U64(u64),
    Unit,
    End,
}

#[derive(Debug)]
pub struct TErr(pub String);
impl fmt::Display for TErr {
    fn fmt(&self, f: &mut fmt::Formatter<'_>) -> fmt::Result {
        f.write_str(&self.0)
    }
}
impl std::error::Error for TErr {}
impl ser::Error for TErr {
    fn custom<T: fmt::Display>(m: T) -> Self {
        TErr(m.to_string())
    }
}
impl de::Error for TErr {
    fn custom<T: fmt::Display>(m: T) -> Self {
        TErr(m.to_string())
    }
}

pub struct TokSer<'a>(pub &'a mut Vec<Tk>);

macro_rules! unsupported {
    ($($name:ident($($t:ty),*))*) => {
        $(fn $name(self, $(_: $t),*) -> Result<(), TErr> { Err(TErr(concat!("unsupported: ", stringify!($name)).into())) })*
    };
}

impl<'a> ser::Serializer for TokSer<'a> {
    type Ok = ();
    type Error = TErr;
    type SerializeSeq = TokSer<'a>;
    type SerializeMap = TokSer<'a>;
    type SerializeTuple = Impossible<(), TErr>;
    type SerializeTupleStruct = Impossible<(), TErr>;
    type SerializeTupleVariant = Impossible<(), TErr>;
    type SerializeStruct = Impossible<(), TErr>;
    type SerializeStructVariant = Impossible<(), TErr>;
    unsupported! { serialize_bool(bool) serialize_i8(i8) serialize_i16(i16) serialize_i32(i32) serialize_i64(i64)
        serialize_u8(u8) serialize_u16(u16) serialize_u32(u32) serialize_f32(f32) serialize_f64(f64)
        serialize_char(char) serialize_str(&str) serialize_bytes(&[u8]) serialize_none()
        serialize_unit_struct(&'static str) serialize_unit_variant(&'static str, u32, &'static str) }
    fn serialize_u64(self, v: u64) -> Result<(), TErr> {
        self.0.push(Tk::U64(v));
        Ok(())
    }
    fn serialize_unit(self) -> Result<(), TErr> {
        self.0.push(Tk::Unit);
        Ok(())
    }
    fn serialize_some<T: ?Sized + Serialize>(self, _: &T) -> Result<(), TErr> {
        Err(TErr("unsupported: some".into()))
    }
    fn serialize_newtype_struct<T: ?Sized + Serialize>(self, _: &'static str, v: &T) -> Result<(), TErr> {
        v.serialize(self)
    }
    fn serialize_newtype_variant<T: ?Sized + Serialize>(self, _: &'static str, _: u32, _: &'static str, _: &T) -> Result<(), TErr> {
        Err(TErr("unsupported: newtype_variant".into()))
    }
    fn serialize_seq(self, len: Option<usize>) -> Result<TokSer<'a>, TErr> {
        self.0.push(Tk::SeqStart(len));
        Ok(self)
    }
    fn serialize_map(self, len: Option<usize>) -> Result<TokSer<'a>, TErr> {
        self.0.push(Tk::MapStart(len));
        Ok(self)
    }
    fn serialize_tuple(self, _: usize) -> Result<Self::SerializeTuple, TErr> {
        Err(TErr("unsupported: tuple".into()))
    }
    fn serialize_tuple_struct(self, _: &'static str, _: usize) -> Result<Self::SerializeTupleStruct, TErr> {
        Err(TErr("unsupported: tuple_struct".into()))
    }
    fn serialize_tuple_variant(self, _: &'static str, _: u32, _: &'static str, _: usize) -> Result<Self::SerializeTupleVariant, TErr> {
        Err(TErr("unsupported: tuple_variant".into()))
    }
    fn serialize_struct(self, _: &'static str, _: usize) -> Result<Self::SerializeStruct, TErr> {
        Err(TErr("unsupported: struct".into()))
    }
    fn serialize_struct_variant(self, _: &'static str, _: u32, _: &'static str, _: usize) -> Result<Self::SerializeStructVariant, TErr> {
        Err(TErr("unsupported: struct_variant".into()))
    }
}
impl SerializeSeq for TokSer<'_> {
    type Ok = ();
    type Error = TErr;
    fn serialize_element<T: ?Sized + Serialize>(&mut self, v: &T) -> Result<(), TErr> {
        v.serialize(TokSer(self.0))
    }
    fn end(self) -> Result<(), TErr> {
        self.0.push(Tk::End);
        Ok(())
    }
}
impl SerializeMap for TokSer<'_> {
    type Ok = ();
    type Error = TErr;
    fn serialize_key<T: ?Sized + Serialize>(&mut self, k: &T) -> Result<(), TErr> {
        k.serialize(TokSer(self.0))
    }
    fn serialize_value<T: ?Sized + Serialize>(&mut self, v: &T) -> Result<(), TErr> {
        v.serialize(TokSer(self.0))
    }
    fn end(self) -> Result<(), TErr> {
        self.0.push(Tk::End);
        Ok(())
    }
}

/// the deserializer: a cursor over the recording; `hint` decides what `size_hint()` answers
/// (0: `None`, 1: exact, 2: `Some(0)`, 3: seven more than there is).
pub struct TokDe<'t> {
    pub toks: &'t [Tk],
    pub pos: usize,
    pub hint: u8,
}

impl TokDe<'_> {
    fn peek(&self) -> Option<Tk> {
        self.toks.get(self.pos).copied()
    }
    /// how many items (`per` tokens each) are left before the matching `End`
    fn remaining(&self, per: usize) -> usize {
        let mut n = 0;
        let mut i = self.pos;
        while i < self.toks.len() && self.toks[i] != Tk::End {
            n += 1;
            i += 1;
        }
        n / per
    }
    fn answer(&self, per: usize) -> Option<usize> {
        match self.hint {
            0 => None,
            1 => Some(self.remaining(per)),
            2 => Some(0),
            _ => Some(self.remaining(per) + 7),
        }
    }
}

macro_rules! de_unsupported {
    ($($name:ident)*) => {
        $(fn $name<V: Visitor<'de>>(self, _: V) -> Result<V::Value, TErr> { Err(TErr(concat!("unsupported: ", stringify!($name)).into())) })*
    };
}

impl<'de> de::Deserializer<'de> for &mut TokDe<'_> {
    type Error = TErr;
    de_unsupported! { deserialize_bool deserialize_i8 deserialize_i16 deserialize_i32 deserialize_i64
        deserialize_u8 deserialize_u16 deserialize_u32 deserialize_f32 deserialize_f64 deserialize_char deserialize_str
        deserialize_string deserialize_bytes deserialize_byte_buf deserialize_option deserialize_identifier }
    fn deserialize_any<V: Visitor<'de>>(self, v: V) -> Result<V::Value, TErr> {
        match self.peek() {
            Some(Tk::U64(_)) => self.deserialize_u64(v),
            Some(Tk::Unit) => self.deserialize_unit(v),
            Some(Tk::MapStart(_)) => self.deserialize_map(v),
            Some(Tk::SeqStart(_)) => self.deserialize_seq(v),
            _ => Err(TErr("unexpected end".into())),
        }
    }
    fn deserialize_ignored_any<V: Visitor<'de>>(self, v: V) -> Result<V::Value, TErr> {
        self.deserialize_any(v)
    }
    fn deserialize_u64<V: Visitor<'de>>(self, v: V) -> Result<V::Value, TErr> {
        match self.peek() {
            Some(Tk::U64(x)) => {
                self.pos += 1;
                v.visit_u64(x)
            }
            t => Err(TErr(format!("expected u64, found {t:?}"))),
        }
    }
    fn deserialize_unit<V: Visitor<'de>>(self, v: V) -> Result<V::Value, TErr> {
        match self.peek() {
            Some(Tk::Unit) => {
                self.pos += 1;
                v.visit_unit()
            }
            t => Err(TErr(format!("expected unit, found {t:?}"))),
        }
    }
    fn deserialize_unit_struct<V: Visitor<'de>>(self, _: &'static str, v: V) -> Result<V::Value, TErr> {
        self.deserialize_unit(v)
    }
    fn deserialize_newtype_struct<V: Visitor<'de>>(self, _: &'static str, v: V) -> Result<V::Value, TErr> {
        v.visit_newtype_struct(self)
    }
    fn deserialize_seq<V: Visitor<'de>>(self, v: V) -> Result<V::Value, TErr> {
        match self.peek() {
            Some(Tk::SeqStart(_)) => {
                self.pos += 1;
                let r = v.visit_seq(Acc { de: self, per: 1 })?;
                self.finish(r)
            }
            t => Err(TErr(format!("expected a sequence, found {t:?}"))),
        }
    }
    fn deserialize_tuple<V: Visitor<'de>>(self, _: usize, v: V) -> Result<V::Value, TErr> {
        self.deserialize_seq(v)
    }
    fn deserialize_tuple_struct<V: Visitor<'de>>(self, _: &'static str, _: usize, v: V) -> Result<V::Value, TErr> {
        self.deserialize_seq(v)
    }
    fn deserialize_map<V: Visitor<'de>>(self, v: V) -> Result<V::Value, TErr> {
        match self.peek() {
            Some(Tk::MapStart(_)) => {
                self.pos += 1;
                let r = v.visit_map(Acc { de: self, per: 2 })?;
                self.finish(r)
            }
            t => Err(TErr(format!("expected a map, found {t:?}"))),
        }
    }
    fn deserialize_struct<V: Visitor<'de>>(self, _: &'static str, _: &'static [&'static str], v: V) -> Result<V::Value, TErr> {
        self.deserialize_map(v)
    }
    fn deserialize_enum<V: Visitor<'de>>(self, _: &'static str, _: &'static [&'static str], _: V) -> Result<V::Value, TErr> {
        Err(TErr("unsupported: enum".into()))
    }
}

impl TokDe<'_> {
    /// like serde_json: a visitor that returns before the closing token leaves trailing input — an error
    fn finish<T>(&mut self, r: T) -> Result<T, TErr> {
        match self.peek() {
            Some(Tk::End) => {
                self.pos += 1;
                Ok(r)
            }
            t => Err(TErr(format!("trailing items: the visitor stopped at {t:?}"))),
        }
    }
}

struct Acc<'a, 't> {
    de: &'a mut TokDe<'t>,
    per: usize,
}
impl<'de> SeqAccess<'de> for Acc<'_, '_> {
    type Error = TErr;
    fn next_element_seed<T: DeserializeSeed<'de>>(&mut self, seed: T) -> Result<Option<T::Value>, TErr> {
        match self.de.peek() {
            Some(Tk::End) | None => Ok(None),
            _ => seed.deserialize(&mut *self.de).map(Some),
        }
    }
    fn size_hint(&self) -> Option<usize> {
        self.de.answer(self.per)
    }
}
impl<'de> MapAccess<'de> for Acc<'_, '_> {
    type Error = TErr;
    fn next_key_seed<T: DeserializeSeed<'de>>(&mut self, seed: T) -> Result<Option<T::Value>, TErr> {
        match self.de.peek() {
            Some(Tk::End) | None => Ok(None),
            _ => seed.deserialize(&mut *self.de).map(Some),
        }
    }
    fn next_value_seed<T: DeserializeSeed<'de>>(&mut self, seed: T) -> Result<T::Value, TErr> {
        seed.deserialize(&mut *self.de)
    }
    fn size_hint(&self) -> Option<usize> {
        self.de.answer(self.per)
    }
}
