//! Generic differential sweeps over element SHAPES the instrumented registers do not have.
//!
//! micromap is generic code, and the Lean model is generic in `K` and `V`; what is NOT generic is
//! everything a monomorphised instance can ask about its parameters — `size_of`, `align_of`,
//! `needs_drop`, addresses of elements, wide-pointer metadata.  A sweep runs one deterministic
//! pseudo-random operation sequence on a `Map<K, V, N>` / `Set<K, N>` for a list of `(K, V)`
//! instances (zero-sized pairs, pairs without drop glue whose equal keys are distinguishable,
//! over-aligned elements, padding, slices that share their start address, reference-counted
//! elements) next to an unordered reference dictionary kept in a `Vec`, and compares every return
//! value and the visible contents after every operation.  No property fixes an iteration order, so
//! none is assumed: contents are compared as multisets, sequences only with themselves
//! (`fold` against `next`, `nth` against stepping).  Result: `"ok"` or the first discrepancy.
use micromap::{Map, Set};
use std::fmt::Debug;
use std::panic::{catch_unwind, AssertUnwindSafe};
use std::rc::Rc;

/// an element with a CLASS (what `==` compares) and a TAG (equal elements that can be told apart)
pub trait El: Clone + Eq + Debug {
    const CLASSES: u32;
    const TAGS: u32;
    fn make(class: u32, tag: u32) -> Self;
    fn id(&self) -> (u32, u32);
}

impl El for () {
    const CLASSES: u32 = 1;
    const TAGS: u32 = 1;
    fn make(_: u32, _: u32) {}
    fn id(&self) -> (u32, u32) {
        (0, 0)
    }
}
#[derive(Clone, PartialEq, Eq, Debug)]
pub struct Unit;
impl El for Unit {
    const CLASSES: u32 = 1;
    const TAGS: u32 = 1;
    fn make(_: u32, _: u32) -> Unit {
        Unit
    }
    fn id(&self) -> (u32, u32) {
        (0, 0)
    }
}
macro_rules! int_el {
    ($t:ty, $base:expr) => {
        impl El for $t {
            const CLASSES: u32 = 200;
            const TAGS: u32 = 1;
            fn make(c: u32, _: u32) -> $t {
                ($base) + c as $t
            }
            fn id(&self) -> (u32, u32) {
                ((*self - ($base)) as u32, 0)
            }
        }
    };
}
int_el!(u8, 3u8);
int_el!(u32, 0x0a0b_0c00u32);
int_el!(u64, 0xffff_ffff_ffff_fe00u64);
impl El for [u8; 3] {
    const CLASSES: u32 = 200;
    const TAGS: u32 = 1;
    fn make(c: u32, _: u32) -> [u8; 3] {
        [c as u8, 0xee, 0xdd]
    }
    fn id(&self) -> (u32, u32) {
        (self[0] as u32, 0)
    }
}
/// over-aligned elements
#[derive(Clone, PartialEq, Eq, Debug)]
#[repr(align(16))]
pub struct A16(u8);
impl El for A16 {
    const CLASSES: u32 = 200;
    const TAGS: u32 = 1;
    fn make(c: u32, _: u32) -> A16 {
        A16(c as u8)
    }
    fn id(&self) -> (u32, u32) {
        (self.0 as u32, 0)
    }
}
#[derive(Clone, Debug)]
#[repr(align(64))]
pub struct A64(u16, u16);
impl PartialEq for A64 {
    fn eq(&self, o: &A64) -> bool {
        self.0 == o.0
    }
}
impl Eq for A64 {}
impl El for A64 {
    const CLASSES: u32 = 200;
    const TAGS: u32 = 3;
    fn make(c: u32, t: u32) -> A64 {
        A64(c as u16, t as u16)
    }
    fn id(&self) -> (u32, u32) {
        (self.0 as u32, self.1 as u32)
    }
}
/// no drop glue, equal values are distinguishable: a case-insensitive name
#[derive(Clone, Copy, Debug)]
pub struct Ci(&'static str);
const NAMES: [[&str; 3]; 8] = [
    ["alpha", "ALPHA", "Alpha"], ["b", "B", "b"], ["gamma", "GAMMA", "gAMMA"], ["de", "DE", "dE"],
    ["epsilon", "EPSILON", "Epsilon"], ["zeta", "ZETA", "zEta"], ["eta", "ETA", "eTa"], ["", "", ""],
];
impl PartialEq for Ci {
    fn eq(&self, o: &Ci) -> bool {
        self.0.eq_ignore_ascii_case(o.0)
    }
}
impl Eq for Ci {}
impl El for Ci {
    const CLASSES: u32 = 8;
    const TAGS: u32 = 3;
    fn make(c: u32, t: u32) -> Ci {
        Ci(NAMES[c as usize % 8][t as usize % 3])
    }
    fn id(&self) -> (u32, u32) {
        for (c, row) in NAMES.iter().enumerate() {
            for (t, s) in row.iter().enumerate() {
                if std::ptr::eq(*s, self.0) || (*s == self.0 && (c == 7 || c == 1 && t != 1)) {
                    return (c as u32, if c == 7 { 0 } else if c == 1 && t == 2 { 0 } else { t as u32 });
                }
            }
        }
        (99, 99)
    }
}
/// slices that share their start address: class `i` is the prefix of length `i` of one buffer (so
/// different elements start at the same address, and the empty one too); tag 1 is the same prefix of
/// a second buffer (equal content, another address)
static BUF1: [u8; 12] = *b"abcdefghijkl";
static BUF2: [u8; 12] = *b"abcdefghijkl";
impl El for &'static [u8] {
    const CLASSES: u32 = 12;
    const TAGS: u32 = 2;
    fn make(c: u32, t: u32) -> &'static [u8] {
        if t % 2 == 0 {
            &BUF1[..c as usize % 12]
        } else {
            &BUF2[..c as usize % 12]
        }
    }
    fn id(&self) -> (u32, u32) {
        (self.len() as u32, (self.as_ptr() == BUF2.as_ptr()) as u32)
    }
}
impl El for &'static str {
    const CLASSES: u32 = 12;
    const TAGS: u32 = 2;
    fn make(c: u32, t: u32) -> &'static str {
        std::str::from_utf8(<&'static [u8]>::make(c, t)).unwrap()
    }
    fn id(&self) -> (u32, u32) {
        (self.len() as u32, (self.as_ptr() == BUF2.as_ptr()) as u32)
    }
}
impl El for String {
    const CLASSES: u32 = 200;
    const TAGS: u32 = 1;
    fn make(c: u32, _: u32) -> String {
        format!("k{c}")
    }
    fn id(&self) -> (u32, u32) {
        (self[1..].parse().unwrap_or(99), 0)
    }
}
/// reference-counted, with identity: every object ever made is remembered by the sweep, and at the
/// end every count must be back to one (nothing leaked, nothing dropped twice)
#[derive(Clone, Debug)]
pub struct RcE(Rc<(u32, u32)>);
impl PartialEq for RcE {
    fn eq(&self, o: &RcE) -> bool {
        self.0 .0 == o.0 .0
    }
}
thread_local! {
    static RCS: std::cell::RefCell<Vec<Rc<(u32, u32)>>> = const { std::cell::RefCell::new(Vec::new()) };
}
impl Eq for RcE {}
impl El for RcE {
    const CLASSES: u32 = 200;
    const TAGS: u32 = 4;
    fn make(c: u32, t: u32) -> RcE {
        let r = Rc::new((c, t));
        RCS.with(|v| v.borrow_mut().push(r.clone()));
        RcE(r)
    }
    fn id(&self) -> (u32, u32) {
        *self.0
    }
}

struct Rng(u64);
impl Rng {
    fn next(&mut self) -> u64 {
        self.0 = self.0.wrapping_add(0x9e3779b97f4a7c15);
        let mut x = self.0;
        x = (x ^ (x >> 30)).wrapping_mul(0xbf58476d1ce4e5b9);
        x = (x ^ (x >> 27)).wrapping_mul(0x94d049bb133111eb);
        x ^ (x >> 31)
    }
    fn below(&mut self, n: u32) -> u32 {
        (self.next() % n.max(1) as u64) as u32
    }
}

type Id = (u32, u32);
fn sorted<T: Ord>(mut v: Vec<T>) -> Vec<T> {
    v.sort();
    v
}
fn pid<K: El, V: El>(k: &K, v: &V) -> (Id, Id) {
    (k.id(), v.id())
}
fn quiet<T>(f: impl FnOnce() -> T) -> Result<T, ()> {
    catch_unwind(AssertUnwindSafe(f)).map_err(|_| ())
}

/// the reference: an unordered dictionary with micromap's documented key-identity rules
struct Ref<K, V> {
    v: Vec<(K, V)>,
}
impl<K: El, V: El> Ref<K, V> {
    fn pos(&self, k: &K) -> Option<usize> {
        self.v.iter().position(|p| p.0 == *k)
    }
    fn ids(&self) -> Vec<(Id, Id)> {
        sorted(self.v.iter().map(|p| pid(&p.0, &p.1)).collect())
    }
}

macro_rules! bail {
    ($($a:tt)*) => { return Err(format!($($a)*)) };
}

/// contents, lengths and uniqueness, read through every borrowing iterator
fn check_map<K: El, V: El, const N: usize>(m: &mut Map<K, V, N>, r: &Ref<K, V>, after: &str) -> Result<(), String> {
    let want = r.ids();
    if m.len() != r.v.len() || m.is_empty() != r.v.is_empty() || m.capacity() != N {
        bail!("after {after}: len() = {}, is_empty() = {}, capacity() = {}; the reference holds {}", m.len(), m.is_empty(), m.capacity(), r.v.len());
    }
    let got = sorted(m.iter().map(|(k, v)| pid(k, v)).collect::<Vec<_>>());
    if got != want {
        bail!("after {after}: iter() yields {got:?}, the reference holds {want:?}");
    }
    let ks = sorted(m.keys().map(|k| k.id()).collect::<Vec<_>>());
    let vs = sorted(m.values().map(|v| v.id()).collect::<Vec<_>>());
    if ks != sorted(want.iter().map(|p| p.0).collect::<Vec<_>>()) || vs != sorted(want.iter().map(|p| p.1).collect::<Vec<_>>()) {
        bail!("after {after}: keys() / values() disagree with iter()");
    }
    let vm = sorted(m.values_mut().map(|v| v.id()).collect::<Vec<_>>());
    let im = sorted(m.iter_mut().map(|(k, v)| pid(k, v)).collect::<Vec<_>>());
    let rf = sorted((&*m).into_iter().map(|(k, v)| pid(k, v)).collect::<Vec<_>>());
    let rm = sorted((&mut *m).into_iter().map(|(k, v)| pid(k, v)).collect::<Vec<_>>());
    if vm != vs || im != want || rf != want || rm != want {
        bail!("after {after}: iter_mut() / values_mut() / IntoIterator for &Map, &mut Map disagree with iter()");
    }
    for (k, v) in &r.v {
        if m.get(k).map(|x| x.id()) != Some(v.id()) || m.get_key_value(k).map(|(a, b)| pid(a, b)) != Some(pid(k, v)) || !m.contains_key(k) {
            bail!("after {after}: the stored key {:?} is not found by get / get_key_value / contains_key", k.id());
        }
        if quiet(|| m[k].id()) != Ok(v.id()) {
            bail!("after {after}: indexing by the stored key {:?}", k.id());
        }
    }
    Ok(())
}

/// exact lengths and the provided methods of one borrowing iterator, against stepping with `next`
fn check_iter<I: Iterator + ExactSizeIterator + Clone, T: PartialEq + Debug>(
    what: &str, it: I, n: usize, show: impl Fn(I::Item) -> T, rng: &mut Rng,
) -> Result<(), String> {
    let mut seq = Vec::new();
    let mut a = it.clone();
    for left in (0..=n).rev() {
        if a.len() != left || a.size_hint() != (left, Some(left)) || a.clone().count() != left {
            bail!("{what}: len() / size_hint() / count() with {left} items to come: {} {:?}", a.len(), a.size_hint());
        }
        match a.next() {
            Some(x) if left > 0 => seq.push(show(x)),
            None if left == 0 => {}
            _ => bail!("{what}: next() with {left} items to come"),
        }
    }
    if a.next().is_some() || a.next().is_some() || a.len() != 0 {
        bail!("{what}: not None forever after the end");
    }
    let again: Vec<T> = it.clone().map(&show).collect();
    if again != seq {
        bail!("{what}: a second traversal yields another sequence");
    }
    let folded: Vec<T> = it.clone().fold(Vec::new(), |mut acc, x| {
        acc.push(show(x));
        acc
    });
    if folded != seq {
        bail!("{what}: fold() visits {folded:?}, next() yields {seq:?}");
    }
    let mut each = Vec::new();
    it.clone().for_each(|x| each.push(show(x)));
    let last = it.clone().last().map(&show);
    if each != seq || last.as_ref() != seq.last() {
        bail!("{what}: for_each() / last() disagree with next(): last() = {last:?}, sequence {seq:?}");
    }
    for _ in 0..3 {
        let k = rng.below(n as u32 + 3) as usize;
        let mut b = it.clone();
        let got = b.nth(k).map(&show);
        if got.as_ref() != seq.get(k) {
            bail!("{what}: nth({k}) = {got:?}, stepping gives {:?}", seq.get(k));
        }
        let left = n.saturating_sub(k + 1);
        if b.len() != left || b.clone().count() != left || b.next().map(&show).as_ref() != seq.get(k + 1) {
            bail!("{what}: after nth({k}) of {n}: len() = {}, expected {left}", b.len());
        }
        let mut c = it.clone();
        c.next();
        let skipped: Vec<T> = c.clone().skip(k).step_by(2).map(&show).collect();
        let manual: Vec<T> = seq.iter().skip(1 + k).step_by(2).map(|_| ()).zip(c.clone().skip(k).step_by(2)).map(|(_, x)| show(x)).collect();
        if skipped.len() != manual.len() || skipped.len() != n.saturating_sub(1 + k).div_ceil(2) {
            bail!("{what}: skip({k}).step_by(2) after one next() yields {} items of {n}", skipped.len());
        }
    }
    let mut d = it.clone();
    if d.nth(usize::MAX).is_some() || d.len() != 0 || d.next().is_some() {
        bail!("{what}: nth(usize::MAX) must exhaust the iterator");
    }
    let mut e = it.clone();
    if n > 0 {
        e.next();
    }
    let f = e.clone();
    if e.map(&show).collect::<Vec<_>>() != f.map(&show).collect::<Vec<_>>() {
        bail!("{what}: a clone taken after one step continues differently");
    }
    Ok(())
}

fn pick<K: El, const N: usize>(rng: &mut Rng) -> K {
    let classes = K::CLASSES.min(N as u32 + 2);
    K::make(rng.below(classes), rng.below(K::TAGS))
}

/// one sweep of the dictionary API (families: d = dictionary, e = entry API, i = iterators,
/// c = consuming iterators and drain, q = equality and clone, b = bulk construction, g = get_disjoint_mut,
/// u = the unsafe fast paths inside their contract)
fn map_sweep<K: El, V: El, const N: usize>(name: &str, fam: &str, seed: u64) -> Result<(), String> {
    let mut rng = Rng(seed ^ 0x51ed_27a1);
    let mut m: Map<K, V, N> = Map::new();
    let mut r: Ref<K, V> = Ref { v: Vec::new() };
    // the dictionary operations always run: they build the states the other families need
    let has = |c: char| c == 'd' || fam.contains(c);
    let steps = if N > 100 { 40 } else { 90 };
    if N > 100 {
        // a long container: code that switches strategy with the length (blocks, bitmaps of 64 …)
        for c in 0..K::CLASSES.min(70) {
            let (k, v) = (K::make(c, 0), V::make(c % V::CLASSES, 0));
            if r.pos(&k).is_none() {
                m.insert(k.clone(), v.clone());
                r.v.push((k, v));
            }
        }
        check_map(&mut m, &r, &format!("{name}: {} insertions", r.v.len()))?;
    }
    for step in 0..steps {
        let k: K = pick::<K, N>(&mut rng);
        let v: V = V::make(rng.below(V::CLASSES), rng.below(V::TAGS));
        let full_new = r.v.len() == N && r.pos(&k).is_none();
        let what;
        match rng.below(26) {
            0..=3 if has('d') => {
                what = format!("insert({:?}, {:?})", k.id(), v.id());
                let got = quiet(|| m.insert(k.clone(), v.clone()).map(|x| x.id()));
                if full_new {
                    if got.is_ok() {
                        bail!("{name}: {what} into a full map did not panic");
                    }
                } else {
                    let want = match r.pos(&k) {
                        Some(i) => Some(std::mem::replace(&mut r.v[i].1, v).id()),
                        None => {
                            r.v.push((k, v));
                            None
                        }
                    };
                    if got != Ok(want) {
                        bail!("{name}: {what} returned {got:?}, expected {want:?}");
                    }
                }
            }
            4..=5 if has('d') => {
                what = format!("insert_key_value({:?}, {:?})", k.id(), v.id());
                let got = quiet(|| m.insert_key_value(k.clone(), v.clone()).map(|(a, b)| pid(&a, &b)));
                if full_new {
                    if got.is_ok() {
                        bail!("{name}: {what} into a full map did not panic");
                    }
                } else {
                    let want = match r.pos(&k) {
                        Some(i) => Some(std::mem::replace(&mut r.v[i], (k, v))).map(|(a, b)| pid(&a, &b)),
                        None => {
                            r.v.push((k, v));
                            None
                        }
                    };
                    if got != Ok(want) {
                        bail!("{name}: {what} returned {got:?}, expected {want:?}");
                    }
                }
            }
            6..=7 if has('d') => {
                what = format!("checked_insert({:?}, {:?})", k.id(), v.id());
                let got = quiet(|| m.checked_insert(k.clone(), v.clone()).map(|o| o.map(|x| x.id())));
                let want = if full_new {
                    None
                } else {
                    Some(match r.pos(&k) {
                        Some(i) => Some(std::mem::replace(&mut r.v[i].1, v).id()),
                        None => {
                            r.v.push((k, v));
                            None
                        }
                    })
                };
                if got != Ok(want) {
                    bail!("{name}: {what} returned {got:?}, expected {want:?}");
                }
            }
            8..=9 if has('d') => {
                what = format!("remove({:?})", k.id());
                let got = quiet(|| m.remove(&k).map(|x| x.id()));
                let want = r.pos(&k).map(|i| r.v.swap_remove(i).1.id());
                if got != Ok(want) {
                    bail!("{name}: {what} returned {got:?}, expected {want:?}");
                }
            }
            10 if has('d') => {
                what = format!("remove_entry({:?})", k.id());
                let got = quiet(|| m.remove_entry(&k).map(|(a, b)| pid(&a, &b)));
                let want = r.pos(&k).map(|i| r.v.swap_remove(i)).map(|(a, b)| pid(&a, &b));
                if got != Ok(want) {
                    bail!("{name}: {what} returned {got:?}, expected {want:?}");
                }
            }
            11 if has('d') => {
                what = format!("lookups of {:?}", k.id());
                let want = r.pos(&k).map(|i| pid(&r.v[i].0, &r.v[i].1));
                let a = m.get(&k).map(|x| x.id());
                let b = m.get_key_value(&k).map(|(a, b)| pid(a, b));
                let c = m.contains_key(&k);
                let d = quiet(|| m[&k].id()).ok();
                if a != want.map(|p| p.1) || b != want || c != want.is_some() || d != want.map(|p| p.1) {
                    bail!("{name}: {what}: get {a:?}, get_key_value {b:?}, contains_key {c}, index {d:?}; the reference has {want:?}");
                }
            }
            12 if has('d') => {
                what = format!("get_mut({:?}) and a write", k.id());
                let want = r.pos(&k);
                match (m.get_mut(&k), want) {
                    (Some(x), Some(i)) if x.id() == r.v[i].1.id() => {
                        *x = v.clone();
                        r.v[i].1 = v;
                    }
                    (None, None) => {}
                    _ => bail!("{name}: {what}: presence or value differs from the reference"),
                }
            }
            13 if has('d') => {
                let p = rng.below(3);
                what = format!("retain(class % 3 != {p})");
                let mut asked = 0;
                m.retain(|k, _| {
                    asked += 1;
                    k.id().0 % 3 != p
                });
                if asked != r.v.len() {
                    bail!("{name}: {what} asked {asked} times about {} entries", r.v.len());
                }
                r.v.retain(|e| e.0.id().0 % 3 != p);
            }
            14 if has('d') && rng.below(4) == 0 => {
                what = "clear()".into();
                m.clear();
                r.v.clear();
            }
            15..=17 if has('e') => {
                let occupied = r.pos(&k);
                let sel = rng.below(8);
                what = format!("entry({:?}) path {sel}", k.id());
                if sel < 5 && occupied.is_none() && r.v.len() == N {
                    let got = quiet(|| {
                        m.entry(k.clone()).or_insert(v.clone());
                    });
                    if got.is_ok() {
                        bail!("{name}: {what}: or_insert of a new key on a full map did not panic");
                    }
                } else {
                    let mut called = 0;
                    let e = m.entry(k.clone());
                    let is_occ = matches!(e, micromap::Entry::Occupied(_));
                    if is_occ != occupied.is_some() {
                        bail!("{name}: {what}: Occupied = {is_occ}, the reference says {}", occupied.is_some());
                    }
                    let shown = e.key().id();
                    if shown.0 != k.id().0 {
                        bail!("{name}: {what}: key() shows class {}", shown.0);
                    }
                    let got: Id = match sel {
                        0 => e.or_insert(v.clone()).id(),
                        1 => e.or_insert_with(|| {
                            called += 1;
                            v.clone()
                        })
                        .id(),
                        2 => e.or_insert_with_key(|kk| {
                            called += 1;
                            if kk.id() != k.id() {
                                called += 10;
                            }
                            v.clone()
                        })
                        .id(),
                        3 => e.and_modify(|x| {
                            called += 100;
                            *x = v.clone();
                        })
                        .or_insert(v.clone())
                        .id(),
                        4 => match e {
                            micromap::Entry::Occupied(mut o) => {
                                let old = o.insert(v.clone());
                                if Some(old.id()) != occupied.map(|i| r.v[i].1.id()) || o.get().id() != v.id() || o.get_mut().id() != v.id() {
                                    bail!("{name}: {what}: OccupiedEntry::insert / get / get_mut");
                                }
                                if o.key().id() != r.v[occupied.unwrap()].0.id() {
                                    bail!("{name}: {what}: OccupiedEntry::key() is not the stored key");
                                }
                                o.into_mut().id()
                            }
                            micromap::Entry::Vacant(va) => {
                                if va.key().id() != k.id() {
                                    bail!("{name}: {what}: VacantEntry::key()");
                                }
                                va.insert(v.clone()).id()
                            }
                        },
                        5 | 6 => match e {
                            micromap::Entry::Occupied(o) => {
                                let i = occupied.unwrap();
                                let (wk, wv) = r.v.swap_remove(i);
                                if sel == 5 {
                                    if o.remove().id() != wv.id() {
                                        bail!("{name}: {what}: OccupiedEntry::remove returned another value");
                                    }
                                } else if o.remove_entry() .0.id() != wk.id() {
                                    bail!("{name}: {what}: OccupiedEntry::remove_entry returned another key");
                                }
                                check_map(&mut m, &r, &format!("{name}: {what}"))?;
                                continue;
                            }
                            micromap::Entry::Vacant(va) => {
                                if va.into_key().id() != k.id() {
                                    bail!("{name}: {what}: VacantEntry::into_key()");
                                }
                                check_map(&mut m, &r, &format!("{name}: {what}"))?;
                                continue;
                            }
                        },
                        _ => {
                            drop(e);
                            check_map(&mut m, &r, &format!("{name}: {what}"))?;
                            continue;
                        }
                    };
                    let want_calls = match (sel, occupied.is_some()) {
                        (1 | 2, false) => 1,
                        (3, true) => 100,
                        _ => 0,
                    };
                    if called != want_calls {
                        bail!("{name}: {what}: closure calls {called}, expected {want_calls}");
                    }
                    match occupied {
                        Some(i) => {
                            if sel >= 3 {
                                r.v[i].1 = v.clone();
                            }
                            if got != r.v[i].1.id() {
                                bail!("{name}: {what}: the reference returned points at {got:?}, the entry's value is {:?}", r.v[i].1.id());
                            }
                        }
                        None => {
                            if got != v.id() {
                                bail!("{name}: {what}: the reference returned points at {got:?}, inserted {:?}", v.id());
                            }
                            r.v.push((k, v));
                        }
                    }
                }
            }
            18 if has('i') => {
                what = "borrowing iterators".into();
                let n = r.v.len();
                check_iter(&format!("{name}: iter()"), m.iter(), n, |(a, b)| pid(a, b), &mut rng)?;
                check_iter(&format!("{name}: keys()"), m.keys(), n, |a| a.id(), &mut rng)?;
                check_iter(&format!("{name}: values()"), m.values(), n, |a| a.id(), &mut rng)?;
                let it: Vec<(Id, Id)> = m.iter().map(|(a, b)| pid(a, b)).collect();
                let ks: Vec<Id> = m.keys().map(|a| a.id()).collect();
                let vs: Vec<Id> = m.values().map(|a| a.id()).collect();
                let vm: Vec<Id> = m.values_mut().map(|a| a.id()).collect();
                let im: Vec<(Id, Id)> = m.iter_mut().map(|(a, b)| pid(a, b)).collect();
                if ks != it.iter().map(|p| p.0).collect::<Vec<_>>() || vs != it.iter().map(|p| p.1).collect::<Vec<_>>() || vm != vs || im != it {
                    bail!("{name}: the borrowing iterators do not walk the entries in one common order");
                }
                let mut w = m.iter_mut();
                let (l0, h0) = (w.len(), w.size_hint());
                let mut cnt = 0;
                while let Some((kk, vv)) = w.next() {
                    cnt += 1;
                    let nv = V::make(kk.id().0 % V::CLASSES.max(1), kk.id().1 % V::TAGS.max(1));
                    *vv = nv.clone();
                    let i = r.pos(kk).ok_or(format!("{name}: iter_mut yields a key the reference does not hold"))?;
                    r.v[i].1 = nv;
                    if w.len() != n - cnt {
                        bail!("{name}: iter_mut().len() after {cnt} steps of {n}");
                    }
                }
                if l0 != n || h0 != (n, Some(n)) || cnt != n || w.next().is_some() {
                    bail!("{name}: iter_mut() lengths");
                }
            }
            19..=20 if has('c') => {
                let n = r.v.len();
                let take = rng.below(n as u32 + 2) as usize;
                let sel = rng.below(9);
                what = format!("consuming path {sel}, take {take}");
                let mut c = m.clone();
                if sorted(c.iter().map(|(a, b)| pid(a, b)).collect::<Vec<_>>()) != r.ids() {
                    bail!("{name}: clone() holds other entries than its source");
                }
                let all = r.ids();
                let sub_of = |got: &Vec<(Id, Id)>| -> bool {
                    let mut pool = all.clone();
                    got.iter().all(|g| pool.iter().position(|p| p == g).map(|i| pool.swap_remove(i)).is_some())
                };
                match sel {
                    0 | 1 => {
                        let mut d = c.drain();
                        let mut got = Vec::new();
                        for left in (n.saturating_sub(take)..=n).rev() {
                            if d.len() != left || d.size_hint() != (left, Some(left)) {
                                bail!("{name}: {what}: Drain::len() = {} with {left} to come", d.len());
                            }
                            if got.len() == take {
                                break;
                            }
                            match d.next() {
                                Some((a, b)) => got.push(pid(&a, &b)),
                                None => break,
                            }
                        }
                        if got.len() != take.min(n) || !sub_of(&got) {
                            bail!("{name}: {what}: drain() yielded {got:?} of {all:?}");
                        }
                        if sel == 0 {
                            drop(d);
                        } else {
                            let rest = d.count();
                            if rest + got.len() != n {
                                bail!("{name}: {what}: Drain::count() = {rest} after {} of {n}", got.len());
                            }
                        }
                        if c.len() != 0 || c.iter().next().is_some() {
                            bail!("{name}: {what}: the map is not empty after drain()");
                        }
                        for (a, b) in r.v.iter().take(N) {
                            c.insert(a.clone(), b.clone());
                        }
                        if c.len() != n.min(N) {
                            bail!("{name}: {what}: the drained map cannot be refilled");
                        }
                    }
                    2 => {
                        let mut it = c.into_iter();
                        let mut got = Vec::new();
                        for left in (n.saturating_sub(take)..=n).rev() {
                            if it.len() != left || it.size_hint() != (left, Some(left)) {
                                bail!("{name}: {what}: IntoIter::len() = {} with {left} to come", it.len());
                            }
                            if got.len() == take {
                                break;
                            }
                            match it.next() {
                                Some((a, b)) => got.push(pid(&a, &b)),
                                None => break,
                            }
                        }
                        let rest: Vec<(Id, Id)> = it.map(|(a, b)| pid(&a, &b)).collect();
                        got.extend(rest);
                        if sorted(got) != all {
                            bail!("{name}: {what}: into_iter() does not yield exactly the contents");
                        }
                    }
                    3 => {
                        let ks = sorted(c.clone().into_keys().map(|a| a.id()).collect::<Vec<_>>());
                        let vs = sorted(c.into_values().map(|a| a.id()).collect::<Vec<_>>());
                        if ks != sorted(all.iter().map(|p| p.0).collect::<Vec<_>>()) || vs != sorted(all.iter().map(|p| p.1).collect::<Vec<_>>()) {
                            bail!("{name}: {what}: into_keys() / into_values()");
                        }
                    }
                    4 => {
                        // provided methods on the owning iterators: nth, last, count, fold
                        let seq: Vec<(Id, Id)> = c.clone().into_iter().map(|(a, b)| pid(&a, &b)).collect();
                        let mut it = c.clone().into_iter();
                        let got = it.nth(take).map(|(a, b)| pid(&a, &b));
                        let left = n.saturating_sub(take + 1);
                        if got.as_ref() != seq.get(take) || it.len() != left || it.next().map(|(a, b)| pid(&a, &b)).as_ref() != seq.get(take + 1) {
                            bail!("{name}: {what}: into_iter().nth({take}) = {got:?}, stepping gives {:?}", seq.get(take));
                        }
                        let last = c.clone().into_iter().last().map(|(a, b)| pid(&a, &b));
                        let folded = c.clone().into_iter().fold(Vec::new(), |mut acc, (a, b)| {
                            acc.push(pid(&a, &b));
                            acc
                        });
                        let mut it2 = c.clone().into_iter();
                        let none = it2.nth(usize::MAX).is_none() && it2.len() == 0 && it2.next().is_none();
                        let mut it3 = c.clone().into_iter();
                        if n > 0 {
                            it3.next();
                        }
                        let skipped = it3.skip(1).nth(usize::MAX).is_none();
                        if last.as_ref() != seq.last() || folded != seq || c.into_iter().count() != n || !none || !skipped {
                            bail!("{name}: {what}: last() / fold() / count() / nth(usize::MAX) of into_iter() disagree with next()");
                        }
                    }
                    5 => {
                        let seq: Vec<Id> = c.clone().into_keys().map(|a| a.id()).collect();
                        let vseq: Vec<Id> = c.clone().into_values().map(|a| a.id()).collect();
                        let mut it = c.clone().into_keys();
                        let got = it.nth(take).map(|a| a.id());
                        let mut iv = c.clone().into_values();
                        let gv = iv.nth(take).map(|a| a.id());
                        if got.as_ref() != seq.get(take) || gv.as_ref() != vseq.get(take) || it.len() != n.saturating_sub(take + 1) || iv.len() != n.saturating_sub(take + 1) {
                            bail!("{name}: {what}: into_keys().nth / into_values().nth");
                        }
                        if c.clone().into_keys().last().map(|a| a.id()).as_ref() != seq.last() || c.clone().into_values().count() != n {
                            bail!("{name}: {what}: into_keys().last() / into_values().count()");
                        }
                        let fk = c.clone().into_keys().fold(Vec::new(), |mut acc, a| {
                            acc.push(a.id());
                            acc
                        });
                        let fv = c.into_values().fold(Vec::new(), |mut acc, a| {
                            acc.push(a.id());
                            acc
                        });
                        if fk != seq || fv != vseq {
                            bail!("{name}: {what}: fold() of into_keys() / into_values() disagrees with next()");
                        }
                    }
                    6 => {
                        let seq: Vec<(Id, Id)> = c.clone().drain().map(|(a, b)| pid(&a, &b)).collect();
                        let mut c2 = c.clone();
                        let mut d = c2.drain();
                        let got = d.nth(take).map(|(a, b)| pid(&a, &b));
                        if got.as_ref() != seq.get(take) || d.len() != n.saturating_sub(take + 1) {
                            bail!("{name}: {what}: drain().nth({take}) = {got:?}, stepping gives {:?}", seq.get(take));
                        }
                        drop(d);
                        let mut c3 = c.clone();
                        let last = c3.drain().last().map(|(a, b)| pid(&a, &b));
                        let folded = c.drain().fold(Vec::new(), |mut acc, (a, b)| {
                            acc.push(pid(&a, &b));
                            acc
                        });
                        if last.as_ref() != seq.last() || folded != seq || sorted(seq) != all {
                            bail!("{name}: {what}: last() / fold() of drain() disagree with next()");
                        }
                    }
                    // forgetting leaks by design: only for elements without drop glue (the count of
                    // reference-counted elements at the end must balance)
                    7 | 8 if std::mem::needs_drop::<(K, V)>() => {}
                    7 => {
                        let d = c.drain();
                        std::mem::forget(d);
                        if c.len() != 0 {
                            bail!("{name}: {what}: a forgotten Drain leaves len() = {}", c.len());
                        }
                        c.clear();
                    }
                    _ => {
                        let it = c.into_iter();
                        std::mem::forget(it);
                    }
                }
            }
            21 if has('q') => {
                what = "clone and ==".into();
                let mut c = m.clone();
                let mut big: Map<K, V, 128> = Map::new();
                for (a, b) in r.v.iter().rev() {
                    big.insert(a.clone(), b.clone());
                }
                if !(c == m) || c != m || !(big == m) || !(m == big) || m != big {
                    bail!("{name}: a clone / a container of another capacity holding the same entries does not compare equal");
                }
                let mut t = Map::<K, V, N>::new();
                t.clone_from(&m);
                let mut t2 = m.clone();
                t2.clone_from(&Map::new());
                let mut t3: Map<K, V, N> = Map::new();
                for (a, b) in r.v.iter().skip(1) {
                    t3.insert(a.clone(), V::make(b.id().0 + 1, 0));
                    if V::CLASSES == 1 {
                        break;
                    }
                }
                t3.clone_from(&m);
                if t != m || !t2.is_empty() || t3 != m || sorted(t3.iter().map(|(a, b)| pid(a, b)).collect::<Vec<_>>()) != r.ids() {
                    bail!("{name}: clone_from");
                }
                if let Some((a, _)) = r.v.first() {
                    if V::CLASSES > 1 {
                        let old = c.get(a).unwrap().id();
                        *c.get_mut(a).unwrap() = V::make((old.0 + 1) % V::CLASSES, 0);
                        if c == m || m == c || !(c != m) {
                            bail!("{name}: maps that differ in one value compare equal");
                        }
                    }
                    c.remove(a);
                    big.remove(a);
                    if c == m || m == c || big == m || m == big || !(c != m) || !(m != big) {
                        bail!("{name}: maps of different lengths compare equal (== or !=)");
                    }
                    if K::CLASSES as usize > N + 3 && N > 0 {
                        c.insert(K::make(N as u32 + 3, 0), r.v[0].1.clone());
                        if c == m || m == c || !(c != m) || !(m != c) {
                            bail!("{name}: maps with one differing key compare equal (== or !=)");
                        }
                    }
                }
                check_map(&mut m, &r, &format!("{name}: changes to a clone"))?;
            }
            22 if has('b') => {
                what = "bulk construction".into();
                let len = rng.below(N as u32 * 2 + 2) as usize;
                let items: Vec<(K, V)> =
                    (0..len).map(|_| (pick::<K, N>(&mut rng), V::make(rng.below(V::CLASSES), rng.below(V::TAGS)))).collect();
                let mut one: Result<Map<K, V, N>, ()> = Ok(Map::new());
                for (a, b) in &items {
                    if let Ok(mm_) = one.as_mut() {
                        if quiet(|| mm_.insert(a.clone(), b.clone())).is_err() {
                            one = Err(());
                        }
                    }
                }
                let ids = |x: &Map<K, V, N>| sorted(x.iter().map(|(a, b)| pid(a, b)).collect::<Vec<_>>());
                let col = quiet(|| items.iter().cloned().collect::<Map<K, V, N>>());
                match (&one, &col) {
                    (Ok(a), Ok(b)) if ids(a) == ids(b) => {}
                    (Err(()), Err(())) => {}
                    _ => bail!("{name}: collect() of {len} items differs from inserting them one by one"),
                }
                if len >= N && N > 0 {
                    let arr: [(K, V); N] = std::array::from_fn(|i| items[i].clone());
                    let mut one: Map<K, V, N> = Map::new();
                    for (a, b) in arr.iter() {
                        one.insert(a.clone(), b.clone());
                    }
                    let from = Map::from(arr);
                    if ids(&from) != ids(&one) {
                        bail!("{name}: Map::from(array) differs from inserting the items one by one");
                    }
                }
            }
            24 if has('u') => {
                what = format!("insert_unchecked({:?}, {:?})", k.id(), v.id());
                if full_new {
                    continue; // outside the contract
                }
                // SAFETY: the map is not full or the key is present
                let got = unsafe { m.insert_unchecked(k.clone(), v.clone()) }.map(|x| x.id());
                let want = match r.pos(&k) {
                    Some(i) => Some(std::mem::replace(&mut r.v[i].1, v).id()),
                    None => {
                        r.v.push((k, v));
                        None
                    }
                };
                if got != want {
                    bail!("{name}: {what} returned {got:?}, insert would return {want:?}");
                }
            }
            25 if has('u') => {
                let k2: K = pick::<K, N>(&mut rng);
                what = format!("get_disjoint_unchecked_mut([{:?}, {:?}])", k.id(), k2.id());
                if k == k2 {
                    continue; // outside the contract
                }
                let want: Vec<Option<Id>> = [&k, &k2].iter().map(|q| r.pos(q).map(|i| r.v[i].1.id())).collect();
                // SAFETY: the two keys are different
                let rs = unsafe { m.get_disjoint_unchecked_mut([&k, &k2]) };
                let ids: Vec<Option<Id>> = rs.iter().map(|o| o.as_ref().map(|x| x.id())).collect();
                if ids != want {
                    bail!("{name}: {what} = {ids:?}, get_disjoint_mut gives {want:?}");
                }
            }
            23 if has('g') => {
                let k2: K = pick::<K, N>(&mut rng);
                let k3: K = pick::<K, N>(&mut rng);
                what = format!("get_disjoint_mut([{:?}, {:?}, {:?}])", k.id(), k2.id(), k3.id());
                let distinct = k != k2 && k != k3 && k2 != k3;
                let want: Vec<Option<Id>> = [&k, &k2, &k3].iter().map(|q| r.pos(q).map(|i| r.v[i].1.id())).collect();
                let got = quiet(|| {
                    let rs = m.get_disjoint_mut([&k, &k2, &k3]);
                    let ids: Vec<Option<Id>> = rs.iter().map(|o| o.as_ref().map(|x| x.id())).collect();
                    let ptrs: Vec<usize> = rs.iter().flatten().map(|x| &**x as *const V as usize).collect();
                    (ids, ptrs)
                });
                match got {
                    Ok((ids, ptrs)) => {
                        if !distinct {
                            bail!("{name}: {what}: equal keys requested and no panic");
                        }
                        let mut p2 = ptrs.clone();
                        p2.sort();
                        p2.dedup();
                        if ids != want || (std::mem::size_of::<V>() > 0 && p2.len() != ptrs.len()) {
                            bail!("{name}: {what} = {ids:?}, get_mut gives {want:?}");
                        }
                    }
                    Err(()) => {
                        if distinct {
                            bail!("{name}: {what}: panicked although the keys are pairwise different");
                        }
                    }
                }
                let [a] = m.get_disjoint_mut([&k]);
                if a.map(|x| x.id()) != want[0] || m.get_disjoint_mut::<K, 0>([]).len() != 0 {
                    bail!("{name}: get_disjoint_mut with one / zero keys");
                }
            }
            _ => continue,
        }
        check_map(&mut m, &r, &format!("{name}: step {step}: {what}"))?;
    }
    Ok(())
}

fn set_ids<K: El, const N: usize>(s: &Set<K, N>) -> Vec<Id> {
    sorted(s.iter().map(|a| a.id()).collect())
}

/// one sweep of the Set API (families: s = set operations, a = set algebra)
fn set_sweep<K: El, const N: usize>(name: &str, fam: &str, seed: u64) -> Result<(), String> {
    let mut rng = Rng(seed ^ 0x7e57_5e75);
    let mut s: Set<K, N> = Set::new();
    let mut r: Vec<K> = Vec::new();
    let has = |c: char| c == 's' || fam.contains(c);
    if N > 100 {
        for c in 0..K::CLASSES.min(70) {
            let k = K::make(c, 0);
            if !r.iter().any(|x| *x == k) {
                s.insert(k.clone());
                r.push(k);
            }
        }
    }
    for step in 0..(if N > 100 { 30 } else { 70 }) {
        let k: K = pick::<K, N>(&mut rng);
        let pos = r.iter().position(|x| *x == k);
        let full_new = r.len() == N && pos.is_none();
        let what;
        match rng.below(16) {
            0..=3 if has('s') => {
                what = format!("insert({:?})", k.id());
                let got = quiet(|| s.insert(k.clone()));
                if full_new {
                    if got.is_ok() {
                        bail!("{name}: {what} into a full set did not panic");
                    }
                } else {
                    if got != Ok(pos.is_none()) {
                        bail!("{name}: {what} returned {got:?}, the element was {}", if pos.is_none() { "absent" } else { "present" });
                    }
                    if pos.is_none() {
                        r.push(k);
                    }
                }
            }
            4 if has('s') => {
                what = format!("replace({:?})", k.id());
                let got = quiet(|| s.replace(k.clone()).map(|x| x.id()));
                if full_new {
                    if got.is_ok() {
                        bail!("{name}: {what} into a full set did not panic");
                    }
                } else {
                    let want = match pos {
                        Some(i) => Some(std::mem::replace(&mut r[i], k).id()),
                        None => {
                            r.push(k);
                            None
                        }
                    };
                    if got != Ok(want) {
                        bail!("{name}: {what} returned {got:?}, expected {want:?}");
                    }
                }
            }
            5..=6 if has('s') => {
                what = format!("remove({:?})", k.id());
                let got = s.remove(&k);
                if got != pos.is_some() {
                    bail!("{name}: {what} returned {got}");
                }
                if let Some(i) = pos {
                    r.swap_remove(i);
                }
            }
            7 if has('s') => {
                what = format!("take({:?})", k.id());
                let got = s.take(&k).map(|x| x.id());
                let want = pos.map(|i| r.swap_remove(i).id());
                if got != want {
                    bail!("{name}: {what} returned {got:?}, expected {want:?}");
                }
            }
            8 if has('s') => {
                what = format!("contains / get of {:?}", k.id());
                if s.contains(&k) != pos.is_some() || s.get(&k).map(|x| x.id()) != pos.map(|i| r[i].id()) {
                    bail!("{name}: {what}");
                }
            }
            9 if has('s') => {
                let p = rng.below(3);
                what = format!("retain(class % 3 != {p})");
                let mut asked = 0;
                s.retain(|x| {
                    asked += 1;
                    x.id().0 % 3 != p
                });
                if asked != r.len() {
                    bail!("{name}: {what} asked {asked} times about {} elements", r.len());
                }
                r.retain(|x| x.id().0 % 3 != p);
            }
            10 if has('s') => {
                what = "extend / drain / into_iter".into();
                let items: Vec<K> = (0..rng.below(4)).map(|_| pick::<K, N>(&mut rng)).collect();
                let mut want = r.clone();
                let mut fits = true;
                for x in &items {
                    if !want.iter().any(|y| y == x) {
                        if want.len() == N {
                            fits = false;
                            break;
                        }
                        want.push(x.clone());
                    }
                }
                let mut c = s.clone();
                let got = quiet(|| c.extend(items.iter().cloned()));
                if got.is_ok() != fits || (fits && set_ids(&c) != sorted(want.iter().map(|x| x.id()).collect::<Vec<_>>())) {
                    bail!("{name}: extend of {} items", items.len());
                }
                let mut c = s.clone();
                let n = r.len();
                let mut d = c.drain();
                let (l0, first) = (d.len(), d.next().map(|x| x.id()));
                let l1 = d.len();
                drop(d);
                if l0 != n || l1 != n.saturating_sub(1) || first.is_some() != (n > 0) || !c.is_empty() {
                    bail!("{name}: Set::drain()");
                }
                let all = sorted(s.clone().into_iter().map(|x| x.id()).collect::<Vec<_>>());
                let seq: Vec<Id> = s.clone().into_iter().map(|x| x.id()).collect();
                let mut it = s.clone().into_iter();
                let take = rng.below(n as u32 + 2) as usize;
                let nth = it.nth(take).map(|x| x.id());
                if all != set_ids(&s) || nth.as_ref() != seq.get(take) || it.len() != n.saturating_sub(take + 1)
                    || s.clone().into_iter().last().map(|x| x.id()).as_ref() != seq.last()
                    || s.clone().into_iter().count() != n
                    || s.clone().into_iter().fold(Vec::new(), |mut a, x| { a.push(x.id()); a }) != seq
                {
                    bail!("{name}: Set::into_iter(): contents / nth / last / count / fold");
                }
                let mut c2 = s.clone();
                let dseq: Vec<Id> = c2.drain().map(|x| x.id()).collect();
                let mut c3 = s.clone();
                let mut d3 = c3.drain();
                let dn = d3.nth(take).map(|x| x.id());
                if dn.as_ref() != dseq.get(take) || d3.len() != n.saturating_sub(take + 1) {
                    bail!("{name}: Set::drain().nth({take})");
                }
            }
            11 if has('s') => {
                what = "iter / clone / ==".into();
                check_iter(&format!("{name}: Set::iter()"), s.iter(), r.len(), |a| a.id(), &mut rng)?;
                let c = s.clone();
                let mut big: Set<K, 128> = Set::new();
                for x in r.iter().rev() {
                    big.insert(x.clone());
                }
                if c != s || !(big == s) || !(s == big) || big != s || s != big {
                    bail!("{name}: a clone / a set of another capacity with the same elements does not compare equal");
                }
                if let Some(x) = r.first() {
                    big.remove(x);
                    if big == s || s == big || !(big != s) || !(s != big) {
                        bail!("{name}: sets of different lengths compare equal (== or !=)");
                    }
                    if K::CLASSES as usize > N + 3 {
                        big.insert(K::make(N as u32 + 3, 0));
                        if big == s || s == big || !(big != s) || !(s != big) {
                            bail!("{name}: sets with one differing element compare equal (== or !=)");
                        }
                    }
                }
            }
            12..=15 if has('a') => {
                what = "set algebra".into();
                // a second operand of another capacity, overlapping with the first
                let mut o: Set<K, 96> = Set::new();
                let mut ro: Vec<K> = Vec::new();
                for _ in 0..(if N > 100 { 66 + rng.below(24) } else { rng.below(8) }) {
                    let x: K = K::make(rng.below(K::CLASSES.min(N as u32 + 4)), rng.below(K::TAGS));
                    if !ro.iter().any(|y| *y == x) {
                        ro.push(x.clone());
                    }
                    o.insert(x);
                }
                let inb = |x: &K| ro.iter().any(|y| y == x);
                let ina = |x: &K| r.iter().any(|y| y == x);
                let want_d = sorted(r.iter().filter(|x| !inb(x)).map(|x| x.id()).collect::<Vec<_>>());
                let want_i = sorted(r.iter().filter(|x| inb(x)).map(|x| x.id()).collect::<Vec<_>>());
                let mut want_u: Vec<Id> = ro.iter().filter(|x| !ina(x)).map(|x| x.id().0).map(|c| (c, 0)).collect();
                want_u.extend(r.iter().map(|x| (x.id().0, 0)));
                let want_u = sorted(want_u);
                let mut want_s: Vec<Id> = r.iter().filter(|x| !inb(x)).map(|x| x.id()).collect();
                want_s.extend(ro.iter().filter(|x| !ina(x)).map(|x| x.id()));
                let want_s = sorted(want_s);
                let cls = |v: Vec<Id>| sorted(v.into_iter().map(|p| (p.0, 0)).collect::<Vec<_>>());
                let d: Vec<Id> = s.difference(&o).map(|x| x.id()).collect();
                let i: Vec<Id> = s.intersection(&o).map(|x| x.id()).collect();
                let u: Vec<Id> = s.union(&o).map(|x| x.id()).collect();
                let y: Vec<Id> = s.symmetric_difference(&o).map(|x| x.id()).collect();
                if sorted(d.clone()) != want_d || sorted(i.clone()) != want_i || cls(u.clone()) != want_u || sorted(y.clone()) != want_s {
                    bail!("{name}: {what} of {:?} and {:?}: difference {d:?}, intersection {i:?}, union {u:?}, symmetric_difference {y:?}", set_ids(&s), sorted(ro.iter().map(|x| x.id()).collect::<Vec<_>>()));
                }
                // the other way round (the short / long operand on either side)
                let d2 = sorted(o.difference(&s).map(|x| x.id()).collect::<Vec<_>>());
                let i2 = cls(o.intersection(&s).map(|x| x.id()).collect::<Vec<_>>());
                let u2 = cls(o.union(&s).map(|x| x.id()).collect::<Vec<_>>());
                let y2 = sorted(o.symmetric_difference(&s).map(|x| x.id()).collect::<Vec<_>>());
                if d2 != sorted(ro.iter().filter(|x| !ina(x)).map(|x| x.id()).collect::<Vec<_>>()) || i2 != cls(want_i.clone()) || u2 != want_u || y2 != want_s {
                    bail!("{name}: {what} with the operands exchanged");
                }
                // stepping, hints, fold, provided methods
                macro_rules! lazy {
                    ($label:expr, $mk:expr, $seq:expr) => {{
                        let seq: &Vec<Id> = $seq;
                        let mut it = $mk;
                        let mut left = seq.len();
                        loop {
                            let (lo, hi) = it.size_hint();
                            if lo > left || hi.map_or(false, |h| h < left) {
                                bail!("{name}: {}: size_hint() = ({lo}, {hi:?}) with {left} items to come", $label);
                            }
                            if it.clone().count() != left {
                                bail!("{name}: {}: count() with {left} items to come", $label);
                            }
                            let folded = it.clone().fold(Vec::new(), |mut a, x| { a.push(x.id()); a });
                            if folded[..] != seq[seq.len() - left..] {
                                bail!("{name}: {}: fold() with {left} items to come visits {folded:?}", $label);
                            }
                            if it.clone().last().map(|x| x.id()).as_ref() != if left > 0 { seq.last() } else { None } {
                                bail!("{name}: {}: last() with {left} items to come", $label);
                            }
                            match it.next() {
                                Some(_) if left > 0 => left -= 1,
                                None if left == 0 => break,
                                _ => bail!("{name}: {}: next() with {left} items to come", $label),
                            }
                        }
                        if it.next().is_some() {
                            bail!("{name}: {}: not None after the end", $label);
                        }
                        let k = rng.below(seq.len() as u32 + 2) as usize;
                        let mut it = $mk;
                        if it.nth(k).map(|x| x.id()).as_ref() != seq.get(k) || it.next().map(|x| x.id()).as_ref() != seq.get(k + 1) {
                            bail!("{name}: {}: nth({k})", $label);
                        }
                        let mut it = $mk;
                        if it.nth(usize::MAX).is_some() || it.next().is_some() {
                            bail!("{name}: {}: nth(usize::MAX)", $label);
                        }
                    }};
                }
                lazy!("difference", s.difference(&o), &d);
                lazy!("intersection", s.intersection(&o), &i);
                lazy!("union", s.union(&o), &u);
                lazy!("symmetric_difference", s.symmetric_difference(&o), &y);
                // sets of references: difference_ref
                let sr: Set<&K, N> = s.iter().collect();
                let or: Set<&K, 96> = o.iter().collect();
                let dr: Vec<Id> = sr.difference_ref(&or).map(|x| x.id()).collect();
                if sorted(dr.clone()) != want_d {
                    bail!("{name}: difference_ref yields {dr:?}, expected {want_d:?}");
                }
                lazy!("difference_ref", sr.difference_ref(&or), &dr);
                let sub = &s - &o;
                if set_ids(&sub) != want_d {
                    bail!("{name}: `&a - &b` holds {:?}, expected {want_d:?}", set_ids(&sub));
                }
                let sub_t = r.iter().all(|x| inb(x));
                let sup_t = ro.iter().all(|x| ina(x));
                let dis_t = !r.iter().any(|x| inb(x));
                if s.is_subset(&o) != sub_t || s.is_superset(&o) != sup_t || s.is_disjoint(&o) != dis_t
                    || o.is_superset(&s) != sub_t || o.is_subset(&s) != sup_t || o.is_disjoint(&s) != dis_t
                {
                    bail!("{name}: is_subset / is_superset / is_disjoint of {:?} and {:?}", set_ids(&s), sorted(ro.iter().map(|x| x.id()).collect::<Vec<_>>()));
                }
                if set_ids(&s) != sorted(r.iter().map(|x| x.id()).collect::<Vec<_>>()) || set_ids(&o) != sorted(ro.iter().map(|x| x.id()).collect::<Vec<_>>()) {
                    bail!("{name}: set algebra changed an operand");
                }
            }
            _ => continue,
        }
        let got = set_ids(&s);
        let want = sorted(r.iter().map(|x| x.id()).collect::<Vec<_>>());
        if got != want || s.len() != r.len() || s.is_empty() != r.is_empty() || s.capacity() != N {
            bail!("{name}: step {step}: after {what}: the set holds {got:?} (len {}), the reference {want:?}", s.len());
        }
        for x in &r {
            if !s.contains(x) || s.get(x).map(|y| y.id()) != Some(x.id()) {
                bail!("{name}: step {step}: after {what}: the stored element {:?} is not found", x.id());
            }
        }
    }
    Ok(())
}

/// `Extend<&T>` (needs `T: Copy`) with elements whose equal values are distinguishable: it must
/// behave like `insert` per item — the element already stored stays, the supplied copy is discarded —
/// and like the by-value `extend` of the copies.
fn extend_ref_scenario<const N: usize>(seed: u64) -> Result<(), String> {
    let mut rng = Rng(seed ^ 0xe87e_4d);
    for _ in 0..12 {
        let mut s: Set<Ci, N> = Set::new();
        let mut r: Vec<Ci> = Vec::new();
        for _ in 0..rng.below(N as u32 + 1) {
            let x = Ci::make(rng.below(7), rng.below(3));
            if !r.iter().any(|y| *y == x) && r.len() < N {
                s.insert(x);
                r.push(x);
            }
        }
        let items: Vec<Ci> = (0..rng.below(5)).map(|_| Ci::make(rng.below(7), rng.below(3))).collect();
        let mut want = r.clone();
        let mut fits = true;
        for x in &items {
            if !want.iter().any(|y| y == x) {
                if want.len() == N {
                    fits = false;
                    break;
                }
                want.push(*x);
            }
        }
        let mut by_val = s.clone();
        let got = quiet(|| s.extend(items.iter()));
        let got_v = quiet(|| by_val.extend(items.iter().copied()));
        if got.is_ok() != fits || got_v.is_ok() != fits {
            bail!("Set<Ci, {N}>: extend of {} items (by reference / by value): panic = {} / {}, expected {}", items.len(), got.is_err(), got_v.is_err(), !fits);
        }
        if fits {
            let w = sorted(want.iter().map(|x| x.id()).collect::<Vec<_>>());
            if set_ids(&s) != w || set_ids(&by_val) != w {
                bail!("Set<Ci, {N}>: after extend by reference the set holds {:?}, by value {:?}, inserting one by one gives {w:?}", set_ids(&s), set_ids(&by_val));
            }
        }
    }
    Ok(())
}

/// Formatting with formatter options (family `f`): `Debug` of a container or of one of its iterators
/// is std's `debug_map` / `debug_set` / `debug_list` of the entries in iteration order UNDER THE SAME
/// OPTIONS (`{:x?}`, `{:6?}`, `{:+?}`, `{:#x?}` … reach the elements through the builders); `Display` is
/// `{`, the entries joined by `, `, `}` with every entry rendered the same way — all with the caller's
/// options or all without (both occur in the crate: `Set` forwards the formatter, `Map` does not).
fn fmt_scenario<const N: usize>(seed: u64) -> Result<(), String> {
    use std::fmt;
    struct DM<'a>(&'a [(u32, i32)]);
    impl fmt::Debug for DM<'_> {
        fn fmt(&self, f: &mut fmt::Formatter<'_>) -> fmt::Result {
            f.debug_map().entries(self.0.iter().map(|(k, v)| (k, v))).finish()
        }
    }
    struct DS<'a>(&'a [i32]);
    impl fmt::Debug for DS<'_> {
        fn fmt(&self, f: &mut fmt::Formatter<'_>) -> fmt::Result {
            f.debug_set().entries(self.0.iter()).finish()
        }
    }
    struct DL<'a, T>(&'a [T]);
    impl<T: fmt::Debug> fmt::Debug for DL<'_, T> {
        fn fmt(&self, f: &mut fmt::Formatter<'_>) -> fmt::Result {
            f.debug_list().entries(self.0.iter()).finish()
        }
    }
    /// every element with the caller's options
    struct JoinOpts<'a>(&'a [i32]);
    impl fmt::Display for JoinOpts<'_> {
        fn fmt(&self, f: &mut fmt::Formatter<'_>) -> fmt::Result {
            f.write_str("{")?;
            for (i, x) in self.0.iter().enumerate() {
                if i > 0 {
                    f.write_str(", ")?;
                }
                fmt::Display::fmt(x, f)?;
            }
            f.write_str("}")
        }
    }
    struct JoinPairsOpts<'a>(&'a [(u32, i32)]);
    impl fmt::Display for JoinPairsOpts<'_> {
        fn fmt(&self, f: &mut fmt::Formatter<'_>) -> fmt::Result {
            f.write_str("{")?;
            for (i, (k, v)) in self.0.iter().enumerate() {
                if i > 0 {
                    f.write_str(", ")?;
                }
                fmt::Display::fmt(k, f)?;
                f.write_str(": ")?;
                fmt::Display::fmt(v, f)?;
            }
            f.write_str("}")
        }
    }
    let mut rng = Rng(seed ^ 0xf0f0_11);
    let mut m: Map<u32, i32, N> = Map::new();
    let mut s: Set<i32, N> = Set::new();
    for _ in 0..rng.below(N as u32 + 1).min(12) {
        let k = rng.below(4000);
        let v = rng.below(70000) as i32 - 35000;
        if m.len() < N && !m.contains_key(&k) {
            m.insert(k, v);
        }
        if s.len() < N && !s.contains(&v) {
            s.insert(v);
        }
    }
    if m.len() > 1 && rng.below(2) == 0 {
        let k = *m.keys().next().unwrap();
        m.remove(&k);
    }
    let ents: Vec<(u32, i32)> = m.iter().map(|(k, v)| (*k, *v)).collect();
    let els: Vec<i32> = s.iter().copied().collect();
    let plain_s = format!("{{{}}}", els.iter().map(|x| x.to_string()).collect::<Vec<_>>().join(", "));
    let plain_m = format!("{{{}}}", ents.iter().map(|(k, v)| format!("{k}: {v}")).collect::<Vec<_>>().join(", "));
    macro_rules! dbg {
        ($($f:literal),*) => {$(
            let (g, w) = (format!($f, m), format!($f, DM(&ents)));
            if g != w { bail!("Map<u32, i32, {N}>: {} renders {g:?}, std's debug_map renders {w:?}", $f); }
            let (g, w) = (format!($f, s), format!($f, DS(&els)));
            if g != w { bail!("Set<i32, {N}>: {} renders {g:?}, std's debug_set renders {w:?}", $f); }
            let (g, w) = (format!($f, m.iter()), format!($f, DL(&ents.iter().map(|(k, v)| (k, v)).collect::<Vec<_>>())));
            if g != w { bail!("Map::iter(): {} renders {g:?}, std's debug_list renders {w:?}", $f); }
            let (g, w) = (format!($f, m.keys()), format!($f, DL(&ents.iter().map(|p| p.0).collect::<Vec<_>>())));
            if g != w { bail!("Map::keys(): {} renders {g:?}, std's debug_list renders {w:?}", $f); }
            let (g, w) = (format!($f, m.values()), format!($f, DL(&ents.iter().map(|p| p.1).collect::<Vec<_>>())));
            if g != w { bail!("Map::values(): {} renders {g:?}, std's debug_list renders {w:?}", $f); }
            let mut it = m.iter();
            it.next();
            let rest: Vec<(&u32, &i32)> = ents.iter().skip(1).map(|(k, v)| (k, v)).collect();
            let (g, w) = (format!($f, it), format!($f, DL(&rest)));
            if g != w { bail!("Map::iter() after one step: {} renders {g:?}, std's debug_list renders {w:?}", $f); }
            let mut c = m.clone();
            let mut d = c.drain();
            d.next();
            let (g, w) = (format!($f, d), format!($f, DL(&rest)));
            if g != w { bail!("Map::drain() after one step: {} renders {g:?}, std's debug_list renders {w:?}", $f); }
        )*};
    }
    dbg!("{:?}", "{:#?}", "{:x?}", "{:X?}", "{:#x?}", "{:6?}", "{:<7?}", "{:*^9?}", "{:+?}", "{:07?}", "{:#08x?}");
    macro_rules! dsp {
        ($($f:literal),*) => {$(
            let g = format!($f, s);
            let w = format!($f, JoinOpts(&els));
            if g != w && g != plain_s { bail!("Set<i32, {N}>: {} renders {g:?}; the entries joined are {w:?} (with the options) or {plain_s:?} (without)", $f); }
            let g = format!($f, m);
            let w = format!($f, JoinPairsOpts(&ents));
            if g != w && g != plain_m { bail!("Map<u32, i32, {N}>: {} renders {g:?}; the entries joined are {w:?} (with the options) or {plain_m:?} (without)", $f); }
        )*};
    }
    dsp!("{}", "{:>6}", "{:<7}", "{:*^9}", "{:+}", "{:07}", "{:#}");
    // floats honour the precision
    let mut fs: Set<u64, N> = Set::new();
    let mut fm: Map<u8, f64, N> = Map::new();
    for i in 0..(N.min(3) as u8) {
        fm.insert(i, 1.0 / (i as f64 + 3.0));
        fs.insert(i as u64 * 1000);
    }
    let fe: Vec<(u8, f64)> = fm.iter().map(|(k, v)| (*k, *v)).collect();
    struct DF<'a>(&'a [(u8, f64)]);
    impl fmt::Debug for DF<'_> {
        fn fmt(&self, f: &mut fmt::Formatter<'_>) -> fmt::Result {
            f.debug_map().entries(self.0.iter().map(|(k, v)| (k, v))).finish()
        }
    }
    let (g, w) = (format!("{:.2?}", fm), format!("{:.2?}", DF(&fe)));
    if g != w {
        bail!("Map<u8, f64, {N}>: {{:.2?}} renders {g:?}, std's debug_map renders {w:?}");
    }
    let _ = fs;
    Ok(())
}

/// every shape, one family string; `"ok"` or the first discrepancy
pub fn run<const N: usize>(fam: &str, seed: u64) -> String {
    macro_rules! shape {
        ($k:ty, $v:ty) => {{
            let name = format!("Map<{}, {}, {}>", stringify!($k), stringify!($v), N);
            if let Err(e) = map_sweep::<$k, $v, N>(&name, fam, seed) {
                return e;
            }
        }};
    }
    macro_rules! sshape {
        ($k:ty) => {{
            let name = format!("Set<{}, {}>", stringify!($k), N);
            if let Err(e) = set_sweep::<$k, N>(&name, fam, seed) {
                return e;
            }
        }};
    }
    if fam.chars().any(|c| "deicqbgu".contains(c)) {
        shape!((), ());
        shape!(Unit, ());
        shape!((), u32);
        shape!(u8, u32);
        shape!(u64, u8);
        shape!(u8, [u8; 3]);
        shape!(A16, u8);
        shape!(u8, A64);
        shape!(A64, A16);
        shape!(Ci, u32);
        shape!(Ci, ());
        shape!(&'static [u8], u8);
        shape!(&'static str, A64);
        shape!(String, RcE);
        shape!(RcE, String);
        shape!(RcE, ());
    }
    if fam.chars().any(|c| "sa".contains(c)) {
        sshape!(());
        sshape!(Unit);
        sshape!(u8);
        sshape!(u64);
        sshape!(A16);
        sshape!(A64);
        sshape!(Ci);
        sshape!(&'static [u8]);
        sshape!(&'static str);
        sshape!(String);
        sshape!(RcE);
        if let Err(e) = extend_ref_scenario::<N>(seed) {
            return e;
        }
    }
    if fam.contains('f') {
        if let Err(e) = fmt_scenario::<N>(seed) {
            return e;
        }
    }
    // every reference-counted element made during the sweep is back to one owner (this list):
    // nothing leaked, nothing destroyed twice
    let bad = RCS.with(|v| {
        let v = std::mem::take(&mut *v.borrow_mut());
        v.iter().filter(|r| Rc::strong_count(r) != 1).count()
    });
    if bad != 0 {
        return format!("{bad} reference-counted element(s) were leaked or destroyed twice during the sweep");
    }
    "ok".into()
}
