//! mmh — drives the real `micromap` crate through the one-operation-per-line protocol
//! and prints the trace the Lean driver is compared with.
//!
//! usage: mmh run <ops-file>     (trace on stdout)
//!        mmh profile            (prints `debug` or `release`)
mod ctl;
mod ops;
mod parse;
mod regs;
mod sweep;
#[cfg(feature = "serde")]
mod tokfmt;
mod types;

use ops::{BufW, Cx};
use parse::{MapOp, Op, SetOp};
use regs::{AnyMap, AnySet, Layout};
use std::io::{BufRead, Write};
use std::panic::{catch_unwind, AssertUnwindSafe};

#[global_allocator]
static GLOBAL: ctl::CountingAlloc = ctl::CountingAlloc;

struct Regs {
    m: [AnyMap; 2],
    s: [AnySet; 2],
    ml: [Layout; 2],
    sl: [Layout; 2],
}

fn map_layout_of(cap: usize) -> Layout {
    match cap {
        0 => regs::map_layout::<0>(),
        1 => regs::map_layout::<1>(),
        2 => regs::map_layout::<2>(),
        3 => regs::map_layout::<3>(),
        4 => regs::map_layout::<4>(),
        6 => regs::map_layout::<6>(),
        64 => regs::map_layout::<64>(),
        300 => regs::map_layout::<300>(),
        _ => unreachable!(),
    }
}
fn set_layout_of(cap: usize) -> Layout {
    match cap {
        0 => regs::set_layout::<0>(),
        1 => regs::set_layout::<1>(),
        2 => regs::set_layout::<2>(),
        3 => regs::set_layout::<3>(),
        4 => regs::set_layout::<4>(),
        6 => regs::set_layout::<6>(),
        64 => regs::set_layout::<64>(),
        300 => regs::set_layout::<300>(),
        _ => unreachable!(),
    }
}

fn classify(p: Box<dyn std::any::Any + Send>) -> String {
    if p.is::<ctl::InjectedPanic>() {
        return "inject".into();
    }
    let msg: String = if let Some(s) = p.downcast_ref::<&str>() {
        s.to_string()
    } else if let Some(s) = p.downcast_ref::<String>() {
        s.clone()
    } else {
        "?".into()
    };
    if msg.contains("No more key-value slot") {
        "overflow".into()
    } else if msg.starts_with("index out of bounds")
        || msg.starts_with("range end index")
        || msg.starts_with("range start index")
        || msg.contains("mid > len")
        || msg.starts_with("slice index")
    {
        "oob".into()
    } else if msg.contains("Overlapping keys") {
        "overlap".into()
    } else if msg.contains("No entry found") {
        "noentry".into()
    } else if msg.contains("capacity must be equal") {
        "capacity".into()
    } else {
        format!("other:{}", msg.replace(' ', "_"))
    }
}

fn snap_m(r: &AnyMap) -> String {
    match catch_unwind(AssertUnwindSafe(|| with_map!(r, b => ops::snap_map(&b.c)))) {
        Ok(s) => s,
        Err(_) => "SNAP-PANIC".into(),
    }
}
fn snap_s(r: &AnySet) -> String {
    match catch_unwind(AssertUnwindSafe(|| with_set!(r, b => ops::snap_set(&b.c)))) {
        Ok(s) => s,
        Err(_) => "SNAP-PANIC".into(),
    }
}

fn poison_all(regs: &mut Regs) {
    for i in 0..2 {
        let lay = regs.ml[i];
        with_map!(&mut regs.m[i], b => {
            let len = b.c.len();
            unsafe { lay.poison(&mut b.c as *mut _ as *mut u8, len) }
        });
        let lay = regs.sl[i];
        with_set!(&mut regs.s[i], b => {
            let len = b.c.len();
            unsafe { lay.poison(&mut b.c as *mut _ as *mut u8, len) }
        });
    }
}

fn canaries(regs: &Regs) -> &'static str {
    for i in 0..2 {
        let c = with_map!(&regs.m[i], b => b.canary());
        if c != "ok" {
            return c;
        }
        let c = with_set!(&regs.s[i], b => b.canary());
        if c != "ok" {
            return c;
        }
    }
    "ok"
}

fn base_m(r: &AnyMap) -> usize {
    with_map!(r, b => &b.c as *const _ as usize)
}
fn base_s(r: &AnySet) -> usize {
    with_set!(r, b => &b.c as *const _ as usize)
}

/// Execute one operation; returns (ret, touched maps, touched sets).
fn exec(regs: &mut Regs, cx: &mut Cx, op: &Op) -> (String, Vec<usize>, Vec<usize>) {
    match op {
        Op::Map(i, mop) => {
            let i = *i;
            match mop {
                MapOp::CloneFrom(dst) if *dst != i && std::mem::discriminant(&regs.m[i]) == std::mem::discriminant(&regs.m[*dst]) => {
                    let d = *dst;
                    let (src, dstm) = if i < d {
                        let (l, r) = regs.m.split_at_mut(d);
                        (&l[i], &mut r[0])
                    } else {
                        let (l, r) = regs.m.split_at_mut(i);
                        (&r[0], &mut l[d])
                    };
                    match (src, dstm) {
                        (AnyMap::C0(a), AnyMap::C0(b)) => ctl::mm(|| b.c.clone_from(&a.c)),
                        (AnyMap::C1(a), AnyMap::C1(b)) => ctl::mm(|| b.c.clone_from(&a.c)),
                        (AnyMap::C2(a), AnyMap::C2(b)) => ctl::mm(|| b.c.clone_from(&a.c)),
                        (AnyMap::C3(a), AnyMap::C3(b)) => ctl::mm(|| b.c.clone_from(&a.c)),
                        (AnyMap::C4(a), AnyMap::C4(b)) => ctl::mm(|| b.c.clone_from(&a.c)),
                        (AnyMap::C6(a), AnyMap::C6(b)) => ctl::mm(|| b.c.clone_from(&a.c)),
                        (AnyMap::C64(a), AnyMap::C64(b)) => ctl::mm(|| b.c.clone_from(&a.c)),
                        (AnyMap::C300(a), AnyMap::C300(b)) => ctl::mm(|| b.c.clone_from(&a.c)),
                        _ => unreachable!(),
                    }
                    ("()".into(), vec![i, d], vec![])
                }
                MapOp::CloneTo(dst) | MapOp::CloneFrom(dst) => {
                    let c: AnyMap = match &regs.m[i] {
                        AnyMap::C0(b) => AnyMap::C0(regs::Caged::new(ctl::mm(|| b.c.clone()))),
                        AnyMap::C1(b) => AnyMap::C1(regs::Caged::new(ctl::mm(|| b.c.clone()))),
                        AnyMap::C2(b) => AnyMap::C2(regs::Caged::new(ctl::mm(|| b.c.clone()))),
                        AnyMap::C3(b) => AnyMap::C3(regs::Caged::new(ctl::mm(|| b.c.clone()))),
                        AnyMap::C4(b) => AnyMap::C4(regs::Caged::new(ctl::mm(|| b.c.clone()))),
                        AnyMap::C6(b) => AnyMap::C6(regs::Caged::new(ctl::mm(|| b.c.clone()))),
                        AnyMap::C64(b) => AnyMap::C64(regs::Caged::new(ctl::mm(|| b.c.clone()))),
                        AnyMap::C300(b) => AnyMap::C300(regs::Caged::new(ctl::mm(|| b.c.clone()))),
                    };
                    regs.ml[*dst] = regs.ml[i];
                    let old = std::mem::replace(&mut regs.m[*dst], c);
                    ctl::mm(|| drop(old));
                    ("()".into(), vec![i, *dst], vec![])
                }
                #[cfg(feature = "serde")]
                MapOp::Serde(dst, fmt) => {
                    let enc = with_map!(&regs.m[i], x => ops::serde_rt::encode_map(&x.c, *fmt));
                    let Some((ann, ent, bytes)) = enc else {
                        return ("[encode-error]".into(), vec![i, *dst], vec![]);
                    };
                    if *fmt >= 5 {
                        // tok4..tok7: `deserialize_in_place` into the existing destination
                        let ok = with_map!(&mut regs.m[*dst], x => ops::serde_rt::decode_in_place(&bytes, &mut x.c));
                        let st = if ok { "ok" } else { "decode-error" };
                        return (format!("[{},{},{}]", ann, ent, st), vec![i, *dst], vec![]);
                    }
                    let c: Option<AnyMap> = match &regs.m[*dst] {
                        AnyMap::C0(_) => ops::serde_rt::decode_map::<0>(&bytes).map(|m| AnyMap::C0(regs::Caged::new(m))),
                        AnyMap::C1(_) => ops::serde_rt::decode_map::<1>(&bytes).map(|m| AnyMap::C1(regs::Caged::new(m))),
                        AnyMap::C2(_) => ops::serde_rt::decode_map::<2>(&bytes).map(|m| AnyMap::C2(regs::Caged::new(m))),
                        AnyMap::C3(_) => ops::serde_rt::decode_map::<3>(&bytes).map(|m| AnyMap::C3(regs::Caged::new(m))),
                        AnyMap::C4(_) => ops::serde_rt::decode_map::<4>(&bytes).map(|m| AnyMap::C4(regs::Caged::new(m))),
                        AnyMap::C6(_) => ops::serde_rt::decode_map::<6>(&bytes).map(|m| AnyMap::C6(regs::Caged::new(m))),
                        AnyMap::C64(_) => ops::serde_rt::decode_map::<64>(&bytes).map(|m| AnyMap::C64(regs::Caged::new(m))),
                        AnyMap::C300(_) => ops::serde_rt::decode_map::<300>(&bytes).map(|m| AnyMap::C300(regs::Caged::new(m))),
                    };
                    let st = match c {
                        Some(c) => {
                            let old = std::mem::replace(&mut regs.m[*dst], c);
                            ctl::mm(|| drop(old));
                            "ok"
                        }
                        None => "decode-error",
                    };
                    (format!("[{},{},{}]", ann, ent, st), vec![i, *dst], vec![])
                }
                #[cfg(not(feature = "serde"))]
                MapOp::Serde(dst, _) => ("[unsupported]".into(), vec![i, *dst], vec![]),
                #[cfg(feature = "serde")]
                MapOp::Deser(hint, xs) => {
                    let enc = ops::serde_rt::enc_of_pairs(xs, *hint);
                    let c: Option<AnyMap> = match &regs.m[i] {
                        AnyMap::C0(_) => ops::serde_rt::decode_map::<0>(&enc).map(|m| AnyMap::C0(regs::Caged::new(m))),
                        AnyMap::C1(_) => ops::serde_rt::decode_map::<1>(&enc).map(|m| AnyMap::C1(regs::Caged::new(m))),
                        AnyMap::C2(_) => ops::serde_rt::decode_map::<2>(&enc).map(|m| AnyMap::C2(regs::Caged::new(m))),
                        AnyMap::C3(_) => ops::serde_rt::decode_map::<3>(&enc).map(|m| AnyMap::C3(regs::Caged::new(m))),
                        AnyMap::C4(_) => ops::serde_rt::decode_map::<4>(&enc).map(|m| AnyMap::C4(regs::Caged::new(m))),
                        AnyMap::C6(_) => ops::serde_rt::decode_map::<6>(&enc).map(|m| AnyMap::C6(regs::Caged::new(m))),
                        AnyMap::C64(_) => ops::serde_rt::decode_map::<64>(&enc).map(|m| AnyMap::C64(regs::Caged::new(m))),
                        AnyMap::C300(_) => ops::serde_rt::decode_map::<300>(&enc).map(|m| AnyMap::C300(regs::Caged::new(m))),
                    };
                    let st = match c {
                        Some(c) => {
                            let old = std::mem::replace(&mut regs.m[i], c);
                            ctl::mm(|| drop(old));
                            "ok"
                        }
                        None => "decode-error",
                    };
                    (format!("[{},{},{}]", xs.len(), xs.len(), st), vec![i], vec![])
                }
                #[cfg(not(feature = "serde"))]
                MapOp::Deser(..) => ("[unsupported]".into(), vec![i], vec![]),
                MapOp::Eq(o) => {
                    let a = &regs.m[i];
                    let b = &regs.m[*o];
                    let r = with_map!(a, x => with_map!(b, y => ops::map_eq(&x.c, &y.c)));
                    (r, vec![i, *o], vec![])
                }
                MapOp::FromIter(pulls, xs) => {
                    let c: AnyMap = match &regs.m[i] {
                        AnyMap::C0(_) => AnyMap::C0(regs::Caged::new(ops::map_from_iter::<0>(*pulls, xs))),
                        AnyMap::C1(_) => AnyMap::C1(regs::Caged::new(ops::map_from_iter::<1>(*pulls, xs))),
                        AnyMap::C2(_) => AnyMap::C2(regs::Caged::new(ops::map_from_iter::<2>(*pulls, xs))),
                        AnyMap::C3(_) => AnyMap::C3(regs::Caged::new(ops::map_from_iter::<3>(*pulls, xs))),
                        AnyMap::C4(_) => AnyMap::C4(regs::Caged::new(ops::map_from_iter::<4>(*pulls, xs))),
                        AnyMap::C6(_) => AnyMap::C6(regs::Caged::new(ops::map_from_iter::<6>(*pulls, xs))),
                        AnyMap::C64(_) => AnyMap::C64(regs::Caged::new(ops::map_from_iter::<64>(*pulls, xs))),
                        AnyMap::C300(_) => AnyMap::C300(regs::Caged::new(ops::map_from_iter::<300>(*pulls, xs))),
                    };
                    let old = std::mem::replace(&mut regs.m[i], c);
                    ctl::mm(|| drop(old));
                    ("()".into(), vec![i], vec![])
                }
                mop => {
                    cx.lay = regs.ml[i];
                    cx.base = base_m(&regs.m[i]);
                    let r = with_map!(&mut regs.m[i], b => ops::map_op(cx, &mut b.c, mop));
                    (r, vec![i], vec![])
                }
            }
        }
        Op::Set(i, sop) => {
            let i = *i;
            match sop {
                SetOp::CloneFrom(dst) if *dst != i && std::mem::discriminant(&regs.s[i]) == std::mem::discriminant(&regs.s[*dst]) => {
                    let d = *dst;
                    let (src, dstm) = if i < d {
                        let (l, r) = regs.s.split_at_mut(d);
                        (&l[i], &mut r[0])
                    } else {
                        let (l, r) = regs.s.split_at_mut(i);
                        (&r[0], &mut l[d])
                    };
                    match (src, dstm) {
                        (AnySet::C0(a), AnySet::C0(b)) => ctl::mm(|| b.c.clone_from(&a.c)),
                        (AnySet::C1(a), AnySet::C1(b)) => ctl::mm(|| b.c.clone_from(&a.c)),
                        (AnySet::C2(a), AnySet::C2(b)) => ctl::mm(|| b.c.clone_from(&a.c)),
                        (AnySet::C3(a), AnySet::C3(b)) => ctl::mm(|| b.c.clone_from(&a.c)),
                        (AnySet::C4(a), AnySet::C4(b)) => ctl::mm(|| b.c.clone_from(&a.c)),
                        (AnySet::C6(a), AnySet::C6(b)) => ctl::mm(|| b.c.clone_from(&a.c)),
                        (AnySet::C64(a), AnySet::C64(b)) => ctl::mm(|| b.c.clone_from(&a.c)),
                        (AnySet::C300(a), AnySet::C300(b)) => ctl::mm(|| b.c.clone_from(&a.c)),
                        _ => unreachable!(),
                    }
                    ("()".into(), vec![], vec![i, d])
                }
                SetOp::CloneTo(dst) | SetOp::CloneFrom(dst) => {
                    let c: AnySet = match &regs.s[i] {
                        AnySet::C0(b) => AnySet::C0(regs::Caged::new(ctl::mm(|| b.c.clone()))),
                        AnySet::C1(b) => AnySet::C1(regs::Caged::new(ctl::mm(|| b.c.clone()))),
                        AnySet::C2(b) => AnySet::C2(regs::Caged::new(ctl::mm(|| b.c.clone()))),
                        AnySet::C3(b) => AnySet::C3(regs::Caged::new(ctl::mm(|| b.c.clone()))),
                        AnySet::C4(b) => AnySet::C4(regs::Caged::new(ctl::mm(|| b.c.clone()))),
                        AnySet::C6(b) => AnySet::C6(regs::Caged::new(ctl::mm(|| b.c.clone()))),
                        AnySet::C64(b) => AnySet::C64(regs::Caged::new(ctl::mm(|| b.c.clone()))),
                        AnySet::C300(b) => AnySet::C300(regs::Caged::new(ctl::mm(|| b.c.clone()))),
                    };
                    regs.sl[*dst] = regs.sl[i];
                    let old = std::mem::replace(&mut regs.s[*dst], c);
                    ctl::mm(|| drop(old));
                    ("()".into(), vec![], vec![i, *dst])
                }
                SetOp::FromIter(pulls, xs) => {
                    let c: AnySet = match &regs.s[i] {
                        AnySet::C0(_) => AnySet::C0(regs::Caged::new(ops::set_from_iter::<0>(*pulls, xs))),
                        AnySet::C1(_) => AnySet::C1(regs::Caged::new(ops::set_from_iter::<1>(*pulls, xs))),
                        AnySet::C2(_) => AnySet::C2(regs::Caged::new(ops::set_from_iter::<2>(*pulls, xs))),
                        AnySet::C3(_) => AnySet::C3(regs::Caged::new(ops::set_from_iter::<3>(*pulls, xs))),
                        AnySet::C4(_) => AnySet::C4(regs::Caged::new(ops::set_from_iter::<4>(*pulls, xs))),
                        AnySet::C6(_) => AnySet::C6(regs::Caged::new(ops::set_from_iter::<6>(*pulls, xs))),
                        AnySet::C64(_) => AnySet::C64(regs::Caged::new(ops::set_from_iter::<64>(*pulls, xs))),
                        AnySet::C300(_) => AnySet::C300(regs::Caged::new(ops::set_from_iter::<300>(*pulls, xs))),
                    };
                    let old = std::mem::replace(&mut regs.s[i], c);
                    ctl::mm(|| drop(old));
                    ("()".into(), vec![], vec![i])
                }
                #[cfg(feature = "serde")]
                SetOp::Serde(dst, fmt) => {
                    let enc = with_set!(&regs.s[i], x => ops::serde_rt::encode_set(&x.c, *fmt));
                    let Some((ann, ent, bytes)) = enc else {
                        return ("[encode-error]".into(), vec![], vec![i, *dst]);
                    };
                    if *fmt >= 5 {
                        let ok = with_set!(&mut regs.s[*dst], x => ops::serde_rt::decode_in_place(&bytes, &mut x.c));
                        let st = if ok { "ok" } else { "decode-error" };
                        return (format!("[{},{},{}]", ann, ent, st), vec![], vec![i, *dst]);
                    }
                    let c: Option<AnySet> = match &regs.s[*dst] {
                        AnySet::C0(_) => ops::serde_rt::decode_set::<0>(&bytes).map(|m| AnySet::C0(regs::Caged::new(m))),
                        AnySet::C1(_) => ops::serde_rt::decode_set::<1>(&bytes).map(|m| AnySet::C1(regs::Caged::new(m))),
                        AnySet::C2(_) => ops::serde_rt::decode_set::<2>(&bytes).map(|m| AnySet::C2(regs::Caged::new(m))),
                        AnySet::C3(_) => ops::serde_rt::decode_set::<3>(&bytes).map(|m| AnySet::C3(regs::Caged::new(m))),
                        AnySet::C4(_) => ops::serde_rt::decode_set::<4>(&bytes).map(|m| AnySet::C4(regs::Caged::new(m))),
                        AnySet::C6(_) => ops::serde_rt::decode_set::<6>(&bytes).map(|m| AnySet::C6(regs::Caged::new(m))),
                        AnySet::C64(_) => ops::serde_rt::decode_set::<64>(&bytes).map(|m| AnySet::C64(regs::Caged::new(m))),
                        AnySet::C300(_) => ops::serde_rt::decode_set::<300>(&bytes).map(|m| AnySet::C300(regs::Caged::new(m))),
                    };
                    let st = match c {
                        Some(c) => {
                            let old = std::mem::replace(&mut regs.s[*dst], c);
                            ctl::mm(|| drop(old));
                            "ok"
                        }
                        None => "decode-error",
                    };
                    (format!("[{},{},{}]", ann, ent, st), vec![], vec![i, *dst])
                }
                #[cfg(not(feature = "serde"))]
                SetOp::Serde(dst, _) => ("[unsupported]".into(), vec![], vec![i, *dst]),
                #[cfg(feature = "serde")]
                SetOp::Deser(hint, xs) => {
                    let enc = ops::serde_rt::enc_of_keys(xs, *hint);
                    let c: Option<AnySet> = match &regs.s[i] {
                        AnySet::C0(_) => ops::serde_rt::decode_set::<0>(&enc).map(|m| AnySet::C0(regs::Caged::new(m))),
                        AnySet::C1(_) => ops::serde_rt::decode_set::<1>(&enc).map(|m| AnySet::C1(regs::Caged::new(m))),
                        AnySet::C2(_) => ops::serde_rt::decode_set::<2>(&enc).map(|m| AnySet::C2(regs::Caged::new(m))),
                        AnySet::C3(_) => ops::serde_rt::decode_set::<3>(&enc).map(|m| AnySet::C3(regs::Caged::new(m))),
                        AnySet::C4(_) => ops::serde_rt::decode_set::<4>(&enc).map(|m| AnySet::C4(regs::Caged::new(m))),
                        AnySet::C6(_) => ops::serde_rt::decode_set::<6>(&enc).map(|m| AnySet::C6(regs::Caged::new(m))),
                        AnySet::C64(_) => ops::serde_rt::decode_set::<64>(&enc).map(|m| AnySet::C64(regs::Caged::new(m))),
                        AnySet::C300(_) => ops::serde_rt::decode_set::<300>(&enc).map(|m| AnySet::C300(regs::Caged::new(m))),
                    };
                    let st = match c {
                        Some(c) => {
                            let old = std::mem::replace(&mut regs.s[i], c);
                            ctl::mm(|| drop(old));
                            "ok"
                        }
                        None => "decode-error",
                    };
                    (format!("[{},{},{}]", xs.len(), xs.len(), st), vec![], vec![i])
                }
                #[cfg(not(feature = "serde"))]
                SetOp::Deser(..) => ("[unsupported]".into(), vec![], vec![i]),
                SetOp::ExtendFrom(o) if *o != i => {
                    let j = *o;
                    let (dst, src) = if i < j {
                        let (l, r) = regs.s.split_at_mut(j);
                        (&mut l[i], &mut r[0])
                    } else {
                        let (l, r) = regs.s.split_at_mut(i);
                        (&mut r[0], &mut l[j])
                    };
                    // the source is moved out; a fresh `new()` of its capacity stays in its register
                    with_set!(dst, d => with_set!(src, s => {
                        let owned = std::mem::replace(&mut s.c, micromap::Set::new());
                        ops::set_extend_from(&mut d.c, owned)
                    }));
                    ("()".into(), vec![], vec![i, j])
                }
                SetOp::ExtendFrom(_) => ("bad-op".into(), vec![], vec![i]),
                SetOp::Sub(o, dst) => {
                    let a = &regs.s[i];
                    let b = &regs.s[*o];
                    let c: AnySet = match a {
                        AnySet::C0(x) => AnySet::C0(regs::Caged::new(with_set!(b, y => ops::set_sub(&x.c, &y.c)))),
                        AnySet::C1(x) => AnySet::C1(regs::Caged::new(with_set!(b, y => ops::set_sub(&x.c, &y.c)))),
                        AnySet::C2(x) => AnySet::C2(regs::Caged::new(with_set!(b, y => ops::set_sub(&x.c, &y.c)))),
                        AnySet::C3(x) => AnySet::C3(regs::Caged::new(with_set!(b, y => ops::set_sub(&x.c, &y.c)))),
                        AnySet::C4(x) => AnySet::C4(regs::Caged::new(with_set!(b, y => ops::set_sub(&x.c, &y.c)))),
                        AnySet::C6(x) => AnySet::C6(regs::Caged::new(with_set!(b, y => ops::set_sub(&x.c, &y.c)))),
                        AnySet::C64(x) => AnySet::C64(regs::Caged::new(with_set!(b, y => ops::set_sub(&x.c, &y.c)))),
                        AnySet::C300(x) => AnySet::C300(regs::Caged::new(with_set!(b, y => ops::set_sub(&x.c, &y.c)))),
                    };
                    regs.sl[*dst] = regs.sl[i];
                    let old = std::mem::replace(&mut regs.s[*dst], c);
                    ctl::mm(|| drop(old));
                    ("()".into(), vec![], vec![i, *o, *dst])
                }
                SetOp::Alg(kind, o, script) => {
                    cx.lay = regs.sl[i];
                    cx.base = base_s(&regs.s[i]);
                    cx.lay2 = regs.sl[*o];
                    cx.base2 = base_s(&regs.s[*o]);
                    let a = &regs.s[i];
                    let b = &regs.s[*o];
                    let r = with_set!(a, x => with_set!(b, y => ops::set_alg(cx, &x.c, &y.c, *kind, script)));
                    (r, vec![], vec![i, *o])
                }
                SetOp::Eq(o) | SetOp::IsSubset(o) | SetOp::IsSuperset(o) | SetOp::IsDisjoint(o) => {
                    let a = &regs.s[i];
                    let b = &regs.s[*o];
                    let r = with_set!(a, x => with_set!(b, y => ops::set_pred(&x.c, &y.c, sop)));
                    (r, vec![], vec![i, *o])
                }
                sop => {
                    cx.lay = regs.sl[i];
                    cx.base = base_s(&regs.s[i]);
                    let r = with_set!(&mut regs.s[i], b => ops::set_op(cx, &mut b.c, sop));
                    (r, vec![], vec![i])
                }
            }
        }
        Op::UMap(i, mop) => {
            let i = *i;
            cx.lay = regs.sl[i];
            cx.base = base_s(&regs.s[i]);
            let r = with_set!(&mut regs.s[i], b => {
                ops::umap_op(cx, ops::as_umap(&mut b.c), mop)
            });
            (r, vec![], vec![i])
        }
        Op::Inject(_) | Op::End => unreachable!(),
    }
}

fn touched(op: &Op) -> (Vec<usize>, Vec<usize>) {
    match op {
        Op::Map(i, MapOp::CloneTo(d)) | Op::Map(i, MapOp::CloneFrom(d)) => (vec![*i, *d], vec![]),
        Op::Map(i, MapOp::Serde(d, _)) => (vec![*i, *d], vec![]),
        Op::Set(i, SetOp::Serde(d, _)) => (vec![], vec![*i, *d]),
        Op::Map(i, MapOp::Eq(o)) => (vec![*i, *o], vec![]),
        Op::Map(i, _) => (vec![*i], vec![]),
        Op::Set(i, SetOp::CloneTo(d)) | Op::Set(i, SetOp::CloneFrom(d)) => (vec![], vec![*i, *d]),
        Op::UMap(i, _) => (vec![], vec![*i]),
        Op::Set(i, SetOp::ExtendFrom(o)) | Op::Set(i, SetOp::Eq(o))
        | Op::Set(i, SetOp::Alg(_, o, _))
        | Op::Set(i, SetOp::IsSubset(o))
        | Op::Set(i, SetOp::IsSuperset(o))
        | Op::Set(i, SetOp::IsDisjoint(o)) => (vec![], vec![*i, *o]),
        Op::Set(i, SetOp::Sub(o, d)) => (vec![], vec![*i, *o, *d]),
        Op::Set(i, _) => (vec![], vec![*i]),
        _ => (vec![], vec![]),
    }
}

fn new_regs(cfg: &parse::CaseCfg) -> Option<Regs> {
    Some(Regs {
        ml: [map_layout_of(cfg.m[0]), map_layout_of(cfg.m[1])],
        sl: [set_layout_of(cfg.s[0]), set_layout_of(cfg.s[1])],
        m: [AnyMap::new(cfg.m[0])?, AnyMap::new(cfg.m[1])?],
        s: [AnySet::new(cfg.s[0])?, AnySet::new(cfg.s[1])?],
    })
}

fn menu_ok(c: usize) -> bool {
    matches!(c, 0 | 1 | 2 | 3 | 4 | 6 | 64 | 300)
}

fn render_events() -> String {
    let evs: Vec<String> = ctl::with(|c| c.events.iter().map(|e| e.render()).collect());
    if evs.is_empty() {
        "-".into()
    } else {
        evs.join(",")
    }
}

fn run(path: &str) -> std::io::Result<()> {
    let f = std::fs::File::open(path)?;
    let rd = std::io::BufReader::new(f);
    let so = std::io::stdout();
    let mut out = std::io::BufWriter::new(so.lock());
    std::panic::set_hook(Box::new(|_| {}));
    let dummy = parse::CaseCfg { name: "-".into(), m: [0, 0], s: [0, 0], eq: ctl::EqMode::Lawful };
    let mut regs = new_regs(&dummy).unwrap();
    let zero = Layout { pairs_off: 0, pair_size: 0, total: 0, cap: 0, val_off: 0 };
    let mut cx = Cx { lay: zero, base: 0, lay2: zero, base2: 0, all_inside: true, buf: BufW::new() };
    for line in rd.lines() {
        let line = line?;
        let toks: Vec<&str> = line.split_whitespace().collect();
        if toks.is_empty() || toks[0] == "#" {
            continue;
        }
        if toks[0] == "case" {
            match parse::case(&toks) {
                Some(cfg) if cfg.m.iter().chain(cfg.s.iter()).all(|c| menu_ok(*c)) => {
                    // discard the previous case's containers without observing them
                    let old = std::mem::replace(&mut regs, {
                        let r = new_regs(&cfg).unwrap();
                        r
                    });
                    ctl::quietly(|| {
                        let _ = catch_unwind(AssertUnwindSafe(|| drop(old)));
                    });
                    ctl::with(|c| c.reset(cfg.eq));
                    writeln!(out, "case {}", cfg.name)?;
                }
                _ => writeln!(out, "bad-case")?,
            }
            continue;
        }
        let Some(op) = parse::op(&toks) else {
            writeln!(out, "bad-op")?;
            continue;
        };
        let calls0 = ctl::with(|c| {
            c.events.clear();
            c.calls
        });
        let allocs0 = ctl::allocs();
        cx.all_inside = true;
        match &op {
            Op::Inject(j) => {
                ctl::with(|c| c.inject = Some(*j));
                writeln!(out, "ok ret=() nc=0 ev=-")?;
                continue;
            }
            Op::End => {
                ctl::with(|c| c.inject = None);
                for i in 0..2 {
                    let _ = catch_unwind(AssertUnwindSafe(|| {
                        with_map!(&mut regs.m[i], b => {
                            let owned = std::mem::replace(&mut b.c, micromap::Map::new());
                            ctl::mm(|| drop(owned));
                        })
                    }));
                }
                for i in 0..2 {
                    let _ = catch_unwind(AssertUnwindSafe(|| {
                        with_set!(&mut regs.s[i], b => {
                            let owned = std::mem::replace(&mut b.c, micromap::Set::new());
                            ctl::mm(|| drop(owned));
                        })
                    }));
                }
                let nc = ctl::with(|c| c.calls) - calls0;
                let leaks = ctl::live_objects();
                let errs = ctl::with(|c| std::mem::take(&mut c.errs));
                writeln!(
                    out,
                    "ok ret=() nc={} ev={} leaks={} | al={} can={} in=1 led={}",
                    nc,
                    render_events(),
                    if leaks.is_empty() { "-".to_string() } else { leaks.join(",") },
                    ctl::allocs() - allocs0,
                    canaries(&regs),
                    if errs.is_empty() { "ok".to_string() } else { errs.join(";") }
                )?;
                continue;
            }
            _ => {}
        }
        let res = catch_unwind(AssertUnwindSafe(|| exec(&mut regs, &mut cx, &op)));
        ctl::with(|c| c.inject = None);
        let nc = ctl::with(|c| c.calls) - calls0;
        let evs = render_events();
        let al = ctl::allocs() - allocs0;
        let (outcome, ret, tm, ts) = match res {
            Ok((r, tm, ts)) => ("ok".to_string(), r, tm, ts),
            Err(p) => {
                let (tm, ts) = touched(&op);
                (format!("panic:{}", classify(p)), "()".to_string(), tm, ts)
            }
        };
        let mut snaps = String::new();
        let mut seen_m = vec![];
        for i in tm {
            if !seen_m.contains(&i) {
                seen_m.push(i);
                snaps.push_str(&format!(" m{}={}", i, snap_m(&regs.m[i])));
            }
        }
        let mut seen_s = vec![];
        for i in ts {
            if !seen_s.contains(&i) {
                seen_s.push(i);
                snaps.push_str(&format!(" s{}={}", i, snap_s(&regs.s[i])));
            }
        }
        poison_all(&mut regs);
        let errs = ctl::with(|c| std::mem::take(&mut c.errs));
        writeln!(
            out,
            "{} ret={} nc={} ev={}{} | al={} can={} in={} led={}",
            outcome,
            ret,
            nc,
            evs,
            snaps,
            al,
            canaries(&regs),
            cx.all_inside as u8,
            if errs.is_empty() { "ok".to_string() } else { errs.join(";") }
        )?;
        out.flush()?;
    }
    out.flush()?;
    Ok(())
}

fn main() {
    let args: Vec<String> = std::env::args().collect();
    match args.get(1).map(|s| s.as_str()) {
        Some("run") if args.len() >= 3 => {
            if let Err(e) = run(&args[2]) {
                eprintln!("mmh: {e}");
                std::process::exit(2);
            }
        }
        Some("profile") => {
            println!("{}", if cfg!(debug_assertions) { "debug" } else { "release" });
        }
        _ => {
            eprintln!("usage: mmh run <ops-file> | mmh profile");
            std::process::exit(2);
        }
    }
}
