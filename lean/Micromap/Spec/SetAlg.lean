/-
L1/L2 — list-level set algebra and extensional equality over a Boolean equivalence
`keq` (the user's `==`, which need not be `=`: equal keys may be distinguishable).
Deliberately naive definitions: `filter` / `any` / `all`.
-/
namespace Micromap.SetAlg

variable {K V : Type}

/-- `keq` is an equivalence relation (the contract of `Eq`). -/
structure EquivB (keq : K → K → Bool) : Prop where
  refl : ∀ a, keq a a = true
  symm : ∀ a b, keq a b = keq b a
  trans : ∀ a b c, keq a b = true → keq b c = true → keq a c = true

/-- `set.contains(x)`: some stored element equals `x` (stored element on the left). -/
def memB (keq : K → K → Bool) (x : K) (l : List K) : Bool := l.any fun y => keq y x

/-- pairwise-unequal elements. -/
def NodupB (keq : K → K → Bool) (l : List K) : Prop := l.Pairwise fun a b => keq a b = false

def diffL (keq : K → K → Bool) (a b : List K) : List K := a.filter fun x => !memB keq x b
def interL (keq : K → K → Bool) (a b : List K) : List K := a.filter fun x => memB keq x b
/-- `other.iter().chain(self.difference(other))` -/
def unionL (keq : K → K → Bool) (a b : List K) : List K := b ++ diffL keq a b
/-- `self.difference(other).chain(other.difference(self))` -/
def symmL (keq : K → K → Bool) (a b : List K) : List K := diffL keq a b ++ diffL keq b a

def subsetB (keq : K → K → Bool) (a b : List K) : Bool := a.all fun x => memB keq x b
def disjointB (keq : K → K → Bool) (a b : List K) : Bool := a.all fun x => !memB keq x b

/-- `is_subset` as coded: length shortcut, then `all`. -/
def isSubsetCode (keq : K → K → Bool) (a b : List K) : Bool :=
  if a.length ≤ b.length then a.all fun x => memB keq x b else false

/-- `is_disjoint` as coded: iterate the shorter operand. -/
def isDisjointCode (keq : K → K → Bool) (a b : List K) : Bool :=
  if a.length ≤ b.length then a.all fun x => !memB keq x b else b.all fun x => !memB keq x a

/-- `Difference::size_hint` after the underlying iterator has `rest` left. -/
def diffHintL (rest other : Nat) : Nat × Nat := (rest - other, rest)
def interHintL (rest other : Nat) : Nat × Nat := (0, min rest other)

/-! ### maps: lookup and extensional equality -/

def lookupL (keq : K → K → Bool) (l : List (K × V)) (k : K) : Option V :=
  (l.find? fun p => keq p.1 k).map (·.2)

def NodupKeys (keq : K → K → Bool) (l : List (K × V)) : Prop := NodupB keq (l.map (·.1))

/-- `Map::eq` as coded: equal lengths, and every entry of `a` is found in `b` with an equal value. -/
def mapEqCode (keq : K → K → Bool) (veq : V → V → Bool) (a b : List (K × V)) : Bool :=
  a.length == b.length &&
    a.all fun p => match lookupL keq b p.1 with
      | some v => veq v p.2
      | none => false

/-- the mathematical meaning: same keys, equal values. -/
def MapExtEq (keq : K → K → Bool) (veq : V → V → Bool) (a b : List (K × V)) : Prop :=
  ∀ k, match lookupL keq a k, lookupL keq b k with
    | some x, some y => veq y x = true
    | none, none => True
    | _, _ => False

end Micromap.SetAlg
