/-
The LIST-LEVEL INTERPRETER of the whole operation language.

`lstepCore E R : LSys K V → Op K V Q → LRes K V` is a pure function over association lists:
no slots, no `MaybeUninit`, no world, no callbacks.  A register is a capacity and the list of its
entries in slot order; an operation maps the registers to a returned value (the same `RV` tree
the slot machine shows to its caller: values, `ref slot …` positions, iterator-script outputs,
`Debug` / `Display` strings, size hints, counts) and new registers — or to a panic class and the
registers the panic leaves behind.

`Proofs/ListSysRefine.lean` proves that `Micromap.step` computes exactly this function
(`step_refines`, `run_refines`) in a world without injected faults, for a time-independent `==`.

What is NOT here: which objects are dropped, cloned or leaked and in which order (the ledger
theorems' business), event logs, call counts.  Where a result depends on what the user's `Clone`
returns (`clone_to`, `&a - &b`, `serde`) the interpreter uses `E.clK 0` / `E.clV 0`: the
refinement theorem asks for clones that do not depend on the fresh-object counter for these
operations; a `retain` predicate is read at call number 0: the theorem asks that it does not
depend on the call counter (`Op.SideOK`).

Executable: every function here is structurally recursive; `lrun` on concrete histories is
evaluated by `decide` in `Props/SysSpec.lean`.
-/
import Micromap.Model.Sys
import Micromap.Spec.Dict
import Micromap.Spec.SetAlg
import Micromap.Spec.StdFmt
import Micromap.Proofs.Lookup
import Micromap.Proofs.EqClone
import Micromap.Proofs.FromIter
import Micromap.Proofs.Disjoint
import Micromap.Proofs.Alg

namespace Micromap.ListSys
open Micromap

variable {K V Q : Type}

/-! ### registers, system, results -/

/-- a register at list level: its capacity `N` and its entries in slot order. -/
structure LReg (K V : Type) where
  cap : Nat
  l : List (K × V)

/-- the system at list level: the map registers, the set registers (a `Set<T, N>` is a
    `Map<T, (), N>`), and the build profile (it decides which check reports a full map).
    Registers are indexed by `Nat` as in `Sys` (the operation language names registers by number;
    the harness uses the numbers 0 and 1 of each kind, and `endCase` drops exactly those). -/
structure LSys (K V : Type) where
  maps : Nat → LReg K V
  sets : Nat → LReg K Unit
  profile : Profile := .debug

/-- what one operation does to the system. -/
inductive LRes (K V : Type) where
  | ok (ret : RV K V) (ls' : LSys K V)
  | panic (c : PanicClass) (ls' : LSys K V)

/-- what one operation does to the register it runs on. -/
inductive RRes (K V : Type) where
  | ok (ret : RV K V) (l' : List (K × V))
  | panic (c : PanicClass) (l' : List (K × V))

/-- a full map refuses a new key through `debug_assert!` in a debug build and through the
    bounds check of `pairs[len]` in a release build. -/
def fullPanic : Profile → PanicClass
  | .debug => .overflow
  | .release => .oob

/-- the lookup every operation starts with: position and entry of the FIRST stored key that
    `==` the probe. -/
def lookup (E : Env K V Q) (l : List (K × V)) (pr : Probe K Q) : Option (Nat × (K × V)) :=
  match findKey E l pr with
  | some i => l[i]?.map fun p => (i, p)
  | none => none

/-! ### borrowing iterators: scripts -/

def isMut : IterKind → Bool
  | .iter_mut | .values_mut => true
  | _ => false

/-- what an iterator standing at position `k` still yields: references to the slots `k, k+1, …`. -/
def restItems (kind : IterKind) (k : Nat) (l : List (K × V)) : List (RV K V) :=
  (l.drop k).zipIdx.map fun (p, j) => projItem kind (k + j) p

/-- the clones taken by a script, run to their end after the script. -/
def runForks (kind : IterKind) (forks : List Nat) (l : List (K × V)) : List (RV K V) :=
  forks.map fun f => RV.list (restItems kind f l)

def consOut {α : Type} (x : RV K V) (r : List (RV K V) × α) : List (RV K V) × α := (x :: r.1, r.2)

/-- an iterator script over the list: `k` is the position of the iterator, `forks` the positions
    of the clones taken so far.  Returns the outputs and the list afterwards (`iter_mut` and
    `values_mut` write `g v` through every reference they hand out). -/
def lIterScript (R : Render K V) (kind : IterKind) (g : V → V) :
    List IterCmd → Nat → List Nat → List (K × V) → List (RV K V) × List (K × V)
  | [], _, forks, l => (runForks kind forks l, l)
  | c :: cs, k, forks, l =>
    match c with
    | .next =>
      match l[k]? with
      | none => consOut .none (lIterScript R kind g cs k forks l)
      | some p =>
        if isMut kind then
          consOut (.some (projItem kind k (p.1, g p.2)))
            (lIterScript R kind g cs (k + 1) forks (l.set k (p.1, g p.2)))
        else consOut (.some (projItem kind k p)) (lIterScript R kind g cs (k + 1) forks l)
    | .len => consOut (.nat (l.length - k)) (lIterScript R kind g cs k forks l)
    | .hint => consOut (.hint (l.length - k) (some (l.length - k))) (lIterScript R kind g cs k forks l)
    | .debug => consOut (.str (renderRest R kind false (l.drop k))) (lIterScript R kind g cs k forks l)
    | .debugAlt => consOut (.str (renderRest R kind true (l.drop k))) (lIterScript R kind g cs k forks l)
    | .clone =>
      if isMut kind then lIterScript R kind g cs k forks l
      else lIterScript R kind g cs k (forks ++ [k]) l
    | .count | .fold => (.nat (l.length - k) :: runForks kind forks l, l)

/-! ### entry chains -/

def RRes.mapRet (f : RV K V → RV K V) : RRes K V → RRes K V
  | .ok r l => .ok (f r) l
  | .panic c l => .panic c l

/-- the terminal of an entry chain on an OCCUPIED entry: `l` is the list after the `and_modify`
    closures, `i` the slot of the entry, `p = l[i]`.  What it returns and the list afterwards. -/
def lEntryOcc (l : List (K × V)) (i : Nat) (p : K × V) : EntryEnd V → RV K V × List (K × V)
  | .or_insert _ | .or_insert_with _ | .or_insert_with_key _ | .or_default _ | .occ_into_mut
  | .occ_get => (.ref i (.val p.2), l)
  | .key | .occ_key => (.key p.1, l)
  | .drop => (.unit, l)
  | .occ_get_mut g => (.ref i (.val (g p.2)), l.set i (p.1, g p.2))
  | .occ_insert v => (.val p.2, l.set i (p.1, v))
  | .occ_remove => (.val p.2, Dict.swapRemove l i)
  | .occ_remove_entry => (.pair p.1 p.2, Dict.swapRemove l i)
  | .vac_key | .vac_into_key | .vac_insert _ => (.tag "occupied", l)

/-- the terminal of an entry chain on a VACANT entry owning the key `k`: `VacantEntry::insert`
    appends (or finds the map full). -/
def lEntryVac (prof : Profile) (cap : Nat) (l : List (K × V)) (k : K) : EntryEnd V → RRes K V
  | .or_insert v | .or_insert_with v | .or_insert_with_key v | .or_default v | .vac_insert v =>
    if l.length < cap then .ok (.ref l.length (.val v)) (l ++ [(k, v)]) else .panic (fullPanic prof) l
  | .key | .vac_key | .vac_into_key => .ok (.key k) l
  | .drop => .ok .unit l
  | .occ_key | .occ_get | .occ_get_mut _ | .occ_insert _ | .occ_remove | .occ_remove_entry
  | .occ_into_mut => .ok (.tag "vacant") l

/-- `map.entry(k)`, the `and_modify` closures `mods` in order, then the terminal `fin`. -/
def lEntryOp (E : Env K V Q) (prof : Profile) (cap : Nat) (l : List (K × V)) (k : K)
    (mods : List (V → V)) (fin : EntryEnd V) : RRes K V :=
  match lookup E l (.key k) with
  | some (i, p) =>
    -- occupied: the closures run on the stored value; the stored key object stays
    let p1 := (p.1, mods.foldl (fun v g => g v) p.2)
    let r := lEntryOcc (l.set i p1) i p1 fin
    .ok (.list [.tag "occ", r.1]) r.2
  | none =>
    -- vacant: the closures do not run
    (lEntryVac prof cap l k fin).mapRet fun r => .list [.tag "vac", r]

/-! ### `get_disjoint_mut` -/

/-- the values behind the returned references. -/
def readL (l : List (K × V)) : List (Option Nat) → List (RV K V)
  | [] => []
  | none :: rest => RV.none :: readL l rest
  | some i :: rest =>
    (match l[i]? with
      | some p => RV.some (.ref i (.val p.2))
      | none => RV.none) :: readL l rest

instance (E : Env K V Q) (ks : List (Probe K Q)) : Decidable (Disjoint.Unequal E ks) := by
  unfold Disjoint.Unequal; infer_instance

instance (E : Env K V Q) (l : List (K × V)) (ks : List (Probe K Q)) :
    Decidable (Disjoint.Overfull E l ks) := by
  unfold Disjoint.Overfull; infer_instance

/-- `get_disjoint_mut(ks)` followed by the write `*r = g(*r)` through every reference: the
    pre-check panics when two requests are equal; `Disjoint.resSpec` is the slot every request
    refers to (`findKey` for one request, the position-stack machinery otherwise), and the
    checked stack index panics when more slots match than there are requests. -/
def lDisjoint (E : Env K V Q) (l : List (K × V)) (g : V → V) (ks : List (Probe K Q)) : RRes K V :=
  if ¬ Disjoint.Unequal E ks then .panic .overlap l
  else if Disjoint.Overfull E l ks then .panic .oob l
  else
    let slots := Disjoint.resSpec E l ks
    let l' := Disjoint.writeL g slots l
    .ok (.list (readL l' slots)) l'

/-! ### formatting -/

def lFmtMap (R : Render K V) (kind : FmtKind) (l : List (K × V)) : String :=
  match kind with
  | .debug | .debugPad => StdFmt.debugMap false (l.map fun p => (R.dbgK false p.1, R.dbgV false p.2))
  | .debugAlt => StdFmt.debugMap true (l.map fun p => (R.dbgK true p.1, R.dbgV true p.2))
  | .display | .displayPad | .displayAlt => displayMapCode R l

def lFmtSet (R : Render K Unit) (kind : FmtKind) (l : List (K × Unit)) : String :=
  match kind with
  | .debug | .debugPad => StdFmt.debugSet false (l.map fun p => R.dbgK false p.1)
  | .debugAlt => StdFmt.debugSet true (l.map fun p => R.dbgK true p.1)
  | .display | .displayPad | .displayAlt => displaySetCode R.dspK l

/-! ### the operations of one map register -/

/-- `insert` / `insert_key_value` / `checked_insert` share one shape: replace in place when the
    key is found, append when there is room, otherwise `full`. -/
def lInsert (E : Env K V Q) (cap : Nat) (l : List (K × V)) (k : K)
    (found : Nat → K × V → RRes K V) (fresh : RRes K V) (full : RRes K V) : RRes K V :=
  match lookup E l (.key k) with
  | some (i, p) => found i p
  | none => if l.length < cap then fresh else full

/-- One `Map` operation on a register of capacity `cap` holding `l`; `other o` are the entries of
    register `o` (for `eq`).  The operations that involve a second register as a destination
    (`clone_to`, `from_iter`, `serde`) are handled by `lstepCore`. -/
def lMapOp (E : Env K V Q) (R : Render K V) (prof : Profile) (cap : Nat) (other : Nat → List (K × V))
    (l : List (K × V)) : MapOp K V Q → RRes K V
  | .insert k v | .insert_unchecked k v =>
    lInsert E cap l k (fun i p => .ok (.some (.val p.2)) (l.set i (p.1, v)))
      (.ok .none (l ++ [(k, v)])) (.panic (fullPanic prof) l)
  | .insert_key_value k v =>
    lInsert E cap l k (fun i p => .ok (.some (.pair p.1 p.2)) (l.set i (k, v)))
      (.ok .none (l ++ [(k, v)])) (.panic (fullPanic prof) l)
  | .checked_insert k v =>
    lInsert E cap l k (fun i p => .ok (.some (.some (.val p.2))) (l.set i (p.1, v)))
      (.ok (.some .none) (l ++ [(k, v)])) (.ok .none l)
  | .get pr =>
    match lookup E l pr with
    | some (i, p) => .ok (.some (.ref i (.val p.2))) l
    | none => .ok .none l
  | .get_key_value pr =>
    match lookup E l pr with
    | some (i, p) => .ok (.some (.ref i (.pair p.1 p.2))) l
    | none => .ok .none l
  | .get_mut pr g =>
    match lookup E l pr with
    | some (i, p) => .ok (.some (.ref i (.val (g p.2)))) (l.set i (p.1, g p.2))
    | none => .ok .none l
  | .contains_key pr => .ok (.bool (findKey E l pr).isSome) l
  | .index pr =>
    match lookup E l pr with
    | some (i, p) => .ok (.ref i (.val p.2)) l
    | none => .panic .noentry l
  | .index_mut pr g =>
    match lookup E l pr with
    | some (i, p) => .ok (.ref i (.val (g p.2))) (l.set i (p.1, g p.2))
    | none => .panic .noentry l
  | .remove pr =>
    match lookup E l pr with
    | some (i, p) => .ok (.some (.val p.2)) (Dict.swapRemove l i)
    | none => .ok .none l
  | .remove_entry pr =>
    match lookup E l pr with
    | some (i, p) => .ok (.some (.pair p.1 p.2)) (Dict.swapRemove l i)
    | none => .ok .none l
  | .retain f =>
    -- `f n k v = (keep, v')`: the predicate with its write to `&mut V`, read at call number 0
    .ok .unit (Dict.retainL (f 0) l.length 0 l)
  | .clear => .ok .unit []
  | .len => .ok (.nat l.length) l
  | .is_empty => .ok (.bool (l.length == 0)) l
  | .capacity => .ok (.nat cap) l
  | .drain take _ =>
    -- the first `take` entries in slot order; the rest is dropped (or forgotten) with the `Drain`
    .ok (.list [.list ((l.take take).map fun p => .pair p.1 p.2), .nat (l.length - take),
      .str (renderRest R .iter false (l.drop take))]) []
  | .into_iter kind take _ =>
    -- the last `take` entries, last first; `Debug` shows the untouched front
    let f : K × V → RV K V := match kind with
      | .pairs => fun p => .pair p.1 p.2
      | .keys => fun p => .key p.1
      | .values => fun p => .val p.2
    let ik : IterKind := match kind with | .pairs => .iter | .keys => .keys | .values => .values
    .ok (.list [.list ((l.reverse.take take).map f), .nat (l.length - take),
      .str (renderRest R ik false (l.take (l.length - take)))]) []
  | .iter kind g script =>
    let r := lIterScript R kind g script 0 [] l
    .ok (.list r.1) r.2
  | .clone_to _ => .ok .unit l
  | .eq o => .ok (.bool (SetAlg.mapEqCode E.keq (EqClone.veq E) l (other o))) l
  | .from_iter _ _ => .ok .unit l
  | .entry k mods fin => lEntryOp E prof cap l k mods fin
  | .get_disjoint_mut _ g ks => lDisjoint E l g ks
  | .fmt kind => .ok (.str (lFmtMap R kind l)) l
  | .drop | .forget => .ok .unit []
  | .with_capacity c => if c == cap then .ok .unit l else .panic .capacity l
  | .serde _ => .ok .unit l

/-! ### the lazy set operations: scripts over `difference` / `intersection` / `union` /
`symmetric_difference`

The iterator state `AlgIt` of the model is plain data (the kind and the windows `[lo, hi)` of the
two halves); the functions below are what its `next` / `size_hint` compute on the entry lists
`la` (`self`) and `lb` (`other`). -/

/-- `self.iter.find(|x| other.contains(x) == want)` over `n` remaining positions from `lo`:
    the first selected position with its key, and the position after it. -/
def lFiltNextR (E : Env K V Q) (la lb : List (K × V)) (want : Bool) : Nat → Nat → Option (Nat × K) × Nat
  | 0, lo => (none, lo)
  | n + 1, lo =>
    match la[lo]? with
    | some p =>
      if (findKey E lb (.key p.1)).isSome == want then (some (lo, p.1), lo + 1)
      else lFiltNextR E la lb want n (lo + 1)
    | none => (none, lo)

def lFiltNext (E : Env K V Q) (la lb : List (K × V)) (want : Bool) (it : SliceIt) :
    Option (Nat × K) × SliceIt :=
  let r := lFiltNextR E la lb want it.len it.lo
  (r.1, { it with lo := r.2 })

def lIterNext (l : List (K × V)) (it : SliceIt) : Option (Nat × (K × V)) × SliceIt :=
  if it.lo < it.hi then
    match l[it.lo]? with
    | some p => (some (it.lo, p), { it with lo := it.lo + 1 })
    | none => (none, it)
  else (none, it)

def lAlgFstNext (E : Env K V Q) (la lb : List (K × V)) (kind : AlgKind) (it : SliceIt) :
    Option (AlgItem K) × SliceIt :=
  match kind with
  | .difference | .symmetric_difference =>
    let r := lFiltNext E la lb false it
    (r.1.map fun (i, k) => (0, i, k), r.2)
  | .intersection =>
    let r := lFiltNext E la lb true it
    (r.1.map fun (i, k) => (0, i, k), r.2)
  | .union =>
    let r := lIterNext lb it
    (r.1.map fun (i, p) => (1, i, p.1), r.2)

def lAlgSndNext (E : Env K V Q) (la lb : List (K × V)) (kind : AlgKind) (it : SliceIt) :
    Option (AlgItem K) × SliceIt :=
  match kind with
  | .union =>
    let r := lFiltNext E la lb false it
    (r.1.map fun (i, k) => (0, i, k), r.2)
  | _ =>
    let r := lFiltNext E lb la false it
    (r.1.map fun (i, k) => (1, i, k), r.2)

/-- `next` of the four lazy iterators (`Chain::next` for `union` / `symmetric_difference`: the
    first half is cleared when it is exhausted, the second never). -/
def lAlgNext (E : Env K V Q) (la lb : List (K × V)) (s : AlgIt) : Option (AlgItem K) × AlgIt :=
  match s.kind with
  | .difference | .intersection =>
    match s.fst with
    | some it =>
      let r := lAlgFstNext E la lb s.kind it
      (r.1, { s with fst := some r.2 })
    | none => (none, s)
  | _ =>
    let r : Option (AlgItem K) × AlgIt :=
      match s.fst with
      | some it =>
        let r := lAlgFstNext E la lb s.kind it
        match r.1 with
        | some x => (some x, { s with fst := some r.2 })
        | none => (none, { s with fst := none })
      | none => (none, s)
    match r.1 with
    | some x => (some x, r.2)
    | none =>
      match r.2.snd with
      | some it =>
        let q := lAlgSndNext E la lb r.2.kind it
        (q.1, { r.2 with snd := some q.2 })
      | none => (none, r.2)

def lDiffHint (nb : Nat) (it : SliceIt) : Nat × Option Nat :=
  (if it.len > nb then it.len - nb else 0, some it.len)

/-- `size_hint` of the four lazy iterators (`na`, `nb`: the lengths of `self` and `other`). -/
def lAlgHint (na nb : Nat) (s : AlgIt) : Nat × Option Nat :=
  match s.kind with
  | .difference => match s.fst with | some it => lDiffHint nb it | none => (0, some 0)
  | .intersection => match s.fst with | some it => (0, some (min it.len nb)) | none => (0, some 0)
  | .union =>
    match s.fst, s.snd with
    | some x, some y => addHint (x.len, some x.len) (lDiffHint nb y)
    | some x, none => (x.len, some x.len)
    | none, some y => lDiffHint nb y
    | none, none => (0, some 0)
  | .symmetric_difference =>
    match s.fst, s.snd with
    | some x, some y => addHint (lDiffHint nb x) (lDiffHint na y)
    | some x, none => lDiffHint nb x
    | none, some y => lDiffHint na y
    | none, none => (0, some 0)

/-- a script over a lazy set operation.  `Alg.algRest E.keq la lb it` is everything the iterator
    state `it` still yields (what `fold`, `count`, `Debug` and a clone run to its end see). -/
def lAlgScript (E : Env K Unit Q) (dbg : Bool → K → String) (la lb : List (K × Unit)) :
    List IterCmd → AlgIt → List AlgIt → List (RV K Unit)
  | [], _, forks => forks.map fun f => RV.list ((Alg.algRest E.keq la lb f).map algItemRV)
  | c :: cs, it, forks =>
    match c with
    | .next =>
      let r := lAlgNext E la lb it
      (match r.1 with | none => RV.none | some x => RV.some (algItemRV x)) ::
        lAlgScript E dbg la lb cs r.2 forks
    | .hint =>
      let h := lAlgHint la.length lb.length it
      RV.hint h.1 h.2 :: lAlgScript E dbg la lb cs it forks
    | .len => lAlgScript E dbg la lb cs it forks
    | .debug =>
      RV.str (StdFmt.debugList false ((Alg.algRest E.keq la lb it).map fun x => dbg false x.2.2)) ::
        lAlgScript E dbg la lb cs it forks
    | .debugAlt =>
      RV.str (StdFmt.debugList true ((Alg.algRest E.keq la lb it).map fun x => dbg true x.2.2)) ::
        lAlgScript E dbg la lb cs it forks
    | .clone => lAlgScript E dbg la lb cs it (forks ++ [it])
    | .count =>
      RV.nat (Alg.algRest E.keq la lb it).length ::
        forks.map fun f => RV.list ((Alg.algRest E.keq la lb f).map algItemRV)
    | .fold =>
      RV.list ((Alg.algRest E.keq la lb it).map algItemRV) ::
        forks.map fun f => RV.list ((Alg.algRest E.keq la lb f).map algItemRV)

/-! ### the operations of one set register -/

/-- One `Set` operation on a register of capacity `cap` holding `l` (a `Set<T, N>` is a
    `Map<T, (), N>`: every method forwards to the map method shown in `stepSetOp`). -/
def lSetOp (E : Env K Unit Q) (R : Render K Unit) (prof : Profile) (cap : Nat)
    (other : Nat → List (K × Unit)) (l : List (K × Unit)) : SetOp K Q → RRes K Unit
  | .insert k =>
    lInsert E cap l k (fun _ _ => .ok (.bool false) l) (.ok (.bool true) (l ++ [(k, ())]))
      (.panic (fullPanic prof) l)
  | .replace k =>
    lInsert E cap l k (fun i p => .ok (.some (.key p.1)) (l.set i (k, ())))
      (.ok .none (l ++ [(k, ())])) (.panic (fullPanic prof) l)
  | .contains pr => .ok (.bool (findKey E l pr).isSome) l
  | .get pr =>
    match lookup E l pr with
    | some (i, p) => .ok (.some (.ref i (.key p.1))) l
    | none => .ok .none l
  | .remove pr =>
    match lookup E l pr with
    | some (i, _) => .ok (.bool true) (Dict.swapRemove l i)
    | none => .ok (.bool false) l
  | .take pr =>
    match lookup E l pr with
    | some (i, p) => .ok (.some (.key p.1)) (Dict.swapRemove l i)
    | none => .ok .none l
  | .retain f => .ok .unit (Dict.retainL (fun k u => (f 0 k, u)) l.length 0 l)
  | .clear => .ok .unit []
  | .len => .ok (.nat l.length) l
  | .is_empty => .ok (.bool (l.length == 0)) l
  | .capacity => .ok (.nat cap) l
  | .drain take _ =>
    .ok (.list [.list ((l.take take).map fun p => .key p.1), .nat (l.length - take)]) []
  | .into_iter take _ =>
    .ok (.list [.list ((l.reverse.take take).map fun p => .key p.1), .nat (l.length - take)]) []
  | .iter script => .ok (.list (lIterScript R .keys id script 0 [] l).1) l
  | .clone_to _ => .ok .unit l
  | .eq o => .ok (.bool (SetAlg.mapEqCode E.keq (EqClone.veq E) l (other o))) l
  | .from_iter _ _ => .ok .unit l
  | .extend _ xs =>
    let items := xs.map fun k => (k, ())
    if FromIter.overflowAt E cap l items = none then .ok .unit (FromIter.foldInsert E l items)
    else
      -- the items before the first surplus one went in
      .panic (fullPanic prof)
        (FromIter.foldInsert E l (items.take ((FromIter.overflowAt E cap l items).getD 0)))
  | .alg kind o script =>
    .ok (.list (lAlgScript E R.dbgK l (other o) script
      (Alg.startIt l.length (other o).length kind) [])) l
  | .is_subset o => .ok (.bool (SetAlg.isSubsetCode E.keq (l.map (·.1)) ((other o).map (·.1)))) l
  | .is_superset o => .ok (.bool (SetAlg.isSubsetCode E.keq ((other o).map (·.1)) (l.map (·.1)))) l
  | .is_disjoint o => .ok (.bool (SetAlg.isDisjointCode E.keq (l.map (·.1)) ((other o).map (·.1)))) l
  | .sub _ _ => .ok .unit l
  | .fmt kind => .ok (.str (lFmtSet R kind l)) l
  | .drop | .forget => .ok .unit []
  | .serde _ => .ok .unit l
  | .extend_from _ => .ok .unit l

/-! ### operations that build a new container and assign it to a register -/

/-- an element-wise clone (`V = ()` has no `Clone` call). -/
def cloneL (E : Env K V Q) (l : List (K × V)) : List (K × V) :=
  l.map fun p => (E.clK 0 p.1, if E.vGlue then E.clV 0 p.2 else p.2)

/-- `for (k, v) in items { m.insert(k, v); }` on a fresh local of capacity `cap`: the fold of
    single inserts, or `none` when an item with a new key finds the local full (the local is then
    dropped and nothing is assigned). -/
def lBuild (E : Env K V Q) (cap : Nat) (items : List (K × V)) : Option (List (K × V)) :=
  if FromIter.overflowAt E cap [] items = none then some (FromIter.foldInsert E [] items) else none

/-- what the caller sees of serializing `l`: announced length, number of entries, `"ok"`. -/
def lTokSummary (l : List (K × V)) : RV K V := .list [.nat l.length, .nat l.length, .tag "ok"]

def LSys.setMap (ls : LSys K V) (i : Nat) (r : LReg K V) : LSys K V := { ls with maps := updReg ls.maps i r }
def LSys.setSet (ls : LSys K V) (i : Nat) (r : LReg K Unit) : LSys K V := { ls with sets := updReg ls.sets i r }

/-- lift a register result to the system. -/
def liftMap (ls : LSys K V) (i : Nat) (cast : RV K V → RV K V) : RRes K V → LRes K V
  | .ok ret l' => .ok (cast ret) (ls.setMap i { (ls.maps i) with l := l' })
  | .panic c l' => .panic c (ls.setMap i { (ls.maps i) with l := l' })

def liftSet (ls : LSys K V) (i : Nat) : RRes K Unit → LRes K V
  | .ok ret l' => .ok ret.castU (ls.setSet i { (ls.sets i) with l := l' })
  | .panic c l' => .panic c (ls.setSet i { (ls.sets i) with l := l' })

/-! ### the interpreter -/

/-- **The list-level interpreter**: one operation of the operation language on the registers. -/
def lstepCore (E : Env K V Q) (R : Render K V) (ls : LSys K V) : Op K V Q → LRes K V
  | .map reg op =>
    let src := ls.maps reg
    match op with
    | .clone_to dst =>
      -- `*dst = src.clone()`: the destination becomes a clone of the source (with its capacity)
      .ok .unit (ls.setMap dst ⟨src.cap, cloneL E src.l⟩)
    | .from_iter _ xs =>
      match lBuild E src.cap xs with
      | some l' => .ok .unit (ls.setMap reg ⟨src.cap, l'⟩)
      | none => .panic (fullPanic ls.profile) ls
    | .serde dst =>
      -- serialize, then deserialize into a fresh map of the destination's capacity
      match lBuild E (ls.maps dst).cap (cloneL E src.l) with
      | some l' => .ok (lTokSummary src.l) (ls.setMap dst ⟨(ls.maps dst).cap, l'⟩)
      | none => .panic (fullPanic ls.profile) ls
    | op => liftMap ls reg id (lMapOp E R ls.profile src.cap (fun o => (ls.maps o).l) src.l op)
  | .set reg op =>
    let src := ls.sets reg
    match op with
    | .clone_to dst => .ok .unit (ls.setSet dst ⟨src.cap, cloneL E.toUnit src.l⟩)
    | .from_iter _ xs =>
      match lBuild E.toUnit src.cap (xs.map fun k => (k, ())) with
      | some l' => .ok .unit (ls.setSet reg ⟨src.cap, l'⟩)
      | none => .panic (fullPanic ls.profile) ls
    | .serde dst =>
      match lBuild E.toUnit (ls.sets dst).cap (cloneL E.toUnit src.l) with
      | some l' => .ok (lTokSummary src.l).castU (ls.setSet dst ⟨(ls.sets dst).cap, l'⟩)
      | none => .panic (fullPanic ls.profile) ls
    | .sub o dst =>
      -- `&a - &b`: clones of the elements of `a` that `b` does not contain, collected (by single
      -- inserts) into a set of `a`'s capacity — which always suffices
      let diff := src.l.filter fun p => !(findKey E.toUnit (ls.sets o).l (.key p.1)).isSome
      .ok .unit (ls.setSet dst ⟨src.cap, FromIter.foldInsert E.toUnit [] (cloneL E.toUnit diff)⟩)
    | .extend_from o =>
      -- `a.extend(b)` with the set `b` moved in (`o = reg` cannot be written: nothing happens).
      -- The consuming iterator pops from the END of `b`: the keys arrive last first and go into `a`
      -- by single inserts (a key `a` already holds is dropped, a new one is appended); `b` is
      -- consumed.  When a new key finds `a` full, the keys before it went in and stay in, and the
      -- rest of `b` is dropped with the iterator: `b` is empty in either case.
      if o = reg then .ok .unit ls else
      let items := (ls.sets o).l.reverse
      let emptied := ls.setSet o ⟨(ls.sets o).cap, []⟩
      if FromIter.overflowAt E.toUnit src.cap src.l items = none then
        .ok .unit (emptied.setSet reg ⟨src.cap, FromIter.foldInsert E.toUnit src.l items⟩)
      else
        .panic (fullPanic ls.profile)
          (emptied.setSet reg ⟨src.cap, FromIter.foldInsert E.toUnit src.l
            (items.take ((FromIter.overflowAt E.toUnit src.cap src.l items).getD 0))⟩)
    | op => liftSet ls reg (lSetOp E.toUnit R.toUnit ls.profile src.cap (fun o => (ls.sets o).l) src.l op)
  | .umap reg op =>
    let src := ls.sets reg
    match op with
    | .clone_to _ | .from_iter _ _ | .serde _ => .ok .unit ls
    | op => liftSet ls reg (lMapOp E.toUnit R.toUnit ls.profile src.cap (fun o => (ls.sets o).l) src.l op)
  | .inject _ => .ok .unit ls
  | .endCase =>
    -- the harness drops registers 0 and 1 of each kind
    .ok .unit
      { ls with
        maps := updReg (updReg ls.maps 0 ⟨(ls.maps 0).cap, []⟩) 1 ⟨(ls.maps 1).cap, []⟩
        sets := updReg (updReg ls.sets 0 ⟨(ls.sets 0).cap, []⟩) 1 ⟨(ls.sets 1).cap, []⟩ }

/-- what one step shows to the outside, at list level. -/
structure LOut (K V : Type) where
  outcome : Outcome
  ret : RV K V

def lstep (E : Env K V Q) (R : Render K V) (ls : LSys K V) (op : Op K V Q) : LSys K V × LOut K V :=
  match lstepCore E R ls op with
  | .ok ret ls' => (ls', ⟨.ok, ret⟩)
  | .panic c ls' => (ls', ⟨.panic c, .unit⟩)

def lrun (E : Env K V Q) (R : Render K V) (ls : LSys K V) : List (Op K V Q) → LSys K V × List (LOut K V)
  | [] => (ls, [])
  | op :: ops =>
    let r := lstep E R ls op
    let rs := lrun E R r.1 ops
    (rs.1, r.2 :: rs.2)

/-- the system `Sys.init` builds, at list level. -/
def LSys.init (capM capS : Nat → Nat) (prof : Profile) : LSys K V :=
  { maps := fun i => ⟨capM i, []⟩, sets := fun i => ⟨capS i, []⟩, profile := prof }

end Micromap.ListSys

