/-
L2 reference: the layout rules of `core::fmt`'s `debug_map` / `debug_set` /
`debug_list` builders (plain and alternate `{:#?}` form) over already rendered
element strings, and the `Display` layout micromap documents.  Trusted model of
std, validated against the real `format!` by the correspondence check.
-/
namespace Micromap.StdFmt

/-- `PadAdapter`: in alternate mode every line of a nested rendering is indented. -/
def indent (s : String) : String :=
  String.intercalate "\n" ((s.splitOn "\n").map fun l => if l.isEmpty then l else "    " ++ l)

def joinComma (xs : List String) : String := String.intercalate ", " xs

/-- `f.debug_list().entries(..).finish()` -/
def debugList (alt : Bool) (xs : List String) : String :=
  if alt then
    if xs.isEmpty then "[]"
    else "[\n" ++ String.join (xs.map fun x => indent x ++ ",\n") ++ "]"
  else "[" ++ joinComma xs ++ "]"

/-- `f.debug_set().entries(..).finish()` -/
def debugSet (alt : Bool) (xs : List String) : String :=
  if alt then
    if xs.isEmpty then "{}"
    else "{\n" ++ String.join (xs.map fun x => indent x ++ ",\n") ++ "}"
  else "{" ++ joinComma xs ++ "}"

/-- `f.debug_map().entries(..).finish()` -/
def debugMap (alt : Bool) (xs : List (String × String)) : String :=
  if alt then
    if xs.isEmpty then "{}"
    else "{\n" ++ String.join (xs.map fun (k, v) => indent k ++ ": " ++ indent' v ++ ",\n") ++ "}"
  else "{" ++ joinComma (xs.map fun (k, v) => k ++ ": " ++ v) ++ "}"
where
  /-- the value continues the key's line: only its *following* lines are indented. -/
  indent' (s : String) : String :=
    match s.splitOn "\n" with
    | [] => ""
    | l :: ls => String.intercalate "\n" (l :: ls.map fun l => if l.isEmpty then l else "    " ++ l)

/-- micromap's `Display for Map`: `{k: v, k: v}`. -/
def displayMap (xs : List (String × String)) : String :=
  "{" ++ joinComma (xs.map fun (k, v) => k ++ ": " ++ v) ++ "}"

/-- micromap's `Display for Set`: `{a, b}`. -/
def displaySet (xs : List String) : String := "{" ++ joinComma xs ++ "}"

end Micromap.StdFmt
