/-
L2 — the ideal bounded dictionary, described extensionally: what every lookup answers.
A probe is any predicate on stored keys that respects key equality (`p.0 == k`, or
`p.0.borrow() == q` for a lawful `Borrow`).
-/
import Micromap.Spec.SetAlg

namespace Micromap.Dict
open Micromap.SetAlg

variable {K V : Type}

/-- first index whose key satisfies the probe (what the linear scan computes). -/
def findIdxP (hit : K → Bool) (l : List (K × V)) : Option Nat := l.findIdx? fun p => hit p.1

/-- the stored pair a probe finds. -/
def lookupP (hit : K → Bool) (l : List (K × V)) : Option (K × V) := l.find? fun p => hit p.1

/-- a probe that respects key equality and identifies at most one equivalence class. -/
structure ProbeOK (keq : K → K → Bool) (hit : K → Bool) : Prop where
  congr : ∀ a b, keq a b = true → hit a = hit b
  single : ∀ a b, hit a = true → hit b = true → keq a b = true

/-- swap-remove: the last element moves into the hole. -/
def swapRemove (l : List (K × V)) (i : Nat) : List (K × V) :=
  if i + 1 = l.length then l.dropLast
  else match l.getLast? with
    | some x => (l.set i x).dropLast
    | none => l

/-- one round of `retain`'s loop at list level; `f k v = (keep, v')`. `fuel` = `len - i`. -/
def retainL (f : K → V → Bool × V) : Nat → Nat → List (K × V) → List (K × V)
  | 0, _, l => l
  | fuel + 1, i, l =>
    match l[i]? with
    | none => l
    | some p =>
      let r := f p.1 p.2
      let l1 := l.set i (p.1, r.2)
      if r.1 then retainL f fuel (i + 1) l1 else retainL f fuel i (swapRemove l1 i)

end Micromap.Dict
