/-
L2 — the ideal bounded dictionary as an insertion-ordered association list with the most
naive definitions (`find?`, `map`, `filter`, `filterMap`): readable in a minute, no slots, no
swap-remove, no indices.  `hit : K → Bool` is the probe ("the stored key equals the requested
key / its borrowed form equals the requested borrowed form").
-/
namespace Micromap.RefDict

variable {K V : Type}

/-- outcome of one reference operation. -/
inductive Res (α β : Type) where
  | ok (out : α) (d : β)
  | overflow            -- a new key does not fit
  | noentry             -- indexing a missing key

def find (hit : K → Bool) (d : List (K × V)) : Option (K × V) := d.find? fun p => hit p.1

/-- replace the value of the entry the probe selects (the stored key object stays). -/
def setVal (hit : K → Bool) (v : V) (d : List (K × V)) : List (K × V) :=
  d.map fun q => if hit q.1 then (q.1, v) else q

/-- replace key object and value of the entry the probe selects. -/
def setPair (hit : K → Bool) (k : K) (v : V) (d : List (K × V)) : List (K × V) :=
  d.map fun q => if hit q.1 then (k, v) else q

def modVal (hit : K → Bool) (g : V → V) (d : List (K × V)) : List (K × V) :=
  d.map fun q => if hit q.1 then (q.1, g q.2) else q

def erase (hit : K → Bool) (d : List (K × V)) : List (K × V) := d.filter fun q => !hit q.1

/-- `retain` with a predicate that may also rewrite the value: `f k v = (keep, v')`. -/
def retain (f : K → V → Bool × V) (d : List (K × V)) : List (K × V) :=
  d.filterMap fun p => if (f p.1 p.2).1 then some (p.1, (f p.1 p.2).2) else none

end Micromap.RefDict
