/-
C07 — Set is a correct bounded set: every operation agrees with a reference model.

`Set<T, N>` is `Map<T, (), N>` and every method forwards to a map method
(`src/set/methods.rs`, mirrored by `stepSetOp`); `RefineSet.smrun` is that forwarding:
the map method (`Refine.mrun (toD op)`) followed by `.is_none()`, `.is_some()`, `.map(|p| p.0)`.
The reference is the ideal finite set `RefineSet.sset` over a list of elements
(`any` / `find?` / `filter`).  Elements are compared by an arbitrary lawful `==`
(equal elements may be distinguishable), lookups may use a borrowed form, the capacity is an
arbitrary `Nat`, both build profiles are covered.
-/
import Micromap.Proofs.RefineSet
import Micromap.Proofs.RefineTie

namespace Micromap.Props.C07
open Micromap Micromap.Refine Micromap.RefineSet SetAlg
variable {K Q : Type} {F : Env K Unit Q}

/-- the container holds exactly the elements `ks` (in some order), pairwise unequal. -/
def SetSim (F : Env K Unit Q) (r : Raw K Unit) (ks : List K) : Prop :=
  ∃ d, Sim F r d ∧ d.map (·.1) = ks

/-- what one step promises. -/
def SetStepOK (F : Env K Unit Q) (op : SOp K Q) (s : St K Unit Q) (ks : List K) : Prop :=
  match sset F op ks s.r.cap with
  | .ok out ks' => ∃ out' s', smrun F op s = .ok out' s' ∧ SOutRel out' out ∧ SetSim F s'.r ks' ∧
      s'.r.cap = s.r.cap ∧ Benign s'.w
  | .overflow => ∃ c s', smrun F op s = .panic c s' ∧ OverflowPanic s c ∧ s'.r = s.r ∧ Benign s'.w
  | .noentry => False

theorem outS_rel (op : SOp K Q) {o o' : DOut K Unit} (h : OutRel o' o) : SOutRel (outS op o') (outS op o) := by
  cases o with
  | list l =>
    cases o' with
    | list l' =>
      have hp : l'.Perm l := h
      cases op <;> first | exact hp.map _ | rfl
    | _ => simp only [OutRel] at h; cases h
  | _ =>
    have := h.eq_of (fun _ hh => by cases hh)
    subst this
    cases op <;> first | rfl | exact List.Perm.refl _

/-- **One step**: `insert` returns `true` exactly when the element was absent (and panics exactly
    when it was absent and the set is full), `replace` hands back the old element, `contains` /
    `get` / `remove` / `take` report presence truthfully, `retain` keeps exactly the elements the
    predicate accepts, and the resulting membership is that of the ideal set. -/
theorem set_step_refines (hF : F.Lawful) (op : SOp K Q) {s : St K Unit Q} {ks : List K}
    (hs : SetSim F s.r ks) (hb : Benign s.w) : SetStepOK F op s ks := by
  obtain ⟨d, hsim, rfl⟩ := hs
  have h := sim_step hF (toD op) hsim hb
  unfold StepOK at h
  unfold SetStepOK
  rw [sset_eq_srun]
  cases hsr : srun F (toD op) d s.r.cap with
  | ok o d' =>
    rw [hsr] at h
    obtain ⟨o', s', hm, ho, hs', hc, hb'⟩ := h
    exact ⟨outS op o', s', by simp [smrun, hm], outS_rel op ho, ⟨d', hs', rfl⟩, hc, hb'⟩
  | overflow =>
    rw [hsr] at h
    obtain ⟨c, s', hm, ho, hr, hb'⟩ := h
    exact ⟨c, s', by simp [smrun, hm], ho, hr, hb'⟩
  | noentry =>
    -- no set operation indexes
    cases op <;> simp [srun, toD] at hsr <;> (split at hsr <;> (try split at hsr) <;> cases hsr)

/-- histories. -/
def SetHistOK (F : Env K Unit Q) : List (SOp K Q) → St K Unit Q → List K → Prop
  | [], _, _ => True
  | op :: ops, s, ks =>
    match sset F op ks s.r.cap with
    | .ok out ks' => ∃ out' s', smrun F op s = .ok out' s' ∧ SOutRel out' out ∧ SetHistOK F ops s' ks'
    | .overflow => ∃ c s', smrun F op s = .panic c s' ∧ OverflowPanic s c ∧ SetHistOK F ops s' ks
    | .noentry => False

/-- **Any sequence of Set operations** behaves like the ideal finite set of the same capacity;
    in particular membership afterwards is exactly "successfully inserted and not yet removed"
    (that is how `sset` is defined: `insert` appends when absent, `remove`/`take`/`retain` filter). -/
theorem set_history_refines (hF : F.Lawful) (ops : List (SOp K Q)) :
    ∀ (s : St K Unit Q) (ks : List K), SetSim F s.r ks → Benign s.w → SetHistOK F ops s ks := by
  induction ops with
  | nil => intro _ _ _ _; trivial
  | cons op ops ih =>
    intro s ks hs hb
    have h := set_step_refines hF op hs hb
    unfold SetStepOK at h
    unfold SetHistOK
    cases hsr : sset F op ks s.r.cap with
    | ok out ks' =>
      rw [hsr] at h
      obtain ⟨out', s', hm, ho, hs', _, hb'⟩ := h
      exact ⟨out', s', hm, ho, ih s' ks' hs' hb'⟩
    | overflow =>
      rw [hsr] at h
      obtain ⟨c, s', hm, ho, hr, hb'⟩ := h
      exact ⟨c, s', hm, ho, ih s' ks (hr ▸ hs) hb'⟩
    | noentry => rw [hsr] at h; exact h

theorem new_setsim (cap : Nat) : SetSim F (Raw.new cap : Raw K Unit) [] :=
  ⟨[], ⟨[], Rep.new cap, List.Pairwise.nil, List.Perm.nil⟩, rfl⟩

theorem set_history_from_new (hF : F.Lawful) (cap : Nat) (w : World K Unit Q) (hb : Benign w)
    (ops : List (SOp K Q)) : SetHistOK F ops ⟨Raw.new cap, w⟩ [] :=
  set_history_refines hF ops _ _ (new_setsim cap) hb

/-- `insert` returns `true` exactly when the element was absent. -/
theorem insert_true_iff_absent (hF : F.Lawful) (k : K) {s : St K Unit Q} {ks : List K}
    (hs : SetSim F s.r ks) (hb : Benign s.w) {b s'} (hm : smrun F (.insert k) s = .ok (.bool b) s') :
    b = !ks.any (F.hitP (.key k)) := by
  have h := set_step_refines hF (.insert k) hs hb
  unfold SetStepOK sset at h
  cases ha : ks.any (F.hitP (.key k)) with
  | true =>
    simp only [ha, if_true] at h
    obtain ⟨o, s1, hm1, ho, _⟩ := h
    rw [hm] at hm1; cases hm1
    have : SOut.bool b = SOut.bool false := ho
    cases this; rfl
  | false =>
    simp only [ha, Bool.false_eq_true, if_false] at h
    by_cases hroom : ks.length < s.r.cap
    · simp only [hroom, if_true] at h
      obtain ⟨o, s1, hm1, ho, _⟩ := h
      rw [hm] at hm1; cases hm1
      have : SOut.bool b = SOut.bool true := ho
      cases this; rfl
    · simp only [hroom, if_false] at h
      obtain ⟨c, s1, hm1, _⟩ := h
      rw [hm] at hm1; cases hm1

/-- `remove` reports presence truthfully and the element is gone afterwards (every element
    equal to the probe is filtered out; by uniqueness that is at most one). -/
theorem remove_reports_presence (hF : F.Lawful) (pr : Probe K Q) {s : St K Unit Q} {ks : List K}
    (hs : SetSim F s.r ks) (hb : Benign s.w) :
    ∃ s', smrun F (.remove pr) s = .ok (.bool (ks.any (F.hitP pr))) s' ∧
      SetSim F s'.r (ks.filter fun x => !F.hitP pr x) := by
  have h := set_step_refines hF (.remove pr) hs hb
  unfold SetStepOK sset at h
  obtain ⟨o, s', hm, ho, hs', _⟩ := h
  have : o = SOut.bool (ks.any (F.hitP pr)) := by
    cases o <;> first | exact ho | (simp only [SOutRel] at ho)
  subst this
  exact ⟨s', hm, hs'⟩

/-- lookups by a borrowed form of an element answer like lookups by the element. -/
theorem sset_borrowed (hF : F.Lawful) (k : K) (ks : List K) (cap : Nat) :
    sset F (.contains (.q (F.borrow k))) ks cap = sset F (.contains (.key k)) ks cap ∧
    sset F (.get (.q (F.borrow k))) ks cap = sset F (.get (.key k)) ks cap ∧
    sset F (.remove (.q (F.borrow k))) ks cap = sset F (.remove (.key k)) ks cap ∧
    sset F (.take (.q (F.borrow k))) ks cap = sset F (.take (.key k)) ks cap := by
  simp only [sset, hitP_borrow hF k, and_self]

/-- **The theorems are about what is executed**: `smrun op` is `stepSetOp` on the corresponding
    `SetOp` of the operation language, up to the erasure of slot positions. -/
theorem step_executes_smrun (R : Render K Unit) (other : Nat → Raw K Unit) (op : SOp K Q) (sop : SetOp K Q)
    (h : toSetOp op = some sop) (s : St K Unit Q) :
    Res.mapOut (viewSRV op) (stepSetOp F R other sop s) = smrun F op s :=
  stepSetOp_eq_smrun F R other op sop h s

/-! ### non-vacuity (tests) -/

def exEnv : Env (Nat × Nat) Unit Nat :=
  { eqK := fun _ a b => a.1 == b.1, eqQ := fun _ a b => a == b, eqV := fun _ _ => true,
    borrow := fun a => a.1, clK := fun n k => (k.1, n), clV := fun _ v => v, vGlue := false }

theorem exEnv_lawful : exEnv.Lawful where
  k := fun _ _ _ => rfl
  q := fun _ _ _ => rfl
  refl := fun a => by simp [Env.keq, exEnv]
  symm := fun a b => by simp [Env.keq, exEnv, Bool.beq_comm]
  trans := fun a b c h1 h2 => by simp [Env.keq, exEnv] at *; omega
  borrow := fun a b => rfl
  qrefl := fun a => by simp [Env.qeq, exEnv]
  qsymm := fun a b => by simp [Env.qeq, exEnv, Bool.beq_comm]
  qtrans := fun a b c h1 h2 => by simp [Env.qeq, exEnv] at *; omega

example : SetHistOK exEnv
    [.insert (1, 10), .insert (2, 11), .insert (1, 12), .insert (3, 13), .contains (.q 1),
     .take (.key (1, 99)), .replace (2, 50), .retain (fun k => k.1 != 2), .iter]
    ⟨Raw.new 2, {}⟩ [] :=
  set_history_from_new exEnv_lawful 2 {} ⟨rfl, rfl⟩ _

end Micromap.Props.C07
