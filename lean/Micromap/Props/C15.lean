/-
C15 — Clone is an equal, independent copy made with exactly one clone per element.

`cloneInto E src` is the model of `Map::clone` (`Set::clone` is the same function at `V = ()`):
it runs on a fresh local `Raw.new src.cap` (the state's register) with the container being
cloned, `src`, as an immutably borrowed *argument*.  Hence `src` cannot change by construction
(it is not part of the state); the theorems show what ends up in the local, which user
callbacks ran, and what happens when one of them unwinds.
-/
import Micromap.Proofs.EqClone
import Micromap.Model.Step

namespace Micromap.Props.C15
open Micromap SetAlg EqClone
variable {K V Q : Type} (E : Env K V Q)

/-- In a world where no injected fault is armed an operation cannot unwind by injection. -/
theorem no_inj {s s' : St K V Q} {c} (hb : Benign s.w) (h : InjPanic s s' c) : False := h.2.1 hb.1

/-! ### reading clone effects off a trace -/

/-- the `(source, result)` pairs of the key clones in a trace, in order. -/
def keyClones (tr : List (Event K V Q)) : List (K × K) :=
  tr.filterMap fun | .cloneK a b => some (a, b) | _ => none

/-- the `(source, result)` pairs of the value clones in a trace, in order. -/
def valClones (tr : List (Event K V Q)) : List (V × V) :=
  tr.filterMap fun | .cloneV a b => some (a, b) | _ => none

/-- events that are not clones. -/
def nonClones (tr : List (Event K V Q)) : List (Event K V Q) :=
  tr.filter fun | .cloneK .. => false | .cloneV .. => false | _ => true

/-- the key-clone events of `cloneTrace` are, in slot order, (source key, cloned key). -/
theorem keyClones_cloneTrace : ∀ (l l' : List (K × V)),
    keyClones (cloneTrace E l l') = (l.zip l').map fun pp => (pp.1.1, pp.2.1)
  | [], _ => by simp [cloneTrace, keyClones]
  | _ :: _, [] => by simp [cloneTrace, keyClones]
  | p :: l, p' :: l' => by
    have ih := keyClones_cloneTrace l l'
    unfold keyClones at ih ⊢
    rw [cloneTrace_cons, List.filterMap_append, ih]
    unfold clonePairTr cloneVTr
    cases E.vGlue <;> simp

/-- the value-clone events of `cloneTrace` are, in slot order, (source value, cloned value) —
    none for `V = ()`. -/
theorem valClones_cloneTrace : ∀ (l l' : List (K × V)),
    valClones (cloneTrace E l l') =
      if E.vGlue then (l.zip l').map fun pp => (pp.1.2, pp.2.2) else []
  | [], _ => by simp [cloneTrace, valClones]
  | _ :: _, [] => by simp [cloneTrace, valClones]
  | p :: l, p' :: l' => by
    have ih := valClones_cloneTrace l l'
    unfold valClones at ih ⊢
    rw [cloneTrace_cons, List.filterMap_append, ih]
    unfold clonePairTr cloneVTr
    cases E.vGlue <;> simp

/-- `cloneTrace` contains nothing but clone events. -/
theorem nonClones_cloneTrace : ∀ (l l' : List (K × V)), nonClones (cloneTrace E l l') = []
  | [], _ => by simp [cloneTrace, nonClones]
  | _ :: _, [] => by simp [cloneTrace, nonClones]
  | p :: l, p' :: l' => by
    have ih := nonClones_cloneTrace l l'
    unfold nonClones at ih ⊢
    rw [cloneTrace_cons, List.filter_append, ih]
    unfold clonePairTr cloneVTr
    cases E.vGlue <;> simp

/-! ### the clone -/

/-- **Contents and effects.**  In a benign world (any `Eq` oracle: `clone` compares nothing),
    cloning a well-formed `src` (holding `l`) into a fresh local of the same capacity returns,
    and the local then holds a list `l'` of the same length and capacity whose `i`-th entry is
    the user-clone of the `i`-th entry of `src`; the effect trace is exactly
    `cloneTrace E l l'`: for every stored entry, in slot order, one `cloneK src dst` followed (when
    `V ≠ ()`) by one `cloneV src dst`, whose `dst` objects are the entries of `l'`.  All other
    slots of the local are dead.  `src` is an argument and is therefore unchanged. -/
theorem clone_spec {src : Raw K V} {l : List (K × V)} (hsrc : Rep src l) {s : St K V Q}
    (hs : s.r = Raw.new src.cap) (hw : Benign s.w) :
    ∃ s' l', cloneInto E src s = .ok () s' ∧ Rep s'.r l' ∧ s'.r.cap = src.cap ∧
      (∀ j, l'.length ≤ j → s'.r.slots j = none) ∧
      l'.length = l.length ∧
      (∀ i (hi : i < l.length) (hi' : i < l'.length), IsCloneOf E l[i] l'[i]) ∧
      WRel s.w s'.w (cloneTrace E l l') := by
  have hf : Fresh s.r [] := hs ▸ Fresh.new _
  obtain ⟨_, s', h1, h2, l', h3, h4, h5⟩ := (cloneInto_sat E hsrc hf (by rw [hs]; rfl)).must_return (by
    intro c s' ⟨_, hi, _⟩; exact no_inj hw hi)
  exact ⟨s', l', h1, h3.1, h2, h3.2, h4.length_eq, h4.get, h5⟩

/-- **Exactly one clone per key and per value.**  The key-clone events of the run are, in slot
    order, `(l[i].1, l'[i].1)`; the value-clone events are `(l[i].2, l'[i].2)` (none at all for
    `V = ()`); and the run has no other effect (no drop, no closure call, no second clone).
    So every stored key and value is the source of exactly one clone and every object of the
    new container is the result of exactly one. -/
theorem clone_one_per_element (l l' : List (K × V)) (hlen : l'.length = l.length) :
    (keyClones (cloneTrace E l l')).map (·.1) = l.map (·.1) ∧
    (keyClones (cloneTrace E l l')).map (·.2) = l'.map (·.1) ∧
    (valClones (cloneTrace E l l')).map (·.1) = (if E.vGlue then l.map (·.2) else []) ∧
    (valClones (cloneTrace E l l')).map (·.2) = (if E.vGlue then l'.map (·.2) else []) ∧
    nonClones (cloneTrace E l l') = [] := by
  have hz1 : (l.zip l').map (·.1) = l := List.map_fst_zip (by omega)
  have hz2 : (l.zip l').map (·.2) = l' := List.map_snd_zip (by omega)
  rw [keyClones_cloneTrace, valClones_cloneTrace, nonClones_cloneTrace]
  refine ⟨?_, ?_, ?_, ?_, rfl⟩
  · rw [List.map_map]
    conv => rhs; rw [← hz1, List.map_map]
    rfl
  · rw [List.map_map]
    conv => rhs; rw [← hz2, List.map_map]
    rfl
  · split
    · rw [List.map_map]
      conv => rhs; rw [← hz1, List.map_map]
      rfl
    · rfl
  · split
    · rw [List.map_map]
      conv => rhs; rw [← hz2, List.map_map]
      rfl
    · rfl

/-- the number of clone callbacks: `len` key clones, and `len` value clones (0 for sets). -/
theorem clone_counts (l l' : List (K × V)) (hlen : l'.length = l.length) :
    (keyClones (cloneTrace E l l')).length = l.length ∧
    (valClones (cloneTrace E l l')).length = (if E.vGlue then l.length else 0) := by
  rw [keyClones_cloneTrace, valClones_cloneTrace]
  constructor
  · simp [List.length_zip, hlen]
  · split <;> simp [List.length_zip, hlen]

/-- **The clone compares equal to the original** (list level): with a lawful `Eq`, unique keys,
    and a `Clone` whose results compare equal to their sources (`k.clone() == k`,
    `v.clone() == v` and `v == v.clone()`), `original == clone` and `clone == original`. -/
theorem clone_eq_code (hE : E.Lawful) (hk : ∀ n k, E.keq (E.clK n k) k = true)
    (hv : ∀ n v, E.eqV (E.clV n v) v = true) (hv' : ∀ n v, E.eqV v (E.clV n v) = true)
    {l l' : List (K × V)} (hc : ClonesOf E l l') (hn : NodupKeys E.keq l) :
    mapEqCode E.keq (veq E) l l' = true ∧ mapEqCode E.keq (veq E) l' l = true ∧
      NodupKeys E.keq l' :=
  ⟨mapEqCode_clone hE hk hv hc hn, mapEqCode_clone' hE hk hv' hc hn, hc.nodupKeys hE hk hn⟩

/-- **The clone compares equal to the original** (model level): after `clone`, running
    `Map::eq` on `src` and the new container — in either direction, in any benign state —
    returns `true`; the clone again has unique keys, and represents the same dictionary
    (`MapExtEq`). -/
theorem clone_eq_original (hE : E.Lawful) (hk : ∀ n k, E.keq (E.clK n k) k = true)
    (hv : ∀ n v, E.eqV (E.clV n v) v = true) (hv' : ∀ n v, E.eqV v (E.clV n v) = true)
    {src : Raw K V} {l : List (K × V)} (hsrc : Rep src l) (hn : NodupKeys E.keq l)
    {s : St K V Q} (hs : s.r = Raw.new src.cap) (hw : Benign s.w) :
    ∃ s' l', cloneInto E src s = .ok () s' ∧ Rep s'.r l' ∧ NodupKeys E.keq l' ∧
      MapExtEq E.keq (veq E) l l' ∧
      ∀ t : St K V Q, Benign t.w →
        (∃ t', mapEq E src s'.r t = .ok true t' ∧ t'.r = t.r) ∧
        (∃ t', mapEq E s'.r src t = .ok true t' ∧ t'.r = t.r) := by
  have hf : Fresh s.r [] := hs ▸ Fresh.new _
  obtain ⟨_, s', h1, h2, l', h3, h4, h5⟩ := (cloneInto_sat E hsrc hf (by rw [hs]; rfl)).must_return (by
    intro c s' ⟨_, hi, _⟩; exact no_inj hw hi)
  obtain ⟨e1, e2, hn'⟩ := clone_eq_code E hE hk hv hv' h4 hn
  refine ⟨s', l', h1, h3.1, hn', (mapEqCode_iff hE.equivB (veq E) l l' hn hn').mp e1, fun t ht => ⟨?_, ?_⟩⟩
  · obtain ⟨r, t', g1, g2, _, g4⟩ := (mapEq_cb E hsrc h3.1 t).must_return (by
      intro c t' ⟨_, _, g3, _⟩; exact g3 ht.1)
    rw [g4 hE.toPure, e1] at g1
    exact ⟨t', g1, g2⟩
  · obtain ⟨r, t', g1, g2, _, g4⟩ := (mapEq_cb E h3.1 hsrc t).must_return (by
      intro c t' ⟨_, _, g3, _⟩; exact g3 ht.1)
    rw [g4 hE.toPure, e2] at g1
    exact ⟨t', g1, g2⟩

/-- the objects (keys and values) a list of entries owns. -/
def objsOf (l : List (K × V)) : List (Obj K V) := l.flatMap fun p => [.k p.1, .v p.2]

/-- the objects destroyed by a trace. -/
def droppedObjs (tr : List (Event K V Q)) : List (Obj K V) :=
  tr.filterMap fun | .dropK k => some (.k k) | .dropV v => some (.v v) | _ => none

/-- dropping a list of entries destroys exactly the objects it owns, each once, in slot order. -/
theorem droppedObjs_dropTrace (hg : E.vGlue = true) : ∀ l : List (K × V),
    droppedObjs (dropTrace E l : List (Event K V Q)) = objsOf l
  | [] => rfl
  | p :: l => by
    have ih := droppedObjs_dropTrace hg l
    unfold droppedObjs dropTrace objsOf at ih ⊢
    rw [List.flatMap_cons, List.filterMap_append, ih]
    simp [dropVTr, hg]

/-- **Independence.**  The new container lives in a different register (the state of the run),
    `src` is a value the run cannot write to, and the two share no object: the entries of the
    clone are exactly the `dst` objects of the clone events (`clone_one_per_element`).
    Consequently destroying either container destroys only its own objects, each exactly once:
    dropping the clone yields the drop effects of `l'`, dropping the original those of `l`,
    and neither run can reach `ub` (no slot is dropped twice). -/
theorem clone_independent {src : Raw K V} {l : List (K × V)} (hsrc : Rep src l) {s : St K V Q}
    (hs : s.r = Raw.new src.cap) (hw : Benign s.w) :
    ∃ s' l', cloneInto E src s = .ok () s' ∧ Rep s'.r l' ∧ Rep src l ∧
      keyClones (cloneTrace E l l') = (l.zip l').map (fun pp => (pp.1.1, pp.2.1)) ∧
      WRel s.w s'.w (cloneTrace E l l') ∧
      -- dropping the clone (in the world after the clone)
      (∃ s2, dropMap E s' = .ok () s2 ∧ WRel s'.w s2.w (dropTrace E l') ∧
        (E.vGlue = true → droppedObjs (dropTrace E l' : List (Event K V Q)) = objsOf l')) ∧
      -- dropping the original instead
      (∃ s3, dropMap E ⟨src, s'.w⟩ = .ok () s3 ∧ WRel s'.w s3.w (dropTrace E l) ∧
        (E.vGlue = true → droppedObjs (dropTrace E l : List (Event K V Q)) = objsOf l)) := by
  obtain ⟨s', l', h1, h2, _, _, _, _, h7⟩ := clone_spec E hsrc hs hw
  have hw' : Benign s'.w := h7.benign hw
  refine ⟨s', l', h1, h2, hsrc, keyClones_cloneTrace E l l', h7, ?_, ?_⟩
  · obtain ⟨_, s2, g1, _, _, _, g5⟩ := (dropMap_sat E h2).must_return (by
      intro c s2 ⟨_, _, hi⟩; exact no_inj hw' hi)
    exact ⟨s2, g1, g5, fun hg => droppedObjs_dropTrace E hg l'⟩
  · obtain ⟨_, s3, g1, _, _, _, g5⟩ := (dropMap_sat E (s := ⟨src, s'.w⟩) hsrc).must_return (by
      intro c s2 ⟨_, _, hi⟩; exact no_inj hw' hi)
    exact ⟨s3, g1, g5, fun hg => droppedObjs_dropTrace E hg l⟩

/-- **Exception safety: any `Eq` oracle, any injection point, any `Clone` results.**
    `clone` of a memory-safe `src` never reaches `ub`.  It either returns with a well-formed
    local of the same capacity holding an element-wise clone, or unwinds — only by an injected
    panic inside a user `clone` — and then the partially built local has been dropped: no slot
    of it is live any more, the objects `lq` it held were dropped (their drop effects end the
    trace), and the fresh key of a pair whose value clone panicked was dropped by `clonePair`.
    (The repaired `clone` publishes `len` slot by slot: the loop invariant is `Rep local prefix`.) -/
theorem clone_exception_safe {src : Raw K V} (hsrc : Safe src) {s : St K V Q}
    (hs : s.r = Raw.new src.cap) :
    Sat (cloneInto E src) s
      (fun _ s' => Safe s'.r ∧ s'.r.cap = src.cap ∧ s'.r.len = src.len)
      (fun c s' => InjPanic s s' c ∧ s'.r.cap = src.cap ∧ (∀ j, s'.r.slots j = none) ∧
        ∃ lq tr, Dropped s'.r lq ∧ WRel s.w s'.w (tr ++ dropTrace E lq)) := by
  have hf : Fresh s.r [] := hs ▸ Fresh.new _
  refine Sat.mono (cloneInto_sat E hsrc.rep hf (by rw [hs]; rfl)) ?_ ?_
  · intro _ s' ⟨h1, l', h2, h3, _⟩
    exact ⟨h2.1.safe, h1, by rw [h2.1.1, h3.length_eq, hsrc.rep.1]⟩
  · intro c s' ⟨h1, h2, h3, h4⟩
    exact ⟨h2, h1, h3, h4⟩

/-! ### sets: `V = ()` -/

/-- **`Set::clone`.**  The same function at `V = ()` (`E.toUnit`, no value glue): one `cloneK`
    per element in slot order and nothing else; the new set holds exactly the cloned keys. -/
theorem set_clone_spec {src : Raw K Unit} {l : List (K × Unit)} (hsrc : Rep src l)
    {s : St K Unit Q} (hs : s.r = Raw.new src.cap) (hw : Benign s.w) :
    ∃ s' l', cloneInto E.toUnit src s = .ok () s' ∧ Rep s'.r l' ∧ s'.r.cap = src.cap ∧
      l'.length = l.length ∧
      (∀ i (hi : i < l.length) (hi' : i < l'.length), ∃ n, l'[i].1 = E.clK n l[i].1) ∧
      WRel s.w s'.w ((l.zip l').map fun pp => Event.cloneK pp.1.1 pp.2.1) := by
  obtain ⟨s', l', h1, h2, h3, _, h5, h6, h7⟩ := clone_spec E.toUnit hsrc hs hw
  refine ⟨s', l', h1, h2, h3, h5, fun i hi hi' => (h6 i hi hi').1, ?_⟩
  have : cloneTrace E.toUnit l l' = (l.zip l').map fun pp => Event.cloneK pp.1.1 pp.2.1 := by
    unfold cloneTrace clonePairTr cloneVTr
    simp [Env.toUnit, List.flatMap_eq_foldl]
    induction (l.zip l') with
    | nil => rfl
    | cons a t ih => simp [ih]
  rw [← this]; exact h7

/-! Non-vacuity: concrete data meeting the hypotheses (tests, not proofs). -/

def exEnv : Env Nat Nat Nat :=
  { eqK := fun _ a b => a % 10 == b % 10, eqQ := fun _ a b => a % 10 == b % 10,
    eqV := fun a b => a % 10 == b % 10, borrow := id,
    clK := fun n k => k + 10 * (n + 1), clV := fun n v => v + 10 * (n + 1) }

def exSrc : Raw Nat Nat :=
  { cap := 3, len := 2, slots := fun i => if i = 0 then some (7, 1) else if i = 1 then some (8, 2) else none }

example : Rep exSrc [(7, 1), (8, 2)] :=
  ⟨rfl, by decide, fun i hi => by
    have : i = 0 ∨ i = 1 := by simp at hi; omega
    rcases this with rfl | rfl <;> rfl⟩
example : ∀ n k, exEnv.keq (exEnv.clK n k) k = true := by
  intro n k; simp [Env.keq, exEnv]
example : ∀ n v, exEnv.eqV (exEnv.clV n v) v = true := by
  intro n v; simp [exEnv]
example : ∀ n v, exEnv.eqV v (exEnv.clV n v) = true := by
  intro n v; simp [exEnv]
example : NodupKeys exEnv.keq [(7, 1), (8, 2)] := by
  simp [NodupKeys, NodupB, Env.keq, exEnv]
example : Benign ({} : World Nat Nat Nat) := ⟨rfl, rfl⟩
end Micromap.Props.C15
