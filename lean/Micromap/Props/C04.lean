/-
C04 — A panic in user code never corrupts a container (exception safety).

User code enters the model through callbacks (`eqK`/`eqQ`/`eqV`, `cloneK`/`cloneV`, `dropK`/`dropV`,
`callF` for retain predicates and entry closures, `pullSrc` for source iterators); every callback
passes through `tick`, the single place where the injected panic of `World.inject = some j`
fires (at the `j`-th callback from now).  Unwinding is explicit (`unwindWith`): the locals still
owned are dropped, a partially built local container is dropped by `dropMap`.
The theorems quantify over EVERY world, hence every injection point `j` (and every operation,
every state satisfying the invariant, every capacity, both profiles, any oracle).
The model is of the repaired code (`fix:` commits f1d9076, 09f1297, 992fc5c in /repo); the three
defects are kept as replay files in `/verif/corpus/c04-*.ops`.
-/
import Micromap.Proofs.SysInv
import Micromap.Model.Legacy

namespace Micromap.Props.C04
open Micromap SetAlg Dict
variable {K V Q : Type} (E : Env K V Q) (R : Render K V)

/-- **One operation, any injection point.**  From registers satisfying the invariant, whatever
    callback of the operation panics: the step does not reach `ub` (no dead or uninitialised slot
    is read, compared, returned or dropped — in particular no element is destroyed twice), and
    afterwards every register — including the target of a partially built `clone`, `collect` or
    `&a - &b`, whose local was dropped while unwinding — satisfies the invariant again
    (`len ≤ cap`, all slots below `len` live, keys unique for a lawful key type). -/
theorem step_panic_safe {sys : Sys K V Q} (hs : SysInv E sys) (j : Nat) (op : Op K V Q)
    (hop : op.safeApi = true) :
    let armed := (step E R sys (.inject j)).1
    (step E R armed op).2.outcome ≠ .ub ∧ SysInv E (step E R armed op).1 := by
  intro armed
  have h1 := step_inv E R hs (.inject j) rfl
  exact step_inv E R h1.2 op hop

/-- the world really is armed by `inject j` (the hypothesis above is not vacuous). -/
theorem inject_arms (sys : Sys K V Q) (j : Nat) : (step E R sys (.inject j)).1.w.inject = some j := rfl

/-- **After unwinding the containers can be used and dropped normally**: any further history —
    more operations, more injected panics, the final drops of all registers (`endCase`) — still
    never reaches `ub` and keeps the invariant.  (No double drop "later".) -/
theorem run_panic_safe {sys : Sys K V Q} (hs : SysInv E sys) (ops : List (Op K V Q))
    (hops : ∀ op, op ∈ ops → op.safeApi = true) :
    (∀ o, o ∈ (run E R sys (ops ++ [.endCase])).2 → o.outcome ≠ .ub) ∧
    SysInv E (run E R sys (ops ++ [.endCase])).1 := by
  refine run_inv E R _ sys hs ?_
  intro op hop
  rcases List.mem_append.mp hop with h | h
  · exact hops op h
  · have : op = .endCase := by simpa using h
    subst this; rfl

/-! ### `a.extend(b)` with the set `b` moved in

`Extend<T> for Set<T, N>` fed with another set is a loop over TWO containers: the consuming
iterator owns what is left of `b`, `insert` works on `a`.  If the user's `==` panics inside
`a.insert(k)` (or `a` is full: the container's own panic), `insert` unwinds — dropping the key
it was given — and the iterator is dropped during the unwinding, i.e. the rest of `b` is dropped
(`Model/Sys.lean`, `extendFromLoop`).  The model operation is `Op.set i (.extend_from j)`; it is part
of the safe API, so `step_inv` / `run_inv` cover it. -/

/-- `extend_from` is in the scope of the system-level theorems. -/
example (i j : Nat) : (Op.set i (.extend_from j) : Op K V Q).safeApi = true := rfl

/-- **A panic of the user's `==` (or the destination's overflow) in the middle of `a.extend(b)`
    leaves both sets well-formed and destroys nothing twice.**  From registers satisfying the
    invariant, with a panic armed at ANY callback `n` (the `n`-th `==` of the scans inside the
    `insert`s), any user equality, either profile: the step does not reach `ub` — no dead slot of
    `a` or `b` is read, compared or dropped, in particular the clean-up drop of the rest of `b`
    touches only live slots, each once — and afterwards EVERY register satisfies the invariant
    again: `a` (with the keys that went in before the panic), `b` (a fresh `new()`: consumed), and
    the registers not involved. -/
theorem extend_from_panic_safe {sys : Sys K V Q} (hs : SysInv E sys) (n : Nat) (i j : Nat) :
    let armed := (step E R sys (.inject n)).1
    (step E R armed (.set i (.extend_from j))).2.outcome ≠ .ub ∧
      SysInv E (step E R armed (.set i (.extend_from j))).1 :=
  step_panic_safe E R hs n (.set i (.extend_from j)) rfl

/-- … and both sets can be used and dropped normally afterwards: any further history (more
    operations, more injected panics) and the final drops of all registers never reach `ub` — no
    element of `a` or `b` is destroyed a second time "later". -/
theorem extend_from_panic_then_any_history {sys : Sys K V Q} (hs : SysInv E sys) (n : Nat) (i j : Nat)
    (ops : List (Op K V Q)) (hops : ∀ op, op ∈ ops → op.safeApi = true) :
    (∀ o, o ∈ (run E R sys (.inject n :: .set i (.extend_from j) :: ops ++ [.endCase])).2 → o.outcome ≠ .ub) ∧
    SysInv E (run E R sys (.inject n :: .set i (.extend_from j) :: ops ++ [.endCase])).1 := by
  refine run_panic_safe E R hs (.inject n :: .set i (.extend_from j) :: ops) ?_
  intro op hop
  simp only [List.mem_cons] at hop
  rcases hop with rfl | rfl | h
  · rfl
  · rfl
  · exact hops op h

/-- the loop itself, on the pair (source, destination), in ANY world: whether it returns or
    unwinds (injected panic inside `insert`, or overflow), both registers satisfy the invariant and
    keep their capacities; it never reaches `ub` — the clean-up drop runs in unwinding mode and
    completes. -/
theorem extend_from_loop_safe (F : Env K Unit Q) (fuel : Nat) {rs : Raw K Unit} {sd : St K Unit Q}
    (hsrc : Inv F rs) (hdst : Inv F sd.r) :
    PairInv F rs.cap sd.r.cap (extendFromLoop F fuel rs sd) :=
  extendFromLoop_inv F fuel rs sd hsrc hdst

/-- per container operation: the triple of `clear` (repaired): whether it returns or a `Drop`
    unwinds, the map is empty and well-formed — the old elements are never reachable again. -/
theorem clear_exception_safe {s : St K V Q} {l : List (K × V)} (hr : Rep s.r l) :
    Sat (clear E) s (fun _ s' => Rep s'.r [] ∧ s'.r.cap = s.r.cap)
      (fun _ s' => Rep s'.r [] ∧ s'.r.cap = s.r.cap) :=
  Sat.mono (clear_sat E hr) (fun _ _ h => ⟨h.1, h.2.1⟩) (fun _ _ h => ⟨h.1, h.2.1⟩)

/-- `retain` (repaired `remove_index_drop`: compact first, drop afterwards): a panicking predicate
    or a panicking `Drop` of a removed element leaves a well-formed map. -/
theorem retain_exception_safe (f : Nat → K → V → Bool × V) {s : St K V Q} {l : List (K × V)}
    (hr : Rep s.r l) :
    Sat (retain E f) s (fun _ s' => ∃ l', Rep s'.r l' ∧ l'.length ≤ l.length ∧ s'.r.cap = s.r.cap)
      (fun _ s' => ∃ l', Rep s'.r l' ∧ l'.length ≤ l.length ∧ s'.r.cap = s.r.cap) :=
  Sat.mono (retain_sat E f (fun k v => f 0 k v) hr)
    (fun _ _ ⟨hc, _, l', h1, h2, _⟩ => ⟨l', h1, h2, hc⟩)
    (fun _ _ ⟨hc, _, l', h1, h2, _⟩ => ⟨l', h1, h2, hc⟩)

/-- `clone` (repaired: `len` is published slot by slot): a panicking `Clone` never makes the
    unwinding drop run on uninitialised slots (no `ub`); the half-built local is dropped. -/
theorem clone_exception_safe {src : Raw K V} (hsrc : Inv E src) (w : World K V Q) :
    Sat (cloneInto E src) ⟨Raw.new src.cap, w⟩ (fun _ s' => Inv E s'.r ∧ s'.r.cap = src.cap)
      (fun _ _ => True) :=
  cloneInto_inv E hsrc w

/-! ### the three defects of the pinned tree, formally (negative theorems by concrete witness)

`Model/Legacy.lean` mirrors `clear`, `remove_index_drop` and `clone` as they were before the `fix:`
commits.  Each admits a well-formed map and an injection point after which a dead or
uninitialised slot is dropped — the model's `ub`.  The repaired functions (above) do not. -/

/-- integers as keys/values, honest `==`. -/
def nEnv : Env Nat Nat Nat :=
  { eqK := fun _ a b => a == b, eqQ := fun _ a b => a == b, eqV := fun a b => a == b, borrow := id,
    clK := fun _ k => k, clV := fun _ v => v }

/-- a map `{7: 70, 8: 80}` of capacity 3. -/
def twoRaw : Raw Nat Nat :=
  { cap := 3, len := 2, slots := fun i => if i = 0 then some (7, 70) else if i = 1 then some (8, 80) else none }

def isUb {σ α : Type} : Res σ α → Bool
  | .ub => true
  | _ => false

/-- pre-fix `clear`: the `Drop` of the first value panics (2nd callback); `len` is still 2 although
    slot 0 is dead, so dropping the map afterwards destroys slot 0 a second time. -/
theorem legacy_clear_double_drop :
    (match Legacy.clear nEnv ⟨twoRaw, { inject := some 1 }⟩ with
      | .panic _ s' => s'.r.len == 2 && (s'.r.slots 0).isNone && isUb (dropMap nEnv s')
      | _ => false) = true := by decide

/-- the repaired `clear` on the same input: the map is empty, dropping it is fine. -/
theorem fixed_clear_ok :
    (match Micromap.clear nEnv ⟨twoRaw, { inject := some 1 }⟩ with
      | .panic _ s' => s'.r.len == 0 && !isUb (dropMap nEnv s')
      | _ => false) = true := by decide

/-- pre-fix `remove_index_drop` (behind `retain`): the `Drop` of the removed value panics; the dead
    slot stays below `len` and is dropped again with the map. -/
theorem legacy_retain_double_drop :
    (match Legacy.remove_index_drop nEnv 0 ⟨twoRaw, { inject := some 1 }⟩ with
      | .panic _ s' => s'.r.len == 2 && (s'.r.slots 0).isNone && isUb (dropMap nEnv s')
      | _ => false) = true := by decide

theorem fixed_remove_index_drop_ok :
    (match Micromap.remove_index_drop nEnv 0 ⟨twoRaw, { inject := some 1 }⟩ with
      | .panic _ s' => s'.r.len == 1 && !isUb (dropMap nEnv s')
      | _ => false) = true := by decide

/-- pre-fix `clone`: `Clone` of the second key panics (3rd callback); the half-built local has
    `len = 2` but only slot 0 written, and the unwinding drop reads the uninitialised slot 1. -/
theorem legacy_clone_drops_uninit :
    isUb (Legacy.cloneInto nEnv twoRaw ⟨Raw.new 3, { inject := some 2 }⟩) = true := by decide +kernel

theorem fixed_clone_ok :
    isUb (Micromap.cloneInto nEnv twoRaw ⟨Raw.new 3, { inject := some 2 }⟩) = false := by decide +kernel

/-! ### non-vacuity (tests) -/

example : (step (K := Nat) (V := Nat) (Q := Nat)
    { eqK := fun _ a b => a == b, eqQ := fun _ a b => a == b, eqV := fun a b => a == b, borrow := id,
      clK := fun _ k => k, clV := fun _ v => v }
    { dbgK := fun _ => toString, dbgV := fun _ => toString, dspK := toString, dspV := toString }
    (Sys.init (fun _ => 2) (fun _ => 2) {}) (.inject 0)).1.w.inject = some 0 := rfl

/-- the scenario of the driver script: `a = {0}` (capacity 2), `b = {1, 10, 3}` with `10 ≡ 0`; the
    second `==` of `a.extend(b)` panics (inside the `insert` of `10`).  The step unwinds with the
    injected panic; `a` holds two elements (`3` went in before), `b` is empty, and the final drop of
    all registers is clean (no `ub`, nothing leaked). -/
def xEnv : Env Nat Nat Nat :=
  { eqK := fun _ a b => a % 10 == b % 10, eqQ := fun _ a b => a % 10 == b % 10, eqV := fun a b => a == b,
    borrow := id, clK := fun _ k => k, clV := fun _ v => v }

def xR : Render Nat Nat :=
  { dbgK := fun _ _ => "", dbgV := fun _ _ => "", dspK := fun _ => "", dspV := fun _ => "" }

def xOps : List (Op Nat Nat Nat) :=
  [.set 0 (.insert 0), .set 1 (.insert 1), .set 1 (.insert 10), .set 1 (.insert 3), .inject 1,
   .set 0 (.extend_from 1), .endCase]

example :
    let r := run xEnv xR (Sys.init (fun _ => 0) (fun i => if i = 0 then 2 else 3) {}) xOps
    (r.2.map (·.outcome) = [.ok, .ok, .ok, .ok, .ok, .panic .inject, .ok]) ∧
    (r.2.map (·.leaks.length)).getLast? = some 0 := by decide +kernel

example :
    let r := run xEnv xR (Sys.init (fun _ => 0) (fun i => if i = 0 then 2 else 3) {}) xOps.dropLast
    ((r.1.sets 0).len, (r.1.sets 1).len, (r.1.sets 0).slots 1, (r.1.sets 1).slots 0) =
      (2, 0, some (3, ()), none) := by decide +kernel

end Micromap.Props.C04
