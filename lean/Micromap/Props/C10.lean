/-
C10 — Consuming iterators and drain yield exactly the contents; drain always empties.

Property theorems only (helper lemmas live in `Micromap/Proofs/Iters.lean`).  All statements are
about the L0 model functions `intoIterNext`, `intoIterNextK`, `intoIterTake`, `intoIterOp`,
`drainStart`, `drainNext`, `drainTake`, `drainOp` that `step` executes for `into_iter`, `into_keys`,
`into_values`, `drain` (and, at `V = Unit` with `E.vGlue = false`, for `SetIntoIter` / `SetDrain`:
the theorems are generic in `V` and `E`).  They hold for every capacity and every content `l`
(any state with `Rep s.r l`), every `Env`, both profiles; the world is `Benign` where an exact
result is claimed and arbitrary (injection armed at any callback) in the exception-safety versions.
-/
import Micromap.Proofs.Iters
import Micromap.Proofs.StdIter

namespace Micromap.Props.C10
open Micromap Micromap.Iters
variable {K V Q : Type} (E : Env K V Q)

/-- In a world where no injected fault is armed an operation cannot unwind by injection. -/
theorem no_inj {s s' : St K V Q} {c} (hb : Benign s.w) (h : InjPanic s s' c) : False := h.2.1 hb.1

/-! ### `into_iter` -/

/-- `IntoIter::next` pops from the end: on a non-empty map it returns the entry in the last live
    slot and leaves the map without it (`len` one smaller: the exact remaining length); on an empty
    map it returns `None` and changes nothing.  No callback: this holds in every world. -/
theorem into_iter_next {s : St K V Q} {l : List (K × V)} (hr : Rep s.r l) :
    ∃ s', intoIterNext s = .ok l.getLast? s' ∧ Rep s'.r l.dropLast ∧ s'.r.cap = s.r.cap ∧
      s'.w = s.w ∧ (l = [] → s' = s) :=
  intoIterNext_spec hr

/-- the non-empty case spelled out: `some l[|l|-1]`. -/
theorem into_iter_next_nonempty {s : St K V Q} {l : List (K × V)} (hr : Rep s.r l) (hne : 0 < l.length) :
    ∃ s', intoIterNext s = .ok (some (l[l.length - 1]'(by omega))) s' ∧ Rep s'.r l.dropLast ∧
      s'.r.len = l.length - 1 := by
  obtain ⟨s', e, h1, _⟩ := intoIterNext_spec hr
  rw [getLast?_eq_getElem hne] at e
  exact ⟨s', e, h1, by rw [h1.1]; simp⟩

/-- after the end: `None` forever (each further call returns `None` and leaves the state as is). -/
theorem into_iter_none_forever {s : St K V Q} (hr : Rep s.r []) (kind : IntoKind) (n : Nat) :
    intoIterNext s = .ok none s ∧ intoIterTake E kind n s = .ok [] s := by
  obtain ⟨s', e, _, _, _, h⟩ := intoIterNext_spec hr
  have e' : intoIterNext s = .ok none s := by rw [e, h rfl]; rfl
  refine ⟨e', ?_⟩
  cases n with
  | zero => rfl
  | succ n => simp [intoIterTake, intoIterNextK, e']

/-- `into_iter()` followed by `n` calls of `next`, in EVERY world (pairs are handed out whole, no
    user code runs): the items are the last `n` entries, last first — each entry at most once, and
    nothing that was not stored; what is left in the map is the untouched front, so `len()` of the
    iterator is exactly `|l| - n`. -/
theorem into_iter_take_pairs (n : Nat) {s : St K V Q} {l : List (K × V)} (hr : Rep s.r l) :
    ∃ s', intoIterTake E .pairs n s = .ok (l.reverse.take n) s' ∧
      Rep s'.r (l.take (l.length - n)) ∧ s'.r.len = l.length - n ∧ s'.r.cap = s.r.cap := by
  obtain ⟨a, s', e, h1, h2, h3, _⟩ := (intoIterTake_sat E .pairs n s l hr).must_return (by
    intro c s' ⟨_, _, h, _⟩; exact h rfl)
  subst h1
  exact ⟨s', e, h2, by rw [h2.1, List.length_take]; omega, h3⟩

/-- `into_keys()` / `into_values()` (and `into_iter()`) in a benign world: the same items in the
    same order, the same remainder, and the effects are exactly one drop of the discarded half
    (`dropV` of the value for `into_keys`, `dropK` of the key for `into_values`, nothing for
    `into_iter`) per yielded item, in yield order. -/
theorem into_iter_take (kind : IntoKind) (n : Nat) {s : St K V Q} {l : List (K × V)} (hr : Rep s.r l)
    (hb : Benign s.w) :
    ∃ s', intoIterTake E kind n s = .ok (l.reverse.take n) s' ∧
      Rep s'.r (l.take (l.length - n)) ∧ s'.r.len = l.length - n ∧ s'.r.cap = s.r.cap ∧
      WRel s.w s'.w ((l.reverse.take n).flatMap (discardTr E kind)) := by
  obtain ⟨a, s', e, h1, h2, h3, h4⟩ := (intoIterTake_sat E kind n s l hr).must_return (by
    intro c s' ⟨_, h, _⟩; exact no_inj hb h)
  subst h1
  exact ⟨s', e, h2, by rw [h2.1, List.length_take]; omega, h3, h4⟩

/-- the discarded halves: `IntoKeys` drops each yielded entry's value once (nothing when `V` has no
    drop glue, e.g. `V = ()` for sets), `IntoValues` drops each yielded entry's key once. -/
theorem discarded_halves (p : K × V) :
    discardTr E .pairs p = [] ∧ discardTr E .keys p = dropVTr E p.2 ∧
    discardTr E .values p = [.dropK p.1] ∧
    (E.vGlue = true → discardTr E .keys p = [.dropV p.2]) ∧
    (E.vGlue = false → discardTr E .keys p = []) := by
  refine ⟨rfl, rfl, rfl, fun h => ?_, fun h => ?_⟩ <;> simp [discardTr, dropVTr, h]

/-- consuming the iterator to the end yields every entry exactly once — the list `l` reversed —
    and leaves the map empty. -/
theorem into_iter_all (kind : IntoKind) {n : Nat} {s : St K V Q} {l : List (K × V)} (hr : Rep s.r l)
    (hb : Benign s.w) (hn : l.length ≤ n) :
    ∃ s', intoIterTake E kind n s = .ok l.reverse s' ∧ Rep s'.r [] := by
  obtain ⟨s', e, h1, _⟩ := into_iter_take E kind n hr hb
  rw [List.take_of_length_le (by simpa using hn)] at e
  have : l.length - n = 0 := by omega
  rw [this, List.take_zero] at h1
  exact ⟨s', e, h1⟩

/-- nothing is lost and nothing is invented at any cut point: the front that is still in the map
    followed by the yielded items in reverse yield order is the original list. -/
theorem into_iter_partition (l : List (K × V)) (n : Nat) :
    l.take (l.length - n) ++ (l.reverse.take n).reverse = l := by
  rw [List.take_reverse, List.reverse_reverse, List.take_append_drop]

/-- exception safety of `next`: in any world, if the drop of a discarded half unwinds, the map
    behind the iterator is still well-formed (a shorter front of `l`); never `ub`. -/
theorem into_iter_take_any_world (kind : IntoKind) (n : Nat) {s : St K V Q} {l : List (K × V)}
    (hr : Rep s.r l) :
    Sat (intoIterTake E kind n) s
      (fun items s' => items = l.reverse.take n ∧ Rep s'.r (l.take (l.length - n)) ∧ s'.r.cap = s.r.cap)
      (fun c s' => InjPanic s s' c ∧ s'.r.cap = s.r.cap ∧ ∃ m, m < l.length ∧ Rep s'.r (l.take m)) :=
  Sat.mono (intoIterTake_sat E kind n s l hr) (fun _ _ ⟨h1, h2, h3, _⟩ => ⟨h1, h2, h3⟩)
    (fun _ _ ⟨h1, h2, _, h4⟩ => ⟨h2, h1, h4⟩)

/-- the composite operation (`into_*()`, `take` calls of `next`, then the iterator is dropped or
    forgotten) in ANY world: never `ub`; whether it returns or unwinds, the register afterwards holds
    a fresh `new()` of the same capacity — the map was consumed, exactly. -/
theorem into_iter_op_any_world (kind : IntoKind) (take : Nat) (forget : Bool) {s : St K V Q}
    {l : List (K × V)} (hr : Rep s.r l) :
    Sat (intoIterOp E kind take forget) s
      (fun res s' => res = (l.reverse.take take, l.length - take, l.take (l.length - take)) ∧
        s'.r = Raw.new s.r.cap)
      (fun c s' => s'.r = Raw.new s.r.cap ∧ InjPanic s s' c) :=
  Sat.mono (intoIterOp_sat E kind take forget hr) (fun _ _ ⟨h1, h2, _⟩ => ⟨h1, h2⟩) (fun _ _ h => h)

/-- the composite operation in a benign world: it returns the yielded items (last `take` entries,
    last first), the exact `len()` afterwards and the entries `Debug` shows (the untouched front);
    the effects are exactly: one drop of the discarded half per yielded item, then — unless the
    iterator is forgotten — one drop of every entry still in the map, in slot order.  Every entry
    is thus either yielded or dropped (or leaked by `forget`), none twice. -/
theorem into_iter_op (kind : IntoKind) (take : Nat) (forget : Bool) {s : St K V Q}
    {l : List (K × V)} (hr : Rep s.r l) (hb : Benign s.w) :
    ∃ s', intoIterOp E kind take forget s =
        .ok (l.reverse.take take, l.length - take, l.take (l.length - take)) s' ∧
      s'.r = Raw.new s.r.cap ∧
      WRel s.w s'.w ((l.reverse.take take).flatMap (discardTr E kind) ++
        if forget then [] else dropTrace E (l.take (l.length - take))) := by
  obtain ⟨a, s', e, h1, h2, h3⟩ := (intoIterOp_sat E kind take forget hr).must_return (by
    intro c s' ⟨_, h⟩; exact no_inj hb h)
  subst h1
  exact ⟨s', e, h2, h3⟩

/-! ### `drain` -/

/-- `drain()` publishes `len = 0` at once, reports the old length to the iterator (its `len()`
    before the first step is `|l|`) and touches no slot, the capacity or the world. -/
theorem drain_start {s : St K V Q} {l : List (K × V)} (hr : Rep s.r l) :
    ∃ s', drainStart s = .ok l.length s' ∧ s'.r.len = 0 ∧ s'.r.slots = s.r.slots ∧
      s'.r.cap = s.r.cap ∧ s'.w = s.w :=
  ⟨_, drainStart_ok hr, rfl, rfl, rfl, rfl⟩

/-- `n` calls of `Drain::next` after `drain()`: the first `n` entries in slot order, each once; the
    range still owned by the `Drain` is `[min n |l|, |l|)`, so its `len()` is exactly `|l| - n`; the
    container's `len` stays `0`. -/
theorem drain_take (n : Nat) {s : St K V Q} {l : List (K × V)} (hr : Rep s.r l) :
    ∃ s', (drainStart >>= fun hi => drainTake n 0 hi) s = .ok (l.take n, min n l.length) s' ∧
      s'.r.len = 0 ∧ s'.r.cap = s.r.cap ∧ s'.w = s.w ∧
      l.length - min n l.length = l.length - n := by
  obtain ⟨s', e, h1, h2, h3, _⟩ := drainTake_spec n l 0 l.length
    ({ s with r := { s.r with len := 0 } } : St K V Q) (by simp) hr.slots_at (by simpa using hr.2.1)
  refine ⟨s', ?_, h2, h3, h1, by omega⟩
  simp only [bind_apply, drainStart_ok hr, e, Nat.zero_add]

/-- `Drain::next` on an exhausted range returns `None` and changes nothing: `None` forever. -/
theorem drain_next_none_forever (n : Nat) (s : St K V Q) (m : Nat) :
    drainNext n n s = .ok none s ∧ drainTake m n n s = .ok ([], n) s := by
  have h := drainNext_end (lo := n) (hi := n) (by simp) s
  refine ⟨h, ?_⟩
  cases m with
  | zero => rfl
  | succ m => simp [drainTake, h]

/-- the composite operation `drain()`, `take` calls of `next`, then drop or forget the `Drain`, in
    ANY world (an element's `Drop` may unwind at any point) and for EVERY `take` and both endings:
    never `ub`, and — returning or unwinding — the container is empty (`Rep s'.r []`) with its
    capacity unchanged.  Since every operation's behaviour is determined by `Rep`, the drained
    container is indistinguishable from `new()`: fully reusable. -/
theorem drain_always_empties (take : Nat) (forget : Bool) {s : St K V Q} {l : List (K × V)}
    (hr : Rep s.r l) :
    Sat (drainOp E take forget) s
      (fun res s' => res = (l.take take, l.length - take, l.drop take) ∧ Rep s'.r [] ∧ s'.r.cap = s.r.cap)
      (fun c s' => Rep s'.r [] ∧ s'.r.cap = s.r.cap ∧ InjPanic s s' c) :=
  Sat.mono (drainOp_sat E take forget hr) (fun _ _ ⟨h1, h2, h3, _⟩ => ⟨h1, h2, h3⟩)
    (fun _ _ ⟨h1, h2, h3, _⟩ => ⟨h1, h2, h3⟩)

/-- the composite operation in a benign world: it returns the first `take` entries in slot order,
    the exact `len()` of the `Drain` at that point and what its `Debug` shows (`l.drop take`);
    dropping the `Drain` drops exactly the entries not yielded, once each, in slot order;
    forgetting it drops nothing (they leak — no double drop either way).  The map is empty. -/
theorem drain_op (take : Nat) (forget : Bool) {s : St K V Q} {l : List (K × V)} (hr : Rep s.r l)
    (hb : Benign s.w) :
    ∃ s', drainOp E take forget s = .ok (l.take take, l.length - take, l.drop take) s' ∧
      Rep s'.r [] ∧ s'.r.cap = s.r.cap ∧
      WRel s.w s'.w (if forget then [] else dropTrace E (l.drop take)) := by
  obtain ⟨a, s', e, h1, h2, h3, h4⟩ := (drainOp_sat E take forget hr).must_return (by
    intro c s' ⟨_, _, h, _⟩; exact no_inj hb h)
  subst h1
  exact ⟨s', e, h2, h3, h4⟩

/-- the two endings separately — dropped `Drain`: the entries not yielded are dropped once each, in
    slot order … -/
theorem drain_op_drop (take : Nat) {s : St K V Q} {l : List (K × V)} (hr : Rep s.r l) (hb : Benign s.w) :
    ∃ s', drainOp E take false s = .ok (l.take take, l.length - take, l.drop take) s' ∧
      Rep s'.r [] ∧ WRel s.w s'.w (dropTrace E (l.drop take)) := by
  obtain ⟨s', e, h1, _, h2⟩ := drain_op E take false hr hb
  exact ⟨s', e, h1, by simpa using h2⟩

/-- … forgotten `Drain`: no drop at all (the rest leaks), the map is empty all the same. -/
theorem drain_op_forget (take : Nat) {s : St K V Q} {l : List (K × V)} (hr : Rep s.r l) (hb : Benign s.w) :
    ∃ s', drainOp E take true s = .ok (l.take take, l.length - take, l.drop take) s' ∧
      Rep s'.r [] ∧ WRel s.w s'.w [] := by
  obtain ⟨s', e, h1, _, h2⟩ := drain_op E take true hr hb
  exact ⟨s', e, h1, by simpa using h2⟩

/-- a fully consumed drain yields exactly the contents, in slot order. -/
theorem drain_all {take : Nat} (forget : Bool) {s : St K V Q} {l : List (K × V)} (hr : Rep s.r l)
    (hb : Benign s.w) (hn : l.length ≤ take) :
    ∃ s', drainOp E take forget s = .ok (l, 0, []) s' ∧ Rep s'.r [] ∧ WRel s.w s'.w [] := by
  obtain ⟨s', e, h1, _, h2⟩ := drain_op E take forget hr hb
  rw [List.take_of_length_le hn, List.drop_eq_nil_of_le hn, show l.length - take = 0 by omega] at e
  refine ⟨s', e, h1, ?_⟩
  rw [List.drop_eq_nil_of_le hn] at h2
  cases forget <;> simpa [dropTrace] using h2

/-- nothing lost, nothing invented at any cut point: yielded prefix ++ dropped (or leaked) rest is
    the original list. -/
theorem drain_partition (l : List (K × V)) (take : Nat) : l.take take ++ l.drop take = l :=
  List.take_append_drop take l

/-- reuse: after a drain — however much of it was consumed, dropped or forgotten — the container
    accepts an insertion exactly as a fresh one does: with room for one entry, `insert` returns
    `None` and the map holds just that entry. -/
theorem drain_then_insert (take : Nat) (forget : Bool) {s : St K V Q} {l : List (K × V)}
    (hr : Rep s.r l) (hb : Benign s.w) (hcap : 0 < s.r.cap) (k : K) (v : V) :
    ∃ res s1 s2, drainOp E take forget s = .ok res s1 ∧ insert E k v s1 = .ok none s2 ∧
      Rep s2.r [(k, v)] ∧ s2.r.cap = s.r.cap := by
  obtain ⟨s1, e, h1, h2, h3⟩ := drain_op E take forget hr hb
  have hb1 : Benign s1.w := h3.benign hb
  obtain ⟨a, s2, e2, g1, g2⟩ := (insert_sat E h1 k v).must_return (by
    intro c s' ⟨_, h⟩
    rcases h with ⟨h, _⟩ | ⟨_, _, h, _⟩
    · exact no_inj hb1 h
    · simp at h; omega)
  rcases g2 with ⟨i, hi, _⟩ | ⟨ha, _, hrep, _⟩
  · simp at hi
  · subst ha
    exact ⟨_, s1, s2, e, e2, by simpa using hrep, by rw [g1, h2]⟩

/-! ### from `Safe` alone, and the `Set` instances -/

/-- memory safety with no hypothesis beyond `Safe` (any `==`, any profile, any armed injection):
    `drain` with any `take` / ending never reaches `ub` and leaves an empty, `Safe` container of the
    same capacity; `into_iter` / `into_keys` / `into_values` with any `take` / ending never reach `ub`
    and leave a fresh `new()` of the same capacity in the register. -/
theorem consuming_ops_safe (take : Nat) (forget : Bool) (kind : IntoKind) {s : St K V Q} (hs : Safe s.r) :
    Sat (drainOp E take forget) s (fun _ s' => Safe s'.r ∧ s'.r.len = 0 ∧ s'.r.cap = s.r.cap)
      (fun _ s' => Safe s'.r ∧ s'.r.len = 0 ∧ s'.r.cap = s.r.cap) ∧
    Sat (intoIterOp E kind take forget) s (fun _ s' => s'.r = Raw.new s.r.cap)
      (fun _ s' => s'.r = Raw.new s.r.cap) :=
  ⟨Sat.mono (drainOp_sat E take forget hs.rep) (fun _ _ ⟨_, h2, h3, _⟩ => ⟨h2.safe, h2.1, h3⟩)
      (fun _ _ ⟨h1, h2, _⟩ => ⟨h1.safe, h1.1, h2⟩),
   Sat.mono (intoIterOp_sat E kind take forget hs.rep) (fun _ _ ⟨_, h2, _⟩ => h2) (fun _ _ ⟨h1, _⟩ => h1)⟩

/-- for element types without drop glue for the value (`V = ()`: this is how `Set` runs the same
    code, `Env.toUnit` has `vGlue = false`) `into_keys` has nothing to discard, and dropping pairs
    only drops keys. -/
theorem no_value_glue (hv : E.vGlue = false) (ps : List (K × V)) :
    ps.flatMap (discardTr E .keys) = [] ∧ dropTrace E ps = ps.map fun p => .dropK p.1 := by
  constructor
  · simp [discardTr, dropVTr, hv]
  · induction ps with
    | nil => rfl
    | cons p ps ih =>
      simp only [dropTrace, List.flatMap_cons, List.map_cons] at ih ⊢
      rw [ih]; simp [dropVTr, hv]

/-- `SetIntoIter` (the set's `into_iter` is `intoIterOp … .keys` at `V = ()`): yields the last
    `take` elements last-first, exact `len()`; the only effects are the drops of the elements not
    yielded (unless forgotten); the register holds a fresh set afterwards. -/
theorem set_into_iter_op (hv : E.vGlue = false) (take : Nat) (forget : Bool) {s : St K V Q}
    {l : List (K × V)} (hr : Rep s.r l) (hb : Benign s.w) :
    ∃ s', intoIterOp E .keys take forget s =
        .ok (l.reverse.take take, l.length - take, l.take (l.length - take)) s' ∧
      s'.r = Raw.new s.r.cap ∧
      WRel s.w s'.w (if forget then [] else (l.take (l.length - take)).map fun p => .dropK p.1) := by
  obtain ⟨s', e, h1, h2⟩ := into_iter_op E .keys take forget hr hb
  refine ⟨s', e, h1, ?_⟩
  rw [(no_value_glue E hv _).1, (no_value_glue E hv _).2] at h2
  simpa using h2

/-- `SetDrain`: yields the first `take` elements in slot order; dropping it drops exactly the keys
    not yielded, once each; the set is empty afterwards. -/
theorem set_drain_op (hv : E.vGlue = false) (take : Nat) (forget : Bool) {s : St K V Q}
    {l : List (K × V)} (hr : Rep s.r l) (hb : Benign s.w) :
    ∃ s', drainOp E take forget s = .ok (l.take take, l.length - take, l.drop take) s' ∧
      Rep s'.r [] ∧ s'.r.cap = s.r.cap ∧
      WRel s.w s'.w (if forget then [] else (l.drop take).map fun p => .dropK p.1) := by
  obtain ⟨s', e, h1, h2, h3⟩ := drain_op E take forget hr hb
  refine ⟨s', e, h1, h2, ?_⟩
  rw [(no_value_glue E hv _).2] at h3
  exact h3

/-! ### std's provided methods on the owning iterators: `nth`, `last`, `count`

`Model/StdIter.lean` writes `Iterator::nth`, `last` and `count` exactly as core defines them over the
model's `next` (the crate overrides none of them on `IntoIter`, `IntoKeys`, `IntoValues`, `Drain`:
tools/inventory.json), with std's drops of the skipped items between the calls and the iterator
dropped by the caller's frame when one of those drops unwinds.  The driver executes these
definitions for `nth(k)`, `nth(usize::MAX)`, `last()` and `count()` lines against the real crate,
also under fault enumeration. -/

open Micromap.StdIterP in
/-- **Consuming iterators through `nth` / `last` / `count`, in ANY world** (any `==`, a panic armed
    at any destructor call, either profile), every kind, every `k`: never `ub`; whether the call
    returns or unwinds, the map was consumed exactly (the register holds a fresh `new()`); a panic can
    only be the injected one; and what is handed out is exactly what stepping with `next` gives —
    `nth(k)` the `k`-th entry from the back (`None` beyond the end), `last()` the entry in slot 0,
    `len()` afterwards what is left, `count()` that number — with the exact effect trace. -/
theorem into_iter_provided_methods (kind : IntoKind) (take : StdTake) (fin : StdEnd) {s : St K V Q}
    {l : List (K × V)} (hr : Rep s.r l) :
    Sat (intoIterStdOp E kind take fin) s
      (fun res s' => s'.r = Raw.new s.r.cap ∧
        res = (intoItems take l, stdRem take l.length, l.take (stdRem take l.length),
          stdCnt fin (stdRem take l.length)) ∧
        WRel s.w s'.w (intoTakeTr E kind take l ++ intoFinTr E kind fin (l.take (stdRem take l.length))))
      (fun c s' => s'.r = Raw.new s.r.cap ∧ InjPanic s s' c) :=
  intoIterStdOp_sat E kind take fin hr

open Micromap.StdIterP in
/-- `nth(k)` spelled out: the `k`-th entry from the back or `None`; `len()` is `|l| - (k+1)`; the
    iterator still owns the untouched front. -/
theorem into_iter_nth (kind : IntoKind) (k : Nat) (fin : StdEnd) {s : St K V Q}
    {l : List (K × V)} (hr : Rep s.r l) :
    Sat (intoIterStdOp E kind (.nth k) fin) s
      (fun res s' => s'.r = Raw.new s.r.cap ∧
        res = (l.reverse[k]?.toList, l.length - (k + 1), l.take (l.length - (k + 1)),
          stdCnt fin (l.length - (k + 1))))
      (fun c s' => s'.r = Raw.new s.r.cap ∧ InjPanic s s' c) :=
  intoIterStdOp_nth E kind k fin hr

open Micromap.StdIterP in
/-- `last()`: the last item yielded is the entry in slot 0; nothing is left. -/
theorem into_iter_last (kind : IntoKind) (fin : StdEnd) {s : St K V Q}
    {l : List (K × V)} (hr : Rep s.r l) :
    Sat (intoIterStdOp E kind .last fin) s
      (fun res s' => s'.r = Raw.new s.r.cap ∧ res = (l.head?.toList, 0, [], stdCnt fin 0))
      (fun c s' => s'.r = Raw.new s.r.cap ∧ InjPanic s s' c) :=
  intoIterStdOp_last E kind fin hr

open Micromap.StdIterP in
/-- when `last()` unwinds, the only objects newly recorded as leaked are those of ONE entry of the
    map (the item that sat in std's return place); on the normal path nothing is leaked. -/
theorem into_iter_last_leaks_one_item (kind : IntoKind) (fuel : Nat) (acc : Option (K × V))
    (s : St K V Q) (l : List (K × V)) (hr : Rep s.r l) :
    Sat (intoIterLast E kind fuel acc) s (fun _ s' => s'.w.leaked = s.w.leaked)
      (fun _ s' => ∃ p ∈ l, s'.w.leaked = s.w.leaked ++ leakObjs kind p) :=
  intoIterLast_leaked E kind fuel acc s l hr

open Micromap.StdIterP in
/-- **`Drain` through `nth` / `last` / `count`, in ANY world**: never `ub`; the map is empty and
    reusable afterwards whether the call returns or unwinds (`drain` always empties); the results are
    those of stepping with `next` — `nth(k)` the `k`-th entry in slot order, `last()` the last one. -/
theorem drain_provided_methods (take : StdTake) (fin : StdEnd) {s : St K V Q} {l : List (K × V)}
    (hr : Rep s.r l) :
    Sat (drainStdOp E take fin) s
      (fun res s' => Rep s'.r [] ∧ s'.r.cap = s.r.cap ∧
        res = (drainItems take l, stdRem take l.length, l.drop (l.length - stdRem take l.length),
          stdCnt fin (stdRem take l.length)) ∧
        WRel s.w s'.w (drainTakeTr E take l ++ drainFinTr E fin (l.drop (l.length - stdRem take l.length))))
      (fun c s' => Rep s'.r [] ∧ s'.r.cap = s.r.cap ∧ InjPanic s s' c) :=
  drainStdOp_sat E take fin hr

open Micromap.StdIterP in
theorem drain_nth_any_world (k : Nat) (fin : StdEnd) {s : St K V Q} {l : List (K × V)} (hr : Rep s.r l) :
    Sat (drainStdOp E (.nth k) fin) s
      (fun res s' => Rep s'.r [] ∧ s'.r.cap = s.r.cap ∧
        res = (l[k]?.toList, l.length - (k + 1), l.drop (k + 1), stdCnt fin (l.length - (k + 1))))
      (fun c s' => s'.r.len = 0 ∧ s'.r.cap = s.r.cap ∧ InjPanic s s' c) :=
  drainStdOp_nth E k fin hr

open Micromap.StdIterP in
/-- `drain().last()`; if it unwinds, no live slot is left in the drained range (the `Drain` was
    dropped), so nothing can be destroyed a second time later. -/
theorem drain_last_any_world (fin : StdEnd) {s : St K V Q} {l : List (K × V)} (hr : Rep s.r l) :
    Sat (drainStdOp E .last fin) s
      (fun res s' => Rep s'.r [] ∧ s'.r.cap = s.r.cap ∧ res = (l.getLast?.toList, 0, [], stdCnt fin 0))
      (fun c s' => s'.r.len = 0 ∧ s'.r.cap = s.r.cap ∧ InjPanic s s' c ∧
        ∀ j, j < l.length → s'.r.slots j = none) :=
  drainStdOp_last E fin hr

open Micromap.StdIterP in
/-- benign world, whole pairs: `into_iter().nth(k)` destroys exactly the `k` skipped pairs (each once,
    in yield order), then — when the iterator is dropped / counted — exactly what is left. -/
theorem into_iter_nth_effects (k : Nat) (fin : StdEnd) {s : St K V Q} {l : List (K × V)}
    (hr : Rep s.r l) (hb : Benign s.w) :
    ∃ s', intoIterStdOp E .pairs (.nth k) fin s =
        .ok (l.reverse[k]?.toList, l.length - (k + 1), l.take (l.length - (k + 1)),
          stdCnt fin (l.length - (k + 1))) s' ∧
      s'.r = Raw.new s.r.cap ∧
      WRel s.w s'.w (dropTrace E (l.reverse.take k) ++ pairsFinTr E fin (l.take (l.length - (k + 1)))) :=
  into_iter_nth_pairs E k fin hr hb

open Micromap.StdIterP in
/-- benign world: `drain().nth(k)` destroys exactly the `k` skipped entries, then the rest of the range. -/
theorem drain_nth_effects (k : Nat) (fin : StdEnd) {s : St K V Q} {l : List (K × V)}
    (hr : Rep s.r l) (hb : Benign s.w) :
    ∃ s', drainStdOp E (.nth k) fin s =
        .ok (l[k]?.toList, l.length - (k + 1), l.drop (k + 1), stdCnt fin (l.length - (k + 1))) s' ∧
      Rep s'.r [] ∧ s'.r.cap = s.r.cap ∧
      WRel s.w s'.w (dropTrace E (l.take k) ++ drainFinTr E fin (l.drop (k + 1))) :=
  drain_nth E k fin hr hb

open Micromap.StdIterP in
/-- memory safety of both composites from `Safe` alone (no assumption on `==`, profile, injection). -/
theorem provided_methods_safe (kind : IntoKind) (take : StdTake) (fin : StdEnd) {s : St K V Q} (hs : Safe s.r) :
    Sat (intoIterStdOp E kind take fin) s (fun _ s' => s'.r = Raw.new s.r.cap)
      (fun _ s' => s'.r = Raw.new s.r.cap) ∧
    Sat (drainStdOp E take fin) s (fun _ s' => Safe s'.r ∧ s'.r.len = 0 ∧ s'.r.cap = s.r.cap)
      (fun _ s' => Safe s'.r ∧ s'.r.len = 0 ∧ s'.r.cap = s.r.cap) :=
  stdOps_safe E kind take fin hs


/-! Non-vacuity: a concrete container meets the hypotheses, and the model computes what the
    theorems say (tests, not proofs). -/

def exEnv : Env Nat Nat Nat :=
  { eqK := fun _ a b => a == b, eqQ := fun _ a b => a == b, eqV := fun a b => a == b, borrow := id,
    clK := fun _ k => k, clV := fun _ v => v }

def exRaw : Raw Nat Nat :=
  { cap := 3, len := 3, slots := fun i =>
      if i = 0 then some (7, 70) else if i = 1 then some (8, 80) else if i = 2 then some (9, 90) else none }

def exSt : St Nat Nat Nat := { r := exRaw, w := {} }

example : Rep exSt.r [(7, 70), (8, 80), (9, 90)] :=
  ⟨rfl, by decide, fun i hi => by
    have : i = 0 ∨ i = 1 ∨ i = 2 := by simp at hi; omega
    rcases this with rfl | rfl | rfl <;> rfl⟩
example : Benign exSt.w := ⟨rfl, rfl⟩
example : Safe exSt.r := ⟨by decide, fun i hi => by
    have : i = 0 ∨ i = 1 ∨ i = 2 := by simp [exSt, exRaw] at hi; omega
    rcases this with rfl | rfl | rfl <;> rfl⟩
example : (Env.toUnit exEnv).vGlue = false := rfl
example : 0 < exSt.r.cap := by decide
example : (match drainOp exEnv 1 false exSt with | .ok x s' => some (x, s'.r.len) | _ => none) =
    some (([(7, 70)], 2, [(8, 80), (9, 90)]), 0) := by decide
example : (match intoIterOp exEnv .keys 2 false exSt with | .ok x s' => some (x, s'.r.len) | _ => none) =
    some (([(9, 90), (8, 80)], 1, [(7, 70)]), 0) := by decide
example : (match intoIterStdOp exEnv .pairs (.nth 1) .count exSt with
    | .ok x s' => x == ([(8, 80)], 1, [(7, 70)], some 1) && s'.r.len == 0 | _ => false) = true := by decide +kernel
example : (match drainStdOp exEnv .last .drop exSt with
    | .ok x s' => x == ([(9, 90)], 0, [], none) && s'.r.len == 0 | _ => false) = true := by decide +kernel
-- with an armed fault the operations do unwind (the unwinding postconditions are not vacuous)
example : (match intoIterStdOp exEnv .pairs (.nth 2) .drop { exSt with w := { inject := some 1 } } with
    | .panic c s' => some (c, s'.r.len, (s'.r.slots 0).isSome) | _ => none) =
    some (.inject, 0, false) := by decide +kernel

end Micromap.Props.C10
