/-
C09 — Borrowing iterators visit every entry exactly once and report exact lengths.

Property theorems only (helper lemmas live in `Micromap/Proofs/Iters.lean`).  All statements are
about the L0 model functions `iterStartR`, `iterNextR`, `SliceIt.restR`, `iterScript`, `iterOp`
(the functions `step` executes for `iter`, `iter_mut`, `keys`, `values`, `values_mut` and — at
`V = Unit` — `Set::iter`); `Iters.iterSteps` / `Iters.iterToList` are nothing but `iterNextR`
called repeatedly.  Every statement holds for every capacity, every content `l` (any `r` with
`Rep r l`, in particular states produced by removals), every `Env` and every world: a borrowing
iterator makes no callback, so nothing depends on `==`, the profile or an armed injection.
-/
import Micromap.Proofs.Iters
import Micromap.Proofs.StdIterB

namespace Micromap.Props.C09
open Micromap Micromap.Iters
variable {K V Q : Type} (E : Env K V Q)

/-- `iter()` (and `iter_mut`, `keys`, `values`, `values_mut`, which all start from the same slice
    iterator) never panics on a well-formed container, leaves the whole state untouched and returns
    the window `[0, len)`; its `len()` / `size_hint()` is the number of entries. -/
theorem iter_start {r : Raw K V} {l : List (K × V)} (hr : Rep r l) (s : St K V Q) :
    iterStartR r s = .ok ⟨0, l.length⟩ s ∧ (⟨0, l.length⟩ : SliceIt).len = l.length :=
  ⟨iterStartR_ok hr s, by simp [SliceIt.len]⟩

/-- one `next` inside the window: it returns a reference into slot `k` and the pair stored there is
    the `k`-th entry; the iterator advances by exactly one; the state is untouched. -/
theorem next_yields_kth {r : Raw K V} {l : List (K × V)} (hr : Rep r l) {k : Nat} (hk : k < l.length)
    (s : St K V Q) :
    iterNextR r ⟨k, l.length⟩ s = .ok (some (k, l[k]), ⟨k + 1, l.length⟩) s :=
  iterNextR_lt hr hk s

/-- after the end `next` returns `None` and leaves the iterator where it is … -/
theorem next_none_at_end (r : Raw K V) (n : Nat) (s : St K V Q) :
    iterNextR r ⟨n, n⟩ s = .ok (none, ⟨n, n⟩) s :=
  iterNextR_end r (by simp) s

/-- … hence `None` forever: any number of further calls all return `None` (fused iterator). -/
theorem next_none_forever (r : Raw K V) (n m : Nat) (s : St K V Q) :
    iterSteps r m ⟨n, n⟩ s = .ok (List.replicate m none, ⟨n, n⟩) s :=
  iterSteps_end r (by simp) s m

/-- the whole traversal, step by step: `n` calls of `next` after `iter()` return, in order,
    `(j, l[j])` for `j < |l|` and `None` from then on; the iterator then stands at `min n |l|`.
    No panic, no `ub`, no change of state. -/
theorem steps_from_start {r : Raw K V} {l : List (K × V)} (hr : Rep r l) (n : Nat) (s : St K V Q) :
    (iterStartR r >>= fun it => iterSteps r n it) s =
      .ok ((List.range n).map fun j => l[j]?.map fun p => (j, p), ⟨min n l.length, l.length⟩) s := by
  have := iterSteps_rep hr s n 0 (Nat.zero_le _)
  simp only [Nat.zero_add] at this
  simp only [bind_apply, iterStartR_ok hr s, this]

/-- after `k ≤ |l|` steps the iterator is `⟨k, |l|⟩` and the `k`-th call (counting from 0) returned
    slot `k` with the `k`-th entry. -/
theorem after_k_steps {r : Raw K V} {l : List (K × V)} (hr : Rep r l) {k : Nat} (hk : k ≤ l.length)
    (s : St K V Q) :
    ∃ os, (iterStartR r >>= fun it => iterSteps r k it) s = .ok (os, ⟨k, l.length⟩) s ∧
      os.length = k ∧ ∀ j (hj : j < k), os[j]? = some (some (j, l[j])) := by
  refine ⟨_, by rw [steps_from_start hr k s, Nat.min_eq_left hk], by simp, fun j hj => ?_⟩
  have hjl : j < l.length := by omega
  simp [hj, hjl]

/-- exact lengths: an iterator that has made `k ≤ |l|` steps reports `len() = |l| - k`; this is the
    number `iterScript` answers to `len`, to `size_hint` (as `(n, Some n)`) and to `count()`. -/
theorem len_after_k_steps (l : List (K × V)) (k : Nat) :
    (⟨k, l.length⟩ : SliceIt).len = l.length - k := rfl

/-- what `len()`, `size_hint()` and `count()` answer in a script is `SliceIt.len` of the current
    iterator — exactly the number of items still to come (`remaining_items` below). -/
theorem script_probes_report_len (R : Render K V) (kind : IterKind) (g : V → V) (cs : List IterCmd)
    (it : SliceIt) (forks : List SliceIt) :
    iterScript (Q := Q) R kind g (.len :: cs) it forks =
        (do pure (RV.nat it.len :: (← iterScript R kind g cs it forks))) ∧
    iterScript (Q := Q) R kind g (.hint :: cs) it forks =
        (do pure (RV.hint it.len (some it.len) :: (← iterScript R kind g cs it forks))) ∧
    iterScript (Q := Q) R kind g (.count :: cs) it forks =
        (do pure (RV.nat it.len :: (← iterScript R kind g [] it forks))) := by
  refine ⟨?_, ?_, ?_⟩ <;> conv => lhs; rw [iterScript]

/-- the items a traversal standing at `k` still yields (collected by calling `next` until `None`):
    exactly `|l| - k` of them, namely the entries `l[k], l[k+1], …` with their slot positions. -/
theorem remaining_items {r : Raw K V} {l : List (K × V)} (hr : Rep r l) {k : Nat} (hk : k ≤ l.length)
    {fuel : Nat} (hfuel : l.length - k ≤ fuel) (s : St K V Q) :
    ∃ items, iterToList r fuel ⟨k, l.length⟩ s = .ok items s ∧
      items.map (·.2) = l.drop k ∧ items.map (·.1) = List.range' k (l.length - k) ∧
      items.length = (⟨k, l.length⟩ : SliceIt).len := by
  refine ⟨_, iterToList_rep hr s fuel k hk, ?_, ?_, ?_⟩
  · rw [List.take_of_length_le (by simpa using hfuel)]
    simp [List.map_map, Function.comp_def, List.zipIdx_map_fst]
  · rw [List.take_of_length_le (by simpa using hfuel)]
    simp [List.map_map, Function.comp_def, List.zipIdx_map_snd]
  · rw [List.take_of_length_le (by simpa using hfuel)]
    simp [SliceIt.len]

/-- every entry exactly once and nothing else: the full traversal (`iter()`, then `next` until
    `None`) yields exactly the list `l`, in slot order, the `j`-th item being a reference into
    slot `j`. -/
theorem traversal_yields_all {r : Raw K V} {l : List (K × V)} (hr : Rep r l) {fuel : Nat}
    (hfuel : l.length ≤ fuel) (s : St K V Q) :
    ∃ items, (iterStartR r >>= fun it => iterToList r fuel it) s = .ok items s ∧
      items.map (·.2) = l ∧ items.map (·.1) = List.range l.length := by
  obtain ⟨items, h1, h2, h3, _⟩ := remaining_items hr (Nat.zero_le _) (fuel := fuel) (by omega) s
  refine ⟨items, by simp only [bind_apply, iterStartR_ok hr s, h1], by simpa using h2, ?_⟩
  rw [h3, Nat.sub_zero, List.range_eq_range']

/-- the same for the projections: `keys()` yields the keys of `l`, `values()` / `values_mut()`
    (before writing) the values of `l`, each once, in slot order (`projItem` is how `iterScript`
    projects an item for each kind). -/
theorem traversal_projections {r : Raw K V} {l : List (K × V)} (hr : Rep r l) {fuel : Nat}
    (hfuel : l.length ≤ fuel) (s : St K V Q) :
    ∃ items, (iterStartR r >>= fun it => iterToList r fuel it) s = .ok items s ∧
      items.map (·.2.1) = l.map (·.1) ∧ items.map (·.2.2) = l.map (·.2) := by
  obtain ⟨items, h1, h2, _⟩ := traversal_yields_all hr hfuel s
  refine ⟨items, h1, ?_, ?_⟩
  · rw [← h2, List.map_map]; rfl
  · rw [← h2, List.map_map]; rfl

/-- iterating twice without an intervening mutation yields the same sequence: the traversal does
    not change the state and its result is a function of the container alone. -/
theorem two_traversals_agree {r : Raw K V} {l : List (K × V)} (hr : Rep r l) {fuel : Nat}
    (hfuel : l.length ≤ fuel) (s : St K V Q) :
    ∃ items, (do
        let a ← iterStartR r >>= fun it => iterToList r fuel it
        let b ← iterStartR r >>= fun it => iterToList r fuel it
        pure (a, b) : SM K V Q _) s = .ok (items, items) s := by
  obtain ⟨items, h1, _⟩ := remaining_items hr (Nat.zero_le _) (fuel := fuel) (by omega) s
  exact ⟨items, by simp only [bind_apply, pure_apply, iterStartR_ok hr s, h1]⟩

/-- a clone taken after `k` steps: what it still yields — and what `Debug` of the iterator prints at
    that point (`SliceIt.restR`, used by `iterRunOut` for forks and by the `debug` commands) — is
    `l.drop k` … -/
theorem clone_rest {r : Raw K V} {l : List (K × V)} (hr : Rep r l) {k : Nat} (hk : k ≤ l.length)
    (s : St K V Q) :
    SliceIt.restR r ⟨k, l.length⟩ s = .ok (l.drop k) s :=
  restR_rep hr hk s

/-- … which is exactly what the original goes on to yield: a cloned iterator continues identically
    to its original. -/
theorem clone_continues_identically {r : Raw K V} {l : List (K × V)} (hr : Rep r l) {k : Nat}
    (hk : k ≤ l.length) {fuel : Nat} (hfuel : l.length - k ≤ fuel) (s : St K V Q) :
    ∃ items rest, iterToList r fuel ⟨k, l.length⟩ s = .ok items s ∧
      SliceIt.restR r ⟨k, l.length⟩ s = .ok rest s ∧ items.map (·.2) = rest := by
  obtain ⟨items, h1, h2, _⟩ := remaining_items hr hk hfuel s
  exact ⟨items, _, h1, restR_rep hr hk s, h2⟩

/-- the composite operation the driver executes, for the kinds that hand out shared references
    (`iter`, `keys`, `values`; `Set::iter` is `keys` at `V = Unit`): any script — any mixture of
    `next`, `len`, `size_hint`, `Debug`, `clone`, `count` — runs to completion and leaves the
    whole state (container and world) exactly as it was. -/
theorem shared_iter_changes_nothing (R : Render K V) {kind : IterKind} (hk : ¬ IsMut kind) (g : V → V)
    (script : List IterCmd) {s : St K V Q} {l : List (K × V)} (hr : Rep s.r l) :
    ∃ out, iterOp R kind g script s = .ok out s := by
  obtain ⟨o, s', e, _, _, h3, _⟩ := iterOp_spec R kind g script hr
  exact ⟨o, by rw [e, h3 hk]⟩

/-- `iter_mut` / `values_mut` under any script: exactly the values of the entries that were yielded
    (the first `scriptNexts script` ones) are replaced by `g v`; keys, order, length, capacity and
    the world are untouched, nothing panics. -/
theorem mut_iter_writes_prefix (R : Render K V) {kind : IterKind} (hk : IsMut kind) (g : V → V)
    (script : List IterCmd) {s : St K V Q} {l : List (K × V)} (hr : Rep s.r l) :
    ∃ out s', iterOp R kind g script s = .ok out s' ∧ s'.w = s.w ∧ s'.r.cap = s.r.cap ∧
      Rep s'.r (mapRange (wr g) 0 (scriptNexts script) l) := by
  obtain ⟨o, s', e, h1, h2, _, h4⟩ := iterOp_spec R kind g script hr
  exact ⟨o, s', e, h1, h2, h4 hk⟩

/-- a full pass of `iter_mut` / `values_mut` that writes `g v` through every reference it gets
    (the script calls `next` at least `|l|` times before consuming the iterator): the container
    afterwards holds exactly `(k, g v)` for every `(k, v)` it held, in the same slots. -/
theorem mut_iter_writes_all (R : Render K V) {kind : IterKind} (hk : IsMut kind) (g : V → V)
    (script : List IterCmd) {s : St K V Q} {l : List (K × V)} (hr : Rep s.r l)
    (hn : l.length ≤ scriptNexts script) :
    ∃ out s', iterOp R kind g script s = .ok out s' ∧ s'.w = s.w ∧ s'.r.cap = s.r.cap ∧
      Rep s'.r (l.map fun p => (p.1, g p.2)) := by
  obtain ⟨o, s', e, h1, h2, h3⟩ := mut_iter_writes_prefix R hk g script hr
  rw [mapRange_all _ hn] at h3
  exact ⟨o, s', e, h1, h2, h3⟩

/-- writes made through `iter_mut` / `values_mut` are exactly what later lookups return: after the
    full pass, `get` / `get_key_value` with any probe finds the same slot as before (the keys did
    not move) and the value behind the returned reference is `g` of the old one. -/
theorem lookup_after_mut_iter (hE : E.Pure) (R : Render K V) {kind : IterKind} (hk : IsMut kind)
    (g : V → V) (script : List IterCmd) {s : St K V Q} {l : List (K × V)} (hr : Rep s.r l)
    (hb : Benign s.w) (hn : l.length ≤ scriptNexts script) (pr : Probe K Q) :
    ∃ out s1 s2, iterOp R kind g script s = .ok out s1 ∧
      get E pr s1 = .ok ((findKey E l pr).bind fun i => l[i]?.map fun p => (i, (p.1, g p.2))) s2 ∧
      s2.r = s1.r := by
  obtain ⟨o, s1, e, h1, _, h3⟩ := mut_iter_writes_all R hk g script hr hn
  have hb1 : Benign s1.w := h1 ▸ hb
  obtain ⟨a, s2, e2, g1, _, g3, g4⟩ := (get_sat E h3 pr).must_return (by
    intro c s' ⟨_, h⟩; exact h.2.1 hb1.1)
  refine ⟨o, s1, s2, e, ?_, g1⟩
  rw [e2]
  congr 1
  have hfk := g4 hE
  rw [show (l.map fun p => (p.1, g p.2)) = l.map (wr g) from rfl, findKey_map_wr] at hfk
  cases a with
  | none => rw [← hfk]; rfl
  | some x =>
    obtain ⟨i, p⟩ := x
    obtain ⟨hi, hp⟩ := g3 i p rfl
    rw [← hfk]
    simp only [List.length_map] at hi
    simp [hp, hi]

/-- memory safety of the composite operation without any assumption beyond `Safe` (no assumption
    on `==`, on the profile or on an armed injection): for EVERY script and every kind, `iterOp`
    never reaches `ub`, never panics, and preserves `Safe` and the capacity. -/
theorem iterOp_safe (R : Render K V) (kind : IterKind) (g : V → V) (script : List IterCmd)
    {s : St K V Q} (hs : Safe s.r) :
    Sat (iterOp R kind g script) s
      (fun _ s' => Safe s'.r ∧ s'.r.cap = s.r.cap ∧ s'.r.len = s.r.len ∧ s'.w = s.w)
      (fun _ _ => False) := by
  obtain ⟨o, s', e, h1, h2, h3, h4⟩ := iterOp_spec R kind g script hs.rep
  refine Sat.of_ok e ?_
  by_cases hm : IsMut kind
  · have := h4 hm
    exact ⟨this.safe, h2, by rw [this.1, mapRange_length, hs.rep.1], h1⟩
  · rw [h3 hm]; exact ⟨hs, rfl, rfl, rfl⟩

/-! ### the same facts read off the composite operation (`iterOp` = `iter()` + script) -/

/-- what a `next` command reports (`Iters.nextOut`), for the kinds handing out `&V`: inside the
    window a reference into slot `k+i` showing exactly the stored entry, `None` after the end. -/
theorem nextOut_shared {kind : IterKind} (hk : ¬ IsMut kind) (g : V → V) (l : List (K × V)) (k i : Nat) :
    (∀ h : k + i < l.length, nextOut kind g l k i = RV.some (projItem kind (k + i) l[k + i])) ∧
    (l.length ≤ k + i → nextOut kind g l k i = RV.none) := by
  refine ⟨fun h => ?_, fun h => ?_⟩
  · simp [nextOut, h, hk]
  · simp [nextOut, List.getElem?_eq_none h]

/-- … and for `iter_mut` / `values_mut`: the reference shows the value after the write `g v`. -/
theorem nextOut_mut {kind : IterKind} (hk : IsMut kind) (g : V → V) (l : List (K × V)) (k i : Nat) :
    (∀ h : k + i < l.length,
      nextOut kind g l k i = RV.some (projItem kind (k + i) (l[k + i].1, g l[k + i].2))) ∧
    (l.length ≤ k + i → nextOut kind g l k i = RV.none) := by
  refine ⟨fun h => ?_, fun h => ?_⟩
  · simp [nextOut, h, hk, wr]
  · simp [nextOut, List.getElem?_eq_none h]

/-- exact lengths along a whole traversal, as the driver observes them: for EVERY number `j` of
    `next` commands (also beyond the end), every kind and every content, the script
    `next^j ; probe` reports the `j` items (slot `i`, entry `l[i]`, then `None`s) followed by
    `len() = |l| - j`, `size_hint() = (|l| - j, Some (|l| - j))`, `count() = |l| - j`
    (natural subtraction: `0` after the end). -/
theorem script_probe_after_j_steps (R : Render K V) (kind : IterKind) (g : V → V) (j : Nat)
    {s : St K V Q} {l : List (K × V)} (hr : Rep s.r l) :
    (∃ s', iterOp R kind g (List.replicate j .next ++ [.len]) s =
      .ok ((List.range j).map (nextOut kind g l 0) ++ [RV.nat (l.length - j)]) s') ∧
    (∃ s', iterOp R kind g (List.replicate j .next ++ [.hint]) s =
      .ok ((List.range j).map (nextOut kind g l 0) ++ [RV.hint (l.length - j) (some (l.length - j))]) s') ∧
    (∃ s', iterOp R kind g (List.replicate j .next ++ [.count]) s =
      .ok ((List.range j).map (nextOut kind g l 0) ++ [RV.nat (l.length - j)]) s') := by
  obtain ⟨sj, _, _, _, _, h5⟩ := iterScript_nexts R kind g j 0 s l hr (Nat.zero_le _)
  have hsub : l.length - min j l.length = l.length - j := by omega
  simp only [Nat.zero_add] at h5
  refine ⟨⟨sj, ?_⟩, ⟨sj, ?_⟩, ⟨sj, ?_⟩⟩
  · have := h5 [.len] [] [RV.nat (l.length - j)] sj (by
      simp [iterScript, iterRunForks, SliceIt.len, hsub])
    simp only [iterOp, getS, bind_apply, iterStartR_ok hr s, this]
  · have := h5 [.hint] [] [RV.hint (l.length - j) (some (l.length - j))] sj (by
      simp [iterScript, iterRunForks, SliceIt.len, hsub])
    simp only [iterOp, getS, bind_apply, iterStartR_ok hr s, this]
  · have := h5 [.count] [] [RV.nat (l.length - j)] sj (by
      simp [iterScript, iterRunForks, SliceIt.len, hsub])
    simp only [iterOp, getS, bind_apply, iterStartR_ok hr s, this]

/-- a clone inside a script (`next^j ; clone ; next^m`, shared kinds): the original goes on to
    report `nextOut … j 0`, `nextOut … j 1`, …; the clone, run to its end afterwards, yields the
    entries `l.drop j` with slot positions `j, j+1, …` … -/
theorem script_clone_at_j (R : Render K V) {kind : IterKind} (hk : ¬ IsMut kind) (g : V → V)
    {j : Nat} (m : Nat) {s : St K V Q} {l : List (K × V)} (hr : Rep s.r l) (hj : j ≤ l.length) :
    iterOp R kind g (List.replicate j .next ++ .clone :: List.replicate m .next) s =
      .ok ((List.range j).map (nextOut kind g l 0) ++ ((List.range m).map (nextOut kind g l j) ++
        [RV.list ((l.drop j).zipIdx.map fun x => projItem kind (j + x.2) x.1)])) s := by
  have hk' : ¬ (kind = IterKind.iter_mut ∨ kind = IterKind.values_mut) := hk
  obtain ⟨s1, _, _, h3, _, h5⟩ := iterScript_nexts R kind g j 0 s l hr (Nat.zero_le _)
  obtain ⟨s2, _, _, g3, _, g5⟩ := iterScript_nexts R kind g m j s l hr hj
  rw [h3 hk] at h5
  rw [g3 hk] at g5
  have hmin : min (0 + j) l.length = j := by omega
  have inner := g5 [] [⟨j, l.length⟩]
    [RV.list ((l.drop j).zipIdx.map fun x => projItem kind (j + x.2) x.1)] s (by
      simp only [iterScript, iterRunForks, iterRunOut, getS, bind_apply, pure_apply, restR_rep hr hj s])
  rw [List.append_nil] at inner
  have outer := h5 (.clone :: List.replicate m .next) [] _ s (by
    rw [hmin, iterScript]; simp only [hk', if_false, List.nil_append]; exact inner)
  simp only [iterOp, getS, bind_apply, iterStartR_ok hr s, outer]

/-- … which, item for item, is what the original reports from there on: a cloned iterator continues
    identically to its original. -/
theorem script_clone_agrees {kind : IterKind} (hk : ¬ IsMut kind) (g : V → V) (l : List (K × V))
    (j i : Nat) (h : j + i < l.length) :
    some (nextOut kind g l j i) =
      (((l.drop j).zipIdx.map fun x => projItem kind (j + x.2) x.1)[i]?).map RV.some := by
  rw [(nextOut_shared hk g l j i).1 h]
  simp [List.getElem?_map, List.getElem?_zipIdx, h, List.getElem?_drop]

/-! Non-vacuity: a concrete container meets the hypotheses, and the model computes what the
    theorems say (tests, not proofs). -/

def exRaw : Raw Nat Nat :=
  { cap := 3, len := 2, slots := fun i => if i = 0 then some (7, 70) else if i = 1 then some (8, 80) else none }

def exSt : St Nat Nat Nat := { r := exRaw, w := {} }

example : Rep exRaw [(7, 70), (8, 80)] :=
  ⟨rfl, by decide, fun i hi => by
    have : i = 0 ∨ i = 1 := by simp at hi; omega
    rcases this with rfl | rfl <;> rfl⟩
example : Benign exSt.w := ⟨rfl, rfl⟩
example : IsMut .iter_mut := Or.inl rfl
example : ¬ IsMut .keys := by decide
example : scriptNexts [.next, .len, .next, .clone, .next, .count, .next] = 3 := by decide
example : (match iterToList exRaw 5 ⟨0, 2⟩ exSt with | .ok x _ => x | _ => []) =
    [(0, (7, 70)), (1, (8, 80))] := by decide
example : mapRange (wr (K := Nat) (· + 1)) 0 5 [(7, 70), (8, 80)] = [(7, 71), (8, 81)] := by decide

end Micromap.Props.C09


/-! ## std's provided `nth(k)` and `last()` on the borrowing iterators (`Model/StdIterB.lean`)

`Iter`, `IterMut`, `Keys`, `Values`, `ValuesMut` and `SetIter` do not override `nth`, `advance_by`
or `last`: these are core's definitions over the crate's `next` (`iterNthR` = `advance_by(k)`, which
stops at the first `None`, then `next`; `iterLastR` = `next` until `None`), and the script commands
`.nth k` / `.last` of `iterScriptX` run them.  As everything else about these iterators, the
statements hold for every capacity, every content `l` (any `r` with `Rep r l`), every `Env` and
every world. -/

namespace Micromap.Props.C09
open Micromap Micromap.Iters Micromap.StdIterB
variable {K V Q : Type}

/-- on scripts without `nth` / `last` the extended interpreter (what the driver runs for scripts
    with `t<k>` / `z`) IS the interpreter all the statements above are about. -/
theorem extended_script_extends (R : Render K V) (kind : IterKind) (g : V → V) (cs : List IterCmd)
    (it : SliceIt) (forks : List SliceIt) :
    iterScriptX (Q := Q) R kind g (cs.map .base) it forks = iterScript R kind g cs it forks ∧
    iterOpX (Q := Q) R kind g (cs.map .base) = iterOp R kind g cs :=
  ⟨iterScriptX_base R kind g cs it forks, iterOpX_base R kind g cs⟩

/-- `nth(k)` on an iterator standing at `j ≤ |l|`: never `ub`, never a panic, the state is
    untouched; it returns a reference into slot `j+k` and the pair stored there is the `(j+k)`-th
    entry (`None` if there is none); the iterator then stands at `min (j+k+1) |l|`. -/
theorem nth_yields {r : Raw K V} {l : List (K × V)} (hr : Rep r l) {j : Nat} (hj : j ≤ l.length) (k : Nat)
    (s : St K V Q) :
    iterNthR r k ⟨j, l.length⟩ s =
      .ok (l[j + k]?.map fun p => (j + k, p), ⟨min (j + k + 1) l.length, l.length⟩) s :=
  iterNthR_rep hr s k hj

/-- … so a later `len()` reports `|l| - min (j+k+1) |l|`. -/
theorem len_after_nth (l : List (K × V)) (j k : Nat) :
    (⟨min (j + k + 1) l.length, l.length⟩ : SliceIt).len = l.length - min (j + k + 1) l.length := rfl

/-- `nth(k)` inside the window is the `k`-th of `k+1` calls of `next`: same result, same iterator
    afterwards (`steps_from_start` / `after_k_steps` describe the latter). -/
theorem nth_eq_last_of_steps {r : Raw K V} {l : List (K × V)} (hr : Rep r l) {j : Nat} (hj : j ≤ l.length)
    (k : Nat) (s : St K V Q) :
    ∃ os it, iterSteps r (k + 1) ⟨j, l.length⟩ s = .ok (os, it) s ∧
      iterNthR r k ⟨j, l.length⟩ s = .ok ((os[k]?).join, it) s := by
  refine ⟨_, _, iterSteps_rep hr s (k + 1) j hj, ?_⟩
  rw [iterNthR_rep hr s k hj]
  have e : j + (k + 1) = j + k + 1 := by omega
  simp [e]

/-- an overshooting `nth(k)` (`|l| ≤ j + k`) returns `None` and exhausts the iterator: every later
    `next` returns `None` and `len()` is `0`. -/
theorem nth_overshoot {r : Raw K V} {l : List (K × V)} (hr : Rep r l) {j : Nat} (hj : j ≤ l.length)
    {k : Nat} (hk : l.length ≤ j + k) (m : Nat) (s : St K V Q) :
    iterNthR r k ⟨j, l.length⟩ s = .ok (none, ⟨l.length, l.length⟩) s ∧
    iterSteps r m ⟨l.length, l.length⟩ s = .ok (List.replicate m none, ⟨l.length, l.length⟩) s ∧
    (⟨l.length, l.length⟩ : SliceIt).len = 0 := by
  refine ⟨?_, iterSteps_end r (by simp) s m, by simp [SliceIt.len]⟩
  rw [iterNthR_rep hr s k hj, List.getElem?_eq_none hk]
  have : min (j + k + 1) l.length = l.length := by omega
  rw [this]; rfl

/-- `last()` on an iterator standing at `j ≤ |l|` (loop bound `len() + 1`, which is never hit: no
    `ub`): the state is untouched; it returns a reference into slot `|l| - 1` with the last entry if
    anything is left and `None` otherwise; the iterator is exhausted. -/
theorem last_yields {r : Raw K V} {l : List (K × V)} (hr : Rep r l) {j : Nat} (hj : j ≤ l.length)
    (s : St K V Q) :
    iterLastR r ((⟨j, l.length⟩ : SliceIt).len + 1) ⟨j, l.length⟩ none s =
      .ok (if j < l.length then l.getLast?.map fun p => (l.length - 1, p) else none,
        ⟨l.length, l.length⟩) s :=
  iterLastR_rep hr s _ j none hj (by simp [SliceIt.len])

/-- `last()` returns `None` iff nothing was left (`j = |l|`). -/
theorem last_none_iff (l : List (K × V)) {j : Nat} (hj : j ≤ l.length) :
    (if j < l.length then l.getLast?.map fun p => (l.length - 1, p) else none) = none ↔ j = l.length := by
  by_cases h : j < l.length
  · have hne : l ≠ [] := by intro h0; simp [h0] at h
    simp only [h, if_true]
    constructor
    · intro hn
      cases hl : l.getLast? with
      | none => exact absurd (List.getLast?_eq_none_iff.mp hl) hne
      | some p => rw [hl] at hn; cases hn
    · intro; omega
  · simp only [h, if_false, true_iff]; omega

/-- the `nth(k)` command in a script over `iter` / `keys` / `values` (`Set::iter` is `keys` at
    `V = Unit`), iterator at `j ≤ |l|`: it reports `nextOut … j k` — a reference into slot `j+k`
    showing exactly the stored entry, `None` beyond the end (`nextOut_shared`) —, NOTHING in the
    container or the world changes, and the script goes on from `min (j+k+1) |l|`. -/
theorem script_nth_shared (R : Render K V) {kind : IterKind} (hk : ¬ IsMut kind) (g : V → V) (k : Nat)
    (cs : List IterCmdX) (forks : List SliceIt) {s : St K V Q} {l : List (K × V)} (hr : Rep s.r l)
    {j : Nat} (hj : j ≤ l.length) :
    iterScriptX R kind g (.nth k :: cs) ⟨j, l.length⟩ forks s =
      (iterScriptX R kind g cs ⟨min (j + k + 1) l.length, l.length⟩ forks >>= fun rest =>
        pure (nextOut kind g l j k :: rest)) s :=
  iterScriptX_nth_shared R hk g k cs forks hr hj

/-- the `nth(k)` command in a script over `iter_mut` / `values_mut`: the report shows the value
    after the write `g v` (`nextOut_mut`); EXACTLY the received entry `j+k` is rewritten — the `k`
    skipped entries are not (`mapRange (wr g) (j+k) (j+k+1) l` is `l` with `g` applied to the value
    at position `j+k`, and `l` itself when there is no such position); keys, order, length,
    capacity and the world are untouched. -/
theorem script_nth_mut (R : Render K V) {kind : IterKind} (hk : IsMut kind) (g : V → V) (k : Nat)
    (cs : List IterCmdX) (forks : List SliceIt) {s : St K V Q} {l : List (K × V)} (hr : Rep s.r l)
    {j : Nat} (hj : j ≤ l.length) :
    ∃ s1 : St K V Q, s1.w = s.w ∧ s1.r.cap = s.r.cap ∧
      Rep s1.r (mapRange (wr g) (j + k) (j + k + 1) l) ∧
      iterScriptX R kind g (.nth k :: cs) ⟨j, l.length⟩ forks s =
        (iterScriptX R kind g cs ⟨min (j + k + 1) l.length, l.length⟩ forks >>= fun rest =>
          pure (nextOut kind g l j k :: rest)) s1 := by
  obtain ⟨s1, h1, h2, _, h4, e⟩ := iterScriptX_nth R kind g k cs forks hr hj
  rw [if_pos hk] at h4
  exact ⟨s1, h1, h2, h4, e⟩

/-- what "exactly entry `i` is rewritten" means, entry by entry. -/
theorem written_entry (g : V → V) (l : List (K × V)) (i n : Nat) :
    (mapRange (wr g) i (i + 1) l)[n]? = if n = i then l[n]?.map (wr g) else l[n]? := by
  rw [getElem?_mapRange]
  have : (i ≤ n ∧ n < i + 1) ↔ n = i := by omega
  simp only [this]

/-- the `last()` command in a script over `iter` / `keys` / `values`: the last entry with slot
    `|l| - 1` if anything is left, `None` otherwise; nothing changes; the script ends here (the
    clones taken before are run out, as after `count()`). -/
theorem script_last_shared (R : Render K V) {kind : IterKind} (hk : ¬ IsMut kind) (g : V → V)
    (cs : List IterCmdX) (forks : List SliceIt) {s : St K V Q} {l : List (K × V)} (hr : Rep s.r l)
    {j : Nat} (hj : j ≤ l.length) :
    iterScriptX R kind g (.last :: cs) ⟨j, l.length⟩ forks s =
      (iterRunForks kind forks >>= fun rest =>
        pure ((if j < l.length then nextOut kind g l (l.length - 1) 0 else RV.none) :: rest)) s :=
  iterScriptX_last_shared R hk g cs forks hr hj

/-- the `last()` command in a script over `iter_mut` / `values_mut`: if anything is left, EXACTLY
    the last entry is rewritten to `g v` (the entries `last()` passes over are not) and the report
    shows it after the write; if nothing is left, nothing is written. -/
theorem script_last_mut (R : Render K V) {kind : IterKind} (hk : IsMut kind) (g : V → V)
    (cs : List IterCmdX) (forks : List SliceIt) {s : St K V Q} {l : List (K × V)} (hr : Rep s.r l)
    {j : Nat} (hj : j ≤ l.length) :
    ∃ s1 : St K V Q, s1.w = s.w ∧ s1.r.cap = s.r.cap ∧
      Rep s1.r (if j < l.length then mapRange (wr g) (l.length - 1) l.length l else l) ∧
      iterScriptX R kind g (.last :: cs) ⟨j, l.length⟩ forks s =
        (iterRunForks kind forks >>= fun rest =>
          pure ((if j < l.length then nextOut kind g l (l.length - 1) 0 else RV.none) :: rest)) s1 := by
  obtain ⟨s1, h1, h2, _, h4, e⟩ := iterScriptX_last R kind g cs forks hr hj
  refine ⟨s1, h1, h2, ?_, e⟩
  by_cases hlt : j < l.length
  · simpa [hk, hlt] using h4
  · simpa [hlt] using h4

/-- after an overshooting `nth(k)` in a script, for EVERY kind: the `nth` reports `None`, each of
    the `m` later `next` commands reports `None`, `len()` reports `0`, and nothing was written. -/
theorem script_nth_overshoot (R : Render K V) (kind : IterKind) (g : V → V) {k : Nat} (m : Nat)
    {s : St K V Q} {l : List (K × V)} (hr : Rep s.r l) {j : Nat} (hj : j ≤ l.length)
    (hk : l.length ≤ j + k) :
    ∃ s', iterScriptX R kind g (.nth k :: (List.replicate m IterCmd.next ++ [IterCmd.len]).map .base)
        ⟨j, l.length⟩ [] s = .ok (RV.none :: (List.replicate m RV.none ++ [RV.nat 0])) s' ∧
      s'.w = s.w ∧ Rep s'.r l :=
  iterScriptX_nth_overshoot R kind g m hr hj hk

/-- as the driver observes it (shared kinds): the script `nth(k); len; next; len` on a fresh
    iterator reports the `k`-th entry with slot `k`, then `|l| - min (k+1) |l|`, then the entry at
    `min (k+1) |l|` (`None` at the end), then `|l| - min (k+2) |l|`; the state is untouched. -/
theorem script_nth_then_probe (R : Render K V) {kind : IterKind} (hk : ¬ IsMut kind) (g : V → V) (k : Nat)
    {s : St K V Q} {l : List (K × V)} (hr : Rep s.r l) :
    iterOpX R kind g [.nth k, .base .len, .base .next, .base .len] s =
      .ok [nextOut kind g l 0 k, RV.nat (l.length - min (k + 1) l.length),
           nextOut kind g l (min (k + 1) l.length) 0, RV.nat (l.length - min (k + 2) l.length)] s := by
  have hp1 : min (k + 1) l.length ≤ l.length := Nat.min_le_right _ _
  have e2 : min (min (k + 1) l.length + 0 + 1) l.length = min (k + 2) l.length := by omega
  have hA : iterScriptX R kind g [.base .len] ⟨min (k + 2) l.length, l.length⟩ [] s =
      .ok [RV.nat (l.length - min (k + 2) l.length)] s := by
    simp only [iterScriptX, iterRunForks, bind_apply, pure_apply, SliceIt.len]
  have hB : iterScriptX R kind g [.base .next, .base .len] ⟨min (k + 1) l.length, l.length⟩ [] s =
      .ok [nextOut kind g l (min (k + 1) l.length) 0, RV.nat (l.length - min (k + 2) l.length)] s := by
    rw [iterScriptX_next_eq_nth0, iterScriptX_nth_shared R hk g 0 _ _ hr hp1, e2]
    simp only [bind_apply, hA, pure_apply]
  have hC : iterScriptX R kind g [.base .len, .base .next, .base .len] ⟨min (k + 1) l.length, l.length⟩ [] s =
      .ok [RV.nat (l.length - min (k + 1) l.length), nextOut kind g l (min (k + 1) l.length) 0,
        RV.nat (l.length - min (k + 2) l.length)] s := by
    show (iterScriptX R kind g [.base .next, .base .len] ⟨min (k + 1) l.length, l.length⟩ [] >>= fun rest =>
      pure (RV.nat (SliceIt.len ⟨min (k + 1) l.length, l.length⟩) :: rest)) s = _
    simp only [bind_apply, hB, pure_apply, SliceIt.len]
  have h1 := iterScriptX_nth_shared R hk g k [.base .len, .base .next, .base .len] [] hr (Nat.zero_le _)
  rw [Nat.zero_add] at h1
  simp only [iterOpX, getS, bind_apply, iterStartR_ok hr s, h1, hC, pure_apply]

/-- as the driver observes it (shared kinds): `next^0; last` on a fresh iterator over a non-empty /
    empty container. -/
theorem script_last_from_start (R : Render K V) {kind : IterKind} (hk : ¬ IsMut kind) (g : V → V)
    {s : St K V Q} {l : List (K × V)} (hr : Rep s.r l) :
    iterOpX R kind g [.last] s =
      .ok [if 0 < l.length then nextOut kind g l (l.length - 1) 0 else RV.none] s := by
  have h1 := iterScriptX_last_shared R hk g [] [] hr (Nat.zero_le _)
  simp only [iterOpX, getS, bind_apply, iterStartR_ok hr s, h1, iterRunForks, pure_apply]

/-- the composite operation with ANY extended script, for the kinds handing out shared references:
    it runs to completion and leaves the whole state exactly as it was. -/
theorem shared_iterX_changes_nothing (R : Render K V) {kind : IterKind} (hk : ¬ IsMut kind) (g : V → V)
    (script : List IterCmdX) {s : St K V Q} {l : List (K × V)} (hr : Rep s.r l) :
    ∃ out, iterOpX R kind g script s = .ok out s := by
  obtain ⟨o, s', _, e, _, _, h3, _⟩ := iterOpX_spec R kind g script hr
  exact ⟨o, by rw [e, h3 hk]⟩

/-- `iter_mut` / `values_mut` under ANY extended script: only values change — the same keys in the
    same slots, the same length and capacity, the same world; nothing panics. -/
theorem mut_iterX_keeps_keys (R : Render K V) (kind : IterKind) (g : V → V) (script : List IterCmdX)
    {s : St K V Q} {l : List (K × V)} (hr : Rep s.r l) :
    ∃ out s' l', iterOpX R kind g script s = .ok out s' ∧ s'.w = s.w ∧ s'.r.cap = s.r.cap ∧
      Rep s'.r l' ∧ l'.map (·.1) = l.map (·.1) := by
  obtain ⟨o, s', l', e, h1, h2, _, h4, h5⟩ := iterOpX_spec R kind g script hr
  exact ⟨o, s', l', e, h1, h2, h4, h5⟩

/-- memory safety of the composite operation with ANY extended script and every kind, without any
    assumption beyond `Safe`: `iterOpX` never reaches `ub` (the loop bound of `last()` is never
    hit), never panics, and preserves `Safe`, the capacity, the length and the world. -/
theorem iterOpX_safe (R : Render K V) (kind : IterKind) (g : V → V) (script : List IterCmdX)
    {s : St K V Q} (hs : Safe s.r) :
    Sat (iterOpX R kind g script) s
      (fun _ s' => Safe s'.r ∧ s'.r.cap = s.r.cap ∧ s'.r.len = s.r.len ∧ s'.w = s.w)
      (fun _ _ => False) := by
  obtain ⟨o, s', l', e, h1, h2, _, h4, h5⟩ := iterOpX_spec R kind g script hs.rep
  refine Sat.of_ok e ⟨h4.safe, h2, ?_, h1⟩
  have := congrArg List.length h5
  simp only [List.length_map] at this
  rw [h4.1, this, hs.rep.1]

/-! Non-vacuity: the model computes what the theorems say on the concrete container `exRaw`
    (`[(7, 70), (8, 80)]`, capacity 3). -/

def exR : Render Nat Nat :=
  { dbgK := (fun _ k => toString k), dbgV := (fun _ v => toString v),
    dspK := (fun k => toString k), dspV := (fun v => toString v) }

example : (match iterNthR exRaw 1 ⟨0, 2⟩ exSt with | .ok x _ => x | _ => (none, ⟨9, 9⟩)) =
    (some (1, (8, 80)), ⟨2, 2⟩) := by decide
example : (match iterNthR exRaw 2 ⟨0, 2⟩ exSt with | .ok x _ => x | _ => (some (9, (9, 9)), ⟨9, 9⟩)) =
    (none, ⟨2, 2⟩) := by decide
example : (match iterLastR exRaw 3 ⟨0, 2⟩ none exSt with | .ok x _ => x | _ => (none, ⟨9, 9⟩)) =
    (some (1, (8, 80)), ⟨2, 2⟩) := by decide
example : (match iterLastR exRaw 1 ⟨2, 2⟩ none exSt with | .ok x _ => x | _ => (some (9, (9, 9)), ⟨9, 9⟩)) =
    (none, ⟨2, 2⟩) := by decide
/-- `values_mut`, script `nth(1); len; next`: the skipped entry keeps its value `70`, the received
    one becomes `81`; `len()` is `0` and the `next` reports `None`. -/
example : (match iterOpX exR .values_mut (· + 1) [.nth 1, .base .len, .base .next] exSt with
    | .ok [.some (.ref 1 (.val 81)), .nat 0, .none] s => (s.r.slots 0, s.r.slots 1)
    | _ => (none, none)) = (some (7, 70), some (8, 81)) := by decide
/-- `iter_mut`, script `last`: only the last entry is written. -/
example : (match iterOpX exR .iter_mut (· + 1) [.last, .base .next] exSt with
    | .ok [.some (.ref 1 (.pair 8 81))] s => (s.r.slots 0, s.r.slots 1)
    | _ => (none, none)) = (some (7, 70), some (8, 81)) := by decide
/-- `keys`, script `clone; nth(0); last`: the clone is run out after the script ended at `last`. -/
example : (match iterOpX exR .keys id [.base .clone, .nth 0, .last, .base .len] exSt with
    | .ok [.some (.ref 0 (.key 7)), .some (.ref 1 (.key 8)), .list [.ref 0 (.key 7), .ref 1 (.key 8)]] _ => true
    | _ => false) = true := by decide
example : mapRange (wr (K := Nat) (· + 1)) 1 2 [(7, 70), (8, 80)] = [(7, 70), (8, 81)] := by decide

end Micromap.Props.C09
