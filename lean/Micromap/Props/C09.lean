/-
C09 — Borrowing iterators visit every entry exactly once and report exact lengths.

Property theorems only (helper lemmas live in `Micromap/Proofs/Iters.lean`).  All statements are
about the L0 model functions `iterStartR`, `iterNextR`, `SliceIt.restR`, `iterScript`, `iterOp`
(the functions `step` executes for `iter`, `iter_mut`, `keys`, `values`, `values_mut` and — at
`V = Unit` — `Set::iter`); `Iters.iterSteps` / `Iters.iterToList` are nothing but `iterNextR`
called repeatedly.  Every statement holds for every capacity, every content `l` (any `r` with
`Rep r l`, in particular states produced by removals), every `Env` and every world: a borrowing
iterator makes no callback, so nothing depends on `==`, the profile or an armed injection.
-/
import Micromap.Proofs.Iters

namespace Micromap.Props.C09
open Micromap Micromap.Iters
variable {K V Q : Type} (E : Env K V Q)

/-- `iter()` (and `iter_mut`, `keys`, `values`, `values_mut`, which all start from the same slice
    iterator) never panics on a well-formed container, leaves the whole state untouched and returns
    the window `[0, len)`; its `len()` / `size_hint()` is the number of entries. -/
theorem iter_start {r : Raw K V} {l : List (K × V)} (hr : Rep r l) (s : St K V Q) :
    iterStartR r s = .ok ⟨0, l.length⟩ s ∧ (⟨0, l.length⟩ : SliceIt).len = l.length :=
  ⟨iterStartR_ok hr s, by simp [SliceIt.len]⟩

/-- one `next` inside the window: it returns a reference into slot `k` and the pair stored there is
    the `k`-th entry; the iterator advances by exactly one; the state is untouched. -/
theorem next_yields_kth {r : Raw K V} {l : List (K × V)} (hr : Rep r l) {k : Nat} (hk : k < l.length)
    (s : St K V Q) :
    iterNextR r ⟨k, l.length⟩ s = .ok (some (k, l[k]), ⟨k + 1, l.length⟩) s :=
  iterNextR_lt hr hk s

/-- after the end `next` returns `None` and leaves the iterator where it is … -/
theorem next_none_at_end (r : Raw K V) (n : Nat) (s : St K V Q) :
    iterNextR r ⟨n, n⟩ s = .ok (none, ⟨n, n⟩) s :=
  iterNextR_end r (by simp) s

/-- … hence `None` forever: any number of further calls all return `None` (fused iterator). -/
theorem next_none_forever (r : Raw K V) (n m : Nat) (s : St K V Q) :
    iterSteps r m ⟨n, n⟩ s = .ok (List.replicate m none, ⟨n, n⟩) s :=
  iterSteps_end r (by simp) s m

/-- the whole traversal, step by step: `n` calls of `next` after `iter()` return, in order,
    `(j, l[j])` for `j < |l|` and `None` from then on; the iterator then stands at `min n |l|`.
    No panic, no `ub`, no change of state. -/
theorem steps_from_start {r : Raw K V} {l : List (K × V)} (hr : Rep r l) (n : Nat) (s : St K V Q) :
    (iterStartR r >>= fun it => iterSteps r n it) s =
      .ok ((List.range n).map fun j => l[j]?.map fun p => (j, p), ⟨min n l.length, l.length⟩) s := by
  have := iterSteps_rep hr s n 0 (Nat.zero_le _)
  simp only [Nat.zero_add] at this
  simp only [bind_apply, iterStartR_ok hr s, this]

/-- after `k ≤ |l|` steps the iterator is `⟨k, |l|⟩` and the `k`-th call (counting from 0) returned
    slot `k` with the `k`-th entry. -/
theorem after_k_steps {r : Raw K V} {l : List (K × V)} (hr : Rep r l) {k : Nat} (hk : k ≤ l.length)
    (s : St K V Q) :
    ∃ os, (iterStartR r >>= fun it => iterSteps r k it) s = .ok (os, ⟨k, l.length⟩) s ∧
      os.length = k ∧ ∀ j (hj : j < k), os[j]? = some (some (j, l[j])) := by
  refine ⟨_, by rw [steps_from_start hr k s, Nat.min_eq_left hk], by simp, fun j hj => ?_⟩
  have hjl : j < l.length := by omega
  simp [hj, hjl]

/-- exact lengths: an iterator that has made `k ≤ |l|` steps reports `len() = |l| - k`; this is the
    number `iterScript` answers to `len`, to `size_hint` (as `(n, Some n)`) and to `count()`. -/
theorem len_after_k_steps (l : List (K × V)) (k : Nat) :
    (⟨k, l.length⟩ : SliceIt).len = l.length - k := rfl

/-- what `len()`, `size_hint()` and `count()` answer in a script is `SliceIt.len` of the current
    iterator — exactly the number of items still to come (`remaining_items` below). -/
theorem script_probes_report_len (R : Render K V) (kind : IterKind) (g : V → V) (cs : List IterCmd)
    (it : SliceIt) (forks : List SliceIt) :
    iterScript (Q := Q) R kind g (.len :: cs) it forks =
        (do pure (RV.nat it.len :: (← iterScript R kind g cs it forks))) ∧
    iterScript (Q := Q) R kind g (.hint :: cs) it forks =
        (do pure (RV.hint it.len (some it.len) :: (← iterScript R kind g cs it forks))) ∧
    iterScript (Q := Q) R kind g (.count :: cs) it forks =
        (do pure (RV.nat it.len :: (← iterScript R kind g [] it forks))) := by
  refine ⟨?_, ?_, ?_⟩ <;> conv => lhs; rw [iterScript]

/-- the items a traversal standing at `k` still yields (collected by calling `next` until `None`):
    exactly `|l| - k` of them, namely the entries `l[k], l[k+1], …` with their slot positions. -/
theorem remaining_items {r : Raw K V} {l : List (K × V)} (hr : Rep r l) {k : Nat} (hk : k ≤ l.length)
    {fuel : Nat} (hfuel : l.length - k ≤ fuel) (s : St K V Q) :
    ∃ items, iterToList r fuel ⟨k, l.length⟩ s = .ok items s ∧
      items.map (·.2) = l.drop k ∧ items.map (·.1) = List.range' k (l.length - k) ∧
      items.length = (⟨k, l.length⟩ : SliceIt).len := by
  refine ⟨_, iterToList_rep hr s fuel k hk, ?_, ?_, ?_⟩
  · rw [List.take_of_length_le (by simpa using hfuel)]
    simp [List.map_map, Function.comp_def, List.zipIdx_map_fst]
  · rw [List.take_of_length_le (by simpa using hfuel)]
    simp [List.map_map, Function.comp_def, List.zipIdx_map_snd]
  · rw [List.take_of_length_le (by simpa using hfuel)]
    simp [SliceIt.len]

/-- every entry exactly once and nothing else: the full traversal (`iter()`, then `next` until
    `None`) yields exactly the list `l`, in slot order, the `j`-th item being a reference into
    slot `j`. -/
theorem traversal_yields_all {r : Raw K V} {l : List (K × V)} (hr : Rep r l) {fuel : Nat}
    (hfuel : l.length ≤ fuel) (s : St K V Q) :
    ∃ items, (iterStartR r >>= fun it => iterToList r fuel it) s = .ok items s ∧
      items.map (·.2) = l ∧ items.map (·.1) = List.range l.length := by
  obtain ⟨items, h1, h2, h3, _⟩ := remaining_items hr (Nat.zero_le _) (fuel := fuel) (by omega) s
  refine ⟨items, by simp only [bind_apply, iterStartR_ok hr s, h1], by simpa using h2, ?_⟩
  rw [h3, Nat.sub_zero, List.range_eq_range']

/-- the same for the projections: `keys()` yields the keys of `l`, `values()` / `values_mut()`
    (before writing) the values of `l`, each once, in slot order (`projItem` is how `iterScript`
    projects an item for each kind). -/
theorem traversal_projections {r : Raw K V} {l : List (K × V)} (hr : Rep r l) {fuel : Nat}
    (hfuel : l.length ≤ fuel) (s : St K V Q) :
    ∃ items, (iterStartR r >>= fun it => iterToList r fuel it) s = .ok items s ∧
      items.map (·.2.1) = l.map (·.1) ∧ items.map (·.2.2) = l.map (·.2) := by
  obtain ⟨items, h1, h2, _⟩ := traversal_yields_all hr hfuel s
  refine ⟨items, h1, ?_, ?_⟩
  · rw [← h2, List.map_map]; rfl
  · rw [← h2, List.map_map]; rfl

/-- iterating twice without an intervening mutation yields the same sequence: the traversal does
    not change the state and its result is a function of the container alone. -/
theorem two_traversals_agree {r : Raw K V} {l : List (K × V)} (hr : Rep r l) {fuel : Nat}
    (hfuel : l.length ≤ fuel) (s : St K V Q) :
    ∃ items, (do
        let a ← iterStartR r >>= fun it => iterToList r fuel it
        let b ← iterStartR r >>= fun it => iterToList r fuel it
        pure (a, b) : SM K V Q _) s = .ok (items, items) s := by
  obtain ⟨items, h1, _⟩ := remaining_items hr (Nat.zero_le _) (fuel := fuel) (by omega) s
  exact ⟨items, by simp only [bind_apply, pure_apply, iterStartR_ok hr s, h1]⟩

/-- a clone taken after `k` steps: what it still yields — and what `Debug` of the iterator prints at
    that point (`SliceIt.restR`, used by `iterRunOut` for forks and by the `debug` commands) — is
    `l.drop k` … -/
theorem clone_rest {r : Raw K V} {l : List (K × V)} (hr : Rep r l) {k : Nat} (hk : k ≤ l.length)
    (s : St K V Q) :
    SliceIt.restR r ⟨k, l.length⟩ s = .ok (l.drop k) s :=
  restR_rep hr hk s

/-- … which is exactly what the original goes on to yield: a cloned iterator continues identically
    to its original. -/
theorem clone_continues_identically {r : Raw K V} {l : List (K × V)} (hr : Rep r l) {k : Nat}
    (hk : k ≤ l.length) {fuel : Nat} (hfuel : l.length - k ≤ fuel) (s : St K V Q) :
    ∃ items rest, iterToList r fuel ⟨k, l.length⟩ s = .ok items s ∧
      SliceIt.restR r ⟨k, l.length⟩ s = .ok rest s ∧ items.map (·.2) = rest := by
  obtain ⟨items, h1, h2, _⟩ := remaining_items hr hk hfuel s
  exact ⟨items, _, h1, restR_rep hr hk s, h2⟩

/-- the composite operation the driver executes, for the kinds that hand out shared references
    (`iter`, `keys`, `values`; `Set::iter` is `keys` at `V = Unit`): any script — any mixture of
    `next`, `len`, `size_hint`, `Debug`, `clone`, `count` — runs to completion and leaves the
    whole state (container and world) exactly as it was. -/
theorem shared_iter_changes_nothing (R : Render K V) {kind : IterKind} (hk : ¬ IsMut kind) (g : V → V)
    (script : List IterCmd) {s : St K V Q} {l : List (K × V)} (hr : Rep s.r l) :
    ∃ out, iterOp R kind g script s = .ok out s := by
  obtain ⟨o, s', e, _, _, h3, _⟩ := iterOp_spec R kind g script hr
  exact ⟨o, by rw [e, h3 hk]⟩

/-- `iter_mut` / `values_mut` under any script: exactly the values of the entries that were yielded
    (the first `scriptNexts script` ones) are replaced by `g v`; keys, order, length, capacity and
    the world are untouched, nothing panics. -/
theorem mut_iter_writes_prefix (R : Render K V) {kind : IterKind} (hk : IsMut kind) (g : V → V)
    (script : List IterCmd) {s : St K V Q} {l : List (K × V)} (hr : Rep s.r l) :
    ∃ out s', iterOp R kind g script s = .ok out s' ∧ s'.w = s.w ∧ s'.r.cap = s.r.cap ∧
      Rep s'.r (mapRange (wr g) 0 (scriptNexts script) l) := by
  obtain ⟨o, s', e, h1, h2, _, h4⟩ := iterOp_spec R kind g script hr
  exact ⟨o, s', e, h1, h2, h4 hk⟩

/-- a full pass of `iter_mut` / `values_mut` that writes `g v` through every reference it gets
    (the script calls `next` at least `|l|` times before consuming the iterator): the container
    afterwards holds exactly `(k, g v)` for every `(k, v)` it held, in the same slots. -/
theorem mut_iter_writes_all (R : Render K V) {kind : IterKind} (hk : IsMut kind) (g : V → V)
    (script : List IterCmd) {s : St K V Q} {l : List (K × V)} (hr : Rep s.r l)
    (hn : l.length ≤ scriptNexts script) :
    ∃ out s', iterOp R kind g script s = .ok out s' ∧ s'.w = s.w ∧ s'.r.cap = s.r.cap ∧
      Rep s'.r (l.map fun p => (p.1, g p.2)) := by
  obtain ⟨o, s', e, h1, h2, h3⟩ := mut_iter_writes_prefix R hk g script hr
  rw [mapRange_all _ hn] at h3
  exact ⟨o, s', e, h1, h2, h3⟩

/-- writes made through `iter_mut` / `values_mut` are exactly what later lookups return: after the
    full pass, `get` / `get_key_value` with any probe finds the same slot as before (the keys did
    not move) and the value behind the returned reference is `g` of the old one. -/
theorem lookup_after_mut_iter (hE : E.Pure) (R : Render K V) {kind : IterKind} (hk : IsMut kind)
    (g : V → V) (script : List IterCmd) {s : St K V Q} {l : List (K × V)} (hr : Rep s.r l)
    (hb : Benign s.w) (hn : l.length ≤ scriptNexts script) (pr : Probe K Q) :
    ∃ out s1 s2, iterOp R kind g script s = .ok out s1 ∧
      get E pr s1 = .ok ((findKey E l pr).bind fun i => l[i]?.map fun p => (i, (p.1, g p.2))) s2 ∧
      s2.r = s1.r := by
  obtain ⟨o, s1, e, h1, _, h3⟩ := mut_iter_writes_all R hk g script hr hn
  have hb1 : Benign s1.w := h1 ▸ hb
  obtain ⟨a, s2, e2, g1, _, g3, g4⟩ := (get_sat E h3 pr).must_return (by
    intro c s' ⟨_, h⟩; exact h.2.1 hb1.1)
  refine ⟨o, s1, s2, e, ?_, g1⟩
  rw [e2]
  congr 1
  have hfk := g4 hE
  rw [show (l.map fun p => (p.1, g p.2)) = l.map (wr g) from rfl, findKey_map_wr] at hfk
  cases a with
  | none => rw [← hfk]; rfl
  | some x =>
    obtain ⟨i, p⟩ := x
    obtain ⟨hi, hp⟩ := g3 i p rfl
    rw [← hfk]
    simp only [List.length_map] at hi
    simp [hp, hi]

/-- memory safety of the composite operation without any assumption beyond `Safe` (no assumption
    on `==`, on the profile or on an armed injection): for EVERY script and every kind, `iterOp`
    never reaches `ub`, never panics, and preserves `Safe` and the capacity. -/
theorem iterOp_safe (R : Render K V) (kind : IterKind) (g : V → V) (script : List IterCmd)
    {s : St K V Q} (hs : Safe s.r) :
    Sat (iterOp R kind g script) s
      (fun _ s' => Safe s'.r ∧ s'.r.cap = s.r.cap ∧ s'.r.len = s.r.len ∧ s'.w = s.w)
      (fun _ _ => False) := by
  obtain ⟨o, s', e, h1, h2, h3, h4⟩ := iterOp_spec R kind g script hs.rep
  refine Sat.of_ok e ?_
  by_cases hm : IsMut kind
  · have := h4 hm
    exact ⟨this.safe, h2, by rw [this.1, mapRange_length, hs.rep.1], h1⟩
  · rw [h3 hm]; exact ⟨hs, rfl, rfl, rfl⟩

/-! ### the same facts read off the composite operation (`iterOp` = `iter()` + script) -/

/-- what a `next` command reports (`Iters.nextOut`), for the kinds handing out `&V`: inside the
    window a reference into slot `k+i` showing exactly the stored entry, `None` after the end. -/
theorem nextOut_shared {kind : IterKind} (hk : ¬ IsMut kind) (g : V → V) (l : List (K × V)) (k i : Nat) :
    (∀ h : k + i < l.length, nextOut kind g l k i = RV.some (projItem kind (k + i) l[k + i])) ∧
    (l.length ≤ k + i → nextOut kind g l k i = RV.none) := by
  refine ⟨fun h => ?_, fun h => ?_⟩
  · simp [nextOut, h, hk]
  · simp [nextOut, List.getElem?_eq_none h]

/-- … and for `iter_mut` / `values_mut`: the reference shows the value after the write `g v`. -/
theorem nextOut_mut {kind : IterKind} (hk : IsMut kind) (g : V → V) (l : List (K × V)) (k i : Nat) :
    (∀ h : k + i < l.length,
      nextOut kind g l k i = RV.some (projItem kind (k + i) (l[k + i].1, g l[k + i].2))) ∧
    (l.length ≤ k + i → nextOut kind g l k i = RV.none) := by
  refine ⟨fun h => ?_, fun h => ?_⟩
  · simp [nextOut, h, hk, wr]
  · simp [nextOut, List.getElem?_eq_none h]

/-- exact lengths along a whole traversal, as the driver observes them: for EVERY number `j` of
    `next` commands (also beyond the end), every kind and every content, the script
    `next^j ; probe` reports the `j` items (slot `i`, entry `l[i]`, then `None`s) followed by
    `len() = |l| - j`, `size_hint() = (|l| - j, Some (|l| - j))`, `count() = |l| - j`
    (natural subtraction: `0` after the end). -/
theorem script_probe_after_j_steps (R : Render K V) (kind : IterKind) (g : V → V) (j : Nat)
    {s : St K V Q} {l : List (K × V)} (hr : Rep s.r l) :
    (∃ s', iterOp R kind g (List.replicate j .next ++ [.len]) s =
      .ok ((List.range j).map (nextOut kind g l 0) ++ [RV.nat (l.length - j)]) s') ∧
    (∃ s', iterOp R kind g (List.replicate j .next ++ [.hint]) s =
      .ok ((List.range j).map (nextOut kind g l 0) ++ [RV.hint (l.length - j) (some (l.length - j))]) s') ∧
    (∃ s', iterOp R kind g (List.replicate j .next ++ [.count]) s =
      .ok ((List.range j).map (nextOut kind g l 0) ++ [RV.nat (l.length - j)]) s') := by
  obtain ⟨sj, _, _, _, _, h5⟩ := iterScript_nexts R kind g j 0 s l hr (Nat.zero_le _)
  have hsub : l.length - min j l.length = l.length - j := by omega
  simp only [Nat.zero_add] at h5
  refine ⟨⟨sj, ?_⟩, ⟨sj, ?_⟩, ⟨sj, ?_⟩⟩
  · have := h5 [.len] [] [RV.nat (l.length - j)] sj (by
      simp [iterScript, iterRunForks, SliceIt.len, hsub])
    simp only [iterOp, getS, bind_apply, iterStartR_ok hr s, this]
  · have := h5 [.hint] [] [RV.hint (l.length - j) (some (l.length - j))] sj (by
      simp [iterScript, iterRunForks, SliceIt.len, hsub])
    simp only [iterOp, getS, bind_apply, iterStartR_ok hr s, this]
  · have := h5 [.count] [] [RV.nat (l.length - j)] sj (by
      simp [iterScript, iterRunForks, SliceIt.len, hsub])
    simp only [iterOp, getS, bind_apply, iterStartR_ok hr s, this]

/-- a clone inside a script (`next^j ; clone ; next^m`, shared kinds): the original goes on to
    report `nextOut … j 0`, `nextOut … j 1`, …; the clone, run to its end afterwards, yields the
    entries `l.drop j` with slot positions `j, j+1, …` … -/
theorem script_clone_at_j (R : Render K V) {kind : IterKind} (hk : ¬ IsMut kind) (g : V → V)
    {j : Nat} (m : Nat) {s : St K V Q} {l : List (K × V)} (hr : Rep s.r l) (hj : j ≤ l.length) :
    iterOp R kind g (List.replicate j .next ++ .clone :: List.replicate m .next) s =
      .ok ((List.range j).map (nextOut kind g l 0) ++ ((List.range m).map (nextOut kind g l j) ++
        [RV.list ((l.drop j).zipIdx.map fun x => projItem kind (j + x.2) x.1)])) s := by
  have hk' : ¬ (kind = IterKind.iter_mut ∨ kind = IterKind.values_mut) := hk
  obtain ⟨s1, _, _, h3, _, h5⟩ := iterScript_nexts R kind g j 0 s l hr (Nat.zero_le _)
  obtain ⟨s2, _, _, g3, _, g5⟩ := iterScript_nexts R kind g m j s l hr hj
  rw [h3 hk] at h5
  rw [g3 hk] at g5
  have hmin : min (0 + j) l.length = j := by omega
  have inner := g5 [] [⟨j, l.length⟩]
    [RV.list ((l.drop j).zipIdx.map fun x => projItem kind (j + x.2) x.1)] s (by
      simp only [iterScript, iterRunForks, iterRunOut, getS, bind_apply, pure_apply, restR_rep hr hj s])
  rw [List.append_nil] at inner
  have outer := h5 (.clone :: List.replicate m .next) [] _ s (by
    rw [hmin, iterScript]; simp only [hk', if_false, List.nil_append]; exact inner)
  simp only [iterOp, getS, bind_apply, iterStartR_ok hr s, outer]

/-- … which, item for item, is what the original reports from there on: a cloned iterator continues
    identically to its original. -/
theorem script_clone_agrees {kind : IterKind} (hk : ¬ IsMut kind) (g : V → V) (l : List (K × V))
    (j i : Nat) (h : j + i < l.length) :
    some (nextOut kind g l j i) =
      (((l.drop j).zipIdx.map fun x => projItem kind (j + x.2) x.1)[i]?).map RV.some := by
  rw [(nextOut_shared hk g l j i).1 h]
  simp [List.getElem?_map, List.getElem?_zipIdx, h, List.getElem?_drop]

/-! Non-vacuity: a concrete container meets the hypotheses, and the model computes what the
    theorems say (tests, not proofs). -/

def exRaw : Raw Nat Nat :=
  { cap := 3, len := 2, slots := fun i => if i = 0 then some (7, 70) else if i = 1 then some (8, 80) else none }

def exSt : St Nat Nat Nat := { r := exRaw, w := {} }

example : Rep exRaw [(7, 70), (8, 80)] :=
  ⟨rfl, by decide, fun i hi => by
    have : i = 0 ∨ i = 1 := by simp at hi; omega
    rcases this with rfl | rfl <;> rfl⟩
example : Benign exSt.w := ⟨rfl, rfl⟩
example : IsMut .iter_mut := Or.inl rfl
example : ¬ IsMut .keys := by decide
example : scriptNexts [.next, .len, .next, .clone, .next, .count, .next] = 3 := by decide
example : (match iterToList exRaw 5 ⟨0, 2⟩ exSt with | .ok x _ => x | _ => []) =
    [(0, (7, 70)), (1, (8, 80))] := by decide
example : mapRange (wr (K := Nat) (· + 1)) 0 5 [(7, 70), (8, 80)] = [(7, 71), (8, 81)] := by decide

end Micromap.Props.C09
