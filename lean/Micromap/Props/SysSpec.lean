/-
THE SYSTEM SPECIFICATION: the slot machine equals a readable list-level interpreter.

`Micromap.step E R : Sys → Op → Sys × Out` is the executable L0 model of the crate: arrays of
`MaybeUninit` slots, a `len` field, raw reads and writes, a world with callbacks.
`Micromap.ListSys.lstepCore E R : LSys → Op → LRes` (file `Spec/ListSys.lean`) is a PURE function over
association lists that can be read in one sitting:

* a register is `⟨cap, l⟩`: the capacity `N` and the entries in slot order;
* every lookup is `findKey E l probe`: the first stored key that `==` the probe;
* `insert` replaces the value in place (the stored key object stays) or appends, `insert_key_value` /
  `replace` also replace the key, a full map panics (`overflow` in a debug build, `oob` in a release
  build), `checked_insert` returns `None` instead;
* `remove` is `Dict.swapRemove` (the last entry moves into the hole), `retain` is `Dict.retainL`;
* `drain(take)` yields `l.take take`, `into_iter` yields `l.reverse.take take` (it pops from the end);
* iterator scripts (`next`, `len`, `size_hint`, `Debug`, `clone`, `count`) walk a position over the
  list, `iter_mut` writing through the references it hands out (`lIterScript`);
* entry chains (`lEntryOp`), `get_disjoint_mut` (`lDisjoint`: overlap pre-check, one slot per request),
  `Debug` / `Display` (`lFmtMap`, `lFmtSet`), `==` (`SetAlg.mapEqCode`);
* sets are maps with `V = ()`; the lazy set operations are scripts over the iterator state
  (`lAlgScript`), `is_subset` / `is_disjoint` are `SetAlg.isSubsetCode` / `isDisjointCode`;
* `clone_to`, `from_iter`, `extend`, `&a - &b`, serialize-then-deserialize are folds of single inserts
  (`FromIter.foldInsert`) over the (cloned) items, panicking when an item with a new key finds the
  target full;
* `a.extend(b)` with the set `b` moved in (`extend_from`) is the fold of single inserts of `b`'s keys
  in the order the consuming iterator yields them (last slot first) into `a`, and `b` is empty
  afterwards — also when a new key finds `a` full (then what went in so far stays in `a`).

The two theorems below say that `step` / `run` compute exactly this function: the same outcome
(`ok` / the same panic class / never `ub`), the same returned value tree — including the slot
positions of returned references, iterator-script outputs, rendered strings, hints and counts —
and final registers that represent the interpreter's final lists with the same capacities.

SCOPE.  `E.Pure` (the answers of `==` do not depend on when it is asked — no other law is needed:
`==` may be non-reflexive or asymmetric); a world without an armed injected panic (`Benign`).
`Op.inSpec` excludes: the two `unsafe fn`s `insert_unchecked` and `get_disjoint_unchecked_mut`
(outside their contract the model reaches `ub`), and the harness command `inject` (it arms a fault:
what happens then is the subject of the exception-safety theorems C04).  `Op.SideOK` asks: a `retain`
predicate that does not depend on the call counter; for `clone_to`, `&a - &b` and `serde` (whose
RESULT contains what the user's `Clone` / `Deserialize` returns) clones that do not depend on the
fresh-object counter.  NOT covered by the interpreter at all: which objects are dropped, cloned or
leaked, event logs, call counts, `touched` sets — that is the business of the ledger theorems
(C02) and of the per-operation trace theorems.
-/
import Micromap.Proofs.ListSysRefine
import Micromap.Proofs.ListSysDecEq

namespace Micromap.Props.SysSpec
open Micromap Micromap.ListSys
variable {K V Q : Type} (E : Env K V Q) (R : Render K V)

/-- **One step of the slot machine is one step of the list-level interpreter.**
    `view (step E R sys op).2` is the pair (outcome, returned value) that `step` shows; it equals
    what `lstep` (= `lstepCore` with a panic's return value blanked, as `step` does) computes on the
    lists; the registers afterwards represent the interpreter's lists (`SysRep`: slots `[0, len)` of
    every register are exactly the list, capacities agree, same build profile); the world is again
    benign, so the theorem can be applied to the next step. -/
theorem step_refines (hE : E.Pure) {sys : Sys K V Q} {ls : LSys K V} (hb : Benign sys.w)
    (hs : SysRep sys ls) (op : Op K V Q) (hop : op.inSpec = true) (hside : Op.SideOK E op) :
    view (step E R sys op).2 = (lstep E R ls op).2 ∧
      SysRep (step E R sys op).1 (lstep E R ls op).1 ∧ Benign (step E R sys op).1.w :=
  ListSys.step_refines E R hE hb hs op hop hside

/-- the same, spelled out on `lstepCore`: a returned value and new lists, or the panic class of a
    panic the container itself raises (a full map, `index` of an absent key, overlapping requests
    of `get_disjoint_mut`, `with_capacity` mismatch, …) and the lists the panic leaves behind. -/
theorem step_refines_cases (hE : E.Pure) {sys : Sys K V Q} {ls : LSys K V} (hb : Benign sys.w)
    (hs : SysRep sys ls) (op : Op K V Q) (hop : op.inSpec = true) (hside : Op.SideOK E op) :
    match lstepCore E R ls op with
    | .ok ret ls' =>
      (step E R sys op).2.outcome = .ok ∧ (step E R sys op).2.ret = ret ∧
        SysRep (step E R sys op).1 ls' ∧ Benign (step E R sys op).1.w
    | .panic c ls' =>
      (step E R sys op).2.outcome = .panic c ∧ (step E R sys op).2.ret = .unit ∧
        SysRep (step E R sys op).1 ls' ∧ Benign (step E R sys op).1.w := by
  obtain ⟨h1, h2, h3⟩ := ListSys.step_refines E R hE hb hs op hop hside
  unfold lstep at h1 h2
  cases hl : lstepCore E R ls op with
  | ok ret ls' =>
    rw [hl] at h1 h2
    exact ⟨congrArg LOut.outcome h1, congrArg LOut.ret h1, h2, h3⟩
  | panic c ls' =>
    rw [hl] at h1 h2
    exact ⟨congrArg LOut.outcome h1, congrArg LOut.ret h1, h2, h3⟩

/-- **Every history of the slot machine is the history of the list-level interpreter.**  From the
    initial system (`Sys.init`: every register a fresh `new()` of its capacity) in any benign
    world, for every list of operations in scope (no bound on its length): the outcomes and
    returned values `run` shows are, step by step, those `lrun` computes; the final registers
    represent the final lists. -/
theorem run_refines (hE : E.Pure) (capM capS : Nat → Nat) (w0 : World K V Q) (hb : Benign w0)
    (ops : List (Op K V Q)) (hops : ∀ op ∈ ops, op.inSpec = true ∧ Op.SideOK E op) :
    (run E R (Sys.init capM capS w0) ops).2.map view =
        (lrun E R (LSys.init capM capS w0.profile) ops).2 ∧
      SysRep (run E R (Sys.init capM capS w0) ops).1 (lrun E R (LSys.init capM capS w0.profile) ops).1 ∧
      Benign (run E R (Sys.init capM capS w0) ops).1.w :=
  ListSys.run_refines E R hE capM capS w0 hb ops hops

/-- the same from any represented state (not only the initial one). -/
theorem run_refines_from (hE : E.Pure) (ops : List (Op K V Q)) (sys : Sys K V Q) (ls : LSys K V)
    (hb : Benign sys.w) (hs : SysRep sys ls) (hops : ∀ op ∈ ops, op.inSpec = true ∧ Op.SideOK E op) :
    (run E R sys ops).2.map view = (lrun E R ls ops).2 ∧
      SysRep (run E R sys ops).1 (lrun E R ls ops).1 ∧ Benign (run E R sys ops).1.w :=
  ListSys.run_refines' E R hE ops sys ls hb hs hops

/-- **Only the lists matter.**  Two systems whose registers hold the same lists — whatever their
    dead slots contain, whatever their event logs, leak lists and counters — show the same outcomes
    and returned values on every history and end in states that hold the same lists. -/
theorem run_deterministic_in_lists (hE : E.Pure) {sys₁ sys₂ : Sys K V Q} {ls : LSys K V}
    (hb₁ : Benign sys₁.w) (hb₂ : Benign sys₂.w) (hs₁ : SysRep sys₁ ls) (hs₂ : SysRep sys₂ ls)
    (ops : List (Op K V Q)) (hops : ∀ op ∈ ops, op.inSpec = true ∧ Op.SideOK E op) :
    (run E R sys₁ ops).2.map view = (run E R sys₂ ops).2.map view ∧
      ∃ ls', SysRep (run E R sys₁ ops).1 ls' ∧ SysRep (run E R sys₂ ops).1 ls' :=
  ListSys.run_deterministic_in_lists E R hE hb₁ hb₂ hs₁ hs₂ ops hops

/-- the one-register theorems behind `step_refines`, for reference: the `Map` API … -/
theorem map_register_refines (hE : E.Pure) {prof : Profile} {cap : Nat} {l : List (K × V)} {s : St K V Q}
    (hc : Ctx prof cap l s) (other : Nat → Raw K V) (lo : Nat → List (K × V))
    (hother : ∀ o, Rep (other o) (lo o)) (op : MapOp K V Q) (hop : op.safeApi = true)
    (hside : MapOp.SideOK op) :
    RegOK prof cap (lMapOp E R prof cap lo l op) (stepMapOp E R other op) s :=
  stepMapOp_ok E R hE hc other lo hother op hop hside

/-- … and the `Set` API. -/
theorem set_register_refines {K Q : Type} (F : Env K Unit Q) (R : Render K Unit) (hF : F.Pure)
    {prof : Profile} {cap : Nat} {l : List (K × Unit)} {s : St K Unit Q} (hc : Ctx prof cap l s)
    (other : Nat → Raw K Unit) (lo : Nat → List (K × Unit)) (hother : ∀ o, Rep (other o) (lo o))
    (op : SetOp K Q) (hside : SetOp.SideOK op) :
    RegOK prof cap (lSetOp F R prof cap lo l op) (stepSetOp F R other op) s :=
  stepSetOp_ok F R hF hc other lo hother op hside

/-! ### a concrete history

Keys are numbers that `==` compares modulo 10 (so `1 == 11` although they are different
objects); map registers have capacity 2, set registers capacity 3. -/

def exE : Env Nat Nat Nat :=
  { eqK := fun _ a b => a % 10 == b % 10, eqQ := fun _ a b => a % 10 == b % 10, eqV := fun a b => a == b,
    borrow := id, clK := fun _ k => k, clV := fun _ v => v }

def exR : Render Nat Nat :=
  { dbgK := fun _ k => toString k, dbgV := fun _ v => toString v, dspK := toString, dspV := toString }

def exHist : List (Op Nat Nat Nat) :=
  [ .map 0 (.insert 1 10),                    -- new key
    .map 0 (.insert 2 20),                    -- new key
    .map 0 (.insert 11 30),                   -- `11 == 1`: the value is replaced, the stored key stays
    .map 0 (.insert 3 40),                    -- the map is full: panic
    .map 0 (.clone_to 1),
    .map 1 (.remove (.key 1)),                -- swap-remove in the clone
    .map 0 (.iter .iter_mut (· + 1) [.next, .len, .debug]),
    .map 0 (.entry 2 [(· * 2)] (.or_insert 0)),
    .set 0 (.insert 5),
    .set 1 (.insert 6),
    .set 0 (.alg .union 1 [.next, .hint, .fold]),
    .map 0 (.fmt .debug),
    .endCase ]

def exL0 : LSys Nat Nat := LSys.init (fun _ => 2) (fun _ => 3) .debug
def exS0 : Sys Nat Nat Nat := Sys.init (fun _ => 2) (fun _ => 3) {}

/-- the interpreter is executable: the outcomes … -/
example : (lrun exE exR exL0 exHist).2.map (·.outcome) =
    [.ok, .ok, .ok, .panic .overflow, .ok, .ok, .ok, .ok, .ok, .ok, .ok, .ok, .ok] := by decide

/-- … and the returned values of the history. -/
example : (lrun exE exR exL0 exHist).2.map (·.ret) =
    [ .none, .none, .some (.val 10), .unit, .unit, .some (.val 30),
      .list [.some (.ref 0 (.pair 1 31)), .nat 1, .str "[(2, 20)]"],
      .list [.tag "occ", .ref 1 (.val 40)],
      .bool true, .bool true,
      .list [.some (.oref 1 0 (.key 6)), .hint 0 (some 1), .list [.oref 0 0 (.key 5)]],
      .str "{1: 31, 2: 40}",
      .unit ] := by decide

/-- the lists in between: after the first eight operations. -/
example : ((lrun exE exR exL0 (exHist.take 8)).1.maps 0).l = [(1, 31), (2, 40)] ∧
    ((lrun exE exR exL0 (exHist.take 8)).1.maps 1).l = [(2, 20)] := by decide

/-- one step through `lstepCore` itself. -/
example : (match lstepCore exE exR (lrun exE exR exL0 (exHist.take 3)).1 (.map 0 (.insert 3 40)) with
    | .panic c ls' => (some c, (ls'.maps 0).l)
    | .ok _ ls' => (none, (ls'.maps 0).l)) = (some .overflow, [(1, 30), (2, 20)]) := by decide

/-- a history through the slot machine, by evaluation (the script-driven operations `iter` / `alg`
    are left out here: the model's script interpreters are defined by well-founded recursion, which
    `decide` cannot unfold; they are covered by the next example): the same outcomes and returned
    values as the interpreter … -/
def exHistK : List (Op Nat Nat Nat) :=
  [ .map 0 (.insert 1 10), .map 0 (.insert 2 20), .map 0 (.insert 11 30), .map 0 (.insert 3 40),
    .map 0 (.clone_to 1), .map 1 (.remove (.key 1)),
    .map 0 (.entry 2 [(· * 2)] (.or_insert 0)), .map 0 (.get_mut (.q 21) (· + 1)),
    .set 0 (.insert 5), .set 1 (.insert 6), .set 0 (.is_subset 1), .set 1 (.sub 0 0),
    .map 0 (.fmt .debug), .map 1 (.drain 1 false),
    .endCase ]

example : (run exE exR exS0 exHistK).2.map view = (lrun exE exR exL0 exHistK).2 := by decide +kernel

/-- … and for the first history by the theorem: the hypotheses of `run_refines` are satisfiable. -/
theorem exPure : exE.Pure := ⟨fun _ _ _ => rfl, fun _ _ _ => rfl⟩

theorem exStable : Env.CloneStable exE := ⟨fun _ _ => rfl, fun _ _ => rfl⟩

example : (run exE exR exS0 exHist).2.map view = (lrun exE exR exL0 exHist).2 :=
  (run_refines exE exR exPure (fun _ => 2) (fun _ => 3) {} ⟨rfl, rfl⟩ exHist (by
    intro op hop
    simp only [exHist, List.mem_cons, List.mem_nil_iff, or_false] at hop
    rcases hop with rfl | rfl | rfl | rfl | rfl | rfl | rfl | rfl | rfl | rfl | rfl | rfl | rfl <;>
      first
      | exact ⟨rfl, trivial⟩
      | exact ⟨rfl, exStable⟩)).1

end Micromap.Props.SysSpec
