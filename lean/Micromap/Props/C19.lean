/-
C19 — Debug/Display render exactly the current (or not-yet-yielded) entries.

`Spec/StdFmt.lean` is the reference: the layout rules of `core::fmt`'s `debug_map` / `debug_set`
/ `debug_list` builders (plain and alternate form) over already rendered element strings, and the
`{k: v, k: v}` / `{a, b}` layout of `Display` (`", "`-joined).  It is a trusted model of std,
validated on every run against the real `format!` by the correspondence check.  The element
renderings `R : Render K V` (the user's `Debug`/`Display` impls) are arbitrary.
What is proved: the strings the model produces are those reference layouts applied to EXACTLY the
entries stored (for containers, in iteration order) or not yet yielded (for iterators and
drains, at every consumption prefix), and formatting leaves the container unchanged.
-/
import Micromap.Proofs.Fmt
import Micromap.Props.C08
import Micromap.Props.C10

namespace Micromap.Props.C19
open Micromap Micromap.Refine
variable {K V Q : Type}

/-- `{:?}`, `{:#?}` and `{}` of a `Map`: `debug_map` resp. the `Display` layout over the entries
    in iteration order (= slot order `l`); the container and the world are untouched. -/
theorem map_fmt (R : Render K V) {s : St K V Q} {l : List (K × V)} (hr : Rep s.r l) :
    fmtMap R .debug s = .ok (StdFmt.debugMap false (l.map fun p => (R.dbgK false p.1, R.dbgV false p.2))) s ∧
    fmtMap R .debugAlt s = .ok (StdFmt.debugMap true (l.map fun p => (R.dbgK true p.1, R.dbgV true p.2))) s ∧
    fmtMap R .display s = .ok (StdFmt.displayMap (l.map fun p => (R.dspK p.1, R.dspV p.2))) s := by
  refine ⟨?_, ?_, ?_⟩ <;>
    simp [fmtMap, bind_apply, Micromap.getS, entriesOf_ok hr, Fmt.displayMapCode_eq]

/-- the same for `Set`: `debug_set` and `{a, b}`. -/
theorem set_fmt (R : Render K Unit) {s : St K Unit Q} {l : List (K × Unit)} (hr : Rep s.r l) :
    fmtSet R .debug s = .ok (StdFmt.debugSet false (l.map fun p => R.dbgK false p.1)) s ∧
    fmtSet R .debugAlt s = .ok (StdFmt.debugSet true (l.map fun p => R.dbgK true p.1)) s ∧
    fmtSet R .display s = .ok (StdFmt.displaySet (l.map fun p => R.dspK p.1)) s := by
  refine ⟨?_, ?_, ?_⟩ <;>
    simp [fmtSet, bind_apply, Micromap.getS, entriesOf_ok hr, Fmt.displaySetCode_eq]

/-- `Display` writes `{`, the entries and `}` directly: width, fill, alignment and the alternate flag
    of the caller's format spec change nothing (`{:>30}`, `{:#}`); `{:30?}` hands the width to the
    elements only, the layout is that of `{:?}`. -/
theorem fmt_flags_ignored (R : Render K V) (s : St K V Q) :
    fmtMap R .displayPad s = fmtMap R .display s ∧ fmtMap R .displayAlt s = fmtMap R .display s ∧
    fmtMap R .debugPad s = fmtMap R .debug s := ⟨rfl, rfl, rfl⟩

theorem set_fmt_flags_ignored (R : Render K Unit) (s : St K Unit Q) :
    fmtSet R .displayPad s = fmtSet R .display s ∧ fmtSet R .displayAlt s = fmtSet R .display s ∧
    fmtSet R .debugPad s = fmtSet R .debug s := ⟨rfl, rfl, rfl⟩

/-- the hand-written `Display` loop (first entry, then `", "`-prefixed entries) is the documented
    `'{' entries joined by ", " '}'`, for every content including empty and one entry. -/
theorem display_is_joined (R : Render K V) (l : List (K × V)) :
    displayMapCode R l = "{" ++ ", ".intercalate (l.map fun p => R.dspK p.1 ++ ": " ++ R.dspV p.2) ++ "}" := by
  rw [Fmt.displayMapCode_eq]
  simp [StdFmt.displayMap, StdFmt.joinComma, List.map_map, Function.comp_def]

theorem display_set_is_joined (dsp : K → String) (l : List (K × Unit)) :
    displaySetCode dsp l = "{" ++ ", ".intercalate (l.map fun p => dsp p.1) ++ "}" := by
  rw [Fmt.displaySetCode_eq]; rfl

/-- **Borrowing iterators at every consumption prefix**: a `Debug` probe issued after `k` items
    have been yielded (`it = ⟨k, |l|⟩`) prints `debug_list` of exactly the entries not yet yielded,
    `l.drop k` (pairs, keys or values according to the iterator kind), and the script continues
    from the very same state. -/
theorem iter_debug_at_prefix (R : Render K V) (kind : IterKind) (g : V → V) (cs : List IterCmd)
    (forks : List SliceIt) {s : St K V Q} {l : List (K × V)} (hr : Rep s.r l) {k : Nat} (hk : k ≤ l.length) :
    iterScript R kind g (.debug :: cs) ⟨k, l.length⟩ forks s =
      (do let rest ← iterScript R kind g cs ⟨k, l.length⟩ forks
          pure (RV.str (renderRest R kind false (l.drop k)) :: rest)) s ∧
    iterScript R kind g (.debugAlt :: cs) ⟨k, l.length⟩ forks s =
      (do let rest ← iterScript R kind g cs ⟨k, l.length⟩ forks
          pure (RV.str (renderRest R kind true (l.drop k)) :: rest)) s := by
  constructor <;>
    simp [iterScript, bind_apply, Micromap.getS, Iters.restR_rep hr hk s]

/-- what `renderRest` is: `debug_list` over the element renderings of the remaining entries. -/
theorem renderRest_keys (R : Render K V) (alt : Bool) (l : List (K × V)) :
    renderRest R .keys alt l = StdFmt.debugList alt (l.map fun p => R.dbgK alt p.1) ∧
    renderRest R .values alt l = StdFmt.debugList alt (l.map fun p => R.dbgV alt p.2) ∧
    renderRest R .values_mut alt l = StdFmt.debugList alt (l.map fun p => R.dbgV alt p.2) :=
  ⟨rfl, rfl, rfl⟩

/-- **`Drain`**: after `take` items its `Debug` lists exactly the entries it still owns,
    `l.drop take`. -/
theorem drain_debug (E : Env K V Q) (R : Render K V) (other : Nat → Raw K V) (take : Nat) (forget : Bool)
    {s : St K V Q} {l : List (K × V)} (hr : Rep s.r l) (hb : Benign s.w) :
    ∃ s', stepMapOp E R other (.drain take forget) s =
      .ok (.list [.list ((l.take take).map fun p => .pair p.1 p.2), .nat (l.length - take),
        .str (renderRest R .iter false (l.drop take))]) s' := by
  obtain ⟨s', h, _⟩ := C10.drain_op E take forget hr hb
  exact ⟨s', by simp [stepMapOp, bind_apply, h]⟩

/-- **`IntoIter` / `IntoKeys` / `IntoValues`**: after `take` items (popped from the end) the
    `Debug` output lists exactly the remaining entries `l.take (|l| - take)`, ascending. -/
theorem into_iter_debug (E : Env K V Q) (R : Render K V) (other : Nat → Raw K V) (take : Nat)
    (forget : Bool) {s : St K V Q} {l : List (K × V)} (hr : Rep s.r l) (hb : Benign s.w) :
    ∃ s', stepMapOp E R other (.into_iter .pairs take forget) s =
      .ok (.list [.list ((l.reverse.take take).map fun p => .pair p.1 p.2), .nat (l.length - take),
        .str (renderRest R .iter false (l.take (l.length - take)))]) s' := by
  obtain ⟨s', h, _⟩ := C10.into_iter_op E .pairs take forget hr hb
  exact ⟨s', by simp [stepMapOp, bind_apply, h]⟩

/-- **Set-algebra iterators**: `Debug` of `Union` / `Intersection` / `Difference` /
    `SymmetricDifference` in any well-formed state prints `debug_list` of exactly the items the
    iterator will still yield (`Alg.algRest`, the lazily recomputed remainder); operands untouched. -/
theorem alg_debug (F : Env K Unit Q) (hF : F.Pure) (dbg : Bool → K → String) {a b : Raw K Unit}
    {la lb : List (K × Unit)} (hra : Rep a la) (hrb : Rep b lb) (it : AlgIt)
    (hit : Alg.AlgInv la.length lb.length it) (hm : Alg.meas it ≤ a.len + b.len)
    (cs : List IterCmd) (forks : List AlgIt) {s : St K Unit Q} (hw : Benign s.w) :
    ∃ s1 : St K Unit Q, s1.r = s.r ∧ WRel s.w s1.w [] ∧
      algScript F dbg a b (.debug :: cs) it forks s =
        (do let rest ← algScript F dbg a b cs it forks
            pure (RV.str (StdFmt.debugList false
              ((Alg.algRest F.keq la lb it).map fun (x : AlgItem K) => dbg false x.2.2)) :: rest)) s1 := by
  obtain ⟨s1, h1, h2, h3⟩ := C08.algRunOut_exact F hF hra hrb it hit (a.len + b.len + 1) (by omega) hw
  exact ⟨s1, h2, h3, by simp [algScript, bind_apply, h1]⟩

/-! ### non-vacuity (tests): the reference layouts on concrete data -/

example : StdFmt.debugMap false [("1", "\"a\""), ("2", "\"b\"")] = "{1: \"a\", 2: \"b\"}" := by decide
example : StdFmt.displayMap [("k1", "v1"), ("k2", "v2")] = "{k1: v1, k2: v2}" := by decide
example : StdFmt.displaySet ([] : List String) = "{}" := by decide
example : StdFmt.debugList false ["a", "b"] = "[a, b]" := by decide

end Micromap.Props.C19
