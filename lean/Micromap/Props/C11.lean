/-
C11 — The Entry API is equivalent to the corresponding direct map operations.

Property theorems only (helper triples live in `Micromap/Proofs/EntryOps.lean`).  All
statements are about the L0 model functions of `Micromap/Model/Entry.lean` / `Map.lean`.
An entry is the data it carries (`EntryS.occ i` / `EntryS.vac key`); a "returned reference"
is the slot position it points to.
-/
import Micromap.Proofs.EntryOps

namespace Micromap.Props.C11
open Micromap Micromap.EntryOps
open Micromap.Dict (swapRemove lookupP)
open Micromap.SetAlg (NodupKeys)
variable {K V Q : Type} (E : Env K V Q)

/-- In a world where no injected fault is armed an operation cannot unwind by injection. -/
theorem no_inj {s s' : St K V Q} {c} (hb : Benign s.w) (h : InjPanic s s' c) : False := h.2.1 hb.1

/-! ### `entry(k)` is Occupied exactly when `k` is present -/

/-- present key: `entry(k)` is `Occupied` at exactly the slot the scan (`get`, `contains_key`)
    finds; the supplied key is dropped and nothing else happens. -/
theorem entry_occupied (hE : E.Pure) {s : St K V Q} {l : List (K × V)} (hr : Rep s.r l)
    (hb : Benign s.w) (k : K) {i} (hf : findKey E l (.key k) = some i) :
    ∃ s', entry E k s = .ok (.occ i) s' ∧ s'.r = s.r ∧ WRel s.w s'.w [.dropK k] := by
  obtain ⟨e, s', h1, hs, h2⟩ := (entry_sat E hr k).must_return (fun c s' h => no_inj hb h.2)
  rcases h2 with ⟨j, rfl, _, hw, hj⟩ | ⟨_, _, hn⟩
  · have : j = i := by have := hj hE; rw [hf] at this; exact (Option.some.inj this).symm
    subst this; exact ⟨s', h1, hs, hw⟩
  · have := hn hE; rw [hf] at this; cases this

/-- absent key: `entry(k)` is `Vacant` and owns the key; no effect at all. -/
theorem entry_vacant (hE : E.Pure) {s : St K V Q} {l : List (K × V)} (hr : Rep s.r l)
    (hb : Benign s.w) (k : K) (hf : findKey E l (.key k) = none) :
    ∃ s', entry E k s = .ok (.vac k) s' ∧ s'.r = s.r ∧ WRel s.w s'.w [] := by
  obtain ⟨e, s', h1, hs, h2⟩ := (entry_sat E hr k).must_return (fun c s' h => no_inj hb h.2)
  rcases h2 with ⟨j, _, _, _, hj⟩ | ⟨rfl, hw, _⟩
  · have := hj hE; rw [hf] at this; cases this
  · exact ⟨s', h1, hs, hw⟩

/-- `entry(k)` is `Occupied` exactly when `contains_key(k)` answers `true` on the same state,
    and then its index is the slot of the key. -/
theorem entry_occupied_iff_contains_key (hE : E.Pure) {s : St K V Q} {l : List (K × V)} (hr : Rep s.r l)
    (hb : Benign s.w) (k : K) :
    ∃ e s1 b s2, entry E k s = .ok e s1 ∧ contains_key E (.key k) s = .ok b s2 ∧
      (b = true ↔ ∃ i, e = .occ i) ∧ (∀ i, e = .occ i ↔ findKey E l (.key k) = some i) := by
  obtain ⟨b, s2, hc, _, _, hbv⟩ := (contains_key_cb E hr (.key k)).must_return
    (fun c s' h => no_inj hb h.2)
  have hbv := hbv hE
  cases hf : findKey E l (.key k) with
  | some i =>
    obtain ⟨s1, h1, _, _⟩ := entry_occupied E hE hr hb k hf
    refine ⟨_, s1, b, s2, h1, hc, ?_, ?_⟩
    · rw [hbv, hf]; simp
    · intro j; constructor
      · intro h; cases h; rfl
      · intro h; cases h; rfl
  | none =>
    obtain ⟨s1, h1, _, _⟩ := entry_vacant E hE hr hb k hf
    refine ⟨_, s1, b, s2, h1, hc, ?_, ?_⟩
    · rw [hbv, hf]; simp
    · intro j; constructor
      · intro h; cases h
      · intro h; cases h

/-! ### `or_insert`, `or_insert_with` (`or_insert_with_key`, `or_default`) -/

/-- occupied: `or_insert_with` does NOT run its closure (the only effect of the whole chain is the
    drop of the supplied key — no `call` event), leaves the container untouched and returns the
    slot of the present key. -/
theorem entry_or_insert_with_occupied (hE : E.Pure) {s : St K V Q} {l : List (K × V)} (hr : Rep s.r l)
    (hb : Benign s.w) (k : K) (tag : Nat) (mk : V) {i} (hf : findKey E l (.key k) = some i) :
    ∃ s', (entry E k >>= or_insert_with E tag mk) s = .ok i s' ∧ s'.r = s.r ∧
      WRel s.w s'.w [.dropK k] := by
  obtain ⟨idx, s', h1, _, h2⟩ := (entry_or_insert_with_sat E hr k tag mk).must_return (by
    intro c s' ⟨_, h⟩
    rcases h with ⟨h, _⟩ | ⟨_, _, _, hn, _⟩
    · exact no_inj hb h
    · have := hn hE; rw [hf] at this; cases this)
  rcases h2 with ⟨_, hs, hw, hj⟩ | ⟨_, _, _, hn⟩ | ⟨_, _, _, _, hn⟩
  · have : idx = i := by have := hj hE; rw [hf] at this; exact (Option.some.inj this).symm
    subst this; exact ⟨s', h1, hs, hw⟩
  · exact (hn hE).elim
  · have := hn hE; rw [hf] at this; cases this

/-- vacant, with room: the closure runs exactly once (`[call tag]` is the whole trace), the pair
    `(k, mk)` is appended exactly as by `insert` (`Rep s'.r (l ++ [(k, mk)])`), and the returned
    reference is the new slot `len`. -/
theorem entry_or_insert_with_vacant (hE : E.Pure) {s : St K V Q} {l : List (K × V)} (hr : Rep s.r l)
    (hb : Benign s.w) (k : K) (tag : Nat) (mk : V) (hf : findKey E l (.key k) = none)
    (hroom : l.length < s.r.cap) :
    ∃ s', (entry E k >>= or_insert_with E tag mk) s = .ok l.length s' ∧
      Rep s'.r (l ++ [(k, mk)]) ∧ s'.r.cap = s.r.cap ∧ WRel s.w s'.w [.call tag] := by
  obtain ⟨idx, s', h1, hc, h2⟩ := (entry_or_insert_with_sat E hr k tag mk).must_return (by
    intro c s' ⟨_, h⟩
    rcases h with ⟨h, _⟩ | ⟨_, _, hfull, _⟩
    · exact no_inj hb h
    · omega)
  rcases h2 with ⟨_, _, _, hj⟩ | ⟨_, _, _, hn⟩ | ⟨rfl, _, hrep, hw, _⟩
  · have := hj hE; rw [hf] at this; cases this
  · exact (hn hE).elim
  · exact ⟨s', h1, hrep, hc, hw⟩

/-- vacant on a full map: the closure still runs once, then the overflow panic of `insert`, with
    the container untouched and the produced value and the key dropped. -/
theorem entry_or_insert_with_full (hE : E.Pure) {s : St K V Q} {l : List (K × V)} (hr : Rep s.r l)
    (hb : Benign s.w) (k : K) (tag : Nat) (mk : V) (hf : findKey E l (.key k) = none)
    (hfull : l.length = s.r.cap) :
    ∃ c s', (entry E k >>= or_insert_with E tag mk) s = .panic c s' ∧ s'.r = s.r ∧
      OverflowPanic s c ∧ WRel s.w s'.w (.call tag :: (dropVTr E mk ++ [.dropK k])) := by
  obtain ⟨c, s', h1, _, h2⟩ := (entry_or_insert_with_sat E hr k tag mk).must_panic (by
    intro idx s' ⟨_, h⟩
    rcases h with ⟨_, _, _, hj⟩ | ⟨_, _, _, hn⟩ | ⟨_, hroom, _⟩
    · have := hj hE; rw [hf] at this; cases this
    · exact hn hE
    · omega)
  rcases h2 with ⟨h, _⟩ | ⟨hs, ho, _, _, hw⟩
  · exact (no_inj hb h).elim
  · exact ⟨c, s', h1, hs, ho, hw⟩

/-- occupied: `or_insert` inserts nothing; the supplied key and the unused default are dropped,
    the container is untouched and the slot of the present key is returned. -/
theorem entry_or_insert_occupied (hE : E.Pure) {s : St K V Q} {l : List (K × V)} (hr : Rep s.r l)
    (hb : Benign s.w) (k : K) (d : V) {i} (hf : findKey E l (.key k) = some i) :
    ∃ s', (entry E k >>= or_insert E d) s = .ok i s' ∧ s'.r = s.r ∧
      WRel s.w s'.w (.dropK k :: dropVTr E d) := by
  obtain ⟨idx, s', h1, _, h2⟩ := (entry_or_insert_sat E hr k d).must_return (by
    intro c s' ⟨_, h⟩
    rcases h with ⟨h, _⟩ | ⟨_, _, _, hn, _⟩
    · exact no_inj hb h
    · have := hn hE; rw [hf] at this; cases this)
  rcases h2 with ⟨_, hs, hw, hj⟩ | ⟨_, _, _, hn⟩ | ⟨_, _, _, _, hn⟩
  · have : idx = i := by have := hj hE; rw [hf] at this; exact (Option.some.inj this).symm
    subst this; exact ⟨s', h1, hs, hw⟩
  · exact (hn hE).elim
  · have := hn hE; rw [hf] at this; cases this

/-- vacant, with room: `or_insert` appends `(k, d)` exactly as `insert` does and returns the new
    slot; no drop, no other effect. -/
theorem entry_or_insert_vacant (hE : E.Pure) {s : St K V Q} {l : List (K × V)} (hr : Rep s.r l)
    (hb : Benign s.w) (k : K) (d : V) (hf : findKey E l (.key k) = none)
    (hroom : l.length < s.r.cap) :
    ∃ s', (entry E k >>= or_insert E d) s = .ok l.length s' ∧
      Rep s'.r (l ++ [(k, d)]) ∧ s'.r.cap = s.r.cap ∧ WRel s.w s'.w [] := by
  obtain ⟨idx, s', h1, hc, h2⟩ := (entry_or_insert_sat E hr k d).must_return (by
    intro c s' ⟨_, h⟩
    rcases h with ⟨h, _⟩ | ⟨_, _, hfull, _⟩
    · exact no_inj hb h
    · omega)
  rcases h2 with ⟨_, _, _, hj⟩ | ⟨_, _, _, hn⟩ | ⟨rfl, _, hrep, hw, _⟩
  · have := hj hE; rw [hf] at this; cases this
  · exact (hn hE).elim
  · exact ⟨s', h1, hrep, hc, hw⟩

/-- vacant on a full map: the overflow panic of `insert`, container untouched, both dropped. -/
theorem entry_or_insert_full (hE : E.Pure) {s : St K V Q} {l : List (K × V)} (hr : Rep s.r l)
    (hb : Benign s.w) (k : K) (d : V) (hf : findKey E l (.key k) = none)
    (hfull : l.length = s.r.cap) :
    ∃ c s', (entry E k >>= or_insert E d) s = .panic c s' ∧ s'.r = s.r ∧
      OverflowPanic s c ∧ WRel s.w s'.w (dropVTr E d ++ [.dropK k]) := by
  obtain ⟨c, s', h1, _, h2⟩ := (entry_or_insert_sat E hr k d).must_panic (by
    intro idx s' ⟨_, h⟩
    rcases h with ⟨_, _, _, hj⟩ | ⟨_, _, _, hn⟩ | ⟨_, hroom, _⟩
    · have := hj hE; rw [hf] at this; cases this
    · exact hn hE
    · omega)
  rcases h2 with ⟨h, _⟩ | ⟨hs, ho, _, _, hw⟩
  · exact (no_inj hb h).elim
  · exact ⟨c, s', h1, hs, ho, hw⟩

theorem overflowPanic_unique {s : St K V Q} {c c'} (h : OverflowPanic s c) (h' : OverflowPanic s c') :
    c = c' := by
  rcases h with ⟨rfl, hp⟩ | ⟨rfl, hp⟩ <;> rcases h' with ⟨rfl, hp'⟩ | ⟨rfl, hp'⟩ <;>
    first | rfl | (rw [hp] at hp'; cases hp')

/-- `map.entry(k).or_insert(v)` ≡ `if contains_key(k) { get_mut(k) } else { insert(k, v);
    get_mut(k) }` (`direct_or_insert`, composed of the model's own `contains_key`, `insert`,
    `get_mut`): from the same state both return the same slot and leave the same list of
    entries — or both panic with the same overflow class and the container untouched. -/
theorem entry_or_insert_eq_direct (hE : E.Lawful) {s : St K V Q} {l : List (K × V)} (hr : Rep s.r l)
    (hb : Benign s.w) (k : K) (v : V) :
    (∃ i l' s1 s2, (entry E k >>= or_insert E v) s = .ok i s1 ∧
        direct_or_insert E k v s = .ok (some i) s2 ∧ Rep s1.r l' ∧ Rep s2.r l' ∧
        s1.r.cap = s.r.cap ∧ s2.r.cap = s.r.cap) ∨
    (∃ c s1 s2, (entry E k >>= or_insert E v) s = .panic c s1 ∧
        direct_or_insert E k v s = .panic c s2 ∧ s1.r = s.r ∧ s2.r = s.r ∧ OverflowPanic s c) := by
  have hp : E.Pure := hE.toPure
  cases hf : findKey E l (.key k) with
  | some i =>
    obtain ⟨s1, h1, hs1, _⟩ := entry_or_insert_occupied E hp hr hb k v hf
    obtain ⟨o, s2, h2, hc2, h3⟩ := (direct_or_insert_sat E hE hr k v).must_return (by
      intro c s' ⟨_, h⟩
      rcases h with h | ⟨_, _, _, hn⟩
      · exact no_inj hb h
      · rw [hf] at hn; cases hn)
    rcases h3 with ⟨j, hj, rfl, hrep⟩ | ⟨hn, _⟩
    · rw [hf] at hj; cases hj
      exact Or.inl ⟨i, l, s1, s2, h1, h2, hs1 ▸ hr, hrep, by rw [hs1], hc2⟩
    · rw [hf] at hn; cases hn
  | none =>
    by_cases hroom : l.length < s.r.cap
    · obtain ⟨s1, h1, hrep1, hc1, _⟩ := entry_or_insert_vacant E hp hr hb k v hf hroom
      obtain ⟨o, s2, h2, hc2, h3⟩ := (direct_or_insert_sat E hE hr k v).must_return (by
        intro c s' ⟨_, h⟩
        rcases h with h | ⟨_, _, hfull, _⟩
        · exact no_inj hb h
        · omega)
      rcases h3 with ⟨j, hj, _⟩ | ⟨_, _, rfl, hrep⟩
      · rw [hf] at hj; cases hj
      · exact Or.inl ⟨l.length, _, s1, s2, h1, h2, hrep1, hrep, hc1, hc2⟩
    · have hfull : l.length = s.r.cap := by have := hr.2.1; omega
      obtain ⟨c, s1, h1, hs1, ho, _⟩ := entry_or_insert_full E hp hr hb k v hf hfull
      obtain ⟨c', s2, h2, _, h3⟩ := (direct_or_insert_sat E hE hr k v).must_panic (by
        intro o s' ⟨_, h⟩
        rcases h with ⟨j, hj, _⟩ | ⟨_, hr', _⟩
        · rw [hf] at hj; cases hj
        · omega)
      rcases h3 with h | ⟨hs2, ho', _, _⟩
      · exact (no_inj hb h).elim
      · have := overflowPanic_unique ho ho'
        subst this
        exact Or.inr ⟨c, s1, s2, h1, h2, hs1, hs2, ho⟩

/-- the same equivalence for `or_insert_with(f)` where `f` returns `mk`. -/
theorem entry_or_insert_with_eq_direct (hE : E.Lawful) {s : St K V Q} {l : List (K × V)}
    (hr : Rep s.r l) (hb : Benign s.w) (k : K) (tag : Nat) (mk : V) :
    (∃ i l' s1 s2, (entry E k >>= or_insert_with E tag mk) s = .ok i s1 ∧
        direct_or_insert E k mk s = .ok (some i) s2 ∧ Rep s1.r l' ∧ Rep s2.r l' ∧
        s1.r.cap = s.r.cap ∧ s2.r.cap = s.r.cap) ∨
    (∃ c s1 s2, (entry E k >>= or_insert_with E tag mk) s = .panic c s1 ∧
        direct_or_insert E k mk s = .panic c s2 ∧ s1.r = s.r ∧ s2.r = s.r ∧ OverflowPanic s c) := by
  have hp : E.Pure := hE.toPure
  cases hf : findKey E l (.key k) with
  | some i =>
    obtain ⟨s1, h1, hs1, _⟩ := entry_or_insert_with_occupied E hp hr hb k tag mk hf
    obtain ⟨o, s2, h2, hc2, h3⟩ := (direct_or_insert_sat E hE hr k mk).must_return (by
      intro c s' ⟨_, h⟩
      rcases h with h | ⟨_, _, _, hn⟩
      · exact no_inj hb h
      · rw [hf] at hn; cases hn)
    rcases h3 with ⟨j, hj, rfl, hrep⟩ | ⟨hn, _⟩
    · rw [hf] at hj; cases hj
      exact Or.inl ⟨i, l, s1, s2, h1, h2, hs1 ▸ hr, hrep, by rw [hs1], hc2⟩
    · rw [hf] at hn; cases hn
  | none =>
    by_cases hroom : l.length < s.r.cap
    · obtain ⟨s1, h1, hrep1, hc1, _⟩ := entry_or_insert_with_vacant E hp hr hb k tag mk hf hroom
      obtain ⟨o, s2, h2, hc2, h3⟩ := (direct_or_insert_sat E hE hr k mk).must_return (by
        intro c s' ⟨_, h⟩
        rcases h with h | ⟨_, _, hfull, _⟩
        · exact no_inj hb h
        · omega)
      rcases h3 with ⟨j, hj, _⟩ | ⟨_, _, rfl, hrep⟩
      · rw [hf] at hj; cases hj
      · exact Or.inl ⟨l.length, _, s1, s2, h1, h2, hrep1, hrep, hc1, hc2⟩
    · have hfull : l.length = s.r.cap := by have := hr.2.1; omega
      obtain ⟨c, s1, h1, hs1, ho, _⟩ := entry_or_insert_with_full E hp hr hb k tag mk hf hfull
      obtain ⟨c', s2, h2, _, h3⟩ := (direct_or_insert_sat E hE hr k mk).must_panic (by
        intro o s' ⟨_, h⟩
        rcases h with ⟨j, hj, _⟩ | ⟨_, hr', _⟩
        · rw [hf] at hj; cases hj
        · omega)
      rcases h3 with h | ⟨hs2, ho', _, _⟩
      · exact (no_inj hb h).elim
      · have := overflowPanic_unique ho ho'
        subst this
        exact Or.inr ⟨c, s1, s2, h1, h2, hs1, hs2, ho⟩

/-! ### `and_modify` -/

/-- occupied: `and_modify` runs its closure exactly once and replaces exactly the value of the
    found slot by `g` of it — the same final list as `get_mut(k)` followed by the write. -/
theorem entry_and_modify_occupied (hE : E.Pure) {s : St K V Q} {l : List (K × V)} (hr : Rep s.r l)
    (hb : Benign s.w) (k : K) (g : V → V) {i} (hf : findKey E l (.key k) = some i) :
    ∃ (hi : i < l.length) (s' : St K V Q), (entry E k >>= and_modify g) s = .ok (.occ i) s' ∧
      Rep s'.r (l.set i (l[i].1, g l[i].2)) ∧ s'.r.cap = s.r.cap ∧
      WRel s.w s'.w [.dropK k, .call 1] := by
  obtain ⟨e, s', h1, hc, h2⟩ := (entry_and_modify_sat E hr k g).must_return
    (fun c s' h => no_inj hb h.2)
  rcases h2 with ⟨j, hj, rfl, hrep, hw, hfj⟩ | ⟨_, _, _, hn⟩
  · have : j = i := by have := hfj hE; rw [hf] at this; exact (Option.some.inj this).symm
    subst this; exact ⟨hj, s', h1, hrep, hc, hw⟩
  · have := hn hE; rw [hf] at this; cases this

/-- vacant: `and_modify` does not run its closure and changes nothing; the entry stays vacant. -/
theorem entry_and_modify_vacant (hE : E.Pure) {s : St K V Q} {l : List (K × V)} (hr : Rep s.r l)
    (hb : Benign s.w) (k : K) (g : V → V) (hf : findKey E l (.key k) = none) :
    ∃ s', (entry E k >>= and_modify g) s = .ok (.vac k) s' ∧ s'.r = s.r ∧ WRel s.w s'.w [] := by
  obtain ⟨e, s', h1, _, h2⟩ := (entry_and_modify_sat E hr k g).must_return
    (fun c s' h => no_inj hb h.2)
  rcases h2 with ⟨j, _, _, _, _, hfj⟩ | ⟨rfl, hs, hw, _⟩
  · have := hfj hE; rw [hf] at this; cases this
  · exact ⟨s', h1, hs, hw⟩

/-- `and_modify` agrees with the direct `get_mut(k)` + write: same final list. -/
theorem entry_and_modify_eq_get_mut (hE : E.Pure) {s : St K V Q} {l : List (K × V)} (hr : Rep s.r l)
    (hb : Benign s.w) (k : K) (g : V → V) :
    ∃ e s1 o s2 l', (entry E k >>= and_modify g) s = .ok e s1 ∧ get_mut E (.key k) g s = .ok o s2 ∧
      Rep s1.r l' ∧ Rep s2.r l' ∧ (∀ i, e = .occ i ↔ o.map (·.1) = some i) := by
  obtain ⟨o, s2, h2, _, _, h3, h4⟩ := (get_mut_sat E hr (.key k) g).must_return
    (fun c s' h => no_inj hb h.2)
  have h4 := h4 hE
  cases hf : findKey E l (.key k) with
  | some i =>
    obtain ⟨hi, s1, h1, hrep, _, _⟩ := entry_and_modify_occupied E hE hr hb k g hf
    rw [hf] at h4
    rcases h3 with ⟨rfl, _⟩ | ⟨j, hj, rfl, hrep2⟩
    · cases h4
    · have : j = i := by simpa using h4
      subst this
      refine ⟨_, s1, _, s2, _, h1, h2, hrep, hrep2, fun i' => ?_⟩
      constructor
      · intro h; cases h; rfl
      · intro h; simp at h; subst h; rfl
  | none =>
    obtain ⟨s1, h1, hs1, _⟩ := entry_and_modify_vacant E hE hr hb k g hf
    rw [hf] at h4
    rcases h3 with ⟨rfl, hs2⟩ | ⟨j, hj, rfl, _⟩
    · refine ⟨_, s1, _, s2, l, h1, h2, hs1 ▸ hr, hs2 ▸ hr, fun i' => ?_⟩
      constructor
      · intro h; cases h
      · intro h; cases h
    · cases h4

/-! ### `OccupiedEntry` methods ≡ the direct operation on that key

The hypothesis `findKey E l pr = some i` is what `entry` established for `pr = .key k`; by
`findKey_self` every valid index is found by its own stored key. -/

/-- every live slot is found by its own key (lawful `==`, unique keys). -/
theorem findKey_self (hE : E.Lawful) {l : List (K × V)} (hn : NodupKeys E.keq l) {i}
    (hi : i < l.length) : findKey E l (.key l[i].1) = some i :=
  (findKey_some_iff hE hn _).2 ⟨hi, hE.refl _⟩

/-- `OccupiedEntry::get` / `into_mut` ≡ `get` / `get_key_value`: same slot, same pair, container
    untouched. -/
theorem occ_get_eq_get (hE : E.Pure) {s : St K V Q} {l : List (K × V)} (hr : Rep s.r l)
    (hb : Benign s.w) (pr : Probe K Q) {i} (hf : findKey E l pr = some i) :
    ∃ (hi : i < l.length) (s1 : St K V Q), get E pr s = .ok (some (i, l[i])) s1 ∧ s1.r = s.r ∧
      occ_get i s = .ok l[i] s := by
  obtain ⟨o, s1, h1, hs, _, h3, h4⟩ := (get_sat E hr pr).must_return (fun c s' h => no_inj hb h.2)
  have h4 := h4 hE
  rw [hf] at h4
  cases o with
  | none => cases h4
  | some r =>
    obtain ⟨j, p⟩ := r
    have : j = i := by simpa using h4
    subst this
    obtain ⟨hj, rfl⟩ := h3 j p rfl
    exact ⟨hj, s1, h1, hs, occ_get_eq hr hj⟩

/-- `OccupiedEntry::key` returns the stored key, the one `get_key_value` returns. -/
theorem occ_key_eq_get (hE : E.Pure) {s : St K V Q} {l : List (K × V)} (hr : Rep s.r l)
    (hb : Benign s.w) (pr : Probe K Q) {i} (hf : findKey E l pr = some i) :
    ∃ (hi : i < l.length) (s1 : St K V Q), get E pr s = .ok (some (i, l[i])) s1 ∧
      entry_key (.occ i) s = .ok l[i].1 s := by
  obtain ⟨hi, s1, h1, _, _⟩ := occ_get_eq_get E hE hr hb pr hf
  exact ⟨hi, s1, h1, entry_key_occ hr hi⟩

/-- `OccupiedEntry::get_mut` + write ≡ `get_mut` + write: same returned pair, same final list,
    which differs from `l` only at index `i`. -/
theorem occ_get_mut_eq_get_mut (hE : E.Pure) {s : St K V Q} {l : List (K × V)} (hr : Rep s.r l)
    (hb : Benign s.w) (pr : Probe K Q) (g : V → V) {i} (hf : findKey E l pr = some i) :
    ∃ (hi : i < l.length) (s1 s2 : St K V Q),
      get_mut E pr g s = .ok (some (i, (l[i].1, g l[i].2))) s1 ∧
      occ_get_mut i g s = .ok (l[i].1, g l[i].2) s2 ∧
      Rep s1.r (l.set i (l[i].1, g l[i].2)) ∧ Rep s2.r (l.set i (l[i].1, g l[i].2)) ∧
      s2.w = s.w := by
  obtain ⟨o, s1, h1, _, _, h3, h4⟩ := (get_mut_sat E hr pr g).must_return
    (fun c s' h => no_inj hb h.2)
  have h4 := h4 hE
  rw [hf] at h4
  rcases h3 with ⟨rfl, _⟩ | ⟨j, hj, rfl, hrep⟩
  · cases h4
  · have : j = i := by simpa using h4
    subst this
    exact ⟨hj, s1, _, h1, occ_get_mut_eq hr hj g, hrep, by simpa using hr.set hj _, rfl⟩

/-- `OccupiedEntry::insert(v)` ≡ `insert(k, v)` on the present key: the old value is returned and
    the value of slot `i` is replaced (the stored key stays); no other slot changes. -/
theorem occ_insert_eq_insert (hE : E.Pure) {s : St K V Q} {l : List (K × V)} (hr : Rep s.r l)
    (hb : Benign s.w) (k : K) (v : V) {i} (hf : findKey E l (.key k) = some i) :
    ∃ (hi : i < l.length) (s1 s2 : St K V Q),
      insert E k v s = .ok (some l[i].2) s1 ∧ occ_insert E i v s = .ok l[i].2 s2 ∧
      Rep s1.r (l.set i (l[i].1, v)) ∧ Rep s2.r (l.set i (l[i].1, v)) ∧ s2.w = s.w := by
  obtain ⟨a, s1, h1, _, h2⟩ := (insert_sat E hr k v).must_return (by
    intro c s' ⟨_, h⟩
    rcases h with ⟨hi, _⟩ | ⟨_, _, _, hn, _⟩
    · exact no_inj hb hi
    · have := hn hE; rw [hf] at this; cases this)
  rcases h2 with ⟨j, hj, ha, hrep, _, hfj⟩ | ⟨_, _, _, _, hn⟩
  · have : j = i := by have := hfj hE; rw [hf] at this; exact (Option.some.inj this).symm
    subst this; subst ha
    exact ⟨hj, s1, _, h1, occ_insert_eq E hr hj v, hrep, by simpa using hr.set hj _, rfl⟩
  · have := hn hE; rw [hf] at this; cases this

/-- `OccupiedEntry::remove` ≡ `remove`: same returned value, same final list (`swapRemove l i`:
    both go through `remove_index_read`), same effect (the stored key is dropped). -/
theorem occ_remove_eq_remove (hE : E.Pure) {s : St K V Q} {l : List (K × V)} (hr : Rep s.r l)
    (hb : Benign s.w) (pr : Probe K Q) {i} (hf : findKey E l pr = some i) :
    ∃ (hi : i < l.length) (s1 s2 : St K V Q),
      remove E pr s = .ok (some l[i].2) s1 ∧ occ_remove i s = .ok l[i].2 s2 ∧
      Rep s1.r (swapRemove l i) ∧ Rep s2.r (swapRemove l i) ∧
      WRel s.w s1.w [.dropK l[i].1] ∧ WRel s.w s2.w [.dropK l[i].1] := by
  obtain ⟨o, s1, h1, _, h2, _⟩ := (remove_sat E hr pr).must_return (fun c s' h => no_inj hb h.2.1)
  rcases h2 with ⟨_, _, _⟩ | ⟨j, hj, rfl, hrep, hw, hfj⟩
  · obtain ⟨o', s1', h1', _, _, h3⟩ := (remove_sat E hr pr).must_return (fun c s' h => no_inj hb h.2.1)
    rw [h1] at h1'; cases h1'
    have := h3 hE; rw [hf] at this; subst_vars; cases this
  · have : j = i := by have := hfj hE; rw [hf] at this; exact (Option.some.inj this).symm
    subst this
    obtain ⟨v, s2, g1, rfl, g2, _, g3⟩ := (occ_remove_sat (Q := Q) hr hj).must_return
      (fun c s' h => no_inj hb h.2.2)
    exact ⟨hj, s1, s2, h1, g1, hrep, g2, hw, g3⟩

/-- `OccupiedEntry::remove_entry` ≡ `remove_entry`: same returned pair, same final list, no
    callback. -/
theorem occ_remove_entry_eq_remove_entry (hE : E.Pure) {s : St K V Q} {l : List (K × V)}
    (hr : Rep s.r l) (hb : Benign s.w) (pr : Probe K Q) {i} (hf : findKey E l pr = some i) :
    ∃ (hi : i < l.length) (s1 s2 : St K V Q),
      remove_entry E pr s = .ok (some l[i]) s1 ∧ occ_remove_entry i s = .ok l[i] s2 ∧
      Rep s1.r (swapRemove l i) ∧ Rep s2.r (swapRemove l i) ∧ WRel s.w s2.w [] := by
  obtain ⟨o, s1, h1, _, _, h2, h3⟩ := (remove_entry_sat E hr pr).must_return
    (fun c s' h => no_inj hb h.2)
  have h3 := h3 hE
  rw [hf] at h3
  rcases h2 with ⟨rfl, _⟩ | ⟨j, hj, rfl, hrep, hfj⟩
  · cases h3
  · have : j = i := by have := hfj hE; rw [hf] at this; exact (Option.some.inj this).symm
    subst this
    obtain ⟨p, s2, g1, rfl, g2, _, g3⟩ := (occ_remove_entry_sat (Q := Q) hr hj
      (P := fun _ _ => False)).must_return (fun c s' h => h)
    exact ⟨hj, s1, s2, h1, g1, hrep, g2, g3⟩

/-- `VacantEntry::insert(v)` ≡ `insert(k, v)` of the absent key: the append branch of
    `insert_ii`; the returned reference is the new slot `len`. -/
theorem vacant_insert_eq_insert (hE : E.Pure) {s : St K V Q} {l : List (K × V)} (hr : Rep s.r l)
    (hb : Benign s.w) (k : K) (v : V) (hf : findKey E l (.key k) = none)
    (hroom : l.length < s.r.cap) :
    ∃ s1 s2, insert E k v s = .ok none s1 ∧ vacant_insert E k v s = .ok l.length s2 ∧
      Rep s1.r (l ++ [(k, v)]) ∧ Rep s2.r (l ++ [(k, v)]) ∧
      WRel s.w s1.w [] ∧ WRel s.w s2.w [] := by
  obtain ⟨a, s1, h1, _, h2⟩ := (insert_sat E hr k v).must_return (by
    intro c s' ⟨_, h⟩
    rcases h with ⟨hi, _⟩ | ⟨_, _, hfull, _⟩
    · exact no_inj hb hi
    · omega)
  obtain ⟨idx, s2, g1, _, g2⟩ := (vacant_insert_sat E hr k v).must_return (by
    intro c s' ⟨_, h⟩
    rcases h with ⟨hi, _⟩ | ⟨_, _, hfull, _⟩
    · exact no_inj hb hi
    · omega)
  rcases h2 with ⟨j, _, _, _, _, hfj⟩ | ⟨rfl, _, hrep, hw, _⟩
  · have := hfj hE; rw [hf] at this; cases this
  · rcases g2 with ⟨_, _, _, hfj⟩ | ⟨rfl, _, hrep2, hw2, _⟩
    · have := hfj hE; rw [hf] at this; cases this
    · exact ⟨s1, s2, h1, g1, hrep, hrep2, hw, hw2⟩

/-! ### frame: no other entry is touched -/

/-- the list after an in-place entry operation differs from `l` only at index `i`. -/
theorem set_frame {l : List (K × V)} {i j : Nat} (p : K × V) (hji : j ≠ i) : (l.set i p)[j]? = l[j]? :=
  List.getElem?_set_ne (Ne.symm hji)

/-- after an in-place value update of slot `i` (`and_modify`, `get_mut`, `OccupiedEntry::insert`,
    `or_insert*`), every lookup that does not hit the key of slot `i` is unchanged, and the
    lookup that hits it finds the same stored key with the new value. -/
theorem lookup_frame_set (hE : E.Lawful) {l : List (K × V)} (hn : NodupKeys E.keq l) {i}
    (hi : i < l.length) (v : V) (pr : Probe K Q) :
    lookupP (E.hitP pr) (l.set i (l[i].1, v)) =
      if E.hitP pr l[i].1 then some (l[i].1, v) else lookupP (E.hitP pr) l :=
  Dict.lookupP_set hE.equivB (hE.probeOK pr) hn hi l[i].1 v (hE.refl _)

/-- after an entry removal, lookups of the removed key find nothing and every other lookup is
    unchanged. -/
theorem lookup_frame_swapRemove (hE : E.Lawful) {l : List (K × V)} (hn : NodupKeys E.keq l) {i}
    (hi : i < l.length) (pr : Probe K Q) :
    lookupP (E.hitP pr) (swapRemove l i) =
      if E.hitP pr l[i].1 then none else lookupP (E.hitP pr) l :=
  Dict.lookupP_swapRemove hE.equivB (hE.probeOK pr) hn hi

/-- after a vacant insertion, every lookup that found something still finds the same pair. -/
theorem lookup_frame_append {l : List (K × V)} (k : K) (v : V) (pr : Probe K Q) {p}
    (h : lookupP (E.hitP pr) l = some p) : lookupP (E.hitP pr) (l ++ [(k, v)]) = some p := by
  rw [Dict.lookupP_append, h]

/-! ### safety: any oracle, any injection point, both profiles -/

/-- `entry` never reaches UB and never changes the container; an occupied result points at a
    live slot. -/
theorem entry_safe {s : St K V Q} {l : List (K × V)} (hr : Rep s.r l) (k : K) :
    Sat (entry E k) s (fun e s' => s'.r = s.r ∧ Valid l e) (fun _ s' => s'.r = s.r) := by
  refine Sat.mono (entry_sat E hr k) ?_ (fun _ _ h => h.1)
  intro e s' ⟨h1, h⟩
  rcases h with ⟨i, rfl, hi, _⟩ | ⟨rfl, _⟩
  · exact ⟨h1, hi⟩
  · exact ⟨h1, trivial⟩

/-- `or_insert` on any valid entry: no UB; the container stays well-formed with the same
    capacity and the returned slot is live — whatever `==` answers, wherever a panic is injected. -/
theorem or_insert_safe {s : St K V Q} {l : List (K × V)} (hr : Rep s.r l) (d : V) (e : EntryS K)
    (hv : Valid l e) :
    Sat (or_insert E d e) s
      (fun idx s' => ∃ l', Rep s'.r l' ∧ s'.r.cap = s.r.cap ∧ idx < l'.length)
      (fun _ s' => ∃ l', Rep s'.r l' ∧ s'.r.cap = s.r.cap) := by
  cases e with
  | occ i =>
    refine Sat.mono (or_insert_occ_sat E hr d hv) ?_ ?_
    · intro idx s' ⟨h1, h2, _⟩; subst h1; exact ⟨l, h2 ▸ hr, by rw [h2], hv⟩
    · intro c s' ⟨h1, _⟩; exact ⟨l, h1 ▸ hr, by rw [h1]⟩
  | vac key =>
    refine Sat.mono (vacant_insert_sat E hr key d) ?_ ?_
    · intro idx s' ⟨hc, h⟩
      rcases h with ⟨hi, hrep, _⟩ | ⟨rfl, _, hrep, _⟩
      · exact ⟨_, hrep, hc, by simpa using hi⟩
      · exact ⟨_, hrep, hc, by simp⟩
    · intro c s' ⟨hc, h⟩
      rcases h with ⟨_, l', hrep, _⟩ | ⟨hs, _⟩
      · exact ⟨l', hrep, hc⟩
      · exact ⟨l, hs ▸ hr, hc⟩

/-- the same for `or_insert_with` / `or_insert_with_key` / `or_default`. -/
theorem or_insert_with_safe {s : St K V Q} {l : List (K × V)} (hr : Rep s.r l) (tag : Nat) (mk : V)
    (e : EntryS K) (hv : Valid l e) :
    Sat (or_insert_with E tag mk e) s
      (fun idx s' => ∃ l', Rep s'.r l' ∧ s'.r.cap = s.r.cap ∧ idx < l'.length)
      (fun _ s' => ∃ l', Rep s'.r l' ∧ s'.r.cap = s.r.cap) := by
  cases e with
  | occ i => exact Sat.of_ok (or_insert_with_occ E hr tag mk hv) ⟨l, hr, rfl, hv⟩
  | vac key =>
    refine Sat.mono (or_insert_with_vac_sat E hr tag mk key) ?_ ?_
    · intro idx s' ⟨hc, h⟩
      rcases h with ⟨hi, hrep, _⟩ | ⟨rfl, _, hrep, _⟩
      · exact ⟨_, hrep, hc, by simpa using hi⟩
      · exact ⟨_, hrep, hc, by simp⟩
    · intro c s' ⟨hc, h⟩
      rcases h with ⟨_, l', hrep, _⟩ | ⟨hs, _⟩
      · exact ⟨l', hrep, hc⟩
      · exact ⟨l, hs ▸ hr, hc⟩

/-- `and_modify` on any valid entry: no UB, the result is again a valid entry of a well-formed
    container of the same length; on unwinding the container is untouched. -/
theorem and_modify_safe {s : St K V Q} {l : List (K × V)} (hr : Rep s.r l) (g : V → V) (e : EntryS K)
    (hv : Valid l e) :
    Sat (and_modify (Q := Q) g e) s
      (fun e' s' => ∃ l', Rep s'.r l' ∧ l'.length = l.length ∧ s'.r.cap = s.r.cap ∧ Valid l' e')
      (fun _ s' => s'.r = s.r) := by
  cases e with
  | occ i =>
    refine Sat.mono (and_modify_occ_sat hr g hv) ?_ (fun _ _ h => h.1)
    intro e' s' ⟨h1, h2, h3, _⟩
    subst h1
    exact ⟨_, h3, by simp, h2, by simpa [Valid] using hv⟩
  | vac key => exact Sat.of_ok (and_modify_vac g key s) ⟨l, hr, rfl, rfl, trivial⟩

/-- the whole chain `map.entry(k).or_insert(d)`, any oracle, any injection point: no UB, the
    container stays well-formed with the same capacity, the returned reference is a live slot. -/
theorem entry_or_insert_safe {s : St K V Q} {l : List (K × V)} (hr : Rep s.r l) (k : K) (d : V) :
    Sat (entry E k >>= or_insert E d) s
      (fun idx s' => ∃ l', Rep s'.r l' ∧ s'.r.cap = s.r.cap ∧ idx < l'.length)
      (fun _ s' => ∃ l', Rep s'.r l' ∧ s'.r.cap = s.r.cap) := by
  refine Sat.bind (Sat.mono (entry_safe E hr k) (fun _ _ h => h)
    (fun _ s' h => ⟨l, h ▸ hr, by rw [h]⟩)) ?_
  intro e s1 ⟨h1, hv⟩
  refine Sat.mono (or_insert_safe E (h1 ▸ hr) d e hv) ?_ ?_
  · intro idx s2 ⟨l', g1, g2, g3⟩; exact ⟨l', g1, by rw [g2, h1], g3⟩
  · intro c s2 ⟨l', g1, g2⟩; exact ⟨l', g1, by rw [g2, h1]⟩

/-- the same for `map.entry(k).or_insert_with(f)` / `or_insert_with_key` / `or_default`. -/
theorem entry_or_insert_with_safe {s : St K V Q} {l : List (K × V)} (hr : Rep s.r l) (k : K)
    (tag : Nat) (mk : V) :
    Sat (entry E k >>= or_insert_with E tag mk) s
      (fun idx s' => ∃ l', Rep s'.r l' ∧ s'.r.cap = s.r.cap ∧ idx < l'.length)
      (fun _ s' => ∃ l', Rep s'.r l' ∧ s'.r.cap = s.r.cap) := by
  refine Sat.bind (Sat.mono (entry_safe E hr k) (fun _ _ h => h)
    (fun _ s' h => ⟨l, h ▸ hr, by rw [h]⟩)) ?_
  intro e s1 ⟨h1, hv⟩
  refine Sat.mono (or_insert_with_safe E (h1 ▸ hr) tag mk e hv) ?_ ?_
  · intro idx s2 ⟨l', g1, g2, g3⟩; exact ⟨l', g1, by rw [g2, h1], g3⟩
  · intro c s2 ⟨l', g1, g2⟩; exact ⟨l', g1, by rw [g2, h1]⟩

/-- the same for `map.entry(k).and_modify(f)`; on unwinding the container is untouched. -/
theorem entry_and_modify_safe {s : St K V Q} {l : List (K × V)} (hr : Rep s.r l) (k : K) (g : V → V) :
    Sat (entry E k >>= and_modify g) s
      (fun e' s' => ∃ l', Rep s'.r l' ∧ l'.length = l.length ∧ s'.r.cap = s.r.cap ∧ Valid l' e')
      (fun _ s' => s'.r = s.r) := by
  refine Sat.bind (Sat.mono (entry_safe E hr k) (fun _ _ h => h) (fun _ _ h => h)) ?_
  intro e s1 ⟨h1, hv⟩
  refine Sat.mono (and_modify_safe (h1 ▸ hr) g e hv) ?_ ?_
  · intro e' s2 ⟨l', g1, g2, g3, g4⟩; exact ⟨l', g1, g2, by rw [g3, h1], g4⟩
  · intro c s2 g1; exact g1.trans h1

/-- the `OccupiedEntry` methods at a live slot never reach UB, whatever `==` answers and wherever
    a panic is injected; removal shrinks the list by one, the others keep its length. -/
theorem occ_ops_safe {s : St K V Q} {l : List (K × V)} (hr : Rep s.r l) {i} (hi : i < l.length)
    (g : V → V) (v : V) :
    occ_get i s ≠ .ub ∧ entry_key (.occ i) s ≠ .ub ∧ occ_get_mut i g s ≠ .ub ∧
    occ_insert E i v s ≠ .ub ∧
    Sat (occ_remove (Q := Q) i) s
      (fun _ s' => Rep s'.r (swapRemove l i) ∧ s'.r.cap = s.r.cap)
      (fun _ s' => Rep s'.r (swapRemove l i) ∧ s'.r.cap = s.r.cap) ∧
    Sat (occ_remove_entry i) s
      (fun _ s' => Rep s'.r (swapRemove l i) ∧ s'.r.cap = s.r.cap) (fun _ _ => False) := by
  refine ⟨?_, ?_, ?_, ?_, ?_, ?_⟩
  · rw [occ_get_eq hr hi]; intro h; cases h
  · rw [entry_key_occ hr hi]; intro h; cases h
  · rw [occ_get_mut_eq hr hi]; intro h; cases h
  · rw [occ_insert_eq E hr hi]; intro h; cases h
  · exact Sat.mono (occ_remove_sat hr hi) (fun _ _ h => ⟨h.2.1, h.2.2.1⟩) (fun _ _ h => ⟨h.1, h.2.1⟩)
  · exact Sat.mono (occ_remove_entry_sat hr hi) (fun _ _ h => ⟨h.2.1, h.2.2.1⟩) (fun _ _ h => h)

/-! Non-vacuity: concrete data meeting the hypotheses (tests, not proofs). -/

def exEnv : Env Nat Nat Nat :=
  { eqK := fun _ a b => a == b, eqQ := fun _ a b => a == b, eqV := fun a b => a == b, borrow := id,
    clK := fun _ k => k, clV := fun _ v => v }

def exRaw : Raw Nat Nat :=
  { cap := 3, len := 2, slots := fun i => if i = 0 then some (7, 70) else if i = 1 then some (8, 80) else none }

example : exEnv.Pure := ⟨fun _ _ _ => rfl, fun _ _ _ => rfl⟩
example : Rep exRaw [(7, 70), (8, 80)] :=
  ⟨rfl, by decide, fun i hi => by
    have : i = 0 ∨ i = 1 := by simp at hi; omega
    rcases this with rfl | rfl <;> rfl⟩
example : Benign ({} : World Nat Nat Nat) := ⟨rfl, rfl⟩
example : findKey exEnv [(7, 70), (8, 80)] (.key 9) = none := by decide
example : findKey exEnv [(7, 70), (8, 80)] (.key 8) = some 1 := by decide
example : [(7, 70), (8, 80)].length < exRaw.cap := by decide
example : Valid [(7, 70), (8, 80)] (.occ 1 : EntryS Nat) := by show 1 < 2; decide

end Micromap.Props.C11
