/-
C08 — Set algebra yields exactly the mathematical result, without repeats.

Property theorems only (helper lemmas live in `Micromap/Proofs/Alg.lean`).  All statements are
about the L0 model functions of `Model/Iter.lean` / `Model/Sys.lean` (`scanR`, `filtNextR`,
`filtNext`, `algStart`, `algNext`, `algHint`, `algFold`, `algRunOut`, `allContain`, `is_subset`,
`is_superset`, `is_disjoint`, `subInto`).

Setting: the operands are two containers `a b` with `Rep a la`, `Rep b lb` — any capacities, any
internal orders — and `ka = la.map (·.1)`, `kb = lb.map (·.1)` are their element lists.  The
functions read `a` and `b` only; every theorem also states that the state's own container `s.r`
(and hence, since the operands are values, the operands) is unchanged.  Sets are maps with
`V = Unit`; statements that do not need it are given for any `V`.
`difference_ref` is `Difference` at element type `&T` (same `next`, `size_hint`, `fold`, plus
`.copied()`): it is the model's `AlgKind.difference` and is covered by the `difference` theorems.
-/
import Micromap.Proofs.Alg
import Micromap.Proofs.StdIterB

namespace Micromap.Props.C08
open Micromap SetAlg Alg

/-- In a world where no injected fault is armed an operation cannot unwind by injection. -/
theorem no_inj {K V Q : Type} {s s' : St K V Q} {c} (hb : Benign s.w) (h : InjPanic s s' c) : False :=
  h.2.1 hb.1

section generic
variable {K V Q : Type} (E : Env K V Q)

/-! ### 1. `contains` -/

/-- `other.contains(x)` (the scan that every adaptor and predicate probes with): in a benign world
    with a time-independent `==` it returns, finds something exactly when `x` is a member of the
    element list, and changes nothing. -/
theorem contains_bridge (hE : E.Pure) {b : Raw K V} {lb : List (K × V)} (hrb : Rep b lb) (x : K)
    {s : St K V Q} (hw : Benign s.w) :
    ∃ o s', scanR E b (.key x) s = .ok o s' ∧ o.isSome = memB E.keq x (lb.map (·.1)) ∧
      s'.r = s.r ∧ WRel s.w s'.w [] := by
  obtain ⟨o, s', h1, h2, h3, _, h5⟩ := (contains_quiet E hrb x).run hw
  exact ⟨o, s', h1, h5 hE, h2, h3⟩

/-! ### 2. `Difference::next` / `Intersection::next` -/

/-- `self.iter.find(|x| other.contains(x) == want)` over the `n` slots of `a` from `lo` on returns
    the FIRST position `j ≥ lo` whose element's membership in `b` is `want`, with that slot's own
    key, and leaves the cursor behind it; or `None` with the window exhausted if there is none. -/
theorem filtNextR_first (hE : E.Pure) {a b : Raw K V} {la lb : List (K × V)} (hra : Rep a la)
    (hrb : Rep b lb) (want : Bool) (n lo : Nat) (hn : lo + n ≤ la.length) {s : St K V Q}
    (hw : Benign s.w) :
    ∃ res s', filtNextR E a b want n lo s = .ok res s' ∧ s'.r = s.r ∧ WRel s.w s'.w [] ∧
      ((∃ j, ∃ hj : j < la.length, res = (some (j, la[j].1), j + 1) ∧ lo ≤ j ∧ j < lo + n ∧
          memB E.keq la[j].1 (lb.map (·.1)) = want ∧
          ∀ m (hm : m < la.length), lo ≤ m → m < j → memB E.keq la[m].1 (lb.map (·.1)) ≠ want) ∨
       (res = (none, lo + n) ∧
          ∀ m (hm : m < la.length), lo ≤ m → m < lo + n → memB E.keq la[m].1 (lb.map (·.1)) ≠ want)) := by
  obtain ⟨res, s', h1, h2, h3, _, _, _, h7⟩ := (filtNextR_quiet E hra hrb want n lo hn).run hw
  refine ⟨res, s', h1, h2, h3, ?_⟩
  have h8 := h7 hE
  cases hR : selRest la (selD E.keq (lb.map (·.1)) want) n lo with
  | nil =>
    rw [hR] at h8
    refine Or.inr ⟨h8, fun m hm g1 g2 => ?_⟩
    have := selRest_nil hR m hm g1 g2
    simpa [selD] using this
  | cons x t =>
    rw [hR] at h8
    obtain ⟨g1, g2, ⟨g3, g4⟩, g5, g6, _⟩ := selRest_cons hR
    obtain ⟨j, k⟩ := x
    simp only at g1 g2 g3 g4 g5 g6
    subst g4
    refine Or.inl ⟨j, g3, h8, g1, g2, by simpa [selD] using g5, fun m hm k1 k2 => ?_⟩
    have := g6 m hm k1 k2
    simpa [selD] using this

/-- one `next` of `Difference` (`want = false`) / `Intersection` (`want = true`) yields the head
    of what is left (`selRest`) and leaves its tail; the window's end never moves. -/
theorem filtNext_step (hE : E.Pure) {a b : Raw K V} {la lb : List (K × V)} (hra : Rep a la)
    (hrb : Rep b lb) (want : Bool) (it : SliceIt) (hit : it.hi ≤ la.length) {s : St K V Q}
    (hw : Benign s.w) :
    ∃ o it' s', filtNext E a b want it s = .ok (o, it') s' ∧ s'.r = s.r ∧ WRel s.w s'.w [] ∧
      it'.hi = it.hi ∧
      o = (selRest la (selD E.keq (lb.map (·.1)) want) it.len it.lo).head? ∧
      selRest la (selD E.keq (lb.map (·.1)) want) it'.len it'.lo =
        (selRest la (selD E.keq (lb.map (·.1)) want) it.len it.lo).tail := by
  obtain ⟨⟨o, it'⟩, s', h1, h2, h3, h4, _, _, _, h8⟩ := (filtNext_quiet E hra hrb want it hit).run hw
  exact ⟨o, it', s', h1, h2, h3, h4, (h8 hE).1, (h8 hE).2⟩

/-- what a fresh `Difference` / `Intersection` has left is, as keys, exactly `diffL` / `interL`;
    every item is a slot position of the LEFT operand together with that slot's own key, the
    positions are strictly increasing (no slot twice, the left operand's order), and the keys form
    a sublist of the left operand. -/
theorem left_own_elements (keq : K → K → Bool) (la : List (K × V)) (kb : List K) (want : Bool) :
    (selRest la (selD keq kb want) la.length 0).map (·.2) =
        (if want then interL keq (la.map (·.1)) kb else diffL keq (la.map (·.1)) kb) ∧
      (∀ x, x ∈ selRest la (selD keq kb want) la.length 0 → ∃ h : x.1 < la.length, x.2 = la[x.1].1) ∧
      (selRest la (selD keq kb want) la.length 0).Pairwise (fun x y => x.1 < y.1) ∧
      ((selRest la (selD keq kb want) la.length 0).map (·.2)).Sublist (la.map (·.1)) := by
  have hk : (selRest la (selD keq kb want) la.length 0).map (·.2) =
      (if want then interL keq (la.map (·.1)) kb else diffL keq (la.map (·.1)) kb) := by
    have h1 := selRest_inter_keys keq la kb ⟨0, la.length⟩
    have h2 := selRest_diff_keys keq la kb ⟨0, la.length⟩
    rw [windowKeys_full] at h1 h2
    cases want
    · exact h2
    · exact h1
  refine ⟨hk, fun x hx => (selRest_mem hx).2.2.2, selRest_sorted _ _ _ _, ?_⟩
  rw [hk]
  cases want
  · exact diff_sublist _ _
  · exact inter_sublist _ _

/-! ### 6. the predicates -/

/-- `is_subset` returns the mathematical truth value (the length shortcut is sound because the
    elements of a set are pairwise unequal — pigeonhole), changes nothing, never panics. -/
theorem is_subset_correct (hE : E.Lawful) {a b : Raw K V} {la lb : List (K × V)} (hra : Rep a la)
    (hrb : Rep b lb) (hna : NodupB E.keq (la.map (·.1))) {s : St K V Q} (hw : Benign s.w) :
    ∃ s', is_subset E a b s = .ok (subsetB E.keq (la.map (·.1)) (lb.map (·.1))) s' ∧
      s'.r = s.r ∧ WRel s.w s'.w [] := by
  obtain ⟨r, s', h1, h2, h3, h4⟩ := (is_subset_quiet E hra hrb).run hw
  rw [h4 hE.toPure, isSubsetCode_eq hE.equivB _ _ hna] at h1
  exact ⟨s', h1, h2, h3⟩

/-- `is_superset` is `is_subset` with the operands exchanged. -/
theorem is_superset_correct (hE : E.Lawful) {a b : Raw K V} {la lb : List (K × V)} (hra : Rep a la)
    (hrb : Rep b lb) (hnb : NodupB E.keq (lb.map (·.1))) {s : St K V Q} (hw : Benign s.w) :
    ∃ s', is_superset E a b s = .ok (subsetB E.keq (lb.map (·.1)) (la.map (·.1))) s' ∧
      s'.r = s.r ∧ WRel s.w s'.w [] :=
  is_subset_correct E hE hrb hra hnb hw

/-- `is_disjoint` returns the mathematical truth value whichever operand it iterates. -/
theorem is_disjoint_correct (hE : E.Lawful) {a b : Raw K V} {la lb : List (K × V)} (hra : Rep a la)
    (hrb : Rep b lb) {s : St K V Q} (hw : Benign s.w) :
    ∃ s', is_disjoint E a b s = .ok (disjointB E.keq (la.map (·.1)) (lb.map (·.1))) s' ∧
      s'.r = s.r ∧ WRel s.w s'.w [] := by
  obtain ⟨r, s', h1, h2, h3, h4⟩ := (is_disjoint_quiet E hra hrb).run hw
  rw [h4 hE.toPure, isDisjointCode_eq hE.equivB] at h1
  exact ⟨s', h1, h2, h3⟩

/-- the truth values mean what they should: every / no element of `a` is (up to `==`) in `b`. -/
theorem subsetB_spec (keq : K → K → Bool) (ka kb : List K) :
    subsetB keq ka kb = true ↔ ∀ x, x ∈ ka → memB keq x kb = true := subsetB_iff ka kb

theorem disjointB_spec (keq : K → K → Bool) (ka kb : List K) :
    disjointB keq ka kb = true ↔ ∀ x, x ∈ ka → memB keq x kb = false := disjointB_iff ka kb

/-! ### 8. safety under any oracle and any injected fault -/

/-- shape of the safety triples below: no `ub`; on return and on unwinding the state's container
    is unchanged; returning has no effect but comparisons; unwinding is only by an injected panic. -/
def SafeRO {α : Type} (m : SM K V Q α) (s : St K V Q) (Qv : α → Prop) : Prop :=
  Sat m s (fun r s' => s'.r = s.r ∧ WRel s.w s'.w [] ∧ Qv r) (fun c s' => s'.r = s.r ∧ InjPanic s s' c)

/-- `next` of any of the four iterators, from any well-formed state, under ANY `==` (non-reflexive,
    time-varying, …) and any injection: memory-safe, read-only; the state stays well formed and of
    the same kind, and a yielded item is a reference to a live slot of one of the operands. -/
theorem algNext_safe {a b : Raw K V} {la lb : List (K × V)} (hra : Rep a la) (hrb : Rep b lb)
    (it : AlgIt) (hit : AlgInv la.length lb.length it) (s : St K V Q) :
    SafeRO (algNext E a b it) s (fun res => res.2.kind = it.kind ∧ AlgInv la.length lb.length res.2 ∧
      meas res.2 ≤ meas it ∧ ∀ x, res.1 = some x → meas res.2 < meas it ∧ ItemOf la lb x) :=
  ((algNext_quiet E hra hrb it hit).mono (fun _ ⟨h1, h2, h3, h4, _⟩ => ⟨h1, h2, h3, h4⟩)).sat s

/-- the fresh iterator is well formed (`algStart` makes no callback and cannot fail). -/
theorem algStart_safe {a b : Raw K V} {la lb : List (K × V)} (hra : Rep a la) (hrb : Rep b lb)
    (kind : AlgKind) (s : St K V Q) :
    ∃ it, algStart a b kind s = .ok it s ∧ it.kind = kind ∧ AlgInv la.length lb.length it ∧
      meas it ≤ a.len + b.len :=
  ⟨_, algStart_eq hra hrb kind s, startIt_kind _ _ _, startIt_inv _ _ _,
    by rw [hra.1, hrb.1]; exact startIt_meas _ _ _⟩

/-- any number of `next`s in a row. -/
theorem nextN_safe {a b : Raw K V} {la lb : List (K × V)} (hra : Rep a la) (hrb : Rep b lb)
    (k : Nat) (it : AlgIt) (hit : AlgInv la.length lb.length it) (s : St K V Q) :
    SafeRO (nextN E a b k it) s (fun res => res.2.kind = it.kind ∧ AlgInv la.length lb.length res.2 ∧
      meas res.2 ≤ meas it) :=
  ((nextN_quiet E hra hrb k it hit).mono (fun _ ⟨h1, h2, h3, _⟩ => ⟨h1, h2, h3⟩)).sat s

/-- `fold` / `count` from any well-formed state under any oracle. -/
theorem algFold_safe {a b : Raw K V} {la lb : List (K × V)} (hra : Rep a la) (hrb : Rep b lb)
    (it : AlgIt) (hit : AlgInv la.length lb.length it) (s : St K V Q) :
    SafeRO (algFold E a b it) s (fun res => ∀ x, x ∈ res → ItemOf la lb x) :=
  ((algFold_quiet E hra hrb it hit).mono (fun _ h => h.1)).sat s

/-- one `next` of `Difference` / `Intersection` on any window inside `a`, under any oracle. -/
theorem filtNext_safe {a b : Raw K V} {la lb : List (K × V)} (hra : Rep a la) (hrb : Rep b lb)
    (want : Bool) (it : SliceIt) (hit : it.hi ≤ la.length) (s : St K V Q) :
    SafeRO (filtNext E a b want it) s (fun res => res.2.hi = it.hi ∧ it.lo ≤ res.2.lo ∧
      ∀ x, res.1 = some x → it.lo ≤ x.1 ∧ res.2.lo = x.1 + 1 ∧ ∃ h : x.1 < la.length, x.2 = la[x.1].1) :=
  ((filtNext_quiet E hra hrb want it hit).mono
    (fun _ ⟨h1, h2, _, h4, _⟩ => ⟨h1, h2, fun x hx => (h4 x hx).2⟩)).sat s

/-- the predicates under any oracle: memory-safe, read-only, unwinding only by injection. -/
theorem allContain_safe {a b : Raw K V} {la lb : List (K × V)} (hra : Rep a la) (hrb : Rep b lb)
    (want : Bool) (s : St K V Q) : SafeRO (allContain E a b want) s (fun _ => True) :=
  ((allContain_quiet E hra hrb want).mono (fun _ _ => trivial)).sat s

theorem is_subset_safe {a b : Raw K V} {la lb : List (K × V)} (hra : Rep a la) (hrb : Rep b lb)
    (s : St K V Q) : SafeRO (is_subset E a b) s (fun _ => True) :=
  ((is_subset_quiet E hra hrb).mono (fun _ _ => trivial)).sat s

theorem is_superset_safe {a b : Raw K V} {la lb : List (K × V)} (hra : Rep a la) (hrb : Rep b lb)
    (s : St K V Q) : SafeRO (is_superset E a b) s (fun _ => True) :=
  ((is_superset_quiet E hra hrb).mono (fun _ _ => trivial)).sat s

theorem is_disjoint_safe {a b : Raw K V} {la lb : List (K × V)} (hra : Rep a la) (hrb : Rep b lb)
    (s : St K V Q) : SafeRO (is_disjoint E a b) s (fun _ => True) :=
  ((is_disjoint_quiet E hra hrb).mono (fun _ _ => trivial)).sat s

end generic


section sets
variable {K Q : Type} (E : Env K Unit Q)

/-! ### 3. the four lazy iterators yield exactly the set algebra -/

/-- draining with `next` from any well-formed state never runs out of fuel once the fuel exceeds the
    oracle-independent bound `meas` (so `algRunOut` is never `ub`), under ANY oracle and injection;
    it is read-only and yields only references to live slots of the operands. -/
theorem algRunOut_safe {a b : Raw K Unit} {la lb : List (K × Unit)} (hra : Rep a la) (hrb : Rep b lb)
    (it : AlgIt) (hit : AlgInv la.length lb.length it) (fuel : Nat) (hf : meas it < fuel)
    (s : St K Unit Q) :
    SafeRO (algRunOut E a b fuel it) s (fun res => (∀ x, x ∈ res → ItemOf la lb x) ∧ res.length ≤ meas it) :=
  ((algRunOut_quiet E hra hrb fuel it hit hf).mono (fun _ ⟨h1, h2, _⟩ => ⟨h1, h2⟩)).sat s

/-- draining any well-formed state with `next` yields exactly `algRest` of that state. -/
theorem algRunOut_exact (hE : E.Pure) {a b : Raw K Unit} {la lb : List (K × Unit)} (hra : Rep a la)
    (hrb : Rep b lb) (it : AlgIt) (hit : AlgInv la.length lb.length it) (fuel : Nat)
    (hf : meas it < fuel) {s : St K Unit Q} (hw : Benign s.w) :
    ∃ s', algRunOut E a b fuel it s = .ok (algRest E.keq la lb it) s' ∧ s'.r = s.r ∧ WRel s.w s'.w [] := by
  obtain ⟨r, s', h1, h2, h3, _, _, h6⟩ := (algRunOut_quiet E hra hrb fuel it hit hf).run hw
  rw [h6 hE] at h1
  exact ⟨s', h1, h2, h3⟩

/-- `a.difference(b)`, `a.intersection(b)`, `a.union(b)`, `a.symmetric_difference(b)` drained with
    `next` (fuel `|a| + |b| + 1` is never exhausted): the yielded keys are exactly `diffL`,
    `interL`, `unionL` (= `kb ++ diffL ka kb`: first `other`, then `self ∖ other`) and `symmL`
    (= `diffL ka kb ++ diffL kb ka`) as LISTS — so a repeated element would be visible —, every
    item is a reference to a live slot of an operand, and nothing is changed. -/
theorem set_algebra_exact (hE : E.Pure) {a b : Raw K Unit} {la lb : List (K × Unit)} (hra : Rep a la)
    (hrb : Rep b lb) (kind : AlgKind) {s : St K Unit Q} (hw : Benign s.w) :
    ∃ items s', (algStart a b kind >>= algRunOut E a b (a.len + b.len + 1)) s = .ok items s' ∧
      s'.r = s.r ∧ WRel s.w s'.w [] ∧
      items = algRest E.keq la lb (startIt la.length lb.length kind) ∧
      (∀ x, x ∈ items → ItemOf la lb x) ∧
      items.map (·.2.2) = match kind with
        | .difference => diffL E.keq (la.map (·.1)) (lb.map (·.1))
        | .intersection => interL E.keq (la.map (·.1)) (lb.map (·.1))
        | .union => unionL E.keq (la.map (·.1)) (lb.map (·.1))
        | .symmetric_difference => symmL E.keq (la.map (·.1)) (lb.map (·.1)) := by
  have hf : meas (startIt la.length lb.length kind) < a.len + b.len + 1 := by
    have := startIt_meas la.length lb.length kind
    rw [hra.1, hrb.1]; omega
  obtain ⟨r, s', h1, h2, h3, h4, _, h6⟩ :=
    (algRunOut_quiet E hra hrb _ _ (startIt_inv la.length lb.length kind) hf).run hw
  refine ⟨r, s', ?_, h2, h3, h6 hE, h4, ?_⟩
  · simp only [bind_apply, algStart_eq hra hrb]
    exact h1
  · rw [h6 hE]; exact algRest_start_keys E.keq la lb kind

/-- `difference`: exactly the elements of `a` not in `b`, in `a`'s order, each once; the items
    are references into the LEFT operand (operand 0) at strictly increasing live slots, carrying
    those slots' own keys; the operands' state is untouched. -/
theorem difference_exact (hE : E.Lawful) {a b : Raw K Unit} {la lb : List (K × Unit)} (hra : Rep a la)
    (hrb : Rep b lb) (hna : NodupB E.keq (la.map (·.1))) {s : St K Unit Q} (hw : Benign s.w) :
    ∃ items s', (algStart a b .difference >>= algRunOut E a b (a.len + b.len + 1)) s = .ok items s' ∧
      s'.r = s.r ∧
      items.map (·.2.2) = diffL E.keq (la.map (·.1)) (lb.map (·.1)) ∧
      NodupB E.keq (items.map (·.2.2)) ∧
      (∀ x, memB E.keq x (items.map (·.2.2)) =
        (memB E.keq x (la.map (·.1)) && !memB E.keq x (lb.map (·.1)))) ∧
      (items.map (·.2.2)).Sublist (la.map (·.1)) ∧
      (∀ x, x ∈ items → x.1 = 0 ∧ ∃ h : x.2.1 < la.length, x.2.2 = la[x.2.1].1) ∧
      (items.map (·.2.1)).Pairwise (· < ·) := by
  obtain ⟨items, s', h1, h2, _, h4, _, h6⟩ := set_algebra_exact E hE.toPure hra hrb .difference hw
  simp only at h6
  refine ⟨items, s', h1, h2, h6, ?_, ?_, ?_, ?_, ?_⟩
  · rw [h6]; exact nodup_diff _ _ hna
  · intro x; rw [h6]; exact memB_diff hE.equivB x _ _
  · rw [h6]; exact diff_sublist _ _
  · rw [h4, algRest_start_difference]; exact tag_selRest_own 0 la _ _ _
  · rw [h4, algRest_start_difference]; exact tag_selRest_sorted 0 la _ _ _

/-- `intersection`: exactly the elements of `a` that are in `b`, in `a`'s order, each once, as
    references to the LEFT operand's own elements (not `b`'s equal ones). -/
theorem intersection_exact (hE : E.Lawful) {a b : Raw K Unit} {la lb : List (K × Unit)} (hra : Rep a la)
    (hrb : Rep b lb) (hna : NodupB E.keq (la.map (·.1))) {s : St K Unit Q} (hw : Benign s.w) :
    ∃ items s', (algStart a b .intersection >>= algRunOut E a b (a.len + b.len + 1)) s = .ok items s' ∧
      s'.r = s.r ∧
      items.map (·.2.2) = interL E.keq (la.map (·.1)) (lb.map (·.1)) ∧
      NodupB E.keq (items.map (·.2.2)) ∧
      (∀ x, memB E.keq x (items.map (·.2.2)) =
        (memB E.keq x (la.map (·.1)) && memB E.keq x (lb.map (·.1)))) ∧
      (items.map (·.2.2)).Sublist (la.map (·.1)) ∧
      (∀ x, x ∈ items → x.1 = 0 ∧ ∃ h : x.2.1 < la.length, x.2.2 = la[x.2.1].1) ∧
      (items.map (·.2.1)).Pairwise (· < ·) := by
  obtain ⟨items, s', h1, h2, _, h4, _, h6⟩ := set_algebra_exact E hE.toPure hra hrb .intersection hw
  simp only at h6
  refine ⟨items, s', h1, h2, h6, ?_, ?_, ?_, ?_, ?_⟩
  · rw [h6]; exact nodup_inter _ _ hna
  · intro x; rw [h6]; exact memB_inter hE.equivB x _ _
  · rw [h6]; exact inter_sublist _ _
  · rw [h4, algRest_start_intersection]; exact tag_selRest_own 0 la _ _ _
  · rw [h4, algRest_start_intersection]; exact tag_selRest_sorted 0 la _ _ _

/-- `union`: all of `other` (operand 1) followed by `self ∖ other` (operand 0): every element of
    either set exactly once. -/
theorem union_exact (hE : E.Lawful) {a b : Raw K Unit} {la lb : List (K × Unit)} (hra : Rep a la)
    (hrb : Rep b lb) (hna : NodupB E.keq (la.map (·.1))) (hnb : NodupB E.keq (lb.map (·.1)))
    {s : St K Unit Q} (hw : Benign s.w) :
    ∃ items s', (algStart a b .union >>= algRunOut E a b (a.len + b.len + 1)) s = .ok items s' ∧
      s'.r = s.r ∧
      items.map (·.2.2) = unionL E.keq (la.map (·.1)) (lb.map (·.1)) ∧
      NodupB E.keq (items.map (·.2.2)) ∧
      (∀ x, memB E.keq x (items.map (·.2.2)) =
        (memB E.keq x (la.map (·.1)) || memB E.keq x (lb.map (·.1)))) ∧
      (∀ x, x ∈ items → ItemOf la lb x) ∧
      items = tag 1 (selRest lb (fun _ => true) lb.length 0) ++
        tag 0 (selRest la (selD E.keq (lb.map (·.1)) false) la.length 0) := by
  obtain ⟨items, s', h1, h2, _, h4, h5, h6⟩ := set_algebra_exact E hE.toPure hra hrb .union hw
  simp only at h6
  refine ⟨items, s', h1, h2, h6, ?_, ?_, h5, ?_⟩
  · rw [h6]; exact nodup_union hE.equivB _ _ hna hnb
  · intro x; rw [h6]; exact memB_union hE.equivB x _ _
  · rw [h4, algRest_start_union]

/-- `symmetric_difference`: `self ∖ other` (operand 0) followed by `other ∖ self` (operand 1):
    exactly the elements in one set but not the other, each once. -/
theorem symmetric_difference_exact (hE : E.Lawful) {a b : Raw K Unit} {la lb : List (K × Unit)}
    (hra : Rep a la) (hrb : Rep b lb) (hna : NodupB E.keq (la.map (·.1)))
    (hnb : NodupB E.keq (lb.map (·.1))) {s : St K Unit Q} (hw : Benign s.w) :
    ∃ items s', (algStart a b .symmetric_difference >>= algRunOut E a b (a.len + b.len + 1)) s =
        .ok items s' ∧
      s'.r = s.r ∧
      items.map (·.2.2) = symmL E.keq (la.map (·.1)) (lb.map (·.1)) ∧
      NodupB E.keq (items.map (·.2.2)) ∧
      (∀ x, memB E.keq x (items.map (·.2.2)) =
        ((memB E.keq x (la.map (·.1)) && !memB E.keq x (lb.map (·.1))) ||
         (memB E.keq x (lb.map (·.1)) && !memB E.keq x (la.map (·.1))))) ∧
      (∀ x, x ∈ items → ItemOf la lb x) ∧
      items = tag 0 (selRest la (selD E.keq (lb.map (·.1)) false) la.length 0) ++
        tag 1 (selRest lb (selD E.keq (la.map (·.1)) false) lb.length 0) := by
  obtain ⟨items, s', h1, h2, _, h4, h5, h6⟩ :=
    set_algebra_exact E hE.toPure hra hrb .symmetric_difference hw
  simp only at h6
  refine ⟨items, s', h1, h2, h6, ?_, ?_, h5, ?_⟩
  · rw [h6]; exact nodup_symm hE.equivB _ _ hna hnb
  · intro x; rw [h6]; exact memB_symm hE.equivB x _ _
  · rw [h4, algRest_start_symmetric_difference]

/-! ### 4. `fold` = `next` -/

/-- from ANY well-formed iterator state (in particular every state reachable by `next`s), the
    custom `fold` (which `count` and `Chain::fold` route through) visits exactly the items that
    stepping with `next` to exhaustion yields, in the same order. -/
theorem fold_eq_next (hE : E.Pure) {a b : Raw K Unit} {la lb : List (K × Unit)} (hra : Rep a la)
    (hrb : Rep b lb) (it : AlgIt) (hit : AlgInv la.length lb.length it) (fuel : Nat)
    (hf : meas it < fuel) {s : St K Unit Q} (hw : Benign s.w) :
    ∃ items s₁ s₂, algFold E a b it s = .ok items s₁ ∧ algRunOut E a b fuel it s = .ok items s₂ ∧
      s₁.r = s.r ∧ s₂.r = s.r ∧ items = algRest E.keq la lb it := by
  obtain ⟨r, s₁, h1, h2, _, _, h5⟩ := (algFold_quiet E hra hrb it hit).run hw
  obtain ⟨s₂, g1, g2, _⟩ := algRunOut_exact E hE hra hrb it hit fuel hf hw
  rw [h5 hE] at h1
  exact ⟨_, s₁, s₂, h1, g1, h2, g2, rfl⟩

/-- the state after `k` calls of `next` on a fresh iterator (every stage of consumption): the `i`-th
    call returned the `i`-th item of the full result (`None` from the end on), and both `fold` and
    further stepping with `next` yield exactly the full result without its first `k` items. -/
theorem fold_eq_next_after (hE : E.Pure) {a b : Raw K Unit} {la lb : List (K × Unit)} (hra : Rep a la)
    (hrb : Rep b lb) (kind : AlgKind) (k : Nat) {s : St K Unit Q} (hw : Benign s.w) :
    ∃ it₀ os it s₁ items s₂ s₃,
      algStart a b kind s = .ok it₀ s ∧ nextN E a b k it₀ s = .ok (os, it) s₁ ∧
      algFold E a b it s₁ = .ok items s₂ ∧
      algRunOut E a b (a.len + b.len + 1) it s₁ = .ok items s₃ ∧
      s₁.r = s.r ∧ s₂.r = s.r ∧ s₃.r = s.r ∧
      os = (List.range k).map (fun i => (algRest E.keq la lb it₀)[i]?) ∧
      items = (algRest E.keq la lb it₀).drop k := by
  obtain ⟨⟨os, it⟩, s₁, h1, h2, h3, _, h5, h6, h7⟩ :=
    (nextN_quiet E hra hrb k _ (startIt_inv la.length lb.length kind)).run hw
  simp only at h5 h6 h7
  have hw₁ : Benign s₁.w := h3.benign hw
  have hf : meas it < a.len + b.len + 1 := by
    have := startIt_meas la.length lb.length kind
    rw [hra.1, hrb.1]; omega
  obtain ⟨items, s₂, s₃, g1, g2, g3, g4, g5⟩ := fold_eq_next E hE hra hrb it h5 _ hf hw₁
  exact ⟨_, os, it, s₁, items, s₂, s₃, algStart_eq hra hrb kind s, h1, g1, g2, h2, g3.trans h2,
    g4.trans h2, (h7 hE).1, by rw [g5, (h7 hE).2]⟩

/-! ### 5. `size_hint` brackets what is still to come -/

/-- for ANY well-formed state of any of the four iterators (in particular after any number of
    `next`s), `size_hint() = (lo, Some(hi))` with `lo ≤ n ≤ hi`, where `n` is the number of items
    that stepping with `next` still yields. -/
theorem size_hint_brackets (hE : E.Lawful) {a b : Raw K Unit} {la lb : List (K × Unit)} (hra : Rep a la)
    (hrb : Rep b lb) (hna : NodupB E.keq (la.map (·.1))) (hnb : NodupB E.keq (lb.map (·.1)))
    (it : AlgIt) (hit : AlgInv la.length lb.length it) (fuel : Nat) (hf : meas it < fuel)
    {s : St K Unit Q} (hw : Benign s.w) :
    ∃ items s', algRunOut E a b fuel it s = .ok items s' ∧ s'.r = s.r ∧
      (algHint a b it).1 ≤ items.length ∧
      ∃ hi, (algHint a b it).2 = some hi ∧ items.length ≤ hi := by
  obtain ⟨s', g1, g2, _⟩ := algRunOut_exact E hE.toPure hra hrb it hit fuel hf hw
  have := algHint_brackets hE.equivB hra hrb hna hnb it hit
  exact ⟨_, s', g1, g2, this⟩

/-- at every stage of consumption: after `k` calls of `next` on a fresh iterator of any of the four
    kinds, `size_hint` brackets the number of items that will still be yielded. -/
theorem size_hint_brackets_after (hE : E.Lawful) {a b : Raw K Unit} {la lb : List (K × Unit)}
    (hra : Rep a la) (hrb : Rep b lb) (hna : NodupB E.keq (la.map (·.1)))
    (hnb : NodupB E.keq (lb.map (·.1))) (kind : AlgKind) (k : Nat) {s : St K Unit Q}
    (hw : Benign s.w) :
    ∃ it₀ os it s₁ items s₂,
      algStart a b kind s = .ok it₀ s ∧ nextN E a b k it₀ s = .ok (os, it) s₁ ∧
      algRunOut E a b (a.len + b.len + 1) it s₁ = .ok items s₂ ∧ s₂.r = s.r ∧
      (algHint a b it).1 ≤ items.length ∧
      ∃ hi, (algHint a b it).2 = some hi ∧ items.length ≤ hi := by
  obtain ⟨⟨os, it⟩, s₁, h1, h2, h3, _, h5, h6, _⟩ :=
    (nextN_quiet E hra hrb k _ (startIt_inv la.length lb.length kind)).run hw
  simp only at h5 h6
  have hw₁ : Benign s₁.w := h3.benign hw
  have hf : meas it < a.len + b.len + 1 := by
    have := startIt_meas la.length lb.length kind
    rw [hra.1, hrb.1]; omega
  obtain ⟨items, s₂, g1, g2, g3⟩ := size_hint_brackets E hE hra hrb hna hnb it h5 _ hf hw₁
  exact ⟨_, os, it, s₁, items, s₂, algStart_eq hra hrb kind s, h1, g1, g2.trans h2, g3⟩

/-! ### 7. the `-` operator -/

/-- `&a - &b` (`self.difference(rhs).cloned().collect()` into a set of `a`'s capacity, run on the
    fresh local `Raw.new a.cap`): in a benign lawful world it returns, never overflows
    (`|a ∖ b| ≤ |a| ≤ cap a`), and the new set holds exactly one clone (`E.clK id ·`, at some ids) of
    every element of `diffL ka kb`, in that order; the only effects are those clone calls (no drop:
    nothing is replaced).  Hence it is duplicate-free and its membership is the mathematical one.

    NEEDED HYPOTHESIS `hcl`: a clone compares equal to its source (`(k.clone() == k)`), which the
    crate silently relies on — otherwise `insert` of a clone could replace an earlier element
    instead of appending, or two clones of distinct elements could collide. -/
theorem sub_correct (hE : E.Lawful) (hcl : ∀ n k, E.keq (E.clK n k) k = true) {a b : Raw K Unit}
    {la lb : List (K × Unit)} (hra : Rep a la) (hrb : Rep b lb) (hna : NodupB E.keq (la.map (·.1)))
    {s : St K Unit Q} (hw : Benign s.w) (hs : s.r = Raw.new a.cap) :
    ∃ s' cl ids, subInto E a b s = .ok () s' ∧ s'.r.cap = a.cap ∧ Rep s'.r (cl.map (fun c => (c, ()))) ∧
      ids.length = (diffL E.keq (la.map (·.1)) (lb.map (·.1))).length ∧
      cl = List.zipWith E.clK ids (diffL E.keq (la.map (·.1)) (lb.map (·.1))) ∧
      WRel s.w s'.w (cloneTrace (diffL E.keq (la.map (·.1)) (lb.map (·.1))) cl) ∧
      NodupB E.keq cl ∧
      (∀ x, memB E.keq x cl = (memB E.keq x (la.map (·.1)) && !memB E.keq x (lb.map (·.1)))) := by
  have hr0 : Rep s.r ([] : List (K × Unit)) := by rw [hs]; exact Rep.new _
  have hcap : s.r.cap = a.cap := by rw [hs]; rfl
  have hlen : (diffL E.keq (la.map (·.1)) (lb.map (·.1))).length ≤ la.length := by
    have := (diff_sublist (keq := E.keq) (la.map (·.1)) (lb.map (·.1))).length_le
    simpa using this
  have hwk := windowKeys_full la
  obtain ⟨s', cl, h1, h2, h3, ⟨ids, h4, h5⟩, h6⟩ :=
    subLoop_run E hE hcl hra hrb hna (la.length + 1) ⟨0, la.length⟩ [] s (Nat.le_refl _) hw hr0
      (by rw [hwk]; omega)
      (by rw [hwk, hcap]; have := hra.2.1; simp only [List.length_nil]; omega)
      (by intro x _; simp [memB])
  rw [hwk] at h4 h5 h6
  refine ⟨s', cl, ids, ?_, by rw [h2, hcap], by simpa using h3, h4, h5, h6, ?_, ?_⟩
  · unfold subInto Micromap.unwindWith
    simp only [bind_apply, iterStartR_eq hra]
    have : (⟨0, la.length⟩ : SliceIt).len = la.length := by simp [SliceIt.len]
    rw [this, h1]
  · rw [h5]; exact nodup_clones hE.equivB E.clK hcl ids _ h4 (nodup_diff _ _ hna)
  · intro x
    rw [h5, memB_clones hE.equivB E.clK hcl ids _ h4, memB_diff hE.equivB]

end sets


/-! Non-vacuity: concrete operands `a = {1, 2}` (capacity 3), `b = {2, 3}` (capacity 2) and a lawful
    environment meet every hypothesis used above (tests, not proofs). -/

def exEnv : Env Nat Unit Nat :=
  { eqK := fun _ a b => a == b, eqQ := fun _ a b => a == b, eqV := fun _ _ => true, borrow := id,
    clK := fun _ k => k, clV := fun _ v => v, vGlue := false }

def exA : Raw Nat Unit :=
  { cap := 3, len := 2, slots := fun i => if i = 0 then some (1, ()) else if i = 1 then some (2, ()) else none }

def exB : Raw Nat Unit :=
  { cap := 2, len := 2, slots := fun i => if i = 0 then some (2, ()) else if i = 1 then some (3, ()) else none }

def exS : St Nat Unit Nat := ⟨Raw.new exA.cap, {}⟩

example : exEnv.Lawful :=
  { k := fun _ _ _ => rfl, q := fun _ _ _ => rfl
    refl := fun a => by simp [Env.keq, exEnv]
    symm := fun a b => by simp only [Env.keq, exEnv]; exact BEq.comm
    trans := fun a b c => by simp only [Env.keq, exEnv, beq_iff_eq]; intro h1 h2; exact h1.trans h2
    borrow := fun _ _ => rfl
    qrefl := fun a => by simp [Env.qeq, exEnv]
    qsymm := fun a b => by simp only [Env.qeq, exEnv]; exact BEq.comm
    qtrans := fun a b c => by simp only [Env.qeq, exEnv, beq_iff_eq]; intro h1 h2; exact h1.trans h2 }

example : Rep exA [(1, ()), (2, ())] :=
  ⟨rfl, by decide, fun i hi => by
    have : i = 0 ∨ i = 1 := by simp at hi; omega
    rcases this with rfl | rfl <;> rfl⟩
example : Rep exB [(2, ()), (3, ())] :=
  ⟨rfl, by decide, fun i hi => by
    have : i = 0 ∨ i = 1 := by simp at hi; omega
    rcases this with rfl | rfl <;> rfl⟩
example : NodupB exEnv.keq [1, 2] := by unfold NodupB; decide
example : NodupB exEnv.keq [2, 3] := by unfold NodupB; decide
example : Benign exS.w := ⟨rfl, rfl⟩
example : exS.r = Raw.new exA.cap := rfl
example : ∀ n k, exEnv.keq (exEnv.clK n k) k = true := fun _ k => by simp [Env.keq, exEnv]
example : AlgInv 2 2 (startIt 2 2 .symmetric_difference) := startIt_inv 2 2 _
example : meas (startIt 2 2 .union) < exA.len + exB.len + 1 := by decide
example : diffL exEnv.keq [1, 2] [2, 3] = [1] := by decide
example : interL exEnv.keq [1, 2] [2, 3] = [2] := by decide
example : unionL exEnv.keq [1, 2] [2, 3] = [2, 3, 1] := by decide
example : symmL exEnv.keq [1, 2] [2, 3] = [1, 3] := by decide
example : subsetB exEnv.keq [1, 2] [2, 3] = false := by decide
example : disjointB exEnv.keq [1, 2] [2, 3] = false := by decide
/-- the model itself, run on the concrete operands: `union` yields `2, 3` from `other` (operand 1,
    slots 0 and 1) and then `1` from `self` (operand 0, slot 0). -/
example : (match (algStart exA exB .union >>= algRunOut exEnv exA exB (exA.len + exB.len + 1)) exS with
    | .ok items _ => items == [(1, 0, 2), (1, 1, 3), (0, 0, 1)]
    | _ => false) = true := by decide

end Micromap.Props.C08


/-! ## std's provided `nth(k)` and `last()` on the four lazy set operations (`Model/StdIterB.lean`)

`Difference`, `Intersection`, `Union`, `SymmetricDifference` (and `DifferenceRef`) do not override
`nth` / `advance_by` / `last`; they DO override `fold`.  So `nth(k)` is core's `advance_by(k)` —
`next` up to `k` times, stopping at the first `None` — followed by `next` (`algNth`), and `last()`
is core's `fold(None, |_, x| Some(x))` running the crate's `fold` (`algLast` = the last item
`algFold` visits).  Everything is stated relative to `algRest`, the list the iterator state still
yields under repeated `next` (`fold_eq_next_after`, `algRunOut_exact`) — which `set_algebra_exact`,
`difference_exact`, … identify with `diffL` / `interL` / `unionL` / `symmL` for a fresh iterator. -/

namespace Micromap.Props.C08
open Micromap SetAlg Alg Micromap.StdIterB

section genericX
variable {K V Q : Type} (E : Env K V Q)

/-- `nth(k)` from any well-formed state, under ANY `==` and any injection: never `ub`, read-only,
    unwinding only by an injected panic; the state stays well formed and of the same kind, the
    bound `meas` does not grow, a returned item is a reference to a live slot of an operand. -/
theorem algNth_safe {a b : Raw K V} {la lb : List (K × V)} (hra : Rep a la) (hrb : Rep b lb)
    (k : Nat) (it : AlgIt) (hit : AlgInv la.length lb.length it) (s : St K V Q) :
    SafeRO (algNth E a b k it) s (fun res => res.2.kind = it.kind ∧ AlgInv la.length lb.length res.2 ∧
      meas res.2 ≤ meas it ∧ ∀ x, res.1 = some x → ItemOf la lb x) :=
  ((algNth_quiet E hra hrb k it hit).mono (fun _ ⟨h1, h2, h3, h4, _⟩ => ⟨h1, h2, h3, h4⟩)).sat s

/-- `last()` from any well-formed state, under ANY `==` and any injection. -/
theorem algLast_safe {a b : Raw K V} {la lb : List (K × V)} (hra : Rep a la) (hrb : Rep b lb)
    (it : AlgIt) (hit : AlgInv la.length lb.length it) (s : St K V Q) :
    SafeRO (algLast E a b it) s (fun res => ∀ x, res = some x → ItemOf la lb x) :=
  ((algLast_quiet E hra hrb it hit).mono (fun _ h => h.1)).sat s

/-- `nth(k)` from ANY well-formed state (in particular every state reachable by `next`s and
    `nth`s): it returns the `k`-th item of what repeated `next` would yield (`None` if there are
    not that many) and leaves exactly the items after it; nothing is changed. -/
theorem nth_exact (hE : E.Pure) {a b : Raw K V} {la lb : List (K × V)} (hra : Rep a la) (hrb : Rep b lb)
    (k : Nat) (it : AlgIt) (hit : AlgInv la.length lb.length it) {s : St K V Q} (hw : Benign s.w) :
    ∃ it' s', algNth E a b k it s = .ok ((algRest E.keq la lb it)[k]?, it') s' ∧ s'.r = s.r ∧
      WRel s.w s'.w [] ∧ it'.kind = it.kind ∧ AlgInv la.length lb.length it' ∧
      algRest E.keq la lb it' = (algRest E.keq la lb it).drop (k + 1) := by
  obtain ⟨⟨o, it'⟩, s', h1, h2, h3, h4, h5, _, _, h8⟩ := (algNth_quiet E hra hrb k it hit).run hw
  simp only at h4 h5 h8
  rw [(h8 hE).1] at h1
  exact ⟨it', s', h1, h2, h3, h4, h5, (h8 hE).2⟩

/-- `nth(k)` is the last of `k+1` calls of `next`: the same item, and the same items left. -/
theorem nth_eq_next (hE : E.Pure) {a b : Raw K V} {la lb : List (K × V)} (hra : Rep a la) (hrb : Rep b lb)
    (k : Nat) (it : AlgIt) (hit : AlgInv la.length lb.length it) {s : St K V Q} (hw : Benign s.w) :
    ∃ os it₁ s₁ it₂ s₂, nextN E a b (k + 1) it s = .ok (os, it₁) s₁ ∧
      algNth E a b k it s = .ok ((os[k]?).join, it₂) s₂ ∧
      algRest E.keq la lb it₂ = algRest E.keq la lb it₁ := by
  obtain ⟨⟨os, it₁⟩, s₁, h1, _, _, _, _, _, h7⟩ := (nextN_quiet E hra hrb (k + 1) it hit).run hw
  simp only at h7
  obtain ⟨it₂, s₂, g1, _, _, _, _, g6⟩ := nth_exact E hE hra hrb k it hit hw
  refine ⟨os, it₁, s₁, it₂, s₂, h1, ?_, by rw [g6, (h7 hE).2]⟩
  rw [g1, (h7 hE).1]
  simp

/-- `last()` from ANY well-formed state: the last item of what repeated `next` (equivalently the
    custom `fold`) would yield — `None` exactly when nothing is left; nothing is changed. -/
theorem last_exact (hE : E.Pure) {a b : Raw K V} {la lb : List (K × V)} (hra : Rep a la) (hrb : Rep b lb)
    (it : AlgIt) (hit : AlgInv la.length lb.length it) {s : St K V Q} (hw : Benign s.w) :
    ∃ s', algLast E a b it s = .ok (algRest E.keq la lb it).getLast? s' ∧ s'.r = s.r ∧
      WRel s.w s'.w [] ∧ ((algRest E.keq la lb it).getLast? = none ↔ algRest E.keq la lb it = []) := by
  obtain ⟨o, s', h1, h2, h3, _, h5⟩ := (algLast_quiet E hra hrb it hit).run hw
  rw [h5 hE] at h1
  exact ⟨s', h1, h2, h3, List.getLast?_eq_none_iff⟩

end genericX

section setsX
variable {K Q : Type} (E : Env K Unit Q)

/-- on scripts without `nth` / `last` the extended interpreter (what the driver runs for scripts
    with `t<k>` / `z`) IS `algScript` / `algOp`. -/
theorem extended_alg_script_extends (dbg : Bool → K → String) (kind : AlgKind) (a b : Raw K Unit)
    (cs : List IterCmd) (it : AlgIt) (forks : List AlgIt) :
    algScriptX E dbg a b (cs.map .base) it forks = algScript E dbg a b cs it forks ∧
    algOpX E dbg kind a b (cs.map .base) = algOp E dbg kind a b cs :=
  ⟨algScriptX_base E dbg a b cs it forks, algOpX_base E dbg kind a b cs⟩

/-- the composite operation with ANY extended script (any mixture of `next`, `nth`, `last`,
    `size_hint`, `Debug`, `clone`, `count`, `fold`), any of the four kinds, under ANY `==` and any
    injection: never `ub` (no loop bound is hit), read-only, unwinding only by an injected panic. -/
theorem algOpX_safe {a b : Raw K Unit} {la lb : List (K × Unit)} (hra : Rep a la) (hrb : Rep b lb)
    (dbg : Bool → K → String) (kind : AlgKind) (script : List IterCmdX) (s : St K Unit Q) :
    SafeRO (algOpX E dbg kind a b script) s (fun _ => True) :=
  (algOpX_quiet E hra hrb dbg kind script).sat s

/-- `nth(k)` on a fresh `a.difference(b)` / `intersection` / `union` / `symmetric_difference`: the
    `k`-th element of the full result (the list `set_algebra_exact` identifies with `diffL` /
    `interL` / `unionL` / `symmL`), `None` beyond it; what a later `fold` or draining with `next`
    yields is the full result without its first `k+1` elements. -/
theorem nth_from_start (hE : E.Pure) {a b : Raw K Unit} {la lb : List (K × Unit)} (hra : Rep a la)
    (hrb : Rep b lb) (kind : AlgKind) (k : Nat) {s : St K Unit Q} (hw : Benign s.w) :
    ∃ it s₁ items s₂ s₃,
      (algStart a b kind >>= algNth E a b k) s =
        .ok ((algRest E.keq la lb (startIt la.length lb.length kind))[k]?, it) s₁ ∧
      algFold E a b it s₁ = .ok items s₂ ∧
      algRunOut E a b (a.len + b.len + 1) it s₁ = .ok items s₃ ∧
      s₁.r = s.r ∧ s₂.r = s.r ∧ s₃.r = s.r ∧
      items = (algRest E.keq la lb (startIt la.length lb.length kind)).drop (k + 1) := by
  obtain ⟨it, s₁, h1, h2, h3, _, h5, h6⟩ :=
    nth_exact E hE hra hrb k _ (startIt_inv la.length lb.length kind) hw
  have hm : meas it ≤ meas (startIt la.length lb.length kind) := by
    obtain ⟨_, _, e, _, _, _, _, m, _⟩ :=
      (algNth_quiet E hra hrb k _ (startIt_inv la.length lb.length kind)).run hw
    rw [h1] at e; cases e; exact m
  have hf : meas it < a.len + b.len + 1 := by
    have := startIt_meas la.length lb.length kind
    rw [hra.1, hrb.1]; omega
  obtain ⟨items, s₂, s₃, g1, g2, g3, g4, g5⟩ := fold_eq_next E hE hra hrb it h5 _ hf (h3.benign hw)
  refine ⟨it, s₁, items, s₂, s₃, ?_, g1, g2, h2, g3.trans h2, g4.trans h2, by rw [g5, h6]⟩
  simp only [bind_apply, algStart_eq hra hrb kind s, h1]

/-- `last()` on a fresh iterator: the last element of the full result, `None` iff it is empty;
    it is the last of the items draining with `next` yields. -/
theorem last_from_start (hE : E.Pure) {a b : Raw K Unit} {la lb : List (K × Unit)} (hra : Rep a la)
    (hrb : Rep b lb) (kind : AlgKind) {s : St K Unit Q} (hw : Benign s.w) :
    ∃ items s₁ s₂,
      (algStart a b kind >>= algRunOut E a b (a.len + b.len + 1)) s = .ok items s₁ ∧
      (algStart a b kind >>= algLast E a b) s = .ok items.getLast? s₂ ∧
      s₁.r = s.r ∧ s₂.r = s.r ∧ items = algRest E.keq la lb (startIt la.length lb.length kind) := by
  have hf : meas (startIt la.length lb.length kind) < a.len + b.len + 1 := by
    have := startIt_meas la.length lb.length kind
    rw [hra.1, hrb.1]; omega
  obtain ⟨s₁, h1, h2, _⟩ := algRunOut_exact E hE hra hrb _ (startIt_inv la.length lb.length kind) _ hf hw
  obtain ⟨s₂, g1, g2, _⟩ := last_exact E hE hra hrb _ (startIt_inv la.length lb.length kind) hw
  exact ⟨_, s₁, s₂, by simp only [bind_apply, algStart_eq hra hrb kind s, h1],
    by simp only [bind_apply, algStart_eq hra hrb kind s, g1], h2, g2, rfl⟩

end setsX

/-! Non-vacuity: the model itself on the concrete operands `a = {1, 2}`, `b = {2, 3}`: `union`
    yields `2, 3` (operand 1) and then `1` (operand 0, slot 0). -/

example : (match (algStart exA exB .union >>= algNth exEnv exA exB 2) exS with
    | .ok (o, _) _ => o == some (0, 0, 1) | _ => false) = true := by decide
example : (match (algStart exA exB .union >>= algNth exEnv exA exB 3) exS with
    | .ok (o, _) _ => o == none | _ => false) = true := by decide
example : (match (algStart exA exB .union >>= algNth exEnv exA exB 0 >>= fun x => algNth exEnv exA exB 0 x.2) exS with
    | .ok (o, _) _ => o == some (1, 1, 3) | _ => false) = true := by decide
example : (match (algStart exA exB .difference >>= algLast exEnv exA exB) exS with
    | .ok o _ => o == some (0, 0, 1) | _ => false) = true := by decide
example : (match (algStart exA exB .intersection >>= algLast exEnv exA exB) exS with
    | .ok o _ => o == some (0, 1, 2) | _ => false) = true := by decide
/-- the script `nth(0); last; next` on `a.difference(b)` (= `[1]`): `nth(0)` takes the only element,
    `last()` then finds nothing and ends the script. -/
example : (match algOpX exEnv (fun _ k => toString k) .difference exA exB [.nth 0, .last, .base .next] exS with
    | .ok [.some (.oref 0 0 (.key 1)), .none] _ => true | _ => false) = true := by decide

end Micromap.Props.C08
