/-
C03 — A full container rejects a new key cleanly in every build profile.

Property theorems only (helper lemmas live in `Micromap/Proofs`).  All statements are
about the L0 model functions that `step` executes; `s.w.profile` is universally
quantified, so every statement covers debug and release builds.
-/
import Micromap.Proofs.MapApi
import Micromap.Props.C11
import Micromap.Props.C16

namespace Micromap.Props.C03
open Micromap
variable {K V Q : Type} (E : Env K V Q)

/-- In a world where no injected fault is armed an operation cannot unwind by injection. -/
theorem no_inj {s s' : St K V Q} {c} (hb : Benign s.w) (h : InjPanic s s' c) : False := h.2.1 hb.1

/-- `insert` of an absent key into a full map panics — by `debug_assert!` in debug builds and by
    the bounds check of `pairs[i]` in release builds — the container is bit-for-bit unchanged
    (all slots, `len`, `cap`), and the effects are exactly: the rejected value and key are dropped. -/
theorem insert_full_absent (hE : E.Pure) {s : St K V Q} {l : List (K × V)} (hr : Rep s.r l)
    (hb : Benign s.w) (hfull : l.length = s.r.cap) (k : K) (v : V)
    (habs : findKey E l (.key k) = none) :
    ∃ c s', insert E k v s = .panic c s' ∧ s'.r = s.r ∧ OverflowPanic s c ∧
      WRel s.w s'.w (dropVTr E v ++ [.dropK k]) := by
  obtain ⟨c, s', h1, _, h2⟩ := (insert_sat E hr k v).must_panic (by
    intro a s' ⟨_, h⟩
    rcases h with ⟨i, _, _, _, _, hf⟩ | ⟨_, hroom, _⟩
    · rw [habs] at hf; exact absurd (hf hE) (by simp)
    · omega)
  rcases h2 with ⟨hi, _⟩ | ⟨hs, ho, _, _, hw⟩
  · exact (no_inj hb hi).elim
  · exact ⟨c, s', h1, hs, ho, hw⟩

/-- the same for `insert_key_value` (and `Set::replace`, which is this function at `V = ()`). -/
theorem insert_key_value_full_absent (hE : E.Pure) {s : St K V Q} {l : List (K × V)} (hr : Rep s.r l)
    (hb : Benign s.w) (hfull : l.length = s.r.cap) (k : K) (v : V)
    (habs : findKey E l (.key k) = none) :
    ∃ c s', insert_key_value E k v s = .panic c s' ∧ s'.r = s.r ∧ OverflowPanic s c ∧
      WRel s.w s'.w (dropVTr E v ++ [.dropK k]) := by
  obtain ⟨c, s', h1, hs, h2⟩ := (insert_key_value_sat E hr k v).must_panic (by
    intro a s' ⟨_, _, h⟩
    rcases h with ⟨i, _, _, _, hf⟩ | ⟨_, hroom, _⟩
    · rw [habs] at hf; exact absurd (hf hE) (by simp)
    · omega)
  rcases h2 with hi | ⟨ho, _, _, hw⟩
  · exact (no_inj hb hi).elim
  · exact ⟨c, s', h1, hs, ho, hw⟩

/-- `checked_insert` of an absent key into a full map returns `None` instead of panicking,
    changes nothing, and drops both arguments exactly once. -/
theorem checked_insert_full_absent (hE : E.Pure) {s : St K V Q} {l : List (K × V)} (hr : Rep s.r l)
    (hb : Benign s.w) (hfull : l.length = s.r.cap) (k : K) (v : V)
    (habs : findKey E l (.key k) = none) :
    ∃ s', checked_insert E k v s = .ok none s' ∧ s'.r = s.r ∧
      WRel s.w s'.w (dropVTr E v ++ [.dropK k]) := by
  obtain ⟨a, s', h1, _, h2⟩ := (checked_insert_sat E hr k v).must_return (by
    intro c s' ⟨_, hi, _⟩; exact no_inj hb hi)
  rcases h2 with ⟨i, _, _, _, _, hf⟩ | ⟨_, hroom, _⟩ | ⟨ha, _, hs, hw, _⟩
  · rw [habs] at hf; exact absurd (hf hE) (by simp)
  · omega
  · subst ha; exact ⟨s', h1, hs, hw⟩

/-- replacing the value of a key that is already present succeeds on a full container
    (no capacity is needed): `insert`, `checked_insert` and `insert_key_value`. -/
theorem insert_present_on_full (hE : E.Pure) {s : St K V Q} {l : List (K × V)} (hr : Rep s.r l)
    (hb : Benign s.w) (k : K) (v : V) {i} (hpres : findKey E l (.key k) = some i) :
    ∃ (hi : i < l.length) (s' : St K V Q), insert E k v s = .ok (some l[i].2) s' ∧
      Rep s'.r (l.set i (l[i].1, v)) ∧ s'.r.cap = s.r.cap := by
  obtain ⟨a, s', h1, hc, h2⟩ := (insert_sat E hr k v).must_return (by
    intro c s' ⟨_, h⟩
    rcases h with ⟨hi, _⟩ | ⟨_, _, _, hn, _⟩
    · exact no_inj hb hi
    · rw [hpres] at hn; exact absurd (hn hE) (by simp))
  rcases h2 with ⟨j, hj, ha, hrep, _, hf⟩ | ⟨_, _, _, _, hn⟩
  · have : j = i := by have := hf hE; rw [hpres] at this; exact (Option.some.inj this).symm
    subst this; subst ha; exact ⟨hj, s', h1, hrep, hc⟩
  · rw [hpres] at hn; exact absurd (hn hE) (by simp)

theorem checked_insert_present_on_full (hE : E.Pure) {s : St K V Q} {l : List (K × V)} (hr : Rep s.r l)
    (hb : Benign s.w) (k : K) (v : V) {i} (hpres : findKey E l (.key k) = some i) :
    ∃ (hi : i < l.length) (s' : St K V Q), checked_insert E k v s = .ok (some (some l[i].2)) s' ∧
      Rep s'.r (l.set i (l[i].1, v)) ∧ s'.r.cap = s.r.cap := by
  obtain ⟨a, s', h1, hc, h2⟩ := (checked_insert_sat E hr k v).must_return (by
    intro c s' ⟨_, hi, _⟩; exact no_inj hb hi)
  rcases h2 with ⟨j, hj, ha, hrep, _, hf⟩ | ⟨_, _, _, _, hn⟩ | ⟨_, _, _, _, hn⟩
  · have : j = i := by have := hf hE; rw [hpres] at this; exact (Option.some.inj this).symm
    subst this; subst ha; exact ⟨hj, s', h1, hrep, hc⟩
  · rw [hpres] at hn; exact absurd (hn hE) (by simp)
  · rw [hpres] at hn; exact absurd (hn hE) (by simp)

theorem insert_key_value_present_on_full (hE : E.Pure) {s : St K V Q} {l : List (K × V)}
    (hr : Rep s.r l) (hb : Benign s.w) (k : K) (v : V) {i} (hpres : findKey E l (.key k) = some i) :
    ∃ (hi : i < l.length) (s' : St K V Q), insert_key_value E k v s = .ok (some l[i]) s' ∧
      Rep s'.r (l.set i (k, v)) ∧ s'.r.cap = s.r.cap := by
  obtain ⟨a, s', h1, hc, _, h2⟩ := (insert_key_value_sat E hr k v).must_return (by
    intro c s' ⟨_, h⟩
    rcases h with hi | ⟨_, _, hn, _⟩
    · exact no_inj hb hi
    · rw [hpres] at hn; exact absurd (hn hE) (by simp))
  rcases h2 with ⟨j, hj, ha, hrep, hf⟩ | ⟨_, _, _, hn⟩
  · have : j = i := by have := hf hE; rw [hpres] at this; exact (Option.some.inj this).symm
    subst this; subst ha; exact ⟨hj, s', h1, hrep, hc⟩
  · rw [hpres] at hn; exact absurd (hn hE) (by simp)

/-- whatever happens (any oracle, any injection point, either profile), `insert` leaves a
    container that is represented by a list no longer than its unchanged capacity:
    `len() <= capacity()` and `capacity()` is always `N`. -/
theorem insert_len_le_cap {s : St K V Q} {l : List (K × V)} (hr : Rep s.r l) (k : K) (v : V) :
    Sat (insert E k v) s (fun _ s' => s'.r.len ≤ s'.r.cap ∧ s'.r.cap = s.r.cap)
      (fun _ s' => s'.r.len ≤ s'.r.cap ∧ s'.r.cap = s.r.cap) := by
  refine Sat.mono (insert_sat E hr k v) ?_ ?_
  · intro a s' ⟨hc, h⟩
    rcases h with ⟨i, hi, _, hrep, _⟩ | ⟨_, _, hrep, _⟩
    · exact ⟨hrep.safe.1, hc⟩
    · exact ⟨hrep.safe.1, hc⟩
  · intro c s' ⟨hc, h⟩
    rcases h with ⟨_, l', hrep, _⟩ | ⟨hs, _⟩
    · exact ⟨hrep.safe.1, hc⟩
    · rw [hs]; exact ⟨hr.safe.1, rfl⟩

/-! ### the other safe insertion entry points (proved in `Props/C11.lean`, `Props/C16.lean`) -/

/-- `entry(k).or_insert(d)` with an absent key on a full map: the overflow panic of both profiles,
    container unchanged, the default and the key dropped once each. -/
theorem entry_or_insert_full_absent (hE : E.Pure) {s : St K V Q} {l : List (K × V)} (hr : Rep s.r l)
    (hb : Benign s.w) (k : K) (d : V) (hf : findKey E l (.key k) = none) (hfull : l.length = s.r.cap) :
    ∃ c s', (entry E k >>= or_insert E d) s = .panic c s' ∧ s'.r = s.r ∧
      OverflowPanic s c ∧ WRel s.w s'.w (dropVTr E d ++ [.dropK k]) :=
  C11.entry_or_insert_full E hE hr hb k d hf hfull

/-- `or_insert_with` / `or_insert_with_key` / `or_default` (tags 2, 3, 4): the closure runs once,
    then the same clean rejection. -/
theorem entry_or_insert_with_full_absent (hE : E.Pure) {s : St K V Q} {l : List (K × V)} (hr : Rep s.r l)
    (hb : Benign s.w) (k : K) (tag : Nat) (mk : V) (hf : findKey E l (.key k) = none)
    (hfull : l.length = s.r.cap) :
    ∃ c s', (entry E k >>= or_insert_with E tag mk) s = .panic c s' ∧ s'.r = s.r ∧
      OverflowPanic s c ∧ WRel s.w s'.w (.call tag :: (dropVTr E mk ++ [.dropK k])) :=
  C11.entry_or_insert_with_full E hE hr hb k tag mk hf hfull

/-- `collect` / `From<[_; N]>` / `Extend`: the first item whose key is new when the container is
    full raises the overflow panic; the items before it are in (`foldInsert`), nothing after it is
    pulled (`extend_overflow` states the exact trace). -/
theorem extend_overflows_at_first_surplus (hE : E.Pure) (pulls : Bool) (xs : List (K × V)) {s : St K V Q}
    {l0 : List (K × V)} (hr : Rep s.r l0) (hw : Benign s.w) {m : Nat}
    (hov : FromIter.overflowAt E s.r.cap l0 xs = some m) :
    ∃ c s', extendLoop E pulls xs s = .panic c s' ∧ OverflowPanic s c ∧
      Rep s'.r (FromIter.foldInsert E l0 (xs.take m)) ∧ s'.r.cap = s.r.cap := by
  obtain ⟨c, s', _, _, h1, h2, _, h4, h5, _⟩ := C16.extend_overflow E hE pulls xs hr hw hov
  exact ⟨c, s', h1, h2, h4, h5⟩

/-- `Set::insert` / `Set::replace` are `insert` / `insert_key_value` at `V = ()`. -/
theorem set_insert_full_absent (F : Env K Unit Q) (hF : F.Pure) {s : St K Unit Q} {l : List (K × Unit)}
    (hr : Rep s.r l) (hb : Benign s.w) (hfull : l.length = s.r.cap) (k : K)
    (habs : findKey F l (.key k) = none) :
    (∃ c s', insert F k () s = .panic c s' ∧ s'.r = s.r ∧ OverflowPanic s c) ∧
    (∃ c s', insert_key_value F k () s = .panic c s' ∧ s'.r = s.r ∧ OverflowPanic s c) := by
  obtain ⟨c, s', h1, h2, h3, _⟩ := insert_full_absent F hF hr hb hfull k () habs
  obtain ⟨c2, s2, g1, g2, g3, _⟩ := insert_key_value_full_absent F hF hr hb hfull k () habs
  exact ⟨⟨c, s', h1, h2, h3⟩, ⟨c2, s2, g1, g2, g3⟩⟩

/-! Non-vacuity: a concrete full map with an absent key meets the hypotheses (tests, not proofs). -/

def exEnv : Env Nat Nat Nat :=
  { eqK := fun _ a b => a == b, eqQ := fun _ a b => a == b, eqV := fun a b => a == b, borrow := id,
    clK := fun _ k => k, clV := fun _ v => v }

def exRaw : Raw Nat Nat :=
  { cap := 2, len := 2, slots := fun i => if i = 0 then some (7, 70) else if i = 1 then some (8, 80) else none }

example : exEnv.Pure := ⟨fun _ _ _ => rfl, fun _ _ _ => rfl⟩
example : Rep exRaw [(7, 70), (8, 80)] :=
  ⟨rfl, by decide, fun i hi => by
    have : i = 0 ∨ i = 1 := by simp at hi; omega
    rcases this with rfl | rfl <;> rfl⟩
example : findKey exEnv [(7, 70), (8, 80)] (.key 9) = none := by decide
example : findKey exEnv [(7, 70), (8, 80)] (.key 8) = some 1 := by decide

end Micromap.Props.C03
