/-
C12 — Stored-key identity: `insert` keeps the old key, `insert_key_value` / `replace` swap it.

Keys are arbitrary objects and `==` is whatever `E.eqK` says: equal keys may be distinguishable
(`findKey … = some i` only says that the stored key at `i` compares equal to the supplied one).
`Rep s.r l` exposes the stored key *objects* `l[i].1`, so "which object is stored afterwards" is
a statement about the list.  The capacity and fill level are arbitrary: the full-container
replace-only path (`insert_ii_for_full`, behind `checked_insert`) is included.
-/
import Micromap.Proofs.Inv
import Micromap.Props.C11

namespace Micromap.Props.C12
open Micromap Micromap.Refine
variable {K V Q : Type} (E : Env K V Q)

/-- `insert` with a key equal to a stored one: the stored key object stays (`l[i].1`), only the
    value is replaced, the old value comes back, and the supplied key object is destroyed —
    the one and only effect of the call is `drop(k)`. -/
theorem insert_keeps_stored_key (hE : E.Pure) {s : St K V Q} {l : List (K × V)} (hr : Rep s.r l)
    (hb : Benign s.w) (k : K) (v : V) {i} (hpres : findKey E l (.key k) = some i) :
    ∃ (hi : i < l.length) (s' : St K V Q), insert E k v s = .ok (some l[i].2) s' ∧
      Rep s'.r (l.set i (l[i].1, v)) ∧ WRel s.w s'.w [.dropK k] := by
  rcases outcome (insert_sat E hr k v) with ⟨a, s', hm, _, hq⟩ | ⟨c, s', _, _, hq⟩
  · rcases hq with ⟨j, hj, ha, hrep, hw, hfj⟩ | ⟨_, _, _, _, hfn⟩
    · have : j = i := by have := hfj hE; rw [hpres] at this; exact (Option.some.inj this).symm
      subst this; subst ha
      exact ⟨hj, s', hm, hrep, hw⟩
    · rw [hpres] at hfn; exact absurd (hfn hE) (by simp)
  · rcases hq with ⟨hi', _⟩ | ⟨_, _, _, hfn, _⟩
    · exact (no_inj hb hi').elim
    · rw [hpres] at hfn; exact absurd (hfn hE) (by simp)

/-- `checked_insert` behaves the same at every fill level, in particular on a FULL map, where it
    goes through the replace-only path. -/
theorem checked_insert_keeps_stored_key (hE : E.Pure) {s : St K V Q} {l : List (K × V)} (hr : Rep s.r l)
    (hb : Benign s.w) (k : K) (v : V) {i} (hpres : findKey E l (.key k) = some i) :
    ∃ (hi : i < l.length) (s' : St K V Q), checked_insert E k v s = .ok (some (some l[i].2)) s' ∧
      Rep s'.r (l.set i (l[i].1, v)) ∧ WRel s.w s'.w [.dropK k] := by
  rcases outcome (checked_insert_sat E hr k v) with ⟨a, s', hm, _, hq⟩ | ⟨c, s', _, _, hi', _⟩
  · rcases hq with ⟨j, hj, ha, hrep, hw, hfj⟩ | ⟨_, _, _, _, hfn⟩ | ⟨_, _, _, _, hfn⟩
    · have : j = i := by have := hfj hE; rw [hpres] at this; exact (Option.some.inj this).symm
      subst this; subst ha
      exact ⟨hj, s', hm, hrep, hw⟩
    · rw [hpres] at hfn; exact absurd (hfn hE) (by simp)
    · rw [hpres] at hfn; exact absurd (hfn hE) (by simp)
  · exact (no_inj hb hi').elim

/-- `insert_key_value` (and `Set::replace`, which is this function at `V = ()`): the SUPPLIED key
    object is stored, the old key object and old value are handed back, nothing is destroyed. -/
theorem insert_key_value_swaps_key (hE : E.Pure) {s : St K V Q} {l : List (K × V)} (hr : Rep s.r l)
    (hb : Benign s.w) (k : K) (v : V) {i} (hpres : findKey E l (.key k) = some i) :
    ∃ (hi : i < l.length) (s' : St K V Q), insert_key_value E k v s = .ok (some l[i]) s' ∧
      Rep s'.r (l.set i (k, v)) ∧ WRel s.w s'.w [] := by
  rcases outcome (insert_key_value_sat E hr k v) with ⟨a, s', hm, _, hw, hq⟩ | ⟨c, s', _, _, hq⟩
  · rcases hq with ⟨j, hj, ha, hrep, hfj⟩ | ⟨_, _, _, hfn⟩
    · have : j = i := by have := hfj hE; rw [hpres] at this; exact (Option.some.inj this).symm
      subst this; subst ha
      exact ⟨hj, s', hm, hrep, hw⟩
    · rw [hpres] at hfn; exact absurd (hfn hE) (by simp)
  · rcases hq with hi' | ⟨_, _, hfn, _⟩
    · exact (no_inj hb hi').elim
    · rw [hpres] at hfn; exact absurd (hfn hE) (by simp)

/-- the replace-only path used on a full container honours the flag in both directions. -/
theorem insert_ii_for_full_identity (hE : E.Pure) {s : St K V Q} {l : List (K × V)} (hr : Rep s.r l)
    (hb : Benign s.w) (k : K) (v : V) (upd : Bool) {i} (hpres : findKey E l (.key k) = some i) :
    ∃ (hi : i < l.length) (s' : St K V Q),
      insert_ii_for_full E k v upd s = .ok (some (i, if upd then l[i] else (k, l[i].2))) s' ∧
      Rep s'.r (l.set i (if upd then (k, v) else (l[i].1, v))) := by
  rcases outcome (insert_ii_for_full_sat E hr k v upd) with ⟨a, s', hm, _, hq⟩ | ⟨c, s', _, _, hi'⟩
  · rcases hq with ⟨j, hj, ha, hrep, _, hfj⟩ | ⟨_, _, _, hfn⟩
    · have : j = i := by have := hfj hE; rw [hpres] at this; exact (Option.some.inj this).symm
      subst this; subst ha
      exact ⟨hj, s', hm, hrep⟩
    · rw [hpres] at hfn; exact absurd (hfn hE) (by simp)
  · exact (no_inj hb hi').elim

/-- `get` / `get_key_value` / `Set::get` return the stored pair itself (object identity, not
    merely an equal key), together with its slot. -/
theorem get_exposes_stored (hE : E.Pure) {s : St K V Q} {l : List (K × V)} (hr : Rep s.r l)
    (hb : Benign s.w) (pr : Probe K Q) {i} (hpres : findKey E l pr = some i) :
    ∃ (hi : i < l.length) (s' : St K V Q), get E pr s = .ok (some (i, l[i])) s' ∧ s'.r = s.r := by
  rcases outcome (get_sat E hr pr) with ⟨o, s', hm, hs, _, ho, hfo⟩ | ⟨c, s', _, _, hi'⟩
  · have hfo := hfo hE
    rw [hpres] at hfo
    cases o with
    | none => simp at hfo
    | some x =>
      obtain ⟨j, p⟩ := x
      simp at hfo; subst hfo
      obtain ⟨hj, hp⟩ := ho j p rfl
      subst hp
      exact ⟨hj, s', hm, hs⟩
  · exact (no_inj hb hi').elim

/-- `remove_entry` / `Set::take` hand back the stored key object and value. -/
theorem remove_entry_exposes_stored (hE : E.Pure) {s : St K V Q} {l : List (K × V)} (hr : Rep s.r l)
    (hb : Benign s.w) (pr : Probe K Q) {i} (hpres : findKey E l pr = some i) :
    ∃ (hi : i < l.length) (s' : St K V Q), remove_entry E pr s = .ok (some l[i]) s' ∧
      Rep s'.r (Dict.swapRemove l i) ∧ WRel s.w s'.w [] := by
  rcases outcome (remove_entry_sat E hr pr) with ⟨o, s', hm, _, hw, ho, hfo⟩ | ⟨c, s', _, _, hi'⟩
  · rcases ho with ⟨hon, _⟩ | ⟨j, hj, hoj, hrep, hfj⟩
    · have := hfo hE; rw [hon, hpres] at this; simp at this
    · have : j = i := by have := hfj hE; rw [hpres] at this; exact (Option.some.inj this).symm
      subst this; subst hoj
      exact ⟨hj, s', hm, hrep, hw⟩
  · exact (no_inj hb hi').elim

/-- the entry API with a key equal to a stored one: `entry(k)` discards the supplied key object
    (`drop(k)` is its only effect) and leaves the container — hence the stored key — untouched;
    `or_insert` then returns the slot of the stored entry. -/
theorem entry_keeps_stored_key (hE : E.Pure) {s : St K V Q} {l : List (K × V)} (hr : Rep s.r l)
    (hb : Benign s.w) (k : K) (d : V) {i} (hf : findKey E l (.key k) = some i) :
    (∃ s', entry E k s = .ok (.occ i) s' ∧ s'.r = s.r ∧ WRel s.w s'.w [.dropK k]) ∧
    (∃ s', (entry E k >>= or_insert E d) s = .ok i s' ∧ s'.r = s.r ∧
      WRel s.w s'.w (.dropK k :: dropVTr E d)) :=
  ⟨C11.entry_occupied E hE hr hb k hf, C11.entry_or_insert_occupied E hE hr hb k d hf⟩

/-- iteration (`iter`, `keys`, `Set::iter`, `Debug`, …) reads the stored objects: the entries of
    a container represented by `l` are exactly `l`. -/
theorem iteration_exposes_stored {r : Raw K V} {l : List (K × V)} (hr : Rep r l) (s : St K V Q) :
    entriesOf r s = .ok l s := entriesOf_ok hr s

/-- Sets are maps with `V = ()`: `Set::insert` of a present element keeps the stored element and
    reports `false` (the `Option` is `Some`); `Set::replace` stores the supplied element and returns
    the old one. -/
theorem set_insert_keeps_stored (F : Env K Unit Q) (hF : F.Pure) {s : St K Unit Q} {l : List (K × Unit)}
    (hr : Rep s.r l) (hb : Benign s.w) (k : K) {i} (hpres : findKey F l (.key k) = some i) :
    ∃ (s' : St K Unit Q), insert F k () s = .ok (some ()) s' ∧ Rep s'.r l ∧ WRel s.w s'.w [.dropK k] := by
  obtain ⟨hi, s', hm, hrep, hw⟩ := insert_keeps_stored_key F hF hr hb k () hpres
  refine ⟨s', hm, ?_, hw⟩
  have : l.set i (l[i].1, ()) = l := by
    apply List.ext_getElem (by simp)
    intro j h1 h2
    by_cases hji : j = i
    · subst hji; simp
    · simp [List.getElem_set_ne (Ne.symm hji)]
  rw [this] at hrep; exact hrep

theorem set_replace_swaps (F : Env K Unit Q) (hF : F.Pure) {s : St K Unit Q} {l : List (K × Unit)}
    (hr : Rep s.r l) (hb : Benign s.w) (k : K) {i} (hpres : findKey F l (.key k) = some i) :
    ∃ (hi : i < l.length) (s' : St K Unit Q), insert_key_value F k () s = .ok (some l[i]) s' ∧
      Rep s'.r (l.set i (k, ())) ∧ WRel s.w s'.w [] :=
  insert_key_value_swaps_key F hF hr hb k () hpres

/-! ### non-vacuity (tests): equal but distinguishable keys -/

def exEnv : Env (Nat × Nat) Nat Nat :=
  { eqK := fun _ a b => a.1 == b.1, eqQ := fun _ a b => a == b, eqV := fun a b => a == b,
    borrow := fun a => a.1, clK := fun n k => (k.1, n), clV := fun _ v => v }

example : exEnv.Pure := ⟨fun _ _ _ => rfl, fun _ _ _ => rfl⟩
/-- key `(7, 99)` equals the stored `(7, 1)` (same class) but is a different object. -/
example : findKey exEnv [((7, 1), 70), ((8, 2), 80)] (.key (7, 99)) = some 0 := by decide
example : ((7, 99) : Nat × Nat) ≠ (7, 1) := by decide

end Micromap.Props.C12
