/-
C16 — Bulk construction equals inserting the items one by one in order.

`extendLoop E pulls xs` is the model of the loop `for (k, v) in iter { m.insert(k, v); }`
behind `FromIterator`, `From<[_; N]>` and `Extend`; `from_iter E pulls xs` is the same loop on a
fresh local `Raw.new cap` that is dropped if the loop unwinds.  With `pulls = true` the source is
an instrumented iterator whose every `next` is a user callback (event `pull`); with
`pulls = false` it is std's array iterator.  The list-level reference is
`foldInsert E l xs = xs.foldl (fun acc (k, v) => insertL E acc k v) l` — inserting one at a time.
`Set` versions are the `V = ()` instance (`E.toUnit`, items `xs.map fun k => (k, ())`).
-/
import Micromap.Proofs.FromIter
import Micromap.Model.Step
import Micromap.Proofs.ListSysRefine

namespace Micromap.Props.C16
open Micromap SetAlg EqClone FromIter
variable {K V Q : Type} (E : Env K V Q)

/-- In a world where no injected fault is armed an operation cannot unwind by injection. -/
theorem no_inj {s s' : St K V Q} {c} (hb : Benign s.w) (h : InjPanic s s' c) : False := h.2.1 hb.1

/-! ### the result is the fold of single inserts -/

/-- **`extend` = inserting one by one.**  Benign world, time-independent `==`, container
    holding `l0`, and no item overflows (`overflowAt … = none`: each item finds its key present
    or the container not full — see `overflowAt_none_iff`).  Then `extend` returns, and the
    container holds EXACTLY `foldInsert E l0 xs`: the list obtained by inserting the items one at
    a time in order — same slot order, same stored key objects (first key object kept, last
    value wins: `first_key_kept`, `last_value_wins`).  The effect trace is `extendTrace`:
    per item one `pull` (instrumented source) followed by that `insert`'s own effects (for a
    repeated key: drop of the supplied key, then of the displaced value), and one final `pull`. -/
theorem extend_eq_fold (hE : E.Pure) (pulls : Bool) (xs : List (K × V)) {s : St K V Q}
    {l0 : List (K × V)} (hr : Rep s.r l0) (hw : Benign s.w)
    (hfit : overflowAt E s.r.cap l0 xs = none) :
    ∃ s', extendLoop E pulls xs s = .ok () s' ∧ Rep s'.r (foldInsert E l0 xs) ∧
      s'.r.cap = s.r.cap ∧ WRel s.w s'.w (extendTrace E pulls l0 xs) := by
  obtain ⟨_, s', h1, h2, l', tr, h3, h4, h5⟩ := (extendLoop_sat E pulls xs s l0 hr).must_return (by
    intro c s' ⟨_, _, _, hc⟩
    rcases hc with hi | ⟨_, hov⟩
    · exact no_inj hw hi
    · obtain ⟨m, _, _, hm, _⟩ := hov hE
      rw [hfit] at hm; cases hm)
  obtain ⟨e1, e2, _⟩ := h5 hE
  subst e1 e2
  exact ⟨s', h1, h3, h2, h4⟩

/-- every single `insert` of the fold is the model's `insert`: one step of `foldInsert` is the
    list the model function `insert` leaves behind (so the fold really is "inserting the items
    one at a time"). -/
theorem insertL_is_insert (hE : E.Pure) {s : St K V Q} {l : List (K × V)} (hr : Rep s.r l)
    (hw : Benign s.w) (k : K) (v : V)
    (hfit : ¬ (findKey E l (.key k) = none ∧ s.r.cap ≤ l.length)) :
    ∃ o s', insert E k v s = .ok o s' ∧ Rep s'.r (insertL E l k v) := by
  obtain ⟨o, s', h1, _, h2⟩ := (insert_sat E hr k v).must_return (by
    intro c s' ⟨_, hc⟩
    rcases hc with ⟨hi, _⟩ | ⟨_, _, hfull, hn, _⟩
    · exact no_inj hw hi
    · exact hfit ⟨hn hE, by omega⟩)
  rcases h2 with ⟨i, hi, _, hrep, _, hf⟩ | ⟨_, _, hrep, _, hf⟩
  · exact ⟨o, s', h1, by rw [insertL_found E v (hf hE) hi]; exact hrep⟩
  · exact ⟨o, s', h1, by rw [insertL_absent E v (hf hE)]; exact hrep⟩

/-- **`from_iter` / `collect` / `From<[_; N]>` = inserting one by one into `new()`.** -/
theorem from_iter_eq_fold (hE : E.Pure) (pulls : Bool) (xs : List (K × V)) (cap : Nat)
    {s : St K V Q} (hs : s.r = Raw.new cap) (hw : Benign s.w)
    (hfit : overflowAt E cap [] xs = none) :
    ∃ s', from_iter E pulls xs s = .ok () s' ∧ Rep s'.r (foldInsert E [] xs) ∧
      s'.r.cap = cap ∧ WRel s.w s'.w (extendTrace E pulls [] xs) := by
  have hr : Rep s.r ([] : List (K × V)) := hs ▸ Rep.new cap
  have hcap : s.r.cap = cap := by rw [hs]; rfl
  obtain ⟨_, s', h1, h2, l', tr, h3, h4, h5⟩ := (from_iter_sat E pulls xs hr).must_return (by
    intro c s' ⟨_, _, _, _, _, hc⟩
    rcases hc with hi | ⟨_, hov⟩
    · exact no_inj hw hi
    · obtain ⟨m, _, _, hm, _⟩ := hov hE
      rw [hcap, hfit] at hm; cases hm)
  obtain ⟨e1, e2, _⟩ := h5 hE
  subst e1 e2
  exact ⟨s', h1, h3, h2.trans hcap, h4⟩

/-- **first key object kept.**  The key objects stored after the fold are, in slot order, the
    initial ones followed by the first occurrence of each new key class among the items
    (`firstKeys`: a key object is stored only if no equal key is stored already). -/
theorem first_key_kept (l xs : List (K × V)) :
    (foldInsert E l xs).map (·.1) = firstKeys E.keq (l.map (·.1)) (xs.map (·.1)) :=
  foldInsert_keys E xs l

/-- **last value wins.**  After the fold every key maps to the value of the last item with an
    equal key, or keeps its old value if no item has an equal key. -/
theorem last_value_wins (hE : E.Lawful) (l xs : List (K × V)) (hn : NodupKeys E.keq l) (q : K) :
    lookupL E.keq (foldInsert E l xs) q =
      match xs.reverse.find? (fun p => E.keq p.1 q) with
      | some p => some p.2
      | none => lookupL E.keq l q :=
  lookupL_foldInsert hE xs l hn q

/-- the container invariant (unique keys) is maintained by the fold. -/
theorem fold_nodup (hE : E.Lawful) (l xs : List (K × V)) (hn : NodupKeys E.keq l) :
    NodupKeys E.keq (foldInsert E l xs) := foldInsert_nodup hE xs l hn

/-! ### the source is consumed exactly once, front to back -/

/-- a complete run over an instrumented source calls `next` exactly `|xs| + 1` times (once per
    item, in order, plus the final call that returns `None`); the trace interleaves them with
    the per-item effects of `insert` as laid out by `itemsTrace`. -/
theorem pulls_complete (l xs : List (K × V)) :
    countPulls (extendTrace E true l xs) = xs.length + 1 ∧
    countPulls (extendTrace E false l xs) = 0 := by
  rw [countPulls_extendTrace, countPulls_extendTrace]; simp

/-- the layout of the trace, item by item: `pull`, then the effects of inserting that item into
    what the earlier items built. -/
theorem trace_layout (pulls : Bool) (l : List (K × V)) (k : K) (v : V) (rest : List (K × V)) :
    extendTrace E pulls l ((k, v) :: rest) =
      pullTr pulls ++ (itemTrace E l k v ++ extendTrace E pulls (insertL E l k v) rest) := by
  simp [extendTrace, itemsTrace, List.append_assoc]

/-! ### repeats do not consume capacity -/

/-- the number of entries after the fold is the number of distinct keys: the length of any
    duplicate-free system `d` of representatives of the keys involved. -/
theorem len_eq_distinct (hE : E.Lawful) (xs : List (K × V)) (d : List K) (hdn : NodupB E.keq d)
    (hd1 : ∀ x, x ∈ xs.map (·.1) → memB E.keq x d = true)
    (hd2 : ∀ y, y ∈ d → memB E.keq y (xs.map (·.1)) = true) :
    (foldInsert E [] xs).length = d.length :=
  foldInsert_length_eq_distinct hE [] xs (by simp [NodupKeys, NodupB]) d hdn
    (fun x hx => hd1 x (by simpa using hx)) (fun y hy => by simpa using hd2 y hy)

/-- **at most `cap` distinct keys always fit**, however long the sequence and however many
    repeats: no item overflows. -/
theorem fits_of_distinct_le_cap (hE : E.Lawful) (cap : Nat) (xs : List (K × V)) (d : List K)
    (hd : ∀ x, x ∈ xs.map (·.1) → memB E.keq x d = true) (hdc : d.length ≤ cap) :
    overflowAt E cap [] xs = none :=
  overflowAt_none_of_cover hE cap d hdc xs [] (by simp [NodupKeys, NodupB])
    (fun x hx => hd x (by simpa using hx))

/-- hence `from_iter` of a sequence with at most `cap` distinct keys succeeds and yields the
    fold, whose length is at most the number of distinct keys. -/
theorem from_iter_succeeds (hE : E.Lawful) (pulls : Bool) (xs : List (K × V)) (cap : Nat)
    (d : List K) (hd : ∀ x, x ∈ xs.map (·.1) → memB E.keq x d = true) (hdc : d.length ≤ cap)
    {s : St K V Q} (hs : s.r = Raw.new cap) (hw : Benign s.w) :
    ∃ s', from_iter E pulls xs s = .ok () s' ∧ Rep s'.r (foldInsert E [] xs) ∧
      (foldInsert E [] xs).length ≤ d.length ∧ WRel s.w s'.w (extendTrace E pulls [] xs) := by
  obtain ⟨s', h1, h2, _, h4⟩ := from_iter_eq_fold E hE.toPure pulls xs cap hs hw
    (fits_of_distinct_le_cap E hE cap xs d hd hdc)
  refine ⟨s', h1, h2, ?_, h4⟩
  exact foldInsert_length_le_cover hE [] xs (by simp [NodupKeys, NodupB]) d
    (fun x hx => hd x (by simpa using hx))

/-- the same for `extend` on a container that already holds `l0`. -/
theorem extend_fits_of_distinct_le_cap (hE : E.Lawful) (cap : Nat) (l0 xs : List (K × V))
    (hn : NodupKeys E.keq l0) (d : List K)
    (hd : ∀ x, x ∈ l0.map (·.1) ∨ x ∈ xs.map (·.1) → memB E.keq x d = true) (hdc : d.length ≤ cap) :
    overflowAt E cap l0 xs = none :=
  overflowAt_none_of_cover hE cap d hdc xs l0 hn hd

/-! ### overflow: more than `cap` distinct keys -/

/-- **overflow.**  If some item overflows (`overflowAt = some m`: the key of item `m` is absent
    from the full container built from the items before it), `extend` panics with the overflow
    class of the build profile at exactly that first surplus item: the container holds the
    fold of the items before it, the surplus item was pulled and its value and key were dropped,
    the rest of the source was dropped without being pulled (`m + 1` calls of `next` in all,
    none after the panic). -/
theorem extend_overflow (hE : E.Pure) (pulls : Bool) (xs : List (K × V)) {s : St K V Q}
    {l0 : List (K × V)} (hr : Rep s.r l0) (hw : Benign s.w) {m : Nat}
    (hov : overflowAt E s.r.cap l0 xs = some m) :
    ∃ c s' k v, extendLoop E pulls xs s = .panic c s' ∧ OverflowPanic s c ∧ xs[m]? = some (k, v) ∧
      Rep s'.r (foldInsert E l0 (xs.take m)) ∧ s'.r.cap = s.r.cap ∧
      WRel s.w s'.w (itemsTrace E pulls l0 (xs.take m) ++
        (pullTr pulls ++ (dropVTr E v ++ (.dropK k :: dropTrace E (xs.drop (m + 1)))))) ∧
      countPulls (itemsTrace E pulls l0 (xs.take m) ++
        (pullTr pulls ++ (dropVTr E v ++ (.dropK k :: dropTrace E (xs.drop (m + 1)))))) =
        (if pulls then m + 1 else 0) := by
  obtain ⟨c, s', h1, h2, _, _, hc⟩ := (extendLoop_sat E pulls xs s l0 hr).must_panic (by
    intro _ s' ⟨_, _, _, _, _, h5⟩
    obtain ⟨_, _, e3⟩ := h5 hE
    rw [hov] at e3; cases e3)
  rcases hc with hi | ⟨ho, hov'⟩
  · exact (no_inj hw hi).elim
  · obtain ⟨m', k, v, f1, f2, f3, f4⟩ := hov' hE
    rw [hov] at f1
    cases f1
    have hm : m < xs.length := (List.getElem?_eq_some_iff.mp f2).1
    exact ⟨c, s', k, v, h1, ho, f2, f3, h2, f4, countPulls_overflow E pulls l0 xs m hm k v⟩

/-- `from_iter` with a surplus item: it panics with the overflow class, and the partially built
    local (the fold of the items before the surplus one) has been dropped — each of its entries
    exactly once, after the effects of the loop. -/
theorem from_iter_overflow (hE : E.Pure) (pulls : Bool) (xs : List (K × V)) (cap : Nat)
    {s : St K V Q} (hs : s.r = Raw.new cap) (hw : Benign s.w) {m : Nat}
    (hov : overflowAt E cap [] xs = some m) :
    ∃ c s' k v, from_iter E pulls xs s = .panic c s' ∧ OverflowPanic s c ∧ xs[m]? = some (k, v) ∧
      Dropped s'.r (foldInsert E [] (xs.take m)) ∧
      WRel s.w s'.w ((itemsTrace E pulls [] (xs.take m) ++
        (pullTr pulls ++ (dropVTr E v ++ (.dropK k :: dropTrace E (xs.drop (m + 1)))))) ++
        dropTrace E (foldInsert E [] (xs.take m))) := by
  have hr : Rep s.r ([] : List (K × V)) := hs ▸ Rep.new cap
  have hcap : s.r.cap = cap := by rw [hs]; rfl
  obtain ⟨c, s', h1, _, lq, tr, h3, h4, hc⟩ := (from_iter_sat E pulls xs hr).must_panic (by
    intro _ s' ⟨_, _, _, _, _, h5⟩
    obtain ⟨_, _, e3⟩ := h5 hE
    rw [hcap, hov] at e3; cases e3)
  rcases hc with hi | ⟨ho, hov'⟩
  · exact (no_inj hw hi).elim
  · obtain ⟨m', k, v, f1, f2, f3, f4⟩ := hov' hE
    rw [hcap, hov] at f1
    cases f1
    subst f3 f4
    exact ⟨c, s', k, v, h1, ho, f2, h3, h4⟩

/-- **the panic happens exactly when more than `cap` distinct keys are supplied.**
    (⇐) `fits_of_distinct_le_cap`; (⇒) if the items contain more than `cap` pairwise unequal
    keys, some item overflows. -/
theorem overflows_of_many_distinct (hE : E.Lawful) (cap : Nat) (xs : List (K × V)) (d : List K)
    (hdn : NodupB E.keq d) (hd : ∀ y, y ∈ d → memB E.keq y (xs.map (·.1)) = true)
    (hbig : cap < d.length) : ∃ m, overflowAt E cap [] xs = some m := by
  have := overflowAt_some_of_distinct hE cap [] xs (Nat.zero_le _) d hdn
    (fun y hy => by simpa using hd y hy) hbig
  cases h : overflowAt E cap [] xs with
  | none => exact absurd h this
  | some m => exact ⟨m, rfl⟩

/-- what "item `m` overflows" means, spelled out: its key is absent from the full container
    built from the items before it, and none of those overflowed. -/
theorem overflow_meaning (cap : Nat) (l xs : List (K × V)) (m : Nat)
    (h : overflowAt E cap l xs = some m) :
    ∃ k v, xs[m]? = some (k, v) ∧ findKey E (foldInsert E l (xs.take m)) (.key k) = none ∧
      cap ≤ (foldInsert E l (xs.take m)).length ∧ overflowAt E cap l (xs.take m) = none :=
  overflowAt_some_spec E cap xs l m h

/-- what "no item overflows" means: every prefix fits. -/
theorem fit_meaning (cap : Nat) (l xs : List (K × V)) :
    overflowAt E cap l xs = none ↔
      ∀ m k v, xs[m]? = some (k, v) →
        ¬ (findKey E (foldInsert E l (xs.take m)) (.key k) = none ∧
            cap ≤ (foldInsert E l (xs.take m)).length) :=
  overflowAt_none_iff E cap xs l

/-! ### exception safety: any oracle, any injection point, either profile -/

/-- `extend` on a well-formed container never reaches `ub`; whether it returns or unwinds (by an
    injected panic of a user `==`, `Drop` or `next`, or by the overflow check) the container is
    well-formed and its capacity unchanged.  On unwinding the rest of the source has been
    dropped by `extendLoop` itself (`dropList`). -/
theorem extend_safe (pulls : Bool) (xs : List (K × V)) {s : St K V Q} (hs : Safe s.r) :
    Sat (extendLoop E pulls xs) s (fun _ s' => Safe s'.r ∧ s'.r.cap = s.r.cap)
      (fun c s' => Safe s'.r ∧ s'.r.cap = s.r.cap ∧ (InjPanic s s' c ∨ OverflowPanic s c)) := by
  refine Sat.mono (extendLoop_sat E pulls xs s _ hs.rep) ?_ ?_
  · intro _ s' ⟨h1, l', _, h2, _⟩; exact ⟨h2.safe, h1⟩
  · intro c s' ⟨h1, ⟨l', h2⟩, _, hc⟩
    exact ⟨h2.safe, h1, hc.imp id (fun h => h.1)⟩

/-- `from_iter` never reaches `ub`; it returns a well-formed container of the requested
    capacity, or unwinds (injected panic or overflow) after dropping the partially built local:
    every slot that was live in it (`lq`) is dead, and the drops of `lq` end the trace. -/
theorem from_iter_safe (pulls : Bool) (xs : List (K × V)) (cap : Nat) {s : St K V Q}
    (hs : s.r = Raw.new cap) :
    Sat (from_iter E pulls xs) s (fun _ s' => Safe s'.r ∧ s'.r.cap = cap)
      (fun c s' => s'.r.cap = cap ∧ (InjPanic s s' c ∨ OverflowPanic s c) ∧
        ∃ lq tr, Dropped s'.r lq ∧ WRel s.w s'.w (tr ++ dropTrace E lq)) := by
  have hr : Rep s.r ([] : List (K × V)) := hs ▸ Rep.new cap
  have hcap : s.r.cap = cap := by rw [hs]; rfl
  refine Sat.mono (from_iter_sat E pulls xs hr) ?_ ?_
  · intro _ s' ⟨h1, l', _, h2, _⟩; exact ⟨h2.safe, h1.trans hcap⟩
  · intro c s' ⟨h1, lq, tr, h2, h3, hc⟩
    exact ⟨h1.trans hcap, hc.imp id (fun h => h.1), lq, tr, h2, h3⟩

/-! ### sets: `V = ()` -/

/-- the set view of an environment is lawful when the environment is. -/
theorem toUnit_lawful {E : Env K V Q} (hE : E.Lawful) : E.toUnit.Lawful :=
  { k := hE.k, q := hE.q, refl := hE.refl, symm := hE.symm, trans := hE.trans, borrow := hE.borrow,
    qrefl := hE.qrefl, qsymm := hE.qsymm, qtrans := hE.qtrans }

/-- **`Set::from_iter` / `From<[T; N]>` / `Extend<T>`**: the same loop at `V = ()` over the items
    `(k, ())`.  The resulting set holds the first occurrence of every element class, in order of
    first appearance; a repeated element is dropped (no value effects exist for `()`). -/
theorem set_from_iter_eq_fold (hE : E.Pure) (pulls : Bool) (ks : List K) (cap : Nat)
    {s : St K Unit Q} (hs : s.r = Raw.new cap) (hw : Benign s.w)
    (hfit : overflowAt E.toUnit cap [] (ks.map fun k => (k, ())) = none) :
    ∃ s', from_iter E.toUnit pulls (ks.map fun k => (k, ())) s = .ok () s' ∧
      Rep s'.r (foldInsert E.toUnit [] (ks.map fun k => (k, ()))) ∧ s'.r.cap = cap ∧
      (foldInsert E.toUnit [] (ks.map fun k => (k, ()))).map (·.1) = firstKeys E.keq [] ks ∧
      WRel s.w s'.w (extendTrace E.toUnit pulls [] (ks.map fun k => (k, ()))) := by
  have hEu : E.toUnit.Pure := ⟨hE.k, hE.q⟩
  obtain ⟨s', h1, h2, h3, h4⟩ := from_iter_eq_fold E.toUnit hEu pulls _ cap hs hw hfit
  refine ⟨s', h1, h2, h3, ?_, h4⟩
  have := foldInsert_keys E.toUnit (ks.map fun k => (k, ())) []
  rw [this, List.map_map]
  have hid : ks.map ((fun x : K × Unit => x.1) ∘ fun k => (k, ())) = ks := by
    have : ((fun x : K × Unit => x.1) ∘ fun k => (k, ())) = id := rfl
    rw [this, List.map_id]
  rw [hid]
  rfl

/-- sets: `extend` on an existing set. -/
theorem set_extend_eq_fold (hE : E.Pure) (pulls : Bool) (ks : List K) {s : St K Unit Q}
    {l0 : List (K × Unit)} (hr : Rep s.r l0) (hw : Benign s.w)
    (hfit : overflowAt E.toUnit s.r.cap l0 (ks.map fun k => (k, ())) = none) :
    ∃ s', extendLoop E.toUnit pulls (ks.map fun k => (k, ())) s = .ok () s' ∧
      Rep s'.r (foldInsert E.toUnit l0 (ks.map fun k => (k, ()))) ∧ s'.r.cap = s.r.cap :=  by
  have hEu : E.toUnit.Pure := ⟨hE.k, hE.q⟩
  obtain ⟨s', h1, h2, h3, _⟩ := extend_eq_fold E.toUnit hEu pulls _ hr hw hfit
  exact ⟨s', h1, h2, h3⟩

/-- sets: at most `cap` distinct elements always fit; any-oracle safety is `from_iter_safe` /
    `extend_safe` at `E.toUnit`. -/
theorem set_fits_of_distinct_le_cap (hE : E.Lawful) (cap : Nat) (ks : List K) (d : List K)
    (hd : ∀ x, x ∈ ks → memB E.keq x d = true) (hdc : d.length ≤ cap) :
    overflowAt E.toUnit cap [] (ks.map fun k => (k, ())) = none :=
  fits_of_distinct_le_cap E.toUnit (toUnit_lawful hE) cap _ d
    (fun x hx => hd x (by simpa [List.map_map] using hx)) hdc

/-! ### `a.extend(b)` with the set `b` moved in (`SetOp.extend_from`)

`Extend<T> for Set<T, N>` fed with another set: `b.into_iter()` is the consuming iterator
`SetIntoIter` (it pops from the END of `b`), every key it yields goes through `a.insert`.  The
model operation is `Op.set i (.extend_from j)` (`stepCore` → `extendFrom` → `extendFromLoop`,
`Model/Sys.lean`); its list-level meaning in the interpreter `ListSys.lstepCore` is the fold of
single inserts of `b`'s keys, last first, and `b = []` afterwards (`ListSys.extendFrom_ok`, part of
`ListSys.step_refines` / `run_refines`). -/

section extendFrom
open ListSys
variable (R : Render K V)

/-- **`a.extend(b)`, `b` a set moved in, for a lawful key type in a benign world — the set-level
    statement.**  `a = sets i` holds `la`, `b = sets j` holds `lb` (`j ≠ i`), both with pairwise
    unequal keys (what the invariant guarantees for a lawful key type, see
    `set_extend_from_gains_inv`), and there is room in `a` for the elements of `b` that `a` does not
    hold.  Then the step returns `()`; afterwards `a` holds its old entries — same slots, same key
    objects — followed by EXACTLY the elements of `b` it did not hold (`ListSys.gained`: in the
    order the consuming iterator yields them, last slot of `b` first); `b` is empty (consumed:
    every element was moved into `a` or, being a duplicate, dropped); capacities are unchanged and
    the world is again benign. -/
theorem set_extend_from_gains (hE : E.Lawful) {sys : Sys K V Q} {ls : LSys K V} (hb : Benign sys.w)
    (hs : SysRep sys ls) (i j : Nat) (hij : j ≠ i)
    (hnd : NodupKeys E.toUnit.keq (ls.sets i).l) (hns : NodupKeys E.toUnit.keq (ls.sets j).l)
    (hroom : (ls.sets i).l.length + (gained E.toUnit (ls.sets i).l (ls.sets j).l).length ≤ (ls.sets i).cap) :
    (step E R sys (.set i (.extend_from j))).2.outcome = .ok ∧
    (step E R sys (.set i (.extend_from j))).2.ret = .unit ∧
    SysRep (step E R sys (.set i (.extend_from j))).1
      ((ls.setSet j ⟨(ls.sets j).cap, []⟩).setSet i
        ⟨(ls.sets i).cap, (ls.sets i).l ++ gained E.toUnit (ls.sets i).l (ls.sets j).l⟩) ∧
    Benign (step E R sys (.set i (.extend_from j))).1.w := by
  have hF : E.toUnit.Lawful := toUnit_lawful hE
  have hov := overflowAt_none_of_gain E.toUnit hF (ls.sets i).cap (ls.sets i).l (ls.sets j).l hnd hroom
  have hfold := foldInsert_gain E.toUnit hF (ls.sets i).l (ls.sets j).l hns
  have hl : lstepCore E R ls (.set i (.extend_from j)) = .ok .unit
      ((ls.setSet j ⟨(ls.sets j).cap, []⟩).setSet i
        ⟨(ls.sets i).cap, (ls.sets i).l ++ gained E.toUnit (ls.sets i).l (ls.sets j).l⟩) := by
    simp only [lstepCore]
    rw [if_neg hij, if_pos hov, hfold]
  obtain ⟨h1, h2, h3⟩ := step_refines E R hE.toPure hb hs (.set i (.extend_from j)) rfl trivial
  simp only [lstep, hl] at h1 h2
  exact ⟨congrArg LOut.outcome h1, congrArg LOut.ret h1, h2, h3⟩

/-- … with the hypotheses on the keys discharged by the invariant: from registers that satisfy
    `SysInv` (every reachable state does: `run_inv`), for lawful `Eq`/`Borrow` and a `Clone` that
    respects them (`Env.Good`). -/
theorem set_extend_from_gains_inv (hG : E.Good) {sys : Sys K V Q} {ls : LSys K V} (hb : Benign sys.w)
    (hinv : SysInv E sys) (hs : SysRep sys ls) (i j : Nat) (hij : j ≠ i)
    (hroom : (ls.sets i).l.length + (gained E.toUnit (ls.sets i).l (ls.sets j).l).length ≤ (ls.sets i).cap) :
    (step E R sys (.set i (.extend_from j))).2.outcome = .ok ∧
    (step E R sys (.set i (.extend_from j))).2.ret = .unit ∧
    SysRep (step E R sys (.set i (.extend_from j))).1
      ((ls.setSet j ⟨(ls.sets j).cap, []⟩).setSet i
        ⟨(ls.sets i).cap, (ls.sets i).l ++ gained E.toUnit (ls.sets i).l (ls.sets j).l⟩) ∧
    Benign (step E R sys (.set i (.extend_from j))).1.w := by
  have hnod : ∀ r, NodupKeys E.toUnit.keq (ls.sets r).l := by
    intro r
    obtain ⟨l, hr, hn⟩ := hinv.2 r
    have : l = (ls.sets r).l := Rep.unique hr (hs.2.1 r).1
    exact this ▸ hn (Env.Good.toUnit hG)
  exact set_extend_from_gains E R hG.1 hb hs i j hij (hnod i) (hnod j) hroom

/-- the general case (any contents, a pure `==`): the step is what the list-level interpreter says
    — the fold of single inserts of `b`'s keys, last first; on overflow the panic class of the
    profile, with what went in before the first surplus key kept; `b` empty in either case. -/
theorem set_extend_from_refines (hE : E.Pure) {sys : Sys K V Q} {ls : LSys K V} (hb : Benign sys.w)
    (hs : SysRep sys ls) (i j : Nat) :
    view (step E R sys (.set i (.extend_from j))).2 = (lstep E R ls (.set i (.extend_from j))).2 ∧
    SysRep (step E R sys (.set i (.extend_from j))).1 (lstep E R ls (.set i (.extend_from j))).1 ∧
    Benign (step E R sys (.set i (.extend_from j))).1.w :=
  step_refines E R hE hb hs (.set i (.extend_from j)) rfl trivial

end extendFrom

/-! Non-vacuity: concrete data meeting the hypotheses (tests, not proofs). -/

def exEnv : Env Nat Nat Nat :=
  { eqK := fun _ a b => a % 10 == b % 10, eqQ := fun _ a b => a % 10 == b % 10,
    eqV := fun a b => a == b, borrow := id, clK := fun _ k => k, clV := fun _ v => v }

example : exEnv.Pure := ⟨fun _ _ _ => rfl, fun _ _ _ => rfl⟩
example : Benign ({} : World Nat Nat Nat) := ⟨rfl, rfl⟩
/-- five items, two key classes (`7 ≡ 17 ≡ 27`, `8`), capacity 2: fits although `5 > 2`;
    first key object `7` kept, last value `300` wins. -/
example : overflowAt exEnv 2 [] [(7, 100), (8, 1), (17, 200), (8, 2), (27, 300)] = none := by decide
example : foldInsert exEnv [] [(7, 100), (8, 1), (17, 200), (8, 2), (27, 300)] = [(7, 300), (8, 2)] := by
  decide
/-- three key classes into capacity 2: the third distinct key (item 3) overflows. -/
example : overflowAt exEnv 2 [] [(7, 100), (8, 1), (17, 200), (9, 2), (27, 300)] = some 3 := by decide
example : ∀ x, x ∈ [(7, 100), (8, 1), (17, 200)].map (·.1) → memB exEnv.keq x [7, 8] = true := by
  decide

/-- `a = {7}`, `b = {8, 17, 9}` (slot order), `17 ≡ 7`: `a` gains `9` and `8` — `b`'s elements it did
    not hold, last first —, the duplicate `17` is dropped; `a`'s key object `7` stays. -/
example : ListSys.gained exEnv.toUnit [(7, ())] [(8, ()), (17, ()), (9, ())] = [(9, ()), (8, ())] := by
  decide
example : foldInsert exEnv.toUnit [(7, ())] [(8, ()), (17, ()), (9, ())].reverse =
    [(7, ())] ++ ListSys.gained exEnv.toUnit [(7, ())] [(8, ()), (17, ()), (9, ())] := by decide
example : (Op.set 0 (.extend_from 1) : Op Nat Nat Nat).inSpec = true := rfl

end Micromap.Props.C16
