/-
C14 — Equality is extensional, regardless of capacity, slot order or history.

`mapEq E a b` is the model of `Map::eq` (`self = a`, `other = b`); `Set::eq` is the same
function at `V = ()` (`Env.toUnit`, `vGlue = false`).  The operands are *arguments* of
`mapEq` (immutably borrowed containers): they cannot be modified by construction, and the
theorems below additionally show that the state's own register `s.r` is untouched and that
no effect (drop / clone / closure call) happens.  Capacities do not occur in any statement:
the operands are only constrained by `Rep a la`, `Rep b lb`, for arbitrary `a.cap`, `b.cap`.
-/
import Micromap.Proofs.EqClone
import Micromap.Model.Step

namespace Micromap.Props.C14
open Micromap SetAlg EqClone
variable {K V Q : Type} (E : Env K V Q)

/-- In a world where no injected fault is armed an operation cannot unwind by injection. -/
theorem no_inj {s s' : St K V Q} {c} (hb : Benign s.w) (h : InjPanic s s' c) : False := h.2.1 hb.1

/-- **Safety, any oracle, any injection point, any capacities.**  `Map::eq` never reaches `ub`;
    whether it returns or unwinds, the state's register is untouched and (when it returns) no
    effect other than comparisons happened; it can unwind only by an injected panic of a user
    `==`.  The operands `a`, `b` are arguments and hence unchanged. -/
theorem mapEq_safe {a b : Raw K V} {la lb : List (K × V)} (ha : Rep a la) (hb : Rep b lb)
    (s : St K V Q) :
    Sat (mapEq E a b) s (fun _ s' => s'.r = s.r ∧ WRel s.w s'.w [])
      (fun c s' => s'.r = s.r ∧ InjPanic s s' c) := by
  refine Sat.mono (mapEq_cb E ha hb s) ?_ ?_
  · intro r s' ⟨h1, h2, _⟩; exact ⟨h1, h2⟩
  · intro c s' ⟨h1, h2, h3, h4, h5⟩; exact ⟨h1, h2, h3, h4, h5⟩

/-- the same for any two memory-safe operands (no list needs to be named): `Map::eq` on two
    `Safe` containers of arbitrary capacities is memory-safe under every `==` oracle. -/
theorem mapEq_safe' {a b : Raw K V} (ha : Safe a) (hb : Safe b) (s : St K V Q) :
    Sat (mapEq E a b) s (fun _ s' => s'.r = s.r ∧ WRel s.w s'.w [])
      (fun c s' => s'.r = s.r ∧ InjPanic s s' c) :=
  mapEq_safe E ha.rep hb.rep s

/-- **What `==` computes.**  In a benign world with a time-independent `==`, `Map::eq` returns
    (never panics) exactly `mapEqCode` of the two represented lists — equal lengths and every
    entry of `a` found in `b` with an equal value — leaves the state untouched and has no effect. -/
theorem mapEq_pure (hE : E.Pure) {a b : Raw K V} {la lb : List (K × V)} (ha : Rep a la)
    (hb : Rep b lb) {s : St K V Q} (hw : Benign s.w) :
    ∃ s', mapEq E a b s = .ok (mapEqCode E.keq (veq E) la lb) s' ∧ s'.r = s.r ∧
      WRel s.w s'.w [] := by
  obtain ⟨r, s', h1, h2, h3, h4⟩ := (mapEq_cb E ha hb s).must_return (by
    intro c s' ⟨_, _, h3, _⟩; exact h3 hw.1)
  rw [h4 hE] at h1
  exact ⟨s', h1, h2, h3⟩

/-- **Extensionality.**  With a lawful `Eq` and unique keys on both sides (the container
    invariant), `a == b` is `true` exactly when both hold the same keys with equal values
    (`MapExtEq`: every key looks up alike in both) — for any capacities and any slot orders. -/
theorem mapEq_iff_extEq (hE : E.Lawful) {a b : Raw K V} {la lb : List (K × V)} (ha : Rep a la)
    (hb : Rep b lb) (hna : NodupKeys E.keq la) (hnb : NodupKeys E.keq lb)
    {s : St K V Q} (hw : Benign s.w) :
    ∃ r s', mapEq E a b s = .ok r s' ∧ s'.r = s.r ∧
      (r = true ↔ MapExtEq E.keq (veq E) la lb) := by
  obtain ⟨s', h1, h2, _⟩ := mapEq_pure E hE.toPure ha hb hw
  exact ⟨_, s', h1, h2, mapEqCode_iff hE.equivB (veq E) la lb hna hnb⟩

/-- the result of `mapEq` in a benign world, as a function of the represented lists only. -/
theorem mapEq_result (hE : E.Pure) {a b : Raw K V} {la lb : List (K × V)} (ha : Rep a la)
    (hb : Rep b lb) {s : St K V Q} (hw : Benign s.w) {r s'} (h : mapEq E a b s = .ok r s') :
    r = mapEqCode E.keq (veq E) la lb := by
  obtain ⟨s'', h1, _⟩ := mapEq_pure E hE ha hb hw
  rw [h1] at h
  cases h; rfl

/-- **Symmetry.**  When value equality is symmetric, `a == b` and `b == a` give the same
    answer (evaluated in any two benign states). -/
theorem mapEq_symm (hE : E.Lawful) (hv : ∀ x y, veq E x y = veq E y x)
    {a b : Raw K V} {la lb : List (K × V)} (ha : Rep a la) (hb : Rep b lb)
    (hna : NodupKeys E.keq la) (hnb : NodupKeys E.keq lb)
    {s t : St K V Q} (hs : Benign s.w) (ht : Benign t.w) :
    ∃ r s' t', mapEq E a b s = .ok r s' ∧ mapEq E b a t = .ok r t' := by
  obtain ⟨s', h1, _⟩ := mapEq_pure E hE.toPure ha hb hs
  obtain ⟨t', h2, _⟩ := mapEq_pure E hE.toPure hb ha ht
  rw [← mapEqCode_symm hE.equivB (veq E) hv la lb hna hnb] at h2
  exact ⟨_, s', t', h1, h2⟩

/-- **Reflexivity.**  When value equality is reflexive, every well-formed map equals itself —
    and equals every other container (of any capacity) that represents the same list. -/
theorem mapEq_refl (hE : E.Lawful) (hv : ∀ x, veq E x x = true)
    {a a' : Raw K V} {la : List (K × V)} (ha : Rep a la) (ha' : Rep a' la)
    (hna : NodupKeys E.keq la) {s : St K V Q} (hs : Benign s.w) :
    ∃ s', mapEq E a a' s = .ok true s' ∧ s'.r = s.r := by
  obtain ⟨s', h1, h2, _⟩ := mapEq_pure E hE.toPure ha ha' hs
  rw [mapEqCode_refl hE.equivB (veq E) hv la hna] at h1
  exact ⟨s', h1, h2⟩

/-- **Independence of slot order, history and capacity.**  If `a'` holds a permutation of the
    entries of `a` and `b'` a permutation of those of `b` (any capacities — the histories that
    produced them are irrelevant, only the represented lists matter), the comparison gives the
    same answer. -/
theorem mapEq_perm (hE : E.Lawful) {a a' b b' : Raw K V} {la la' lb lb' : List (K × V)}
    (ha : Rep a la) (ha' : Rep a' la') (hb : Rep b lb) (hb' : Rep b' lb')
    (hna : NodupKeys E.keq la) (hnb : NodupKeys E.keq lb)
    (hpa : la.Perm la') (hpb : lb.Perm lb')
    {s t : St K V Q} (hs : Benign s.w) (ht : Benign t.w) :
    ∃ r s' t', mapEq E a b s = .ok r s' ∧ mapEq E a' b' t = .ok r t' := by
  obtain ⟨s', h1, _⟩ := mapEq_pure E hE.toPure ha hb hs
  obtain ⟨t', h2, _⟩ := mapEq_pure E hE.toPure ha' hb' ht
  rw [← mapEqCode_perm hE.equivB (veq E) la la' lb lb' hna hnb hpa hpb] at h2
  exact ⟨_, s', t', h1, h2⟩

/-- two containers of different capacities that represent the same list are interchangeable as
    operands (the special case `la' = la`, `lb' = lb` of `mapEq_perm`, which needs no lawfulness). -/
theorem mapEq_cap_indep (hE : E.Pure) {a a' b b' : Raw K V} {la lb : List (K × V)}
    (ha : Rep a la) (ha' : Rep a' la) (hb : Rep b lb) (hb' : Rep b' lb)
    {s t : St K V Q} (hs : Benign s.w) (ht : Benign t.w) :
    ∃ r s' t', mapEq E a b s = .ok r s' ∧ mapEq E a' b' t = .ok r t' := by
  obtain ⟨s', h1, _⟩ := mapEq_pure E hE ha hb hs
  obtain ⟨t', h2, _⟩ := mapEq_pure E hE ha' hb' ht
  exact ⟨_, s', t', h1, h2⟩

/-- a value difference in one entry is detected: if some key is bound in both maps to values
    that are not `==`, the maps are unequal (a comparison that ignored values would fail this). -/
theorem mapEq_false_of_value_diff (hE : E.Lawful) {a b : Raw K V} {la lb : List (K × V)}
    (ha : Rep a la) (hb : Rep b lb) (hna : NodupKeys E.keq la) (hnb : NodupKeys E.keq lb)
    {k : K} {x y : V} (hx : lookupL E.keq la k = some x) (hy : lookupL E.keq lb k = some y)
    (hxy : veq E y x = false) {s : St K V Q} (hw : Benign s.w) :
    ∃ s', mapEq E a b s = .ok false s' := by
  obtain ⟨r, s', h1, _, h3⟩ := mapEq_iff_extEq E hE ha hb hna hnb hw
  cases r with
  | false => exact ⟨s', h1⟩
  | true =>
    have := h3.mp rfl k
    rw [hx, hy] at this
    have this : veq E y x = true := this
    rw [hxy] at this
    cases this

/-- a key present on one side only is detected, in either direction (a comparison that
    checked one inclusion only, without the length test, would fail this). -/
theorem mapEq_false_of_key_diff (hE : E.Lawful) {a b : Raw K V} {la lb : List (K × V)}
    (ha : Rep a la) (hb : Rep b lb) (hna : NodupKeys E.keq la) (hnb : NodupKeys E.keq lb)
    {k : K} (hk : (lookupL E.keq la k).isSome ≠ (lookupL E.keq lb k).isSome)
    {s : St K V Q} (hw : Benign s.w) :
    ∃ s', mapEq E a b s = .ok false s' := by
  obtain ⟨r, s', h1, _, h3⟩ := mapEq_iff_extEq E hE ha hb hna hnb hw
  cases r with
  | false => exact ⟨s', h1⟩
  | true =>
    have := h3.mp rfl k
    revert this hk
    cases lookupL E.keq la k <;> cases lookupL E.keq lb k <;> simp

/-! ### sets: `V = ()`, no value comparison -/

/-- for sets (`vGlue = false`) value equality is constantly `true`. -/
theorem veq_unit (E : Env K Unit Q) (h : E.vGlue = false) : veq E = fun _ _ => true := by
  funext x y; simp [veq, h]

/-- the set view of an environment is lawful when the environment is. -/
theorem toUnit_lawful {E : Env K V Q} (hE : E.Lawful) : E.toUnit.Lawful :=
  { k := hE.k, q := hE.q, refl := hE.refl, symm := hE.symm, trans := hE.trans, borrow := hE.borrow,
    qrefl := hE.qrefl, qsymm := hE.qsymm, qtrans := hE.qtrans }

/-- extensional equality of two unit-valued lists = the same keys up to `==`. -/
theorem mapExtEq_unit_iff (keq : K → K → Bool) (la lb : List (K × Unit)) :
    MapExtEq keq (fun _ _ => true) la lb ↔
      ∀ k, memB keq k (la.map (·.1)) = memB keq k (lb.map (·.1)) := by
  unfold MapExtEq
  apply forall_congr'
  intro k
  have h1 := memB_keys_iff (keq := keq) la k
  have h2 := memB_keys_iff (keq := keq) lb k
  rw [Bool.eq_iff_iff, h1, h2]
  cases lookupL keq la k <;> cases lookupL keq lb k <;> simp

/-- **`Set::eq`.**  Two sets compare equal exactly when they contain the same elements up to
    `==`, for any capacities and slot orders; this is `Map::eq` at `V = ()`, where no value
    comparison takes place. -/
theorem setEq_iff (E : Env K Unit Q) (hE : E.Lawful) (hg : E.vGlue = false)
    {a b : Raw K Unit} {la lb : List (K × Unit)} (ha : Rep a la) (hb : Rep b lb)
    (hna : NodupKeys E.keq la) (hnb : NodupKeys E.keq lb) {s : St K Unit Q} (hw : Benign s.w) :
    ∃ r s', mapEq E a b s = .ok r s' ∧ s'.r = s.r ∧ WRel s.w s'.w [] ∧
      (r = true ↔ ∀ k, memB E.keq k (la.map (·.1)) = memB E.keq k (lb.map (·.1))) := by
  obtain ⟨s', h1, h2, h3⟩ := mapEq_pure E hE.toPure ha hb hw
  refine ⟨_, s', h1, h2, h3, ?_⟩
  rw [mapEqCode_iff hE.equivB (veq E) la lb hna hnb, veq_unit E hg, mapExtEq_unit_iff]

/-- the set layer of the model runs `mapEq E.toUnit`: the corollary instantiated there. -/
theorem setEq_iff_toUnit (hE : E.Lawful)
    {a b : Raw K Unit} {la lb : List (K × Unit)} (ha : Rep a la) (hb : Rep b lb)
    (hna : NodupKeys E.keq la) (hnb : NodupKeys E.keq lb) {s : St K Unit Q} (hw : Benign s.w) :
    ∃ r s', mapEq E.toUnit a b s = .ok r s' ∧ s'.r = s.r ∧ WRel s.w s'.w [] ∧
      (r = true ↔ ∀ k, memB E.keq k (la.map (·.1)) = memB E.keq k (lb.map (·.1))) :=
  setEq_iff E.toUnit (toUnit_lawful hE) rfl ha hb hna hnb hw

/-- set equality is symmetric and reflexive outright (there is no value `==` to be unlawful). -/
theorem setEq_symm (E : Env K Unit Q) (hE : E.Lawful) (hg : E.vGlue = false)
    {a b : Raw K Unit} {la lb : List (K × Unit)} (ha : Rep a la) (hb : Rep b lb)
    (hna : NodupKeys E.keq la) (hnb : NodupKeys E.keq lb)
    {s t : St K Unit Q} (hs : Benign s.w) (ht : Benign t.w) :
    ∃ r s' t', mapEq E a b s = .ok r s' ∧ mapEq E b a t = .ok r t' :=
  mapEq_symm E hE (by rw [veq_unit E hg]; intros; rfl) ha hb hna hnb hs ht

/-- set equality is reflexive: a set equals every container (of any capacity) holding the same
    list of elements. -/
theorem setEq_refl (E : Env K Unit Q) (hE : E.Lawful) (hg : E.vGlue = false)
    {a a' : Raw K Unit} {la : List (K × Unit)} (ha : Rep a la) (ha' : Rep a' la)
    (hna : NodupKeys E.keq la) {s : St K Unit Q} (hs : Benign s.w) :
    ∃ s', mapEq E a a' s = .ok true s' ∧ s'.r = s.r :=
  mapEq_refl E hE (by rw [veq_unit E hg]; intros; rfl) ha ha' hna hs

/-! Non-vacuity: concrete data meeting the hypotheses; same entries in different slot order and
    different capacities compare equal, a value difference / key difference compares unequal. -/

def exEnv : Env Nat Nat Nat :=
  { eqK := fun _ a b => a == b, eqQ := fun _ a b => a == b, eqV := fun a b => a == b, borrow := id,
    clK := fun _ k => k, clV := fun _ v => v }

def exA : Raw Nat Nat :=
  { cap := 2, len := 2, slots := fun i => if i = 0 then some (7, 70) else if i = 1 then some (8, 80) else none }
def exB : Raw Nat Nat :=
  { cap := 5, len := 2, slots := fun i => if i = 0 then some (8, 80) else if i = 1 then some (7, 70) else none }

example : exEnv.Lawful :=
  { k := fun _ _ _ => rfl, q := fun _ _ _ => rfl,
    refl := fun a => by simp [Env.keq, exEnv],
    symm := fun a b => by simp only [Env.keq, exEnv]; exact Bool.eq_iff_iff.mpr (by simp only [beq_iff_eq]; exact eq_comm),
    trans := fun a b c => by simp [Env.keq, exEnv]; intro h1 h2; exact h1.trans h2,
    borrow := fun a b => rfl,
    qrefl := fun a => by simp [Env.qeq, exEnv],
    qsymm := fun a b => by simp only [Env.qeq, exEnv]; exact Bool.eq_iff_iff.mpr (by simp only [beq_iff_eq]; exact eq_comm),
    qtrans := fun a b c => by simp [Env.qeq, exEnv]; intro h1 h2; exact h1.trans h2 }
example : Rep exA [(7, 70), (8, 80)] :=
  ⟨rfl, by decide, fun i hi => by
    have : i = 0 ∨ i = 1 := by simp at hi; omega
    rcases this with rfl | rfl <;> rfl⟩
example : Rep exB [(8, 80), (7, 70)] :=
  ⟨rfl, by decide, fun i hi => by
    have : i = 0 ∨ i = 1 := by simp at hi; omega
    rcases this with rfl | rfl <;> rfl⟩
example : NodupKeys exEnv.keq [(7, 70), (8, 80)] := by
  simp [NodupKeys, NodupB, Env.keq, exEnv]
example : mapEqCode exEnv.keq (veq exEnv) [(7, 70), (8, 80)] [(8, 80), (7, 70)] = true := by decide
example : mapEqCode exEnv.keq (veq exEnv) [(7, 70), (8, 80)] [(8, 81), (7, 70)] = false := by decide
example : mapEqCode exEnv.keq (veq exEnv) [(7, 70), (8, 80)] [(9, 80), (7, 70)] = false := by decide
example : Benign ({} : World Nat Nat Nat) := ⟨rfl, rfl⟩

end Micromap.Props.C14
