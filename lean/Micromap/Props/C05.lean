/-
C05 — Keys stay unique and `len()` always equals what iteration yields.

`run` is the function the driver executes against the real crate; `SysInv` says that every map
and set register satisfies `Inv`: its live prefix is a well-defined list (`Rep`, so `len ≤ cap`
and every slot below `len` is live) whose keys are pairwise unequal when the key type is lawful.
The history theorem covers the WHOLE safe operation language (`Op.safeApi`: every `Map`, `Set`,
entry, iterator, drain, set-algebra, clone, bulk-construction operation; only the two `unsafe fn`s
are excluded), every capacity, both profiles, and every outcome of every step — including steps
that ended in a panic raised by the container itself (overflow, missing index, overlapping keys)
or by injected user code.
-/
import Micromap.Proofs.SysInv

namespace Micromap.Props.C05
open Micromap SetAlg Dict
variable {K V Q : Type} (E : Env K V Q) (R : Render K V)

/-- **Every reachable state is well-formed.**  From `new()` registers of any capacities, after any
    history of safe operations, every register satisfies the invariant. -/
theorem run_wf (capM capS : Nat → Nat) (w : World K V Q) (ops : List (Op K V Q))
    (hops : ∀ op, op ∈ ops → op.safeApi = true) :
    SysInv E (run E R (Sys.init capM capS w) ops).1 :=
  (run_inv E R ops _ (SysInv.init E capM capS w) hops).2

/-- the same from any well-formed state (so also: after every prefix of a history). -/
theorem run_wf_from {sys : Sys K V Q} (hs : SysInv E sys) (ops : List (Op K V Q))
    (hops : ∀ op, op ∈ ops → op.safeApi = true) : SysInv E (run E R sys ops).1 :=
  (run_inv E R ops sys hs hops).2

/-- one step, whatever its outcome (return, the container's own panic, an injected panic). -/
theorem step_wf {sys : Sys K V Q} (hs : SysInv E sys) (op : Op K V Q) (hop : op.safeApi = true) :
    SysInv E (step E R sys op).1 :=
  (step_inv E R hs op hop).2

/-- What the invariant means for the caller, for a lawful key type whose `Clone` respects `Eq`:
    iteration yields exactly `len()` entries, their keys are pairwise unequal, `is_empty()` is
    `len() == 0`, and `len() ≤ capacity()`. -/
theorem inv_observables (hg : E.Good) {r : Raw K V} (h : Inv E r) (s : St K V Q) :
    entriesOf r s = .ok r.abs s ∧ r.abs.length = r.len ∧ NodupKeys E.keq r.abs ∧
    r.len ≤ r.cap ∧ ((r.len == 0) = true ↔ r.abs = []) := by
  obtain ⟨hr, hn⟩ := h.abs
  refine ⟨Refine.entriesOf_ok hr s, hr.1.symm, hn hg, hr.safe.1, ?_⟩
  rw [hr.1]
  cases r.abs <;> simp

/-- every yielded key can be looked up and returns the value yielded with it: `get(&k)` for the
    key of the `i`-th yielded entry finds slot `i` and returns that very entry. -/
theorem yielded_key_found (hg : E.Good) {s : St K V Q} (h : Inv E s.r) (hb : Benign s.w) {i : Nat}
    (hi : i < s.r.abs.length) :
    ∃ s', get E (.key s.r.abs[i].1) s = .ok (some (i, s.r.abs[i])) s' ∧ s'.r = s.r := by
  obtain ⟨hr, hn⟩ := h.abs
  have hfind : findKey E s.r.abs (.key s.r.abs[i].1 : Probe K Q) = some i :=
    (findKey_some_iff hg.1 (hn hg) _).mpr ⟨hi, hg.1.refl _⟩
  rcases Refine.outcome (get_sat E hr (.key s.r.abs[i].1)) with ⟨o, s', hm, hs, _, ho, hfo⟩ | ⟨c, s', _, _, hi'⟩
  · have hfo := hfo hg.1.toPure
    rw [hfind] at hfo
    cases o with
    | none => simp at hfo
    | some x =>
      obtain ⟨j, p⟩ := x
      simp at hfo; subst hfo
      obtain ⟨_, hp⟩ := ho j p rfl
      subst hp
      exact ⟨s', hm, hs⟩
  · exact (Refine.no_inj hb hi').elim

/-- the same by the borrowed form of the yielded key. -/
theorem yielded_key_found_borrowed (hg : E.Good) {s : St K V Q} (h : Inv E s.r) (hb : Benign s.w)
    {i : Nat} (hi : i < s.r.abs.length) :
    ∃ s', get E (.q (E.borrow s.r.abs[i].1)) s = .ok (some (i, s.r.abs[i])) s' ∧ s'.r = s.r := by
  obtain ⟨hr, hn⟩ := h.abs
  have hfind : findKey E s.r.abs (.q (E.borrow s.r.abs[i].1) : Probe K Q) = some i := by
    refine (findKey_some_iff hg.1 (hn hg) _).mpr ⟨hi, ?_⟩
    rw [hitP_borrow hg.1]; exact hg.1.refl _
  rcases Refine.outcome (get_sat E hr (.q (E.borrow s.r.abs[i].1))) with
    ⟨o, s', hm, hs, _, ho, hfo⟩ | ⟨c, s', _, _, hi'⟩
  · have hfo := hfo hg.1.toPure
    rw [hfind] at hfo
    cases o with
    | none => simp at hfo
    | some x =>
      obtain ⟨j, p⟩ := x
      simp at hfo; subst hfo
      obtain ⟨_, hp⟩ := ho j p rfl
      subst hp
      exact ⟨s', hm, hs⟩
  · exact (Refine.no_inj hb hi').elim

/-- all of it for every register after every history. -/
theorem reachable_observables (hg : E.Good) (capM capS : Nat → Nat) (w : World K V Q)
    (ops : List (Op K V Q)) (hops : ∀ op, op ∈ ops → op.safeApi = true) (i : Nat) :
    let sys := (run E R (Sys.init capM capS w) ops).1
    (sys.maps i).abs.length = (sys.maps i).len ∧ NodupKeys E.keq (sys.maps i).abs ∧
    (sys.maps i).len ≤ (sys.maps i).cap ∧
    (sys.sets i).abs.length = (sys.sets i).len ∧ NodupKeys E.toUnit.keq (sys.sets i).abs ∧
    (sys.sets i).len ≤ (sys.sets i).cap := by
  intro sys
  have h := run_wf E R capM capS w ops hops
  obtain ⟨hm, hn⟩ := (h.1 i).abs
  obtain ⟨hm', hn'⟩ := (h.2 i).abs
  exact ⟨hm.1.symm, hn hg, hm.safe.1, hm'.1.symm, hn' hg.toUnit, hm'.safe.1⟩

/-! ### non-vacuity (tests) -/

def exEnv : Env (Nat × Nat) Nat Nat :=
  { eqK := fun _ a b => a.1 == b.1, eqQ := fun _ a b => a == b, eqV := fun a b => a == b,
    borrow := fun a => a.1, clK := fun n k => (k.1, n), clV := fun _ v => v }

theorem exEnv_good : exEnv.Good := by
  refine ⟨⟨⟨fun _ _ _ => rfl, fun _ _ _ => rfl⟩, ?_, ?_, ?_, fun _ _ => rfl, ?_, ?_, ?_⟩, fun _ _ => ?_⟩
  · intro a; simp [Env.keq, exEnv]
  · intro a b; simp [Env.keq, exEnv, Bool.beq_comm]
  · intro a b c h1 h2; simp [Env.keq, exEnv] at *; omega
  · intro a; simp [Env.qeq, exEnv]
  · intro a b; simp [Env.qeq, exEnv, Bool.beq_comm]
  · intro a b c h1 h2; simp [Env.qeq, exEnv] at *; omega
  · simp [Env.keq, exEnv]

example : (Op.map 0 (.insert (1, 1) 5) : Op (Nat × Nat) Nat Nat).safeApi = true := rfl
example : (Op.map 0 (.entry (1, 1) [] (.or_insert 5)) : Op (Nat × Nat) Nat Nat).safeApi = true := rfl
example : (Op.set 1 (.alg .union 0 [.next, .hint, .fold]) : Op (Nat × Nat) Nat Nat).safeApi = true := rfl
example : (Op.map 0 (.insert_unchecked (1, 1) 5) : Op (Nat × Nat) Nat Nat).safeApi = false := rfl

end Micromap.Props.C05
