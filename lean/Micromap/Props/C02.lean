/-
C02 — Each element is destroyed exactly once; dead or uninit slots are never used.

Two kinds of statements.
(1) History level, any world: no step of any history over the whole safe operation language —
    including every consuming iterator and drain with every `take` count, dropped early or
    `mem::forget`-ten — reaches `ub`.  In the model `ub` is exactly: a slot that holds no live
    element is read, compared, returned, moved out or dropped (`itemRef`/`itemRead`/`itemDrop`/
    `valueReplace`/`pairReplace` on a `none` slot or beyond `cap`).  A second destruction of a
    stored element is a drop of a moved-out slot, hence `ub`: so elements in slots are destroyed
    at most once, and dead/uninitialised slots are never used.
(2) Operation level, benign world: the exact effect trace, return value and final list of each
    operation, from which "exactly one place" can be read off: every object of the old list and
    of the arguments is afterwards in exactly one of: the new list, the return value, the drop
    events of the step (once), or — only for `forget` — leaked.
(3) The ledger over histories — passed in = stored ⊎ handed back ⊎ destroyed, as a multiset
    equation — is proved for the owning dictionary operations (`history_ledger`), and, with
    created, leaked and unreachable objects in the equation, for every safe operation on ONE map
    register (`history_ledger2`: entry API, all iterators, drains and consuming iterators dropped or
    forgotten, retain, extend, drop, forget; `history_ledger2_sets` for `V = ()`), through an
    ownership logic (`Proofs/Own.lean`) whose step lemma (`step_ledger2`) holds in ANY world.
    Over the model's real transition function `step` / `run` and the WHOLE safe operation language
    with its four registers (clone, `==`, serde, set algebra, bulk construction, `endCase`) it is
    `run_ledger` / `run_and_drop_ledger` / `step_ledger_sys` (section (3'') at the end of this file).
-/
import Micromap.Proofs.SysInv
import Micromap.Props.C03
import Micromap.Props.C10
import Micromap.Props.C12
import Micromap.Proofs.Ledger
import Micromap.Proofs.Ledger2
import Micromap.Proofs.OwnSys

namespace Micromap.Props.C02
open Micromap SetAlg Dict Refine
variable {K V Q : Type} (E : Env K V Q) (R : Render K V)

/-- **(1) Dead or uninitialised slots are never used, nothing in a slot is destroyed twice** —
    for every history of safe operations from `new()`, any capacities, any user equality, any
    injected panics, either profile, with iterators and drains abandoned at any point. -/
theorem run_no_ub (capM capS : Nat → Nat) (w : World K V Q) (ops : List (Op K V Q))
    (hops : ∀ op, op ∈ ops → op.safeApi = true) :
    ∀ o, o ∈ (run E R (Sys.init capM capS w) ops).2 → o.outcome ≠ .ub :=
  (run_inv E R ops _ (SysInv.init E capM capS w) hops).1

/-- … and the final drop of every register (`endCase`) is included. -/
theorem run_and_drop_no_ub (capM capS : Nat → Nat) (w : World K V Q) (ops : List (Op K V Q))
    (hops : ∀ op, op ∈ ops → op.safeApi = true) :
    ∀ o, o ∈ (run E R (Sys.init capM capS w) (ops ++ [.endCase])).2 → o.outcome ≠ .ub := by
  refine (run_inv E R _ _ (SysInv.init E capM capS w) ?_).1
  intro op hop
  rcases List.mem_append.mp hop with h | h
  · exact hops op h
  · have : op = .endCase := by simpa using h
    subst this; rfl

/-- abandoning iterators: the operations with `forget = true` are part of the language. -/
example : (Op.map 0 (.drain 1 true) : Op K V Q).safeApi = true := rfl
example : (Op.map 0 (.into_iter .keys 2 true) : Op K V Q).safeApi = true := rfl
example : (Op.set 0 (.drain 0 true) : Op K V Q).safeApi = true := rfl
example : (Op.map 0 .forget : Op K V Q).safeApi = true := rfl

/-! ### (2) where every object is after one operation (benign world) -/

/-- duplicate key on `insert`: the supplied key is destroyed exactly once (the only effect), the
    old value is handed back, the new value is stored next to the ORIGINAL key, every other
    entry is untouched. -/
theorem insert_dup_drops_arg (hE : E.Pure) {s : St K V Q} {l : List (K × V)} (hr : Rep s.r l)
    (hb : Benign s.w) (k : K) (v : V) {i} (hpres : findKey E l (.key k) = some i) :
    ∃ (hi : i < l.length) (s' : St K V Q), insert E k v s = .ok (some l[i].2) s' ∧
      Rep s'.r (l.set i (l[i].1, v)) ∧ WRel s.w s'.w [.dropK k] :=
  C12.insert_keeps_stored_key E hE hr hb k v hpres

/-- a new key with room: nothing is destroyed, the pair is stored (appended). -/
theorem insert_new_stores_args (hE : E.Pure) {s : St K V Q} {l : List (K × V)} (hr : Rep s.r l)
    (hb : Benign s.w) (k : K) (v : V) (habs : findKey E l (.key k) = none) (hroom : l.length < s.r.cap) :
    ∃ s', insert E k v s = .ok none s' ∧ Rep s'.r (l ++ [(k, v)]) ∧ WRel s.w s'.w [] := by
  rcases outcome (insert_sat E hr k v) with ⟨a, s', hm, _, hq⟩ | ⟨c, s', _, _, hq⟩
  · rcases hq with ⟨j, _, _, _, _, hfj⟩ | ⟨ha, _, hrep, hw, _⟩
    · rw [habs] at hfj; exact absurd (hfj hE) (by simp)
    · subst ha; exact ⟨s', hm, hrep, hw⟩
  · rcases hq with ⟨hi', _⟩ | ⟨_, _, hfull, _⟩
    · exact (no_inj hb hi').elim
    · omega

/-- rejected insert (full, absent): both arguments are destroyed exactly once, the container is
    bit-for-bit unchanged. -/
theorem rejected_insert_drops_args (hE : E.Pure) {s : St K V Q} {l : List (K × V)} (hr : Rep s.r l)
    (hb : Benign s.w) (hfull : l.length = s.r.cap) (k : K) (v : V)
    (habs : findKey E l (.key k) = none) :
    ∃ c s', insert E k v s = .panic c s' ∧ s'.r = s.r ∧ WRel s.w s'.w (dropVTr E v ++ [.dropK k]) := by
  obtain ⟨c, s', h1, h2, _, h4⟩ := C03.insert_full_absent E hE hr hb hfull k v habs
  exact ⟨c, s', h1, h2, h4⟩

theorem rejected_checked_insert_drops_args (hE : E.Pure) {s : St K V Q} {l : List (K × V)}
    (hr : Rep s.r l) (hb : Benign s.w) (hfull : l.length = s.r.cap) (k : K) (v : V)
    (habs : findKey E l (.key k) = none) :
    ∃ s', checked_insert E k v s = .ok none s' ∧ s'.r = s.r ∧
      WRel s.w s'.w (dropVTr E v ++ [.dropK k]) :=
  C03.checked_insert_full_absent E hE hr hb hfull k v habs

/-- `remove`: the value is handed back, the stored key is destroyed exactly once, and the rest
    is exactly the other entries (a permutation of `l` without position `i`). -/
theorem remove_conserves (hE : E.Pure) {s : St K V Q} {l : List (K × V)} (hr : Rep s.r l)
    (hb : Benign s.w) (pr : Probe K Q) {i} (hpres : findKey E l pr = some i) :
    ∃ (hi : i < l.length) (s' : St K V Q), remove E pr s = .ok (some l[i].2) s' ∧
      Rep s'.r (swapRemove l i) ∧ (swapRemove l i).Perm (l.eraseIdx i) ∧
      WRel s.w s'.w [.dropK l[i].1] := by
  rcases outcome (remove_sat E hr pr) with ⟨o, s', hm, _, ho, hfo⟩ | ⟨c, s', _, _, hi', _⟩
  · rcases ho with ⟨hon, _⟩ | ⟨j, hj, hoj, hrep, hw, hfj⟩
    · have := hfo hE; rw [hon, hpres] at this; simp at this
    · have : j = i := by have := hfj hE; rw [hpres] at this; exact (Option.some.inj this).symm
      subst this; subst hoj
      exact ⟨hj, s', hm, hrep, swapRemove_perm hj, hw⟩
  · exact (no_inj hb hi').elim

/-- `remove_entry` / `take`: both objects are handed back, nothing is destroyed. -/
theorem remove_entry_conserves (hE : E.Pure) {s : St K V Q} {l : List (K × V)} (hr : Rep s.r l)
    (hb : Benign s.w) (pr : Probe K Q) {i} (hpres : findKey E l pr = some i) :
    ∃ (hi : i < l.length) (s' : St K V Q), remove_entry E pr s = .ok (some l[i]) s' ∧
      Rep s'.r (swapRemove l i) ∧ (swapRemove l i).Perm (l.eraseIdx i) ∧ WRel s.w s'.w [] := by
  obtain ⟨hi, s', h1, h2, h3⟩ := C12.remove_entry_exposes_stored E hE hr hb pr hpres
  exact ⟨hi, s', h1, h2, swapRemove_perm hi, h3⟩

/-- an absent key: lookups and removals destroy nothing and change nothing. -/
theorem remove_absent_noop (hE : E.Pure) {s : St K V Q} {l : List (K × V)} (hr : Rep s.r l)
    (hb : Benign s.w) (pr : Probe K Q) (habs : findKey E l pr = none) :
    ∃ s', remove E pr s = .ok none s' ∧ s'.r = s.r ∧ WRel s.w s'.w [] := by
  rcases outcome (remove_sat E hr pr) with ⟨o, s', hm, _, ho, hfo⟩ | ⟨c, s', _, _, hi', _⟩
  · rcases ho with ⟨hon, hs, hw⟩ | ⟨j, _, _, _, _, hfj⟩
    · subst hon; exact ⟨s', hm, hs, hw⟩
    · rw [habs] at hfj; exact absurd (hfj hE) (by simp)
  · exact (no_inj hb hi').elim

/-- `clear`: every stored key and value is destroyed exactly once, in slot order; the map is
    empty afterwards (so none of them can be destroyed again). -/
theorem clear_drops_each_once {s : St K V Q} {l : List (K × V)} (hr : Rep s.r l) (hb : Benign s.w) :
    ∃ s', clear E s = .ok () s' ∧ Rep s'.r [] ∧ WRel s.w s'.w (dropTrace E l) := by
  rcases outcome (clear_sat E hr) with ⟨_, s', hm, h1, _, h3⟩ | ⟨c, s', _, _, _, hi'⟩
  · exact ⟨s', hm, h1, h3⟩
  · exact (no_inj hb hi').elim

/-- dropping the container: every stored key and value is destroyed exactly once and every
    slot below `len` is dead afterwards; slots at or beyond `len` are not touched. -/
theorem drop_drops_each_once {s : St K V Q} {l : List (K × V)} (hr : Rep s.r l) (hb : Benign s.w) :
    ∃ s', dropMap E s = .ok () s' ∧ (∀ j, j < l.length → s'.r.slots j = none) ∧
      (∀ j, l.length ≤ j → s'.r.slots j = s.r.slots j) ∧ WRel s.w s'.w (dropTrace E l) := by
  rcases outcome (dropMap_sat E hr) with ⟨_, s', hm, _, h2, h3, h4⟩ | ⟨c, s', _, _, _, hi'⟩
  · exact ⟨s', hm, h2, h3, h4⟩
  · exact (no_inj hb hi').elim

/-- `drain`, partially consumed then dropped: the taken prefix is handed to the caller, the rest
    is destroyed exactly once, the map is empty.  Forgotten instead of dropped: the rest is not
    destroyed at all (leaked), never twice — the map is empty all the same. -/
theorem drain_conserves (take : Nat) (forget : Bool) {s : St K V Q} {l : List (K × V)}
    (hr : Rep s.r l) (hb : Benign s.w) :
    ∃ s', drainOp E take forget s = .ok (l.take take, l.length - take, l.drop take) s' ∧
      Rep s'.r [] ∧ l.take take ++ l.drop take = l ∧
      WRel s.w s'.w (if forget then [] else dropTrace E (l.drop take)) := by
  obtain ⟨s', h1, h2, _, h4⟩ := C10.drain_op E take forget hr hb
  exact ⟨s', h1, h2, List.take_append_drop _ _, h4⟩

/-- consuming iterators: the taken items are handed to the caller (for `into_keys`/`into_values`
    the other half of each is destroyed once), the remaining entries are destroyed exactly once
    when the iterator is dropped and not at all when it is forgotten; the register is renewed. -/
theorem into_iter_conserves (kind : IntoKind) (take : Nat) (forget : Bool) {s : St K V Q}
    {l : List (K × V)} (hr : Rep s.r l) (hb : Benign s.w) :
    ∃ s', intoIterOp E kind take forget s =
        .ok (l.reverse.take take, l.length - take, l.take (l.length - take)) s' ∧
      s'.r = Raw.new s.r.cap ∧ l.take (l.length - take) ++ (l.reverse.take take).reverse = l ∧
      WRel s.w s'.w ((l.reverse.take take).flatMap (Iters.discardTr E kind) ++
        if forget then [] else dropTrace E (l.take (l.length - take))) := by
  obtain ⟨s', h1, h2, h3⟩ := C10.into_iter_op E kind take forget hr hb
  exact ⟨s', h1, h2, C10.into_iter_partition l take, h3⟩

/-- `mem::forget(map)`: nothing is destroyed, every live object goes to the leak list, and the
    register holds a fresh `new()` — so nothing of the old content can be destroyed later. -/
theorem forget_leaks_never_drops (s : St K V Q) :
    ∃ s', (forgetMap : SM K V Q Unit) s = .ok () s' ∧ s'.r = Raw.new s.r.cap ∧
      s'.w.events = s.w.events ∧ s'.w.leaked = s.w.leaked ++ liveObjs s.r s.r.cap :=
  ⟨_, rfl, rfl, rfl, rfl⟩

/-! ### (3) the ledger over histories of the owning dictionary operations -/

/-- **Every object is in exactly one place, over any history.**  For any sequence of the owning
    operations `insert`, `insert_key_value`, `checked_insert`, `remove`, `remove_entry`, `clear`,
    `drain` (partially consumed, then dropped) and lookups, from `new()` of any capacity, in a benign
    world, for ANY user equality (lawful or not) and a value type with drop glue: the history runs without
    `ub`, and for EVERY weighting `w` of objects

        Σ w(objects passed in) = Σ w(objects stored at the end) + Σ w(objects handed back) + Σ w(objects dropped)

    — the multiset equation "passed in = stored ⊎ handed back ⊎ destroyed".  With `w` the indicator
    of one object: an object passed in once is, at the end, in exactly one of the three places
    and was destroyed at most once; nothing is ever destroyed that was not passed in.
    (Steps that end in the overflow panic are included: there both arguments are dropped.) -/
theorem history_ledger (hv : E.vGlue = true) (cap : Nat) (w0 : World K V Q) (hb : Benign w0)
    (ops : List (Ledger.LOp K V Q)) (w : Obj K V → Nat) :
    ∃ sf back tr lf, Ledger.lmhist E ops ⟨Raw.new cap, w0⟩ = some (sf, back) ∧ Rep sf.r lf ∧
      WRel w0 sf.w tr ∧
      Ledger.wsum w (ops.flatMap Ledger.LOp.inObjs) =
        Ledger.wpairs w lf + Ledger.wsum w back + Ledger.wsum w (Ledger.droppedOf tr) := by
  obtain ⟨sf, back, tr, lf, h1, h2, _, h4, h5⟩ :=
    Ledger.lmhist_conserves E hv w ops ⟨Raw.new cap, w0⟩ [] (Rep.new cap) hb
  exact ⟨sf, back, tr, lf, h1, h2, h4, by simpa using h5⟩

/-- with a time-independent `==` the history is moreover the list-level one (`Ledger.lhist`):
    which object ends up where is determined. -/
theorem history_ledger_exact (hE : E.Pure) (cap : Nat) (w0 : World K V Q) (hb : Benign w0)
    (ops : List (Ledger.LOp K V Q)) :
    ∃ sf, Ledger.lmhist E ops ⟨Raw.new cap, w0⟩ = some (sf, (Ledger.lhist E cap ops []).2.2.1) ∧
      Rep sf.r (Ledger.lhist E cap ops []).1 ∧ WRel w0 sf.w (Ledger.lhist E cap ops []).2.2.2 := by
  obtain ⟨sf, h1, h2, _, h4⟩ := Ledger.lmhist_refines E hE ops ⟨Raw.new cap, w0⟩ [] (Rep.new cap) hb
  exact ⟨sf, h1, h2, h4⟩

/-- the step-level fact behind it (list level, any list): stored + passed in = stored' + handed
    back + dropped, for each owning operation. -/
theorem step_ledger (hv : E.vGlue = true) (w : Obj K V → Nat) (cap : Nat) (l : List (K × V))
    (op : Ledger.LOp K V Q) :
    match Ledger.lstep E cap l op with
    | .ok l' back tr => Ledger.wpairs w l + Ledger.wsum w op.inObjs =
        Ledger.wpairs w l' + Ledger.wsum w back + Ledger.wsum w (Ledger.droppedOf tr)
    | .overflow tr => Ledger.wsum w op.inObjs = Ledger.wsum w (Ledger.droppedOf tr) :=
  Ledger.lstep_conserves E hv w cap l op (fun _ _ hf => Ledger.findKey_lt E hf)

/-! ### (3') the ledger over histories of every safe single-register operation -/

section Ledger2
open Ledger Ledger2

/-- **Every object is in exactly one place, over any history of `L2Op`.**

    COVERED (one map register; every operation is the model's `stepMapOp` on it — `l2mrun_is_step` —
    except `extend`, which is the model's `extendLoop`, the `Extend for Set` — `l2mrun_extend_is_set_extend`):
    `insert`, `insert_key_value`, `checked_insert` (with the overflow panic / the rejection: both
    arguments dropped), `get`, `get_key_value`, `contains_key`, `len`, `is_empty`, `capacity`,
    `with_capacity`, `fmt`, `remove`, `remove_entry`, `clear`, `retain` (the predicate may write
    through its `&mut V`), `get_mut` / `index` / `index_mut` (followed by a write; `index` of an
    absent key panics), `get_disjoint_mut` (followed by a write through every returned reference;
    overlapping keys panic), the borrowing iterators `iter` / `keys` / `values` / `iter_mut` /
    `values_mut` with any script (`next`, `len`, `size_hint`, `Debug`, `clone`, `count`, `fold`; the
    `*_mut` kinds write through the references they yield), `drain` with any `take`, the `Drain`
    dropped OR `mem::forget`-ten, `into_iter` / `into_keys` / `into_values` with any `take`, the
    iterator dropped OR forgotten (the register holds a fresh `new()` afterwards: stored' = []), the entry chains `entry(k).and_modify(g)*.<fin>`
    for all 16 terminals (`or_insert`, `or_insert_with`, `or_insert_with_key`, `or_default`, `key`,
    dropped unused, `OccupiedEntry::{key, get, get_mut, insert, remove, remove_entry, into_mut}`,
    `VacantEntry::{key, into_key, insert}`), `extend` (the loop `for (k, v) in xs { m.insert(k, v); }`
    on the register: the body of `from_iter` and of `Extend for Set`, with or without an
    instrumented source, including the overflow panic in the middle: what was inserted stays, the
    pair being inserted is dropped, the un-pulled rest of the source is dropped), `drop` of the
    map (the register holds a fresh `new()` afterwards) and `mem::forget` of the map.

    STATEMENT: from `new()` of any capacity, in a benign world, for ANY user equality (lawful or
    not) and a value type with drop glue, the history runs without `ub`, and for EVERY weighting
    `w` of objects that the in-place writes of the history respect (`L2Op.WOk w`: `w (g v) = w v` for
    the functions `g` written through `&mut V` — a write changes a value in place, it neither
    creates nor destroys one; no condition for histories without such writes)

        Σ w(passed in) + Σ w(created)
          = Σ w(stored at the end) + Σ w(unreachable at the end) + Σ w(handed back) + Σ w(dropped) + Σ w(leaked)

    "created" are the clone results in the effect trace (none: `createdOf tr = []`, these
    operations do not clone — so the left side is just Σ w(passed in); see
    `Ledger2.clone_conserves` for `clone`), "dropped" the drop log, "leaked" the suffix
    `World.leaked` grew by (`forget` of the map, of a consuming iterator; an `insert` that
    overwrites an unreachable slot), and "unreachable" (`Ledger2.garb`, the weight of `garbage`)
    the ghost-live slots at or beyond `len`: that is where a forgotten `Drain` leaves its
    un-yielded entries — as in the crate they are not destroyed and not recorded anywhere at that
    moment; they are leaked in place.  With `w` the indicator of one object: an object passed in
    once is at the end in exactly one of the five places, and was destroyed at most once.
    Accounting conventions: a value passed to a terminal that does not consume it
    (`or_insert_with(|| v)` on an occupied entry — the closure is not run —, `occ_insert v` on a
    vacant entry, …) counts as handed back; `into_keys` hands back the keys and drops the values.

    STILL OUTSIDE of the full operation language (`Op`): the two `unsafe fn`s (`insert_unchecked`,
    `get_disjoint_unchecked_mut`), and everything that involves a second register: `eq` (reads
    two maps), `serde`, `clone_to` and `from_iter` at the system level (their scratch-register
    halves are `Ledger2.clone_conserves` and `Ledger2.from_iter_conserves`; the assignment to the
    destination drops its old content: `L2Op.drop`), the set-only operations
    (`alg`, `sub`, `is_subset`, …; every forwarding `Set` method is the `Map<T, (), N>` method, see
    `history_ledger2_sets`), histories over several registers, and injected panics (for those the
    step lemma `Ledger2.l2mrun_cons` still gives: an unwinding step is either an injected panic or
    exactly balanced). -/
theorem history_ledger2 (hv : E.vGlue = true) (cap : Nat) (w0 : World K V Q) (hb : Benign w0)
    (ops : List (L2Op K V Q)) (w : Obj K V → Nat) (hops : ∀ op ∈ ops, op.WOk w) :
    ∃ sf back tr lk lf, l2mhist E ops ⟨Raw.new cap, w0⟩ = some (sf, back) ∧ Rep sf.r lf ∧
      WRel w0 sf.w tr ∧ sf.w.leaked = w0.leaked ++ lk ∧ Own.createdOf tr = [] ∧
      wsum w (ops.flatMap L2Op.inObjs) + wsum w (Own.createdOf tr) =
        wpairs w lf + garb w sf.r + wsum w back + wsum w (droppedOf tr) + wsum w lk := by
  obtain ⟨sf, back, tr, lk, lf, h1, h2, _, _, h5, h6, hc, h7⟩ :=
    l2mhist_conserves (Or.inl hv) ops ⟨Raw.new cap, w0⟩ [] hops (Rep.new cap) (fun _ => List.Pairwise.nil) hb
  refine ⟨sf, back, tr, lk, lf, h1, h2, h5, h6, hc, ?_⟩
  have h0 : garb w (Raw.new cap : Raw K V) = 0 := garb_new w cap
  simp only [wpairs_nil, h0] at h7
  omega

/-- the restricted form: for histories whose closures do not write (`L2Op.NoWrite`: `retain`
    predicates that only look, no `and_modify` / `get_mut` writes), EVERY weighting is admissible. -/
theorem history_ledger2_noWrite (hv : E.vGlue = true) (cap : Nat) (w0 : World K V Q) (hb : Benign w0)
    (ops : List (L2Op K V Q)) (hops : ∀ op ∈ ops, op.NoWrite) (w : Obj K V → Nat) :
    ∃ sf back tr lk lf, l2mhist E ops ⟨Raw.new cap, w0⟩ = some (sf, back) ∧ Rep sf.r lf ∧
      WRel w0 sf.w tr ∧ sf.w.leaked = w0.leaked ++ lk ∧ Own.createdOf tr = [] ∧
      wsum w (ops.flatMap L2Op.inObjs) + wsum w (Own.createdOf tr) =
        wpairs w lf + garb w sf.r + wsum w back + wsum w (droppedOf tr) + wsum w lk :=
  history_ledger2 E hv cap w0 hb ops w (fun op hop => L2Op.WOk_of_noWrite w op (hops op hop))

/-- the same for `V = ()` (the set registers: `Set<T, N>` is a `Map<T, (), N>`) and generally for
    any `E` — with or without drop glue for values — when the weighting does not see values: then
    the ledger is about the keys alone. -/
theorem history_ledger2_sets (cap : Nat) (w0 : World K V Q) (hb : Benign w0)
    (ops : List (L2Op K V Q)) (w : Obj K V → Nat) (hw0 : ∀ v, w (.v v) = 0) :
    ∃ sf back tr lk lf, l2mhist E ops ⟨Raw.new cap, w0⟩ = some (sf, back) ∧ Rep sf.r lf ∧
      WRel w0 sf.w tr ∧ sf.w.leaked = w0.leaked ++ lk ∧ Own.createdOf tr = [] ∧
      wsum w (ops.flatMap L2Op.inObjs) + wsum w (Own.createdOf tr) =
        wpairs w lf + garb w sf.r + wsum w back + wsum w (droppedOf tr) + wsum w lk := by
  have hops : ∀ op ∈ ops, op.WOk w := by
    intro op _
    cases op with
    | retain f => exact fun n k v => by rw [hw0, hw0]
    | get_mut pr g => exact fun v => by rw [hw0, hw0]
    | index_mut pr g => exact fun v => by rw [hw0, hw0]
    | iter R kind g script => exact fun _ v => by rw [hw0, hw0]
    | get_disjoint_mut g ks => exact fun v => by rw [hw0, hw0]
    | entry k mods fin =>
      refine ⟨fun g _ v => by rw [hw0, hw0], ?_⟩
      cases fin <;> first | exact trivial | exact fun v => by rw [hw0, hw0]
    | _ => exact trivial
  obtain ⟨sf, back, tr, lk, lf, h1, h2, _, _, h5, h6, hc, h7⟩ :=
    l2mhist_conserves (Or.inr hw0) ops ⟨Raw.new cap, w0⟩ [] hops (Rep.new cap) (fun _ => List.Pairwise.nil) hb
  refine ⟨sf, back, tr, lk, lf, h1, h2, h5, h6, hc, ?_⟩
  have h0 : garb w (Raw.new cap : Raw K V) = 0 := garb_new w cap
  simp only [wpairs_nil, h0] at h7
  omega

/-- `history_ledger` is the special case of the operations of `Ledger.LOp`: the two runners agree. -/
theorem l2mhist_ofLOp : ∀ (ops : List (LOp K V Q)) (s : St K V Q),
    l2mhist E (ops.map L2Op.ofLOp) s = lmhist E ops s
  | [], _ => rfl
  | op :: ops, s => by
    simp only [List.map_cons, l2mhist, lmhist, l2mrun_ofLOp]
    cases lmrun E op s with
    | ok back s' => simp only [l2mhist_ofLOp ops s']
    | panic c s' => simp only [l2mhist_ofLOp ops s']
    | ub => rfl

/-- the step-level fact behind it, in ANY world (injected panics included) and for any user
    equality, on a container that satisfies the invariant: the step does not reach `ub`; if it
    returns, `live slots + passed in + created = live slots' + handed back + dropped + leaked`
    (`Own.Bal`); if it unwinds it hands nothing back, and either the panic is an injected one or
    the same equation holds with nothing handed back. -/
theorem step_ledger2 (hv : E.vGlue = true) (w : Obj K V → Nat) (op : L2Op K V Q) (hop : op.WOk w)
    {s : St K V Q} (hs : Inv E s.r) :
    match l2mrun E op s with
    | .ok back s' => Own.Bal Own.notClone w s s' (wsum w op.inObjs) (wsum w back)
    | .panic c s' => (c = .inject ∧ s.w.inject ≠ none) ∨ Own.Bal Own.notClone w s s' (wsum w op.inObjs) 0
    | .ub => False := by
  have hC := l2mrun_cons (P := Own.notClone) (Or.inl hv) op hop hs
  have hI := l2mrun_opInv E op s hs
  unfold Own.ConsAt at hC
  cases hm : l2mrun E op s with
  | ok back s' => rw [hm] at hC; exact hC
  | panic c s' =>
    rw [hm] at hC
    rcases hC with h | ⟨q, hq, hb⟩
    · exact Or.inl h
    · cases hq; exact Or.inr hb
  | ub => exact absurd hm (Sat.not_ub hI)

/-! ### the operation language contains the new operations; the hypotheses are satisfiable -/

/-- forgotten drains and consuming iterators, entry chains, `retain`, `extend`, `drop`, `forget`
    are operations of the language, and they are the model's operations. -/
example : (L2Op.drain 1 true : L2Op Nat Nat Nat).toMapOp = some (.drain 1 true) := rfl
example : (L2Op.into_iter .keys 2 true : L2Op Nat Nat Nat).toMapOp = some (.into_iter .keys 2 true) := rfl
example : (L2Op.entry 3 [(· + 1)] (.or_insert 7) : L2Op Nat Nat Nat).toMapOp =
    some (.entry 3 [(· + 1)] (.or_insert 7)) := rfl
example : (L2Op.ofLOp (.drain 2) : L2Op Nat Nat Nat) = .drain 2 false := rfl
example : (L2Op.get_disjoint_mut (· + 1) [.key 1, .key 2] : L2Op Nat Nat Nat).toMapOp =
    some (.get_disjoint_mut false (· + 1) [.key 1, .key 2]) := rfl

/-- a concrete run: `u64` keys and values with the derived `==`. -/
def ledgerEnv0 : Env Nat Nat Nat :=
  { eqK := fun _ a b => a == b, eqQ := fun _ a b => a == b, eqV := fun a b => a == b, borrow := id,
    clK := fun _ k => k, clV := fun _ v => v }

/-- two inserts, a `drain` that yields one pair and is then FORGOTTEN, two more inserts into the
    map of capacity 2 -/
def ledgerOps0 : List (L2Op Nat Nat Nat) :=
  [.insert 1 10, .insert 2 20, .drain 1 true, .insert 3 30, .insert 4 40]

/-- after the forgotten drain and one insert: one stored pair, nothing recorded as leaked, but the
    un-yielded pair `(2, 20)` still sits in slot 1 beyond `len`: two unreachable objects … -/
example : (l2mhist ledgerEnv0 (ledgerOps0.take 4) ⟨Raw.new 2, {}⟩).map
    (fun r => (r.1.r.len, r.1.w.leaked.length, (garbage r.1.r).length)) = some (1, 0, 2) := by decide

/-- … which the next insert overwrites: now they are in `World.leaked` and nothing is unreachable;
    two objects (the yielded pair) were handed back. -/
example : (l2mhist ledgerEnv0 ledgerOps0 ⟨Raw.new 2, {}⟩).map
    (fun r => (r.1.r.len, r.1.w.leaked.length, (garbage r.1.r).length, r.2.length)) = some (2, 2, 0, 2) := by
  decide

/-- a weighting by identity of keys (values unweighted … or any weighting invariant under the
    writes): `WOk` holds for a history that writes through `&mut V`. -/
example : ∀ op ∈ ([.insert 1 10, .retain (fun _ _ v => (true, v + 1)), .get_mut (.key 1) (· * 2),
      .entry 1 [(· + 1)] (.occ_get_mut (· + 5)), .drain 1 true, .extend false [(2, 20), (3, 30)],
      .into_iter .values 1 true, .forget] : List (L2Op Nat Nat Nat)),
    op.WOk (fun o => match o with | .k k => k + 1 | .v _ => 0) := by
  intro op hop
  simp only [List.mem_cons, List.mem_nil_iff, or_false] at hop
  rcases hop with rfl | rfl | rfl | rfl | rfl | rfl | rfl | rfl <;> simp [L2Op.WOk, Own.finWOk]

/-- … and for histories without in-place writes every weighting is admissible. -/
example (w : Obj Nat Nat → Nat) : ∀ op ∈ ([.insert 1 10, .drain 0 true, .insert 2 20,
      .entry 1 [] (.vac_insert 5), .into_iter .keys 1 false, .drop] : List (L2Op Nat Nat Nat)), op.WOk w := by
  intro op hop
  simp only [List.mem_cons, List.mem_nil_iff, or_false] at hop
  rcases hop with rfl | rfl | rfl | rfl | rfl | rfl <;> simp [L2Op.WOk, Own.finWOk]


end Ledger2

/-! ### (3'') the system-level ledger

C02 (3''), the SYSTEM-LEVEL LEDGER — "each element is destroyed exactly once unless it was handed to
the caller or forgotten", over the model's real transition function `Micromap.step` / `Micromap.run`
and the whole safe operation language `Op` with its four registers (`maps 0/1`, `sets 0/1`):
every `MapOp` on a map register, every `SetOp` on a set register, every `Map<K, (), N>` operation on a
set register (`umap`), the operations that involve a second or a scratch register (`clone_to`,
`from_iter`, `eq`, `serde`, the lazy set algebra `alg`, `is_subset` / `is_superset` / `is_disjoint`,
`&a - &b`, `extend`, `a.extend(b)` with the set `b` moved in — `extend_from`, which consumes a second
register), fault injection (`inject`) and the final drop of all registers (`endCase`).

ACCOUNTING CONVENTIONS (all definitions are in `Proofs/OwnAlg.lean`, `Proofs/OwnSys.lean`).
* `sysLive w sys`: the weight of ALL ghost-live slots of the four registers (`Own.live`: stored
  entries and unreachable slots at or beyond `len`); a set register holds only keys (`wU w`: the
  unit values carry no object).
* `Op.inObjs op` ("passed in"): every key and value object the operation text carries — arguments of
  the inserts, the lists of `from_iter` / `extend`, the key of an entry chain and the value of its
  terminal.  For `umap` only the keys; the three `umap` operations that `stepCore` does not execute
  (`clone_to`, `from_iter`, `serde`) carry nothing.  `extend_from` carries nothing either: the objects
  it moves are those of the source register, which is one of the four registers of `sysLive`.
* "created": `Own.createdOf out.events`, the results of the `clone` callbacks of the step, PLUS the
  decode results `dec` of a `serde` step: `decodeK` / `decodeV` (the element types' `deserialize`)
  return a fresh object and log NO event, so they are not in `createdOf` (which is kept as it is);
  they are pinned down by `Op.DecOf` / `OwnSys.DecOf`: one key and one value object per entry of a
  PREFIX of the serialized source register (`Raw.abs`) — of all entries when the step returned —,
  with exactly the identities the model gives them: `E.clK n k`, `E.clV (n + 1) v` (`v` itself without
  drop glue), `n` = the fresh-object counter `World.nextId` at the start of the step, advancing by 2
  (1) per entry.  `dec = []` for every other operation.
* `Op.owned op out.ret` ("handed back"): the keys, values and pairs of the returned value tree that
  are NOT under a `ref` / `oref` constructor (`RV.owned`: `remove` returns an owned value, `get` a
  reference, drained / consumed items are owned, iterator and set-algebra items are references),
  EXCEPT for entry chains, where it is `Own.finBack` read off the result `[tag "occ"/"vac", r]`
  (`entryOwned`; `uEntryOwned` after the cast for `umap`): the terminals `key`, `OccupiedEntry::key`,
  `VacantEntry::key` return the key BY REFERENCE in Rust, but the model renders it as a bare `.key k`
  (a vacant entry has no slot to refer to) — it is NOT owned; and a value passed to a terminal that
  does not consume it (`or_insert_with(|| v)` on an occupied entry — the closure is not run —,
  `occ_insert v` on a vacant entry, …) stays with the caller: it counts as handed back.
  A step that unwinds shows `ret = unit`: it hands nothing back.
* "dropped": `Ledger.droppedOf out.events`, the drop log of the step (`Out.events` is per step).
* "leaked": the suffix `lk` that `World.leaked` grew by.  After `endCase` every register is a fresh
  `new()`, so `sysLive = 0`, nothing is unreachable, and the step's `Out.leaks`
  (`World.leaked ++ allGarbage`) is exactly `World.leaked`.
* `Op.WOk w op`: the weighting does not tell `g v` from `v` for the functions `g` the operation writes
  through `&mut V` (`Own.HV E w`: values have drop glue, or the weighting does not see values).

EXCLUDED: the two `unsafe fn`s (`insert_unchecked`, `get_disjoint_unchecked_mut`: `Op.safeApi`), and
operations that name a register other than the `nRegs = 2` registers of each kind that `endCase`
drops (`Op.regsOk`, defined through the model's `touched`): the ledger counts four registers.
After an INJECTED panic (a user callback panicked) nothing is claimed about that step.
-/

section SysLedger
open Ledger Own OwnSys

/-- **One step of the system conserves objects.**  For `Micromap.step` on every safe operation over
    the existing registers, ANY user equality, ANY world (armed injections included), either
    profile, from any state that satisfies the invariant, and every weighting `w` admissible for the
    in-place writes of the operation: the step does not reach `ub`, keeps the invariant, and

    * if it returns:
      `live + passed in + created (+ decoded) = live' + handed back + dropped + leaked`;
    * if it unwinds with class `c`: either `c = inject` and an injection was armed, or the same
      equation holds with nothing handed back (`out.ret = unit`) — the container's own panics
      (overflow, `index` of an absent key, overlapping keys, capacity mismatch) balance exactly. -/
theorem step_ledger_sys (w : Obj K V → Nat) (hv : HV E w) {sys : Sys K V Q} (hs : SysInv E sys) (op : Op K V Q)
    (hsafe : op.safeApi = true) (hreg : op.regsOk = true) (hop : op.WOk w) :
    (step E R sys op).2.outcome ≠ .ub ∧ SysInv E (step E R sys op).1 ∧
    ((step E R sys op).2.outcome = .ok →
      ∃ lk dec, (step E R sys op).1.w.leaked = sys.w.leaked ++ lk ∧ op.DecOf E sys true dec ∧
        sysLive w sys + wsum w op.inObjs + wsum w (createdOf (step E R sys op).2.events) + wsum w dec =
          sysLive w (step E R sys op).1 + wsum w (op.owned (step E R sys op).2.ret) +
            wsum w (droppedOf (step E R sys op).2.events) + wsum w lk) ∧
    (∀ c, (step E R sys op).2.outcome = .panic c → (c = .inject ∧ sys.w.inject ≠ none) ∨
      ∃ lk dec, (step E R sys op).1.w.leaked = sys.w.leaked ++ lk ∧ op.DecOf E sys false dec ∧
        (step E R sys op).2.ret = .unit ∧
        sysLive w sys + wsum w op.inObjs + wsum w (createdOf (step E R sys op).2.events) + wsum w dec =
          sysLive w (step E R sys op).1 + wsum w (droppedOf (step E R sys op).2.events) + wsum w lk) := by
  obtain ⟨h1, h2, h3⟩ := step_scons (w := w) E hv R hs op hsafe hreg hop
  refine ⟨h1, h2, ?_, ?_⟩
  · intro hok
    rcases h3 with ⟨hp, _⟩ | ⟨lk, dec, hl, hd, he⟩
    · rw [hok] at hp; cases hp
    · rw [hok] at hd
      exact ⟨lk, dec, hl, hd, he⟩
  · intro c hc
    rcases h3 with ⟨hp, ha⟩ | ⟨lk, dec, hl, hd, he⟩
    · rw [hc] at hp
      injection hp with hp
      exact Or.inl ⟨hp, ha⟩
    · rw [hc] at hd
      have hret := step_ret_panic E R sys op hc
      refine Or.inr ⟨lk, dec, hl, hd, hret, ?_⟩
      unfold StepEq at he
      rw [hret, Op.owned_unit] at he
      omega

/-- **The ledger over every history** (no injection: every step balances exactly).  From `new()`
    registers of any capacities, a world in which no fault is armed, ANY user equality, for every list
    of safe operations (none of them `inject`) over the existing registers and every weighting
    admissible for their in-place writes: no step reaches `ub`, and

        Σ w(passed in) + Σ w(created) + Σ w(decoded)
          = sysLive w (final state) + Σ w(handed back) + Σ w(dropped) + Σ w(leaked)

    summed over all steps (`runIn`, `runCreated`, `runOwned`, `runDropped`; `DecRun`: the decode results
    of the `serde` steps; `lk`: what `World.leaked` grew by).  With `w` the indicator of one object:
    an object passed in or created once is, at the end, in exactly one place — a live slot, the
    caller's hands, the drop log (once), or the leak list. -/
theorem run_ledger (capM capS : Nat → Nat) (w0 : World K V Q) (hb : Benign w0) (ops : List (Op K V Q))
    (w : Obj K V → Nat) (hv : HV E w)
    (hops : ∀ op ∈ ops, op.safeApi = true ∧ op.regsOk = true ∧ op.WOk w ∧ ∀ j, op ≠ .inject j) :
    (∀ o ∈ (run E R (Sys.init capM capS w0) ops).2, o.outcome ≠ .ub) ∧
    ∃ lk dec, (run E R (Sys.init capM capS w0) ops).1.w.leaked = w0.leaked ++ lk ∧
      DecRun E R (Sys.init capM capS w0) ops dec ∧
      wsum w (runIn ops) + wsum w (runCreated (run E R (Sys.init capM capS w0) ops).2) + wsum w dec =
        sysLive w (run E R (Sys.init capM capS w0) ops).1 +
          wsum w (runOwned ops (run E R (Sys.init capM capS w0) ops).2) +
          wsum w (runDropped (run E R (Sys.init capM capS w0) ops).2) + wsum w lk := by
  have hs := SysInv.init E capM capS w0
  refine ⟨(run_inv E R ops _ hs (fun op ho => (hops op ho).1)).1, ?_⟩
  rcases run_bal (w := w) E hv R ops _ hs (fun op ho => ⟨(hops op ho).1, (hops op ho).2.1, (hops op ho).2.2.1⟩) with
    hinj | ⟨lk, dec, hl, hd, he⟩
  · exact absurd hinj (not_injectedRun E R ops _ hs hb.1 (fun op ho => ⟨(hops op ho).1, (hops op ho).2.2.2⟩))
  · refine ⟨lk, dec, hl, hd, ?_⟩
    unfold RunEq at he
    rw [sysLive_init] at he
    omega

/-- … with injections allowed (any world, `inject` operations in the history): either some step
    unwound from an injected panic (then nothing is claimed), or the same equation holds. -/
theorem run_ledger_inj (capM capS : Nat → Nat) (w0 : World K V Q) (ops : List (Op K V Q))
    (w : Obj K V → Nat) (hv : HV E w) (hops : ∀ op ∈ ops, op.safeApi = true ∧ op.regsOk = true ∧ op.WOk w) :
    (∃ o ∈ (run E R (Sys.init capM capS w0) ops).2, o.outcome = .panic .inject) ∨
    ∃ lk dec, (run E R (Sys.init capM capS w0) ops).1.w.leaked = w0.leaked ++ lk ∧
      DecRun E R (Sys.init capM capS w0) ops dec ∧
      wsum w (runIn ops) + wsum w (runCreated (run E R (Sys.init capM capS w0) ops).2) + wsum w dec =
        sysLive w (run E R (Sys.init capM capS w0) ops).1 +
          wsum w (runOwned ops (run E R (Sys.init capM capS w0) ops).2) +
          wsum w (runDropped (run E R (Sys.init capM capS w0) ops).2) + wsum w lk := by
  have hs := SysInv.init E capM capS w0
  rcases run_bal (w := w) E hv R ops _ hs hops with hinj | ⟨lk, dec, hl, hd, he⟩
  · exact Or.inl (injectedRun_out E R ops _ hinj)
  · refine Or.inr ⟨lk, dec, hl, hd, ?_⟩
    unfold RunEq at he
    rw [sysLive_init] at he
    omega

theorem endCase_ok (w : Obj K V → Nat) : (Op.endCase : Op K V Q).safeApi = true ∧ (Op.endCase : Op K V Q).regsOk = true ∧
    (Op.endCase : Op K V Q).WOk w ∧ ∀ j, (Op.endCase : Op K V Q) ≠ .inject j :=
  ⟨rfl, rfl, trivial, fun _ h => by cases h⟩

/-- **Each element is destroyed exactly once unless it was handed to the caller or forgotten.**
    The history of `run_ledger` followed by `endCase` (the drop of every register): the last step
    returns, the registers are empty afterwards (`sysLive = 0`), so EVERYTHING passed in, created or
    decoded during the history was handed back, dropped (it is in the drop log of some step, once),
    or is listed in the last step's `Out.leaks` (= `World.leaked ++ allGarbage` = everything ever
    leaked: forgotten containers, iterators and drains, values lost when a `Drop` unwinds, slots
    overwritten while live). -/
theorem run_and_drop_ledger (capM capS : Nat → Nat) (w0 : World K V Q) (hb : Benign w0) (ops : List (Op K V Q))
    (w : Obj K V → Nat) (hv : HV E w)
    (hops : ∀ op ∈ ops, op.safeApi = true ∧ op.regsOk = true ∧ op.WOk w ∧ ∀ j, op ≠ .inject j) :
    (∀ o ∈ (run E R (Sys.init capM capS w0) (ops ++ [.endCase])).2, o.outcome ≠ .ub) ∧
    ∃ last lk dec, (run E R (Sys.init capM capS w0) (ops ++ [.endCase])).2.getLast? = some last ∧
      last.outcome = .ok ∧ last.leaks = w0.leaked ++ lk ∧
      sysLive w (run E R (Sys.init capM capS w0) (ops ++ [.endCase])).1 = 0 ∧
      DecRun E R (Sys.init capM capS w0) (ops ++ [.endCase]) dec ∧
      wsum w (runIn (ops ++ [.endCase])) + wsum w (runCreated (run E R (Sys.init capM capS w0) (ops ++ [.endCase])).2) +
          wsum w dec =
        wsum w (runOwned (ops ++ [.endCase]) (run E R (Sys.init capM capS w0) (ops ++ [.endCase])).2) +
          wsum w (runDropped (run E R (Sys.init capM capS w0) (ops ++ [.endCase])).2) + wsum w lk := by
  have hops' : ∀ op ∈ ops ++ [Op.endCase], op.safeApi = true ∧ op.regsOk = true ∧ op.WOk w ∧ ∀ j, op ≠ .inject j := by
    intro op ho
    rcases List.mem_append.mp ho with h | h
    · exact hops op h
    · have : op = .endCase := by simpa using h
      subst this
      exact endCase_ok w
  obtain ⟨hub, lk, dec, hl, hd, he⟩ := run_ledger E R capM capS w0 hb (ops ++ [.endCase]) w hv hops'
  refine ⟨hub, ?_⟩
  obtain ⟨e1, e2⟩ := run_append E R ops [.endCase] (Sys.init capM capS w0)
  have hs1 : SysInv E (run E R (Sys.init capM capS w0) ops).1 :=
    (run_inv E R ops _ (SysInv.init E capM capS w0) (fun op ho => (hops op ho).1)).2
  obtain ⟨g1, _, g3, g4, _, _⟩ := step_endCase (w := w) E hv R hs1
  have hfin : (run E R (Sys.init capM capS w0) (ops ++ [.endCase])).1 =
      (step E R (run E R (Sys.init capM capS w0) ops).1 .endCase).1 := by rw [e1]; rfl
  refine ⟨(step E R (run E R (Sys.init capM capS w0) ops).1 .endCase).2, lk, dec, ?_, g1, ?_, ?_, hd, ?_⟩
  · rw [e2, show (run E R (run E R (Sys.init capM capS w0) ops).1 [Op.endCase]).2 =
        [(step E R (run E R (Sys.init capM capS w0) ops).1 Op.endCase).2] from rfl]
    exact List.getLast?_concat ..
  · rw [g4, ← hfin, hl]
  · rw [hfin]; exact g3
  · rw [hfin, g3] at he
    omega

/-- … with injections allowed: `endCase` disarms the fault before it drops, so the last step always
    returns and empties the registers; either some earlier step unwound from an injected panic, or
    the equation of `run_and_drop_ledger` holds. -/
theorem run_and_drop_ledger_inj (capM capS : Nat → Nat) (w0 : World K V Q) (ops : List (Op K V Q))
    (w : Obj K V → Nat) (hv : HV E w) (hops : ∀ op ∈ ops, op.safeApi = true ∧ op.regsOk = true ∧ op.WOk w) :
    sysLive w (run E R (Sys.init capM capS w0) (ops ++ [.endCase])).1 = 0 ∧
    ((∃ o ∈ (run E R (Sys.init capM capS w0) (ops ++ [.endCase])).2, o.outcome = .panic .inject) ∨
    ∃ lk dec, (run E R (Sys.init capM capS w0) (ops ++ [.endCase])).1.w.leaked = w0.leaked ++ lk ∧
      DecRun E R (Sys.init capM capS w0) (ops ++ [.endCase]) dec ∧
      wsum w (runIn (ops ++ [.endCase])) + wsum w (runCreated (run E R (Sys.init capM capS w0) (ops ++ [.endCase])).2) +
          wsum w dec =
        wsum w (runOwned (ops ++ [.endCase]) (run E R (Sys.init capM capS w0) (ops ++ [.endCase])).2) +
          wsum w (runDropped (run E R (Sys.init capM capS w0) (ops ++ [.endCase])).2) + wsum w lk) := by
  have hops' : ∀ op ∈ ops ++ [Op.endCase], op.safeApi = true ∧ op.regsOk = true ∧ op.WOk w := by
    intro op ho
    rcases List.mem_append.mp ho with h | h
    · exact hops op h
    · have : op = .endCase := by simpa using h
      subst this
      exact ⟨rfl, rfl, trivial⟩
  obtain ⟨e1, _⟩ := run_append E R ops [.endCase] (Sys.init capM capS w0)
  have hs1 : SysInv E (run E R (Sys.init capM capS w0) ops).1 :=
    (run_inv E R ops _ (SysInv.init E capM capS w0) (fun op ho => (hops op ho).1)).2
  obtain ⟨_, _, g3, _, _, _⟩ := step_endCase (w := w) E hv R hs1
  have hfin : (run E R (Sys.init capM capS w0) (ops ++ [.endCase])).1 =
      (step E R (run E R (Sys.init capM capS w0) ops).1 .endCase).1 := by rw [e1]; rfl
  refine ⟨by rw [hfin]; exact g3, ?_⟩
  rcases run_ledger_inj E R capM capS w0 (ops ++ [.endCase]) w hv hops' with h | ⟨lk, dec, hl, hd, he⟩
  · exact Or.inl h
  · refine Or.inr ⟨lk, dec, hl, hd, ?_⟩
    rw [hfin, g3] at he
    omega

/-! ### the operation language contains the multi-register operations; a concrete run balances -/

example : (Op.map 0 (.clone_to 1) : Op K V Q).safeApi = true := rfl
example : (Op.map 0 (.eq 1) : Op K V Q).safeApi = true := rfl
example : (Op.map 0 (.serde 1) : Op K V Q).safeApi = true := rfl
example (xs : List (K × V)) : (Op.map 1 (.from_iter true xs) : Op K V Q).safeApi = true := rfl
example : (Op.set 0 (.alg .symmetric_difference 1 [.next, .clone, .fold]) : Op K V Q).safeApi = true := rfl
example : (Op.set 0 (.sub 1 0) : Op K V Q).safeApi = true := rfl
example : (Op.set 1 (.serde 0) : Op K V Q).safeApi = true := rfl
example : (Op.set 0 (.extend_from 1) : Op K V Q).safeApi = true := rfl
example : (Op.set 0 (.extend_from 1) : Op K V Q).regsOk = true := rfl
example : (Op.set 0 (.extend_from 2) : Op K V Q).regsOk = false := rfl
example : (Op.set 0 (.extend_from 1) : Op K V Q).inObjs = [] := rfl
example (w : Obj K V → Nat) : (Op.set 0 (.extend_from 1) : Op K V Q).WOk w := trivial
example (k : K) : (Op.umap 0 (.entry k [] .occ_remove_entry) : Op K V Q).safeApi = true := rfl
example : (Op.map 0 (.clone_to 1) : Op K V Q).regsOk = true := rfl
example : (Op.set 0 (.sub 1 0) : Op K V Q).regsOk = true := rfl
example : (Op.map 0 (.clone_to 2) : Op K V Q).regsOk = false := rfl

/-- `u64` keys and values with the derived `==`; `clone` and `deserialize` make objects with fresh
    identities (`+ 1000 · (id + 1)`). -/
def sysEnv0 : Env Nat Nat Nat :=
  { eqK := fun _ a b => a == b, eqQ := fun _ a b => a == b, eqV := fun a b => a == b, borrow := id,
    clK := fun n k => k + 1000 * (n + 1), clV := fun n v => v + 1000 * (n + 1) }

def sysR0 : Render Nat Nat :=
  { dbgK := fun _ _ => "", dbgV := fun _ _ => "", dspK := fun _ => "", dspV := fun _ => "" }

/-- a history over three of the four registers: an insert, a clone into `maps 1`, `==` of the two
    maps, a `remove` in the clone, `from_iter` with a duplicate into `sets 1`, `&sets 1 - &sets 0`
    assigned to `sets 0`, a serde round trip of `maps 0` into `maps 1` (whose old content is dropped), a
    `drain` of `maps 1` that yields nothing and is FORGOTTEN, `endCase`. -/
def sysOps0 : List (Op Nat Nat Nat) :=
  [.map 0 (.insert 1 10), .map 0 (.clone_to 1), .map 0 (.eq 1), .map 1 (.remove (.key 1001)),
   .set 1 (.from_iter false [5, 6, 5]), .set 1 (.sub 0 0), .map 0 (.serde 1), .map 1 (.drain 0 true), .endCase]

example : ∀ op ∈ sysOps0, op.safeApi = true ∧ op.regsOk = true := by decide

/-- what `Op.DecOf` says: with the id counter at 4, decoding the entry `(1, 10)` creates the key with
    id 4 and the value with id 5. -/
example : OwnSys.DecOf sysEnv0 true 4 [(1, 10)] [.k (sysEnv0.clK 4 1), .v (sysEnv0.clV 5 10)] :=
  .cons true 4 1 10 (.done true _)

/-- the history writes nothing in place: EVERY weighting is admissible (`Op.WOk_of_noWrite`). -/
example (w : Obj Nat Nat → Nat) : ∀ op ∈ sysOps0, op.WOk w := by
  intro op hop
  apply Op.WOk_of_noWrite
  simp only [sysOps0, List.mem_cons, List.mem_nil_iff, or_false] at hop
  rcases hop with rfl | rfl | rfl | rfl | rfl | rfl | rfl | rfl | rfl <;> exact trivial

/-- a weighting by the identity of keys is admissible for operations that write through `&mut V`. -/
example : (Op.map 0 (.entry 1 [(· + 1)] (.occ_get_mut (· * 2))) : Op Nat Nat Nat).WOk
    (fun o => match o with | .k k => k + 1 | .v _ => 0) := by
  simp [Op.WOk, MapOp.WOk, Own.finWOk]

/-- the numbers of the ledger for that history, every object counting 1. -/
def sysNumbers0 : List Nat :=
  let r := run sysEnv0 sysR0 (Sys.init (fun _ => 1) (fun _ => 2) {}) sysOps0
  [sysLive (fun _ => 1) r.1, (runIn sysOps0).length, (runCreated r.2).length, r.1.w.nextId,
    (runOwned sysOps0 r.2).length, (runDropped r.2).length, r.1.w.leaked.length]

/-- 5 objects passed in, 4 cloned, 2 decoded (the id counter ends at 6 = 4 + 2); no live slot at the
    end, 1 handed back (the removed value), 8 dropped, 2 leaked (the pair the forgotten `Drain` left
    behind, unreachable until `endCase` forgets it): 5 + 4 + 2 = 0 + 1 + 8 + 2. -/
example : sysNumbers0 = [0, 5, 4, 6, 1, 8, 2] := by decide +kernel

/-- `a.extend(b)` with the set `b` moved in (`extend_from`), capacity 2 each: `a = {5, 6}`,
    `b = {6, 7}`; the consuming iterator yields `7` first, which finds `a` full: the step unwinds with
    the container's own overflow panic, `insert` drops `7`, the rest of `b` (`6`) is dropped with the
    iterator.  The step passes nothing in (`Op.inObjs = []`: the objects are those of register `b`). -/
def sysOps1 : List (Op Nat Nat Nat) :=
  [.set 0 (.from_iter false [5, 6]), .set 1 (.from_iter false [6, 7]), .set 0 (.extend_from 1), .endCase]

example : ∀ op ∈ sysOps1, op.safeApi = true ∧ op.regsOk = true := by decide

def sysNumbers1 : List Nat :=
  let r := run sysEnv0 sysR0 (Sys.init (fun _ => 1) (fun _ => 2) {}) sysOps1
  [sysLive (fun _ => 1) r.1, (runIn sysOps1).length, (runCreated r.2).length,
    (runOwned sysOps1 r.2).length, (runDropped r.2).length, r.1.w.leaked.length] ++
  r.2.map fun o => (droppedOf o.events).length

/-- 4 keys passed in, none created; at the end no live slot, nothing handed back, 4 dropped — 2 of them
    by the overflowing `extend_from` step (the surplus key and the rest of the source), 2 by `endCase` —,
    nothing leaked: 4 + 0 = 0 + 0 + 4 + 0. -/
example : sysNumbers1 = [0, 4, 0, 0, 4, 0, 0, 0, 2, 2] := by decide +kernel
example : ((run sysEnv0 sysR0 (Sys.init (fun _ => 1) (fun _ => 2) {}) sysOps1).2.map (·.outcome)) =
    [.ok, .ok, .panic .overflow, .ok] := by decide +kernel

end SysLedger

end Micromap.Props.C02
