/-
C06 — No heap: operations never allocate; elements live inside the container value.
PARTIAL (level "other").

What no executable model of the data structure can say: that the compiled crate performs no
allocator call and links without `std` is a fact about rustc/LLVM output and the linked crates.
The correspondence check MEASURES it on every run (a counting global allocator around every
operation: `al = 0` on every non-panicking operation with non-allocating element types; the
library is built with default features = `no_std` and with `std`); nothing here proves it.

What the technique can say, and does:
 (i)  in the model a reference IS a slot position of the container it came from, and every
      position handed out is below `len ≤ cap` — inside the bytes of the container value (the
      harness turns every returned address into a slot position and an `inside` flag and the
      comparator requires `inside = 1` and equal positions);
 (ii) the model has no allocation effect: the only effects of an operation are the callbacks
      into user code listed in `Event` (drop, clone, `==`, closure call, source `next`);
 (iii) the import frontier of the crate's non-test code, regenerated from /repo on every run by
      `tools/srcscan.py` into `Gen/Frontier.lean`, names only `core`, the crate itself and (under
      the feature) `serde`; no `extern crate`, no heap-owning std type, the `no_std` attribute is there.
-/
import Micromap.Gen.Frontier
import Micromap.Proofs.MapApi
import Micromap.Proofs.Disjoint
import Micromap.Props.C09

namespace Micromap.Props.C06
open Micromap
variable {K V Q : Type} (E : Env K V Q)

/-! ### (iii) the regenerated import frontier (finite table, decided completely) -/

/-- every `use` / qualified path of the non-test code is rooted in `core`, the crate itself, or
    `serde` (the optional dependency behind the `serde` feature) — never `std` or `alloc`. -/
theorem frontier_ok : ∀ p ∈ Gen.frontier, p.2 = .core ∨ p.2 = .crate_ ∨ p.2 = .serde := by decide

theorem no_extern_crate : Gen.externCrates = [] := by decide

theorem no_heap_names : Gen.heapNames = [] := by decide

theorem no_std_attr_present : Gen.noStdAttr = true := by decide

/-! ### (i) references are slot positions inside the container -/

/-- `get` / `get_key_value` / `Set::get`: the reference points at a slot below `len ≤ cap`. -/
theorem get_ref_inside {s : St K V Q} (hs : Safe s.r) (pr : Probe K Q) :
    Sat (get E pr) s (fun o _ => ∀ i p, o = some (i, p) → i < s.r.len ∧ s.r.len ≤ s.r.cap)
      (fun _ _ => True) := by
  refine Sat.mono (get_sat E hs.rep pr) ?_ (fun _ _ _ => trivial)
  intro o s' ⟨_, _, h3, _⟩ i p hip
  obtain ⟨hi, _⟩ := h3 i p hip
  exact ⟨by rw [hs.rep.1]; exact hi, hs.1⟩

/-- `get_mut`: likewise. -/
theorem get_mut_ref_inside {s : St K V Q} (hs : Safe s.r) (pr : Probe K Q) (g : V → V) :
    Sat (get_mut E pr g) s (fun o _ => ∀ i p, o = some (i, p) → i < s.r.len ∧ s.r.len ≤ s.r.cap)
      (fun _ _ => True) := by
  refine Sat.mono (get_mut_sat E hs.rep pr g) ?_ (fun _ _ _ => trivial)
  intro o s' ⟨_, _, h3, _⟩ i p hip
  rcases h3 with ⟨hn, _⟩ | ⟨j, hj, hoj, _⟩
  · rw [hn] at hip; cases hip
  · rw [hoj] at hip; cases hip
    exact ⟨by rw [hs.rep.1]; exact hj, hs.1⟩

/-- indexing: likewise. -/
theorem index_ref_inside {s : St K V Q} (hs : Safe s.r) (pr : Probe K Q) :
    Sat (index E pr) s (fun r _ => r.1 < s.r.len ∧ s.r.len ≤ s.r.cap) (fun _ _ => True) := by
  refine Sat.mono (index_sat E hs.rep pr) ?_ (fun _ _ _ => trivial)
  intro r s' ⟨_, _, ⟨hi, _⟩, _⟩
  exact ⟨by rw [hs.rep.1]; exact hi, hs.1⟩

/-- `get_disjoint_mut`: every reference handed out is a distinct slot below `len`. -/
theorem disjoint_refs_inside {s : St K V Q} (hs : Safe s.r) (ks : List (Probe K Q)) :
    Sat (get_disjoint_mut E ks) s
      (fun res _ => (∀ (t j : Nat), res[t]? = some (some j) → j < s.r.len) ∧ Disjoint.NoAlias res)
      (fun _ _ => True) := by
  refine Sat.mono (Disjoint.checked_sat E hs.rep ks) ?_ (fun _ _ _ => trivial)
  intro res s' ⟨_, _, _, h4, h5, _⟩
  exact ⟨fun t j h => by rw [hs.rep.1]; exact h4 t j h, h5⟩

/-- borrowing iterators: the `k`-th item is a reference into slot `k < len`. -/
theorem iter_item_inside {r : Raw K V} {l : List (K × V)} (hr : Rep r l) {k : Nat} (hk : k < l.length)
    (s : St K V Q) :
    iterNextR r ⟨k, l.length⟩ s = .ok (some (k, l[k]), ⟨k + 1, l.length⟩) s ∧ k < r.len ∧ r.len ≤ r.cap :=
  ⟨Iters.iterNextR_lt hr hk s, by rw [hr.1]; exact hk, hr.safe.1⟩

/-! ### (ii) the effects of the model -/

/-- every effect an operation can have on the outside world is a call into user code: there is
    no allocation event (the model cannot even express one). -/
theorem events_exhaustive (e : Event K V Q) :
    (∃ k, e = .dropK k) ∨ (∃ v, e = .dropV v) ∨ (∃ a b, e = .cloneK a b) ∨ (∃ a b, e = .cloneV a b) ∨
    (∃ a b r, e = .eqK a b r) ∨ (∃ a b r, e = .eqQ a b r) ∨ (∃ a b r, e = .eqV a b r) ∨
    (∃ t, e = .call t) ∨ e = .pull := by
  cases e with
  | dropK k => exact Or.inl ⟨k, rfl⟩
  | dropV v => exact Or.inr (Or.inl ⟨v, rfl⟩)
  | cloneK a b => exact Or.inr (Or.inr (Or.inl ⟨a, b, rfl⟩))
  | cloneV a b => exact Or.inr (Or.inr (Or.inr (Or.inl ⟨a, b, rfl⟩)))
  | eqK a b r => exact Or.inr (Or.inr (Or.inr (Or.inr (Or.inl ⟨a, b, r, rfl⟩))))
  | eqQ a b r => exact Or.inr (Or.inr (Or.inr (Or.inr (Or.inr (Or.inl ⟨a, b, r, rfl⟩)))))
  | eqV a b r => exact Or.inr (Or.inr (Or.inr (Or.inr (Or.inr (Or.inr (Or.inl ⟨a, b, r, rfl⟩))))))
  | call t => exact Or.inr (Or.inr (Or.inr (Or.inr (Or.inr (Or.inr (Or.inr (Or.inl ⟨t, rfl⟩)))))))
  | pull => exact Or.inr (Or.inr (Or.inr (Or.inr (Or.inr (Or.inr (Or.inr (Or.inr rfl)))))))

end Micromap.Props.C06
