/-
C20 — serde round trip reproduces the container (feature `serde`).

The statements are over the slice of the serde data model the impls use (`Tok`: the announced
length of `serialize_map` / `serialize_seq`, one `serialize_entry` / `serialize_element` per item,
`end`), not over any byte format: bincode's encoding is outside the model (the correspondence
check exercises it: it reads the announced length and the number of encoded entries off the
bytes and decodes them into containers of several capacities).
A decoded element is a new object with the content of the encoded one (`E.clK`, `E.clV`, as for
`Clone`); "equal to the original" needs what it needs for clones: decoding respects `==`
(`hk`, `hv` below).  Sets are the `V = ()` instance (`E.vGlue = false`, entries `(k, ())`).
-/
import Micromap.Proofs.Serde
import Micromap.Proofs.SysInv
import Micromap.Props.C14

namespace Micromap.Props.C20
open Micromap SetAlg Serde EqClone
variable {K V Q : Type} (E : Env K V Q)

/-- **Serialization emits exactly `len()` entries**: the announced length is `len()`, and the
    stream holds one entry per stored element — the stored elements, in iteration order — then the
    end marker; serializing changes nothing. -/
theorem serialize_emits_len {r : Raw K V} {l : List (K × V)} (hr : Rep r l) (s : St K V Q) :
    serializeR (Q := Q) r s = .ok (tokens l) s ∧
    tokens l = .start (some r.len) :: l.map (fun p => Tok.entry p.1 p.2) ++ [.fin] ∧
    (l.map (fun p => Tok.entry p.1 p.2)).length = r.len := by
  refine ⟨serializeR_ok hr s, by rw [hr.1]; rfl, by rw [hr.1]; simp⟩

/-- what the caller sees (`tokSummary`): announced = emitted = `len()`. -/
theorem summary_counts (l : List (K × V)) :
    tokSummary (tokens l) = RV.list [.nat l.length, .nat l.length, .tag "ok"] := by
  unfold tokSummary tokens
  have : ∀ xs : List (K × V), (List.filter Tok.isEntry
      (xs.map fun p => Tok.entry p.1 p.2)).length = xs.length := by
    intro xs; induction xs with
    | nil => rfl
    | cons p xs ih => simp [List.filter_cons, Tok.isEntry, ih]
  simp [List.filter_cons, List.filter_append, Tok.isEntry]
  exact this l

/-- **Round trip.**  For every content and internal order (`l` is any duplicate-free list), every
    source capacity (it does not occur) and every target capacity `cap ≥ len()`: deserializing the
    serialized stream yields a container that holds exactly one decoded copy of every entry … -/
theorem roundtrip (hE : E.Lawful) (hk : ∀ n k, E.keq (E.clK n k) k = true)
    {l : List (K × V)} (hn : NodupKeys E.keq l) (cap : Nat) (hcap : l.length ≤ cap)
    (w : World K V Q) (hb : Benign w) :
    ∃ s' l', deserializeInto E (tokens l) ⟨Raw.new cap, w⟩ = .ok () s' ∧ Rep s'.r l' ∧
      ClonesOf E l l' ∧ l'.length = l.length ∧ s'.r.cap = cap := by
  obtain ⟨s', l', h1, h2, h3, h4, _⟩ := deserialize_roundtrip E hE hk hn cap hcap w hb
  exact ⟨s', l', h1, h2, h3, h3.length_eq, h4⟩

/-- … and that container compares equal to the original, in both directions (`Map::eq`'s
    list-level reading `mapEqCode`; `C14.mapEq_pure` ties it to the model's `mapEq`). -/
theorem roundtrip_equal (hE : E.Lawful) (hk : ∀ n k, E.keq (E.clK n k) k = true)
    (hv : ∀ n v, E.eqV (E.clV n v) v = true) (hv' : ∀ n v, E.eqV v (E.clV n v) = true)
    {l : List (K × V)} (hn : NodupKeys E.keq l) (cap : Nat) (hcap : l.length ≤ cap)
    (w : World K V Q) (hb : Benign w) :
    ∃ s' l', deserializeInto E (tokens l) ⟨Raw.new cap, w⟩ = .ok () s' ∧ Rep s'.r l' ∧
      mapEqCode E.keq (veq E) l l' = true ∧ mapEqCode E.keq (veq E) l' l = true := by
  obtain ⟨s', l', h1, h2, h3, _, _⟩ := roundtrip E hE hk hn cap hcap w hb
  exact ⟨s', l', h1, h2, mapEqCode_clone hE hk hv h3 hn, mapEqCode_clone' hE hk hv' h3 hn⟩

/-- the whole operation of the model (`serialize` on the source register, `deserialize` into a
    fresh local of the target capacity). -/
theorem serde_op (hE : E.Lawful) (hk : ∀ n k, E.keq (E.clK n k) k = true)
    {src : Raw K V} {l : List (K × V)} (hr : Rep src l) (hn : NodupKeys E.keq l) (cap : Nat)
    (hcap : src.len ≤ cap) (w : World K V Q) (hb : Benign w) :
    ∃ toks s' l', serializeR (Q := Q) src ⟨src, w⟩ = .ok toks ⟨src, w⟩ ∧
      deserializeInto E toks ⟨Raw.new cap, w⟩ = .ok () s' ∧ Rep s'.r l' ∧ ClonesOf E l l' := by
  obtain ⟨s', l', h1, h2, h3, _⟩ := roundtrip E hE hk hn cap (hr.1 ▸ hcap) w hb
  exact ⟨tokens l, s', l', serializeR_ok hr _, h1, h2, h3⟩

/-- insufficient capacity is outside the property: the visitor's `insert` then panics (documented
    behaviour); under any oracle and any capacity the operation is memory-safe (`SysInv`, see C17). -/
theorem deserialize_safe (toks : List (Tok K V)) (cap : Nat) (w : World K V Q) :
    Sat (deserializeInto E toks) ⟨Raw.new cap, w⟩ (fun _ s' => Inv E s'.r ∧ s'.r.cap = cap) (fun _ _ => True) := by
  unfold deserializeInto
  refine scratch_sat E ?_ (s := ⟨Raw.new cap, w⟩) (Inv.new E _)
  cases toks with
  | nil => exact OpInv.pure ()
  | cons t rest =>
    cases t with
    | start n => exact opInv_visitLoop E rest
    | entry k v => exact OpInv.pure ()
    | fin => exact OpInv.pure ()

/-! ### non-vacuity (tests) -/

example : tokens [((1 : Nat), (10 : Nat)), (2, 20)] =
    [.start (some 2), .entry 1 10, .entry 2 20, .fin] := rfl

end Micromap.Props.C20
