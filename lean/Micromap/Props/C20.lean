/-
C20 — serde round trip reproduces the container (feature `serde`).

The statements are over the slice of the serde data model the impls use (`Tok`: the announced
length of `serialize_map` / `serialize_seq`, one `serialize_entry` / `serialize_element` per item,
`end`), not over any byte format: bincode's encoding is outside the model (the correspondence
check exercises it: it reads the announced length and the number of encoded entries off the
bytes and decodes them into containers of several capacities).
A decoded element is a new object with the content of the encoded one (`E.clK`, `E.clV`, as for
`Clone`); "equal to the original" needs what it needs for clones: decoding respects `==`
(`hk`, `hv` below).  Sets are the `V = ()` instance (`E.vGlue = false`, entries `(k, ())`).
-/
import Micromap.Proofs.Serde
import Micromap.Proofs.SerdeAny
import Micromap.Proofs.SysInv
import Micromap.Props.C14

namespace Micromap.Props.C20
open Micromap SetAlg Serde EqClone
variable {K V Q : Type} (E : Env K V Q)

/-- **Serialization emits exactly `len()` entries**: the announced length is `len()`, and the
    stream holds one entry per stored element — the stored elements, in iteration order — then the
    end marker; serializing changes nothing. -/
theorem serialize_emits_len {r : Raw K V} {l : List (K × V)} (hr : Rep r l) (s : St K V Q) :
    serializeR (Q := Q) r s = .ok (tokens l) s ∧
    tokens l = .start (some r.len) :: l.map (fun p => Tok.entry p.1 p.2) ++ [.fin] ∧
    (l.map (fun p => Tok.entry p.1 p.2)).length = r.len := by
  refine ⟨serializeR_ok hr s, by rw [hr.1]; rfl, by rw [hr.1]; simp⟩

/-- what the caller sees (`tokSummary`): announced = emitted = `len()`. -/
theorem summary_counts (l : List (K × V)) :
    tokSummary (tokens l) = RV.list [.nat l.length, .nat l.length, .tag "ok"] := by
  unfold tokSummary tokens
  have : ∀ xs : List (K × V), (List.filter Tok.isEntry
      (xs.map fun p => Tok.entry p.1 p.2)).length = xs.length := by
    intro xs; induction xs with
    | nil => rfl
    | cons p xs ih => simp [List.filter_cons, Tok.isEntry, ih]
  simp [List.filter_cons, List.filter_append, Tok.isEntry]
  exact this l

/-- **Round trip.**  For every content and internal order (`l` is any duplicate-free list), every
    source capacity (it does not occur) and every target capacity `cap ≥ len()`: deserializing the
    serialized stream yields a container that holds exactly one decoded copy of every entry … -/
theorem roundtrip (hE : E.Lawful) (hk : ∀ n k, E.keq (E.clK n k) k = true)
    {l : List (K × V)} (hn : NodupKeys E.keq l) (cap : Nat) (hcap : l.length ≤ cap)
    (w : World K V Q) (hb : Benign w) :
    ∃ s' l', deserializeInto E (tokens l) ⟨Raw.new cap, w⟩ = .ok () s' ∧ Rep s'.r l' ∧
      ClonesOf E l l' ∧ l'.length = l.length ∧ s'.r.cap = cap := by
  obtain ⟨s', l', h1, h2, h3, h4, _⟩ := deserialize_roundtrip E hE hk hn cap hcap w hb
  exact ⟨s', l', h1, h2, h3, h3.length_eq, h4⟩

/-- … and that container compares equal to the original, in both directions (`Map::eq`'s
    list-level reading `mapEqCode`; `C14.mapEq_pure` ties it to the model's `mapEq`). -/
theorem roundtrip_equal (hE : E.Lawful) (hk : ∀ n k, E.keq (E.clK n k) k = true)
    (hv : ∀ n v, E.eqV (E.clV n v) v = true) (hv' : ∀ n v, E.eqV v (E.clV n v) = true)
    {l : List (K × V)} (hn : NodupKeys E.keq l) (cap : Nat) (hcap : l.length ≤ cap)
    (w : World K V Q) (hb : Benign w) :
    ∃ s' l', deserializeInto E (tokens l) ⟨Raw.new cap, w⟩ = .ok () s' ∧ Rep s'.r l' ∧
      mapEqCode E.keq (veq E) l l' = true ∧ mapEqCode E.keq (veq E) l' l = true := by
  obtain ⟨s', l', h1, h2, h3, _, _⟩ := roundtrip E hE hk hn cap hcap w hb
  exact ⟨s', l', h1, h2, mapEqCode_clone hE hk hv h3 hn, mapEqCode_clone' hE hk hv' h3 hn⟩

/-- the whole operation of the model (`serialize` on the source register, `deserialize` into a
    fresh local of the target capacity). -/
theorem serde_op (hE : E.Lawful) (hk : ∀ n k, E.keq (E.clK n k) k = true)
    {src : Raw K V} {l : List (K × V)} (hr : Rep src l) (hn : NodupKeys E.keq l) (cap : Nat)
    (hcap : src.len ≤ cap) (w : World K V Q) (hb : Benign w) :
    ∃ toks s' l', serializeR (Q := Q) src ⟨src, w⟩ = .ok toks ⟨src, w⟩ ∧
      deserializeInto E toks ⟨Raw.new cap, w⟩ = .ok () s' ∧ Rep s'.r l' ∧ ClonesOf E l l' := by
  obtain ⟨s', l', h1, h2, h3, _⟩ := roundtrip E hE hk hn cap (hr.1 ▸ hcap) w hb
  exact ⟨tokens l, s', l', serializeR_ok hr _, h1, h2, h3⟩

/-- insufficient capacity is outside the property: the visitor's `insert` then panics (documented
    behaviour); under any oracle and any capacity the operation is memory-safe (`SysInv`, see C17). -/
theorem deserialize_safe (toks : List (Tok K V)) (cap : Nat) (w : World K V Q) :
    Sat (deserializeInto E toks) ⟨Raw.new cap, w⟩ (fun _ s' => Inv E s'.r ∧ s'.r.cap = cap) (fun _ _ => True) := by
  unfold deserializeInto
  refine scratch_sat E ?_ (s := ⟨Raw.new cap, w⟩) (Inv.new E _)
  cases toks with
  | nil => exact OpInv.pure ()
  | cons t rest =>
    cases t with
    | start n => exact opInv_visitLoop E rest
    | entry k v => exact OpInv.pure ()
    | fin => exact OpInv.pure ()

/-! ### non-vacuity (tests) -/

example : tokens [((1 : Nat), (10 : Nat)), (2, 20)] =
    [.start (some 2), .entry 1 10, .entry 2 20, .fin] := rfl

/-! ### arbitrary token streams: entries in any order, repeated keys

A stream no `Serialize` of the crate writes, but any other producer may.  The visitor is
`while let Some((k, v)) = access.next_entry()? { m.insert(k, v); }` on a fresh local, so the result
is the fold of single inserts (`FromIter.foldInsert`, the list-level reference of C16) of the DECODED
copies of the entries, in stream order.  `decodedFrom E n xs` are those copies: entry `i` is decoded
at the consecutive fresh-object counters `n + i * decStep E` (key, `E.clK`) and the next one (value,
`E.clV`; for `V = ()`, `E.vGlue = false`, the value is not decoded and `decStep E = 1`). -/

section anyStream
open FromIter

/-- "fits", as C16 states it for `from_iter` (no decoded entry overflows), is the same as: the fold
    — one entry per distinct key — is no longer than the capacity. -/
theorem stream_fits_iff (cap : Nat) (xs' : List (K × V)) :
    overflowAt E cap [] xs' = none ↔ (foldInsert E [] xs').length ≤ cap :=
  overflowAt_none_iff_fold_le E cap xs'

/-- **Deserialization of an arbitrary entry stream = inserting the decoded entries one by one into
    `new()`.**  Benign world, time-independent `==`, any announced length `a`, any entries `xs`
    (repeats allowed), the distinct decoded keys fit: `deserialize` returns a container of the target
    capacity that holds EXACTLY `foldInsert E [] (decodedFrom E w.nextId xs)` — same slot order, the
    first decoded key object of each class kept, its last value.  The effects are those of the
    single inserts (`itemsTrace`: for a repeated key the decoded key is dropped, then the displaced
    value), and the counter has advanced by one `decStep` per entry. -/
theorem deserialize_stream_is_fold_insert (hE : E.Pure) (a : Option Nat) (xs : List (K × V))
    (cap : Nat) (w : World K V Q) (hb : Benign w)
    (hfit : (foldInsert E [] (decodedFrom E w.nextId xs)).length ≤ cap) :
    ∃ s', deserializeInto E (.start a :: xs.map (fun p => Tok.entry p.1 p.2) ++ [.fin])
        ⟨Raw.new cap, w⟩ = .ok () s' ∧
      Rep s'.r (foldInsert E [] (decodedFrom E w.nextId xs)) ∧ s'.r.cap = cap ∧
      WRel w s'.w (itemsTrace E false [] (decodedFrom E w.nextId xs)) ∧
      s'.w.nextId = w.nextId + xs.length * decStep E :=
  deserialize_eq_fold E hE a xs cap w hb ((stream_fits_iff E cap _).2 hfit)

/-- the decoded copies, entry by entry. -/
theorem decoded_entry (xs : List (K × V)) (n i : Nat) (hi : i < xs.length) :
    (decodedFrom E n xs).length = xs.length ∧
    (decodedFrom E n xs)[i]? =
      some (E.clK (n + i * decStep E) xs[i].1, decV E (n + i * decStep E + 1) xs[i].2) := by
  refine ⟨decodedFrom_length E n xs, ?_⟩
  rw [List.getElem?_eq_getElem (by rw [decodedFrom_length]; exact hi), decodedFrom_getElem E xs n i hi]

/-- **first key object kept** (as `C16.first_key_kept`): the stored key objects are, in slot order,
    the first decoded key of each class. -/
theorem stream_first_key_kept (n : Nat) (xs : List (K × V)) :
    (foldInsert E [] (decodedFrom E n xs)).map (·.1) =
      firstKeys E.keq [] ((decodedFrom E n xs).map (·.1)) := by
  simpa using foldInsert_keys E (decodedFrom E n xs) []

/-- **Lawful `==` that decoding respects.**  If `d` covers the keys of the stream and `|d| ≤ cap`
    then however many entries and repeats the stream has, `deserialize` succeeds; the result has
    pairwise unequal keys, at most `|d|` entries, and every key maps to the value of the LAST decoded
    entry with an equal key (`none` if there is none). -/
theorem deserialize_stream_lawful (hE : E.Lawful) (hk : ∀ n k, E.keq (E.clK n k) k = true)
    (a : Option Nat) (xs : List (K × V)) (cap : Nat) (d : List K)
    (hd : ∀ x, x ∈ xs.map (·.1) → memB E.keq x d = true) (hdc : d.length ≤ cap)
    (w : World K V Q) (hb : Benign w) :
    ∃ s', deserializeInto E (.start a :: xs.map (fun p => Tok.entry p.1 p.2) ++ [.fin])
        ⟨Raw.new cap, w⟩ = .ok () s' ∧
      Rep s'.r (foldInsert E [] (decodedFrom E w.nextId xs)) ∧ s'.r.cap = cap ∧
      NodupKeys E.keq (foldInsert E [] (decodedFrom E w.nextId xs)) ∧
      (foldInsert E [] (decodedFrom E w.nextId xs)).length ≤ d.length ∧
      ∀ q, lookupL E.keq (foldInsert E [] (decodedFrom E w.nextId xs)) q =
        ((decodedFrom E w.nextId xs).reverse.find? (fun p => E.keq p.1 q)).map (·.2) := by
  have hnil : NodupKeys E.keq ([] : List (K × V)) := by simp [NodupKeys, NodupB]
  have hcov := decoded_cover hE hk xs w.nextId d hd
  have hfit : overflowAt E cap [] (decodedFrom E w.nextId xs) = none :=
    overflowAt_none_of_cover hE cap d hdc _ [] hnil (fun x hx => hcov x (by simpa using hx))
  obtain ⟨s', h1, h2, h3, _⟩ := deserialize_eq_fold E hE.toPure a xs cap w hb hfit
  refine ⟨s', h1, h2, h3, foldInsert_nodup hE _ [] hnil, ?_, fun q => ?_⟩
  · exact foldInsert_length_le_cover hE [] _ hnil d (fun x hx => hcov x (by simpa using hx))
  · rw [lookupL_foldInsert hE _ [] hnil q]
    cases (decodedFrom E w.nextId xs).reverse.find? (fun p => E.keq p.1 q) <;> rfl

/-- **the number of entries is the number of distinct keys of the stream**: the length of any
    duplicate-free system `d` of representatives of the stream's keys. -/
theorem stream_len_eq_distinct (hE : E.Lawful) (hk : ∀ n k, E.keq (E.clK n k) k = true)
    (xs : List (K × V)) (n : Nat) (d : List K) (hdn : NodupB E.keq d)
    (hd1 : ∀ x, x ∈ xs.map (·.1) → memB E.keq x d = true)
    (hd2 : ∀ y, y ∈ d → memB E.keq y (xs.map (·.1)) = true) :
    (foldInsert E [] (decodedFrom E n xs)).length = d.length :=
  foldInsert_length_eq_distinct hE [] _ (by simp [NodupKeys, NodupB]) d hdn
    (fun x hx => decoded_cover hE hk xs n d hd1 x (by simpa using hx))
    (fun y hy => by simpa using decoded_cover' hE hk xs n y (hd2 y hy))

/-- the decoded entries answer every key test as the stream entries do, position by position … -/
theorem stream_key_tests (hE : E.Lawful) (hk : ∀ n k, E.keq (E.clK n k) k = true) (q : K)
    (xs : List (K × V)) (n : Nat) :
    (decodedFrom E n xs).map (fun p => E.keq p.1 q) = xs.map (fun p => E.keq p.1 q) :=
  decodedFrom_keq hE hk q xs n

/-- … hence **the last value of the stream wins**: if entry `i` of the stream is the last one whose
    key equals `q`, the result maps `q` to the decoded copy of that entry's value; a key equal to no
    stream key is absent. -/
theorem stream_last_value_wins (hE : E.Lawful) (hk : ∀ n k, E.keq (E.clK n k) k = true)
    (xs : List (K × V)) (n : Nat) (q : K) :
    (∀ i (hi : i < xs.length), E.keq xs[i].1 q = true →
      (∀ j (hj : j < xs.length), i < j → E.keq xs[j].1 q = false) →
      lookupL E.keq (foldInsert E [] (decodedFrom E n xs)) q =
        some (decV E (n + i * decStep E + 1) xs[i].2)) ∧
    ((∀ p, p ∈ xs → E.keq p.1 q = false) →
      lookupL E.keq (foldInsert E [] (decodedFrom E n xs)) q = none) := by
  have hnil : NodupKeys E.keq ([] : List (K × V)) := by simp [NodupKeys, NodupB]
  have hlen := decodedFrom_length E n xs
  have hkey : ∀ j (hj : j < xs.length),
      E.keq ((decodedFrom E n xs)[j]'(by rw [hlen]; exact hj)).1 q = E.keq xs[j].1 q := by
    intro j hj
    rw [decodedFrom_getElem E xs n j hj]; exact keq_decoded hE hk _ _ _
  constructor
  · intro i hi hP hlast
    have hf := find?_reverse_last (fun p : K × V => E.keq p.1 q) (decodedFrom E n xs) i
      (by rw [hlen]; exact hi) (by rw [hkey i hi]; exact hP)
      (fun j hj hij => by
        have hj' : j < xs.length := by rw [← hlen]; exact hj
        show E.keq ((decodedFrom E n xs)[j]).1 q = false
        rw [hkey j hj']; exact hlast j hj' hij)
    rw [lookupL_foldInsert hE _ [] hnil q, hf, decodedFrom_getElem E xs n i hi]
  · intro hall
    have hf : (decodedFrom E n xs).reverse.find? (fun p => E.keq p.1 q) = none := by
      rw [List.find?_eq_none]
      intro x hx
      obtain ⟨j, hj, rfl⟩ := List.mem_iff_getElem.1 (List.mem_reverse.1 hx)
      have hj' : j < xs.length := by rw [← hlen]; exact hj
      rw [hkey j hj', hall _ (List.getElem_mem hj')]; simp
    rw [lookupL_foldInsert hE _ [] hnil q, hf]; rfl

/-- **Overflow.**  If the distinct decoded keys do not fit, some decoded entry `m` is the first
    surplus one (`overflowAt … = some m`, see `C16.overflow_meaning`); `deserialize` unwinds with the
    overflow class of the build profile at that entry, whose value and key are dropped, and the
    partially built local — the fold of the decoded entries before it — has been dropped, each of its
    entries once, after the effects of the loop. -/
theorem deserialize_stream_overflow (hE : E.Pure) (a : Option Nat) (xs : List (K × V)) (cap : Nat)
    (w : World K V Q) (hb : Benign w)
    (hbig : cap < (foldInsert E [] (decodedFrom E w.nextId xs)).length) :
    ∃ m c s' k v, overflowAt E cap [] (decodedFrom E w.nextId xs) = some m ∧
      deserializeInto E (.start a :: xs.map (fun p => Tok.entry p.1 p.2) ++ [.fin])
        ⟨Raw.new cap, w⟩ = .panic c s' ∧
      OverflowPanic (⟨Raw.new cap, w⟩ : St K V Q) c ∧
      (decodedFrom E w.nextId xs)[m]? = some (k, v) ∧
      Dropped s'.r (foldInsert E [] ((decodedFrom E w.nextId xs).take m)) ∧ s'.r.cap = cap ∧
      WRel w s'.w ((itemsTrace E false [] ((decodedFrom E w.nextId xs).take m) ++
        (dropVTr E v ++ [.dropK k])) ++
        dropTrace E (foldInsert E [] ((decodedFrom E w.nextId xs).take m))) := by
  obtain ⟨m, hm⟩ := overflowAt_some_of_lt_fold E cap _ hbig
  obtain ⟨c, s', k, v, h⟩ := deserialize_overflow' E hE a xs cap w hb hm
  exact ⟨m, c, s', k, v, hm, h⟩

end anyStream

/-! ### non-vacuity for streams with repeated keys (tests) -/

/-- keys compare by their last two digits; decoding gives a key / value a fresh identity in the
    higher digits (the counter at which it was decoded), which `==` ignores. -/
def streamEnv : Env Nat Nat Nat :=
  { eqK := fun _ a b => a % 100 == b % 100, eqQ := fun _ a b => a % 100 == b % 100,
    eqV := fun a b => a % 100 == b % 100, borrow := id,
    clK := fun n k => k % 100 + 100 * (n + 1), clV := fun n v => v % 100 + 100 * (n + 1) }

example : streamEnv.Pure := ⟨fun _ _ _ => rfl, fun _ _ _ => rfl⟩
example : ∀ n k, streamEnv.keq (streamEnv.clK n k) k = true := by
  intro n k; simp [Env.keq, streamEnv]
/-- keys 1, 2, 1: the decoded copies (counters 0..5), … -/
example : decodedFrom streamEnv 0 [(1, 10), (2, 20), (1, 30)] = [(101, 210), (302, 420), (501, 630)] := by
  decide
/-- … two distinct keys: the fold has the FIRST decoded key object `101` with the LAST value `630`; -/
example : FromIter.foldInsert streamEnv [] (decodedFrom streamEnv 0 [(1, 10), (2, 20), (1, 30)]) =
    [(101, 630), (302, 420)] := by decide
/-- it fits capacity 2 although the stream has 3 entries (and announces 7), not capacity 1; -/
example : FromIter.overflowAt streamEnv 2 [] (decodedFrom streamEnv 0 [(1, 10), (2, 20), (1, 30)]) = none := by
  decide
example : FromIter.overflowAt streamEnv 1 [] (decodedFrom streamEnv 0 [(1, 10), (2, 20), (1, 30)]) = some 1 := by
  decide
/-- what a test looks at in an outcome, as numbers: `[0 = returned / 1 = unwound with the overflow
    class / 2 = unwound otherwise, len, counter]` followed by slots 0 and 1 (`[k, v]`, or `[]` if dead). -/
def streamView : Res (St Nat Nat Nat) Unit → List (List Nat)
  | .ok _ s' => [[0, s'.r.len, s'.w.nextId], slot (s'.r.slots 0), slot (s'.r.slots 1)]
  | .panic c s' => [[if c = .overflow then 1 else 2, s'.r.len, s'.w.nextId], slot (s'.r.slots 0),
      slot (s'.r.slots 1)]
  | .ub => []
where slot : Option (Nat × Nat) → List Nat
  | some (k, v) => [k, v]
  | none => []

-- (`decide +kernel`: the kernel evaluates the model by reduction; nothing is compiled or assumed)
/-- the model run itself: capacity 2 → both slots as the fold says, `len = 2`, counter at 6; -/
example : streamView (deserializeInto streamEnv
      [.start (some 7), .entry 1 10, .entry 2 20, .entry 1 30, .fin] ⟨Raw.new 2, {}⟩) =
    [[0, 2, 6], [101, 630], [302, 420]] := by decide +kernel
/-- capacity 1 → the overflow panic of the debug profile at the second entry (counter at 4), the
    local dropped (slot 0 dead, `len` stale). -/
example : streamView (deserializeInto streamEnv
      [.start none, .entry 1 10, .entry 2 20, .entry 1 30, .fin] ⟨Raw.new 1, {}⟩) =
    [[1, 1, 4], [], []] := by decide +kernel

end Micromap.Props.C20
