/-
C13 — `get_disjoint_mut` agrees with `get_mut` and never returns aliasing references.

Property theorems only (helper triples live in `Micromap/Proofs/Disjoint.lean`).  All statements
are about the L0 model functions `get_disjoint_mut`, `get_disjoint_unchecked_mut`, `sortStack`,
`get_mut` of `Micromap/Model/Map.lean`.  A returned `&mut V` is the slot position it points to;
"no aliasing" is "no two `Some` positions of the result are the same slot".  The number of
requests `J` is the length of the list `ks`, universally quantified (so `J = 0` and `J` larger
than the map are covered).
-/
import Micromap.Proofs.Disjoint

namespace Micromap.Props.C13
open Micromap Micromap.Disjoint
open Micromap.SetAlg (NodupKeys)
variable {K V Q : Type} (E : Env K V Q)

/-- In a world where no injected fault is armed an operation cannot unwind by injection. -/
theorem no_inj {s s' : St K V Q} {c} (hb : Benign s.w) (h : InjPanic s s' c) : False := h.2.1 hb.1

/-! ### safety and no aliasing: any `==`, any injection point, both profiles -/

/-- Whatever `==` and `Borrow` answer (non-reflexive, asymmetric, time-varying) and wherever a
    panic is injected, `get_disjoint_mut` never reaches UB; it never changes the container, neither
    on return nor on unwinding; it returns one entry per request; every returned slot is a live
    slot (`< len`); and NO TWO RETURNED SLOTS COINCIDE (the pass pushes strictly increasing slot
    positions, at most one per slot).  It unwinds only with `.overlap` (pre-check), `.oob` (the
    checked stack index, when a lying `==` matches more slots than requests) or an injected panic. -/
theorem get_disjoint_mut_safe {s : St K V Q} {l : List (K × V)} (hr : Rep s.r l) (ks : List (Probe K Q)) :
    Sat (get_disjoint_mut E ks) s
      (fun res s' => s'.r = s.r ∧ WRel s.w s'.w [] ∧ res.length = ks.length ∧
        (∀ (t j : Nat), res[t]? = some (some j) → j < l.length) ∧
        (∀ (t₁ t₂ j : Nat), res[t₁]? = some (some j) → res[t₂]? = some (some j) → t₁ = t₂))
      (fun c s' => s'.r = s.r ∧ (c = .overlap ∨ c = .oob ∨ InjPanic s s' c)) := by
  refine Sat.mono (checked_sat E hr ks) ?_ ?_
  · intro res s' ⟨h1, h2, h3, h4, h5, _⟩; exact ⟨h1, h2, h3, h4, h5⟩
  · intro c s' ⟨h1, h2⟩
    refine ⟨h1, ?_⟩
    rcases h2 with h | ⟨h, _⟩ | ⟨h, _⟩
    · exact Or.inr (Or.inr h)
    · exact Or.inr (Or.inl h)
    · exact Or.inl h

/-- the same guarantees for `get_disjoint_unchecked_mut` (which cannot panic `.overlap`). -/
theorem get_disjoint_unchecked_mut_safe {s : St K V Q} {l : List (K × V)} (hr : Rep s.r l)
    (ks : List (Probe K Q)) :
    Sat (get_disjoint_unchecked_mut E ks) s
      (fun res s' => s'.r = s.r ∧ res.length = ks.length ∧
        (∀ (t j : Nat), res[t]? = some (some j) → j < l.length) ∧
        (∀ (t₁ t₂ j : Nat), res[t₁]? = some (some j) → res[t₂]? = some (some j) → t₁ = t₂))
      (fun c s' => s'.r = s.r ∧ (c = .oob ∨ InjPanic s s' c)) := by
  refine Sat.mono (unchecked_sat E hr ks) ?_ ?_
  · intro res s' ⟨h1, _, h3, h4, h5, _⟩; exact ⟨h1, h3, h4, h5⟩
  · intro c s' ⟨h1, h2⟩
    refine ⟨h1, ?_⟩
    rcases h2 with h | ⟨h, _⟩
    · exact Or.inr h
    · exact Or.inl h

/-! ### agreement with `get_mut` -/

/-- Lawful `==`/`Borrow`, unique stored keys, pairwise unequal requests (of any number): the call
    returns, the container is unchanged, no effect, and position by position the result is the
    slot the linear scan finds for that request (`None` for a missing key). -/
theorem get_disjoint_mut_agrees (hE : E.Lawful) {s : St K V Q} {l : List (K × V)} (hr : Rep s.r l)
    (hn : NodupKeys E.keq l) (hb : Benign s.w) {ks : List (Probe K Q)} (hu : Unequal E ks) :
    ∃ s', get_disjoint_mut E ks s = .ok (ks.map (findKey E l)) s' ∧ s'.r = s.r ∧
      WRel s.w s'.w [] := by
  obtain ⟨res, s', h1, hs, hw, _, _, _, hp⟩ := (checked_sat E hr ks).must_return (by
    intro c s' ⟨_, h⟩
    rcases h with h | ⟨_, _, h⟩ | ⟨_, _, h⟩
    · exact no_inj hb h
    · exact not_overfull E hE hn ks (h hE.toPure).1
    · exact h hE.toPure hu)
  rw [(hp hE.toPure).1, resSpec_lawful E hE hn hu] at h1
  exact ⟨s', h1, hs, hw⟩

/-- … which is exactly what `get_mut` returns for that key on the same state: for every position
    `t`, `get_mut(ks[t])` finds the slot `res[t]` (or nothing when `res[t] = None`). -/
theorem get_disjoint_mut_eq_get_mut (hE : E.Lawful) {s : St K V Q} {l : List (K × V)} (hr : Rep s.r l)
    (hn : NodupKeys E.keq l) (hb : Benign s.w) {ks : List (Probe K Q)} (hu : Unequal E ks)
    (g : V → V) :
    ∃ res s', get_disjoint_mut E ks s = .ok res s' ∧ s'.r = s.r ∧ res.length = ks.length ∧
      ∀ t (ht : t < ks.length), ∃ o s1, get_mut E ks[t] g s = .ok o s1 ∧
        res[t]? = some (o.map (·.1)) := by
  obtain ⟨s', h1, hs, _⟩ := get_disjoint_mut_agrees E hE hr hn hb hu
  refine ⟨_, s', h1, hs, by simp, fun t ht => ?_⟩
  obtain ⟨o, s1, g1, _, _, _, g2⟩ := (get_mut_sat E hr ks[t] g).must_return
    (fun c s' h => no_inj hb h.2)
  refine ⟨o, s1, g1, ?_⟩
  rw [List.getElem?_map, List.getElem?_eq_getElem ht, g2 hE.toPure]
  rfl

/-- `J = 0`: the empty request returns the empty result on any state whatsoever. -/
theorem get_disjoint_mut_empty (s : St K V Q) : get_disjoint_mut E ([] : List (Probe K Q)) s = .ok [] s :=
  rfl

/-- more requests than the map has entries is fine: on the empty map every (pairwise unequal)
    request gets `None`. -/
theorem get_disjoint_mut_on_empty (hE : E.Lawful) {s : St K V Q} (hr : Rep s.r ([] : List (K × V)))
    (hb : Benign s.w) {ks : List (Probe K Q)} (hu : Unequal E ks) :
    ∃ s', get_disjoint_mut E ks s = .ok (ks.map fun _ => none) s' ∧ s'.r = s.r := by
  obtain ⟨s', h1, hs, _⟩ := get_disjoint_mut_agrees E hE hr List.Pairwise.nil hb hu
  exact ⟨s', h1, hs⟩

/-! ### equal requests -/

/-- If two of the requests are equal (whether present or not), `get_disjoint_mut` panics with
    "Overlapping keys" instead of returning two references, the container is unchanged and
    nothing was dropped or cloned. -/
theorem get_disjoint_mut_overlap (hE : E.Pure) {s : St K V Q} {l : List (K × V)} (hr : Rep s.r l)
    (hb : Benign s.w) {ks : List (Probe K Q)} {i j : Nat} (hij : i < j) (hj : j < ks.length)
    (heq : reqHit E (ks[i]'(Nat.lt_trans hij hj)) ks[j] = true) :
    ∃ s', get_disjoint_mut E ks s = .panic .overlap s' ∧ s'.r = s.r ∧ WRel s.w s'.w [] := by
  have hnu : ¬ Unequal E ks := by
    intro hu
    have := (List.pairwise_iff_getElem.1 hu) i j (Nat.lt_trans hij hj) hj hij
    rw [heq] at this; cases this
  obtain ⟨c, s', h1, hs, h2⟩ := (checked_sat E hr ks).must_panic (by
    intro res s' ⟨_, _, _, _, _, h⟩
    exact hnu (h hE).2.2)
  rcases h2 with h | ⟨_, _, h⟩ | ⟨rfl, hw, _⟩
  · exact (no_inj hb h).elim
  · exact (hnu (h hE).2).elim
  · exact ⟨s', h1, hs, hw⟩

/-- conversely, under a pure `==` an `.overlap` panic means two requests were equal. -/
theorem overlap_only_if_equal (hE : E.Pure) {s : St K V Q} {l : List (K × V)} (hr : Rep s.r l)
    (ks : List (Probe K Q)) {s'} (h : get_disjoint_mut E ks s = .panic .overlap s') :
    ¬ Unequal E ks := by
  have := (checked_sat E hr ks).panic_of h
  rcases this.2 with h | ⟨h, _⟩ | ⟨_, _, h⟩
  · cases h.1
  · cases h
  · exact h hE

/-! ### writing through the returned references -/

/-- For any `==` and any injection point: writing `*r = g(*r)` through every reference returned
    by `get_disjoint_mut` (the model's `writeSlots`) never reaches UB, and because the references
    do not alias, every returned slot is updated EXACTLY ONCE (`g` applied once, stored key kept)
    while every other entry is untouched — so a later `get` sees exactly these writes. -/
theorem get_disjoint_mut_then_write {s : St K V Q} {l : List (K × V)} (hr : Rep s.r l)
    (ks : List (Probe K Q)) (g : V → V) :
    Sat (get_disjoint_mut E ks >>= fun res => writeSlots g res >>= fun _ => pure res) s
      (fun res s' => Rep s'.r (writeL g res l) ∧ s'.r.cap = s.r.cap ∧
        (writeL g res l).length = l.length ∧
        ∀ j, (writeL g res l)[j]? =
          if some j ∈ res then (l[j]?).map (fun p => (p.1, g p.2)) else l[j]?)
      (fun _ s' => s'.r = s.r) := by
  refine Sat.bind (Sat.mono (checked_sat E hr ks) (fun _ _ h => h) (fun _ _ h => h.1)) ?_
  intro res s1 ⟨h1, _, _, h4, h5, _⟩
  obtain ⟨s2, g1, g2, _, g4⟩ := writeSlots_eq (Q := Q) g res s1 l (h1 ▸ hr) h4
  refine Sat.bind (Sat.of_ok g1 (Q := fun _ s' => s' = s2) rfl) ?_
  rintro _ _ rfl
  exact Sat.pure ⟨g2, by rw [g4, h1], writeL_length g res l, fun j => writeL_getElem? g res l j h5⟩

/-! ### the sort is immaterial -/

/-- `sort_unstable_by_key` is modelled by `sortStack`; on a stack that is strictly increasing in
    the slot position it is the identity, so stability or the sorting algorithm cannot matter. -/
theorem sortStack_increasing (st : List (Nat × Nat)) (h : st.Pairwise fun a b => a.1 < b.1) :
    sortStack st = st := sortStack_id st h

/-- … and the stack the pass builds always is strictly increasing, for any `==`: every stack
    `disjointCollect` returns from the empty stack satisfies the invariant. -/
theorem collected_stack_increasing {s : St K V Q} {l : List (K × V)} (hr : Rep s.r l)
    (ks : List (Probe K Q)) :
    Sat (disjointCollect E ks l.length 0 []) s
      (fun st _ => st.Pairwise (fun a b => a.1 < b.1) ∧ sortStack st = st ∧
        (∀ x, x ∈ st → x.1 < l.length ∧ x.2 < ks.length) ∧ st.length ≤ ks.length)
      (fun _ _ => True) := by
  refine Sat.mono (disjointCollect_sat E ks l.length 0 [] s hr (by omega)
    ⟨List.Pairwise.nil, fun x hx => (by simp at hx), Nat.zero_le _⟩) ?_ (fun _ _ _ => trivial)
  intro st s' ⟨_, _, h, _⟩
  exact ⟨h.1, sortStack_id st h.1, h.2.1, h.2.2⟩

/-! Non-vacuity: concrete data meeting the hypotheses (tests, not proofs). -/

def exEnv : Env Nat Nat Nat :=
  { eqK := fun _ a b => a == b, eqQ := fun _ a b => a == b, eqV := fun a b => a == b, borrow := id,
    clK := fun _ k => k, clV := fun _ v => v }

def exRaw : Raw Nat Nat :=
  { cap := 3, len := 2, slots := fun i => if i = 0 then some (7, 70) else if i = 1 then some (8, 80) else none }

theorem exLawful : exEnv.Lawful :=
  { k := fun _ _ _ => rfl, q := fun _ _ _ => rfl,
    refl := fun a => by simp [Env.keq, exEnv],
    symm := fun a b => by simp [Env.keq, exEnv, BEq.comm],
    trans := fun a b c h1 h2 => by simp_all [Env.keq, exEnv],
    borrow := fun a b => rfl,
    qrefl := fun a => by simp [Env.qeq, exEnv],
    qsymm := fun a b => by simp [Env.qeq, exEnv, BEq.comm],
    qtrans := fun a b c h1 h2 => by simp_all [Env.qeq, exEnv] }
theorem exRep : Rep exRaw [(7, 70), (8, 80)] :=
  ⟨rfl, (by show 2 ≤ 3; omega), fun i hi => by
    have : i = 0 ∨ i = 1 := by simp at hi; omega
    rcases this with rfl | rfl <;> rfl⟩
theorem exNodup : NodupKeys exEnv.keq [(7, 70), (8, 80)] := by
  simp [NodupKeys, Micromap.SetAlg.NodupB, Env.keq, exEnv]
theorem exUnequal : Unequal exEnv [.key 8, .q 9, .key 7] := by
  simp [Unequal, reqHit, Env.keq, Env.qeq, exEnv]
example : ¬ Unequal exEnv [.key 8, .q 9, .key 8] := by
  simp [Unequal, reqHit, Env.keq, Env.qeq, exEnv]
example : ([.key 8, .q 9, .key 7] : List (Probe Nat Nat)).map (findKey exEnv [(7, 70), (8, 80)]) =
    [some 1, none, some 0] := by decide
/-- the agreement theorem instantiated: three requests (present, absent, present; out of slot
    order; more requests than entries) on a two-entry map. -/
example : ∃ s', get_disjoint_mut exEnv [.key 8, .q 9, .key 7] ⟨exRaw, {}⟩ =
    .ok [some 1, none, some 0] s' := by
  obtain ⟨s', h, _⟩ := get_disjoint_mut_agrees exEnv exLawful (s := ⟨exRaw, {}⟩) exRep exNodup
    ⟨rfl, rfl⟩ exUnequal
  exact ⟨s', h⟩
/-- the overlap theorem instantiated. -/
example : ∃ s', get_disjoint_mut exEnv [.key 8, .q 9, .key 8] ⟨exRaw, {}⟩ = .panic .overlap s' := by
  obtain ⟨s', h, _⟩ := get_disjoint_mut_overlap exEnv exLawful.toPure (s := ⟨exRaw, {}⟩) exRep
    ⟨rfl, rfl⟩ (ks := [.key 8, .q 9, .key 8]) (i := 0) (j := 2) (by decide) (by decide) (by decide)
  exact ⟨s', h⟩

end Micromap.Props.C13
