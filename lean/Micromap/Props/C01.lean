/-
C01 — Map is a correct bounded dictionary: every call agrees with a reference model.

Property theorems only (helper lemmas: `Proofs/Refine*.lean`, `Proofs/DictLaws.lean`,
`Proofs/MapApi.lean`, `Proofs/Bulk.lean`).  The reference model is `Spec/RefDict.lean`
(an association list with `find?` / `map` / `filter` / `filterMap`), the operations are the model
functions `insert`, `insert_key_value`, `checked_insert`, `get`, `get_mut`, `contains_key`, `index`,
`index_mut`, `remove`, `remove_entry`, `retain`, `clear`, `len`, `is_empty`, `iter` that
`stepMapOp` executes (`Refine.mrun`).  `s.w.profile` is universally quantified everywhere: every
statement covers debug and release builds; the capacity `s.r.cap` is an arbitrary `Nat`
(so `N = 0` and the full/empty boundaries are included).
-/
import Micromap.Proofs.RefineStep
import Micromap.Proofs.RefineTie
import Micromap.Props.SysSpec

namespace Micromap.Props.C01
open Micromap Micromap.Refine SetAlg
variable {K V Q : Type} {E : Env K V Q}

/-- One step.  Lawful key type, no injected fault: from a state simulating the reference dictionary
    `d`, every dictionary operation returns exactly the reference's return value (iteration order
    aside), panics exactly when the reference overflows (`debug_assert!` in debug, the index check
    in release) or indexes a missing key, and ends in a state simulating the reference's next
    state, with the same capacity. -/
theorem step_refines (hE : E.Lawful) (op : DOp K V Q) {s : St K V Q} {d : List (K × V)}
    (hs : Sim E s.r d) (hb : Benign s.w) : StepOK E op s d :=
  sim_step hE op hs hb

/-- all outputs of a history agree with the reference; a panicking step leaves both sides where
    they were and the history goes on. -/
def HistOK (E : Env K V Q) : List (DOp K V Q) → St K V Q → List (K × V) → Prop
  | [], _, _ => True
  | op :: ops, s, d =>
    match srun E op d s.r.cap with
    | .ok out d' => ∃ out' s', mrun E op s = .ok out' s' ∧ OutRel out' out ∧ HistOK E ops s' d'
    | .overflow => ∃ c s', mrun E op s = .panic c s' ∧ OverflowPanic s c ∧ HistOK E ops s' d
    | .noentry => ∃ s', mrun E op s = .panic .noentry s' ∧ HistOK E ops s' d

/-- **Any sequence of operations** from any state that simulates the reference — in particular from
    `Map::new()` — behaves like the ideal dictionary of the same capacity: by induction over the
    history, no bound on its length. -/
theorem history_refines (hE : E.Lawful) (ops : List (DOp K V Q)) :
    ∀ (s : St K V Q) (d : List (K × V)), Sim E s.r d → Benign s.w → HistOK E ops s d := by
  induction ops with
  | nil => intro _ _ _ _; trivial
  | cons op ops ih =>
    intro s d hs hb
    have h := sim_step hE op hs hb
    unfold StepOK at h
    unfold HistOK
    cases hsr : srun E op d s.r.cap with
    | ok out d' =>
      rw [hsr] at h
      obtain ⟨out', s', hm, ho, hs', _, hb'⟩ := h
      exact ⟨out', s', hm, ho, ih s' d' hs' hb'⟩
    | overflow =>
      rw [hsr] at h
      obtain ⟨c, s', hm, ho, hr, hb'⟩ := h
      exact ⟨c, s', hm, ho, ih s' d (hr ▸ hs) hb'⟩
    | noentry =>
      rw [hsr] at h
      obtain ⟨s', hm, hr, hb'⟩ := h
      exact ⟨s', hm, ih s' d (hr ▸ hs) hb'⟩

/-- `Map::new()` simulates the empty dictionary, for every capacity. -/
theorem new_sim (cap : Nat) : Sim E (Raw.new cap : Raw K V) [] :=
  ⟨[], Rep.new cap, List.Pairwise.nil, List.Perm.nil⟩

/-- histories from `new()`. -/
theorem history_from_new (hE : E.Lawful) (cap : Nat) (w : World K V Q) (hb : Benign w)
    (ops : List (DOp K V Q)) : HistOK E ops ⟨Raw.new cap, w⟩ [] :=
  history_refines hE ops _ _ (new_sim cap) hb

/-- Lookups through a borrowed form of the key answer exactly like lookups by the key itself
    (`get`, `get_key_value`; the same argument applies to every probe-taking operation because
    the reference result depends on the probe only through `hitP`, and
    `hitP (.q (borrow k)) = hitP (.key k)`). -/
theorem get_by_borrowed_form (hE : E.Lawful) (k : K) {s : St K V Q} {d : List (K × V)}
    (hs : Sim E s.r d) (hb : Benign s.w) :
    ∃ o s₁ s₂, mrun E (.get (.q (E.borrow k))) s = .ok o s₁ ∧ mrun E (.get (.key k)) s = .ok o s₂ := by
  have h1 := sim_step hE (.get (.q (E.borrow k))) hs hb
  have h2 := sim_step hE (.get (.key k)) hs hb
  unfold StepOK srun at h1 h2
  obtain ⟨o1, s1, hm1, ho1, _⟩ := h1
  obtain ⟨o2, s2, hm2, ho2, _⟩ := h2
  rw [hitP_borrow hE k] at ho1
  have e1 : o1 = DOut.optKV (RefDict.find (E.hitP (.key k)) d) := ho1.eq_of (fun _ h => by cases h)
  have e2 : o2 = DOut.optKV (RefDict.find (E.hitP (.key k)) d) := ho2.eq_of (fun _ h => by cases h)
  exact ⟨o1, s1, s2, hm1, by rw [hm2, e2, e1]⟩

/-- the reference results of all probe-taking operations coincide for `k` and its borrowed form. -/
theorem srun_borrowed (hE : E.Lawful) (k : K) (d : List (K × V)) (cap : Nat) (g : V → V) :
    srun E (.get (.q (E.borrow k))) d cap = srun E (.get (.key k)) d cap ∧
    srun E (.get_mut (.q (E.borrow k)) g) d cap = srun E (.get_mut (.key k) g) d cap ∧
    srun E (.contains_key (.q (E.borrow k))) d cap = srun E (.contains_key (.key k)) d cap ∧
    srun E (.index (.q (E.borrow k))) d cap = srun E (.index (.key k)) d cap ∧
    srun E (.index_mut (.q (E.borrow k)) g) d cap = srun E (.index_mut (.key k) g) d cap ∧
    srun E (.remove (.q (E.borrow k))) d cap = srun E (.remove (.key k)) d cap ∧
    srun E (.remove_entry (.q (E.borrow k))) d cap = srun E (.remove_entry (.key k)) d cap := by
  simp only [srun, hitP_borrow hE k, and_self]

/-- Indexing panics (with the "no entry" panic) exactly when the key is absent, and otherwise
    returns the stored pair; the container is untouched either way. -/
theorem index_panics_iff_absent (hE : E.Lawful) (pr : Probe K Q) {s : St K V Q} {d : List (K × V)}
    (hs : Sim E s.r d) (hb : Benign s.w) :
    ((RefDict.find (E.hitP pr) d = none) ↔ ∃ s', mrun E (.index pr) s = .panic .noentry s') ∧
    (∀ p, RefDict.find (E.hitP pr) d = some p → ∃ s', mrun E (.index pr) s = .ok (.kv p) s') := by
  have h := sim_step hE (.index pr) hs hb
  unfold StepOK srun at h
  cases hf : RefDict.find (E.hitP pr) d with
  | none =>
    simp only [hf] at h
    obtain ⟨s', hm, _⟩ := h
    exact ⟨⟨fun _ => ⟨s', hm⟩, fun _ => rfl⟩, fun p hp => by cases hp⟩
  | some p =>
    simp only [hf] at h
    obtain ⟨o, s', hm, ho, _⟩ := h
    have : o = DOut.kv p := ho.eq_of (fun _ h => by cases h)
    subst this
    refine ⟨⟨fun h => (by cases h), fun h => ?_⟩, fun q hq => ?_⟩
    · obtain ⟨s'', hm'⟩ := h
      rw [hm] at hm'; cases hm'
    · cases hq; exact ⟨s', hm⟩

/-- the observable associations after any step are those of the reference: `len` and every lookup. -/
theorem sim_observables (hE : E.Lawful) {r : Raw K V} {d : List (K × V)} (hs : Sim E r d) :
    r.len = d.length ∧ r.len ≤ r.cap ∧
    ∀ pr : Probe K Q, Dict.lookupP (E.hitP pr) r.abs = RefDict.find (E.hitP pr) d := by
  obtain ⟨l, hr, hn, hperm⟩ := hs
  have habs : r.abs = l := Rep.unique hr.safe.rep hr
  refine ⟨by rw [hr.1, hperm.length_eq], hr.safe.1, fun pr => ?_⟩
  rw [habs]
  exact Dict.lookupP_perm hE.equivB (hE.probeOK pr) hn hperm

/-- **The theorems are about what is executed.**  `mrun op` is `stepMapOp` (the function `step`
    runs and the driver executes against the real crate) on the corresponding `MapOp`: same outcome,
    same final state, same return value once slot positions are erased. -/
theorem step_executes_mrun (R : Render K V) (other : Nat → Raw K V) (op : DOp K V Q) (mop : MapOp K V Q)
    (h : toMapOp op = some mop) (s : St K V Q) :
    Res.mapOut (viewRV op) (stepMapOp E R other mop s) = Res.mapOut (viewD op) (mrun E op s) :=
  stepMapOp_eq_mrun E R other op mop h s

/-! ### non-vacuity (tests, not proofs): a lawful key type whose equal keys are distinguishable -/

/-- keys `(class, id)` compared by class only; borrowed form = the class. -/
def exEnv : Env (Nat × Nat) Nat Nat :=
  { eqK := fun _ a b => a.1 == b.1, eqQ := fun _ a b => a == b, eqV := fun a b => a == b,
    borrow := fun a => a.1, clK := fun n k => (k.1, n), clV := fun _ v => v }

theorem exEnv_lawful : exEnv.Lawful where
  k := fun _ _ _ => rfl
  q := fun _ _ _ => rfl
  refl := fun a => by simp [Env.keq, exEnv]
  symm := fun a b => by simp [Env.keq, exEnv, Bool.beq_comm]
  trans := fun a b c h1 h2 => by simp [Env.keq, exEnv] at *; omega
  borrow := fun a b => rfl
  qrefl := fun a => by simp [Env.qeq, exEnv]
  qsymm := fun a b => by simp [Env.qeq, exEnv, Bool.beq_comm]
  qtrans := fun a b c h1 h2 => by simp [Env.qeq, exEnv] at *; omega

example : HistOK exEnv
    [.insert (1, 10) 5, .insert (2, 11) 6, .insert (1, 12) 7, .insert (3, 13) 8, .get (.q 1),
     .remove (.key (1, 99)), .index (.q 1), .iter]
    ⟨Raw.new 2, {}⟩ [] :=
  history_from_new exEnv_lawful 2 {} ⟨rfl, rfl⟩ _

/-! ### the whole system against a readable list-level interpreter

`Spec/ListSys.lean` is a pure interpreter of the WHOLE operation language over association lists
(no slots, no world, no callbacks): `ListSys.lstep` / `lrun`.  The slot machine that the driver
executes against the real crate computes exactly this function (`Props/SysSpec.lean`,
`Proofs/ListSys*.lean`): the bounded-dictionary behaviour of this property, and with it every
returned value, reference position, iterator output, rendered string, count and panic of every safe
operation on all four registers, is fixed by a function one can read. -/

section ListLevel
open Micromap.ListSys

/-- one step of the system = one step of the list-level interpreter (benign world, `==` that does
    not change between calls; `Op.inSpec`: everything but the two `unsafe fn`s and `inject`;
    `Op.SideOK`: a `retain` predicate independent of the call counter, clones independent of the
    fresh-object counter for `clone_to` / `sub` / `serde`). -/
theorem system_step_refines (E : Env K V Q) (R : Render K V) (hE : E.Pure) {sys : Sys K V Q}
    {ls : LSys K V} (hb : Benign sys.w) (hs : SysRep sys ls) (op : Op K V Q) (hop : op.inSpec = true)
    (hside : Op.SideOK E op) :
    view (step E R sys op).2 = (lstep E R ls op).2 ∧
      SysRep (step E R sys op).1 (lstep E R ls op).1 ∧ Benign (step E R sys op).1.w :=
  SysSpec.step_refines E R hE hb hs op hop hside

/-- every history from fresh registers of any capacities: the outcomes and returned values are
    those the interpreter computes, and the final registers hold the interpreter's lists. -/
theorem system_history_refines (E : Env K V Q) (R : Render K V) (hE : E.Pure) (capM capS : Nat → Nat)
    (w0 : World K V Q) (hb : Benign w0) (ops : List (Op K V Q))
    (hops : ∀ op ∈ ops, op.inSpec = true ∧ Op.SideOK E op) :
    (run E R (Sys.init capM capS w0) ops).2.map view =
        (lrun E R (LSys.init capM capS w0.profile) ops).2 ∧
      SysRep (run E R (Sys.init capM capS w0) ops).1 (lrun E R (LSys.init capM capS w0.profile) ops).1 :=
  let h := SysSpec.run_refines E R hE capM capS w0 hb ops hops
  ⟨h.1, h.2.1⟩

/-- only the lists matter: dead slots, event logs, counters do not influence any later result. -/
theorem system_depends_on_lists_only (E : Env K V Q) (R : Render K V) (hE : E.Pure)
    {sys₁ sys₂ : Sys K V Q} {ls : LSys K V} (hb₁ : Benign sys₁.w) (hb₂ : Benign sys₂.w)
    (hs₁ : SysRep sys₁ ls) (hs₂ : SysRep sys₂ ls) (ops : List (Op K V Q))
    (hops : ∀ op ∈ ops, op.inSpec = true ∧ Op.SideOK E op) :
    (run E R sys₁ ops).2.map view = (run E R sys₂ ops).2.map view :=
  (SysSpec.run_deterministic_in_lists E R hE hb₁ hb₂ hs₁ hs₂ ops hops).1

end ListLevel

end Micromap.Props.C01
