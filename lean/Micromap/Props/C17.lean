/-
C17 — Misbehaving `Eq` / `Borrow` impls may give wrong answers but never memory unsafety.

`E : Env K V Q` is universally quantified WITHOUT any hypothesis: `E.eqK n a b` and
`E.eqQ n a b` may depend on the call number `n`, so `==` may be non-reflexive, asymmetric and
change between calls, and `Borrow` need not be consistent with `Eq`.  In the model every
memory-unsafe event of the real program (reading, comparing, returning, moving out or dropping a
slot that holds no live element; an unchecked access beyond the array) is the outcome `ub`;
writes go through `itemWrite` / `checkedWrite` / `valueReplace` / `pairReplace`, each of which
is `ub` or a panic outside `[0, cap)`.  So "never `ub`" is: no use of dead data, no double
drop of a slot, nothing outside the container written.
-/
import Micromap.Proofs.SysInv
import Micromap.Proofs.Disjoint
import Micromap.Proofs.Ledger
import Micromap.Props.C02

namespace Micromap.Props.C17
open Micromap SetAlg Dict
variable {K V Q : Type} (E : Env K V Q) (R : Render K V)

/-- **Any history, any oracle.**  No step of any history of safe operations reaches `ub`, and
    afterwards every register is memory-safe: `len ≤ cap` and all slots below `len` are live. -/
theorem run_safe_any_oracle (capM capS : Nat → Nat) (w : World K V Q) (ops : List (Op K V Q))
    (hops : ∀ op, op ∈ ops → op.safeApi = true) :
    (∀ o, o ∈ (run E R (Sys.init capM capS w) ops).2 → o.outcome ≠ .ub) ∧
    (∀ i, Safe ((run E R (Sys.init capM capS w) ops).1.maps i)) ∧
    (∀ i, Safe ((run E R (Sys.init capM capS w) ops).1.sets i)) := by
  have h := run_inv E R ops _ (SysInv.init E capM capS w) hops
  exact ⟨h.1, fun i => (h.2.1 i).safe, fun i => (h.2.2 i).safe⟩

/-- `len()` never exceeds `capacity()` and matches what iteration yields: in a memory-safe
    register `iter()` yields exactly `len()` entries. -/
theorem len_matches_iteration {r : Raw K V} (h : Safe r) (s : St K V Q) :
    r.len ≤ r.cap ∧ ∃ l, entriesOf r s = .ok l s ∧ l.length = r.len :=
  ⟨h.1, r.abs, Refine.entriesOf_ok h.rep s, h.rep.1.symm⟩

/-- in every reachable state, under any oracle. -/
theorem reachable_len (capM capS : Nat → Nat) (w : World K V Q) (ops : List (Op K V Q))
    (hops : ∀ op, op ∈ ops → op.safeApi = true) (i : Nat) (s : St K V Q) :
    let r := (run E R (Sys.init capM capS w) ops).1.maps i
    r.len ≤ r.cap ∧ ∃ l, entriesOf r s = .ok l s ∧ l.length = r.len :=
  len_matches_iteration ((run_safe_any_oracle E R capM capS w ops hops).2.1 i) s

/-- mutable references handed out together never alias, whatever `==` answers: the `Some`
    positions returned by one `get_disjoint_mut` call are pairwise distinct live slots, and the call
    leaves the container untouched (it may panic — overlap, a checked index — but not `ub`). -/
theorem disjoint_refs_never_alias {s : St K V Q} (hs : Safe s.r) (ks : List (Probe K Q)) :
    Sat (get_disjoint_mut E ks) s
      (fun res s' => s'.r = s.r ∧ res.length = ks.length ∧
        (∀ (t j : Nat), res[t]? = some (some j) → j < s.r.len) ∧ Disjoint.NoAlias res)
      (fun _ s' => s'.r = s.r) := by
  refine Sat.mono (Disjoint.checked_sat E hs.rep ks) ?_ (fun _ _ h => h.1)
  intro res s' ⟨h1, _, h3, h4, h5, _⟩
  exact ⟨h1, h3, fun t j h => by rw [hs.rep.1]; exact h4 t j h, h5⟩

/-- **Every element is still destroyed exactly once, whatever `==` answers.**  For any history
    of the owning dictionary operations under an arbitrary oracle: passed in = stored ⊎ handed back
    ⊎ destroyed, as a multiset equation (through all weightings `w`).  A lying `==` changes WHICH
    branch an operation takes (wrong answers), never the balance. -/
theorem ledger_any_oracle (hv : E.vGlue = true) (cap : Nat) (w0 : World K V Q) (hb : Benign w0)
    (ops : List (Ledger.LOp K V Q)) (w : Obj K V → Nat) :
    ∃ sf back tr lf, Ledger.lmhist E ops ⟨Raw.new cap, w0⟩ = some (sf, back) ∧ Rep sf.r lf ∧
      WRel w0 sf.w tr ∧
      Ledger.wsum w (ops.flatMap Ledger.LOp.inObjs) =
        Ledger.wpairs w lf + Ledger.wsum w back + Ledger.wsum w (Ledger.droppedOf tr) := by
  obtain ⟨sf, back, tr, lf, h1, h2, _, h4, h5⟩ :=
    Ledger.lmhist_conserves E hv w ops ⟨Raw.new cap, w0⟩ [] (Rep.new cap) hb
  exact ⟨sf, back, tr, lf, h1, h2, h4, by simpa using h5⟩

section sysledger
open Ledger Own OwnSys

/-- **… over the whole operation language and all four registers** (the system-level ledger of C02,
    read for an arbitrary oracle: `E` carries no hypothesis there either).  Any history of safe
    operations — entry API, `retain`, iterators and drains consumed, dropped or forgotten, set
    algebra, clone, `extend`, serde — followed by the drop of every register: no step reaches `ub`,
    the registers end empty, and everything passed in, created by `Clone` or decoded was handed back
    to the caller, dropped (once: it is a multiset equation, read through every weighting `w`) or is
    in the final leak list.  A lying `==` decides which branch runs, never whether the books balance. -/
theorem run_and_drop_ledger_any_oracle (capM capS : Nat → Nat) (w0 : World K V Q) (hb : Benign w0)
    (ops : List (Op K V Q)) (w : Obj K V → Nat) (hv : HV E w)
    (hops : ∀ op ∈ ops, op.safeApi = true ∧ op.regsOk = true ∧ op.WOk w ∧ ∀ j, op ≠ .inject j) :
    (∀ o ∈ (run E R (Sys.init capM capS w0) (ops ++ [.endCase])).2, o.outcome ≠ .ub) ∧
    ∃ last lk dec, (run E R (Sys.init capM capS w0) (ops ++ [.endCase])).2.getLast? = some last ∧
      last.outcome = .ok ∧ last.leaks = w0.leaked ++ lk ∧
      sysLive w (run E R (Sys.init capM capS w0) (ops ++ [.endCase])).1 = 0 ∧
      DecRun E R (Sys.init capM capS w0) (ops ++ [.endCase]) dec ∧
      wsum w (runIn (ops ++ [.endCase])) + wsum w (runCreated (run E R (Sys.init capM capS w0) (ops ++ [.endCase])).2) +
          wsum w dec =
        wsum w (runOwned (ops ++ [.endCase]) (run E R (Sys.init capM capS w0) (ops ++ [.endCase])).2) +
          wsum w (runDropped (run E R (Sys.init capM capS w0) (ops ++ [.endCase])).2) + wsum w lk :=
  C02.run_and_drop_ledger E R capM capS w0 hb ops w hv hops

end sysledger

/-- one step under any oracle and any injection. -/
theorem step_safe_any_oracle {sys : Sys K V Q} (hs : SysInv E sys) (op : Op K V Q)
    (hop : op.safeApi = true) :
    (step E R sys op).2.outcome ≠ .ub ∧ SysInv E (step E R sys op).1 :=
  step_inv E R hs op hop

/-! ### non-vacuity (tests): an oracle that lies in every possible way -/

/-- answers depend on the parity of the call number: non-reflexive, asymmetric, time-varying. -/
def liar : Env Nat Nat Nat :=
  { eqK := fun n a b => (n + a) % 2 == 0 || a < b, eqQ := fun n a _ => n % 3 == a % 3,
    eqV := fun _ _ => false, borrow := fun a => a + 1, clK := fun n _ => n, clV := fun n _ => n }

example : liar.eqK 1 3 3 = true ∧ liar.eqK 2 3 3 = false := by decide
example : liar.eqK 0 1 2 = true ∧ liar.eqK 0 2 1 = true ∧ liar.eqK 1 2 1 = false := by decide

end Micromap.Props.C17
