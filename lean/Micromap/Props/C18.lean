/-
C18 — The unsafe fast paths equal their safe counterparts whenever their contract is met.

Property theorems only (helpers live in `Micromap/Proofs/Unchecked.lean`, `Disjoint.lean`).  All
statements are about the L0 model functions `insert_unchecked` / `insert_i` / `insert` /
`insert_ii` and `get_disjoint_unchecked_mut` / `get_disjoint_mut` of `Micromap/Model/Map.lean`.
-/
import Micromap.Proofs.Unchecked
import Micromap.Props.C03

namespace Micromap.Props.C18
open Micromap Micromap.Unchecked Micromap.Disjoint
open Micromap.SetAlg (NodupKeys)
variable {K V Q : Type} (E : Env K V Q)

/-- In a world where no injected fault is armed an operation cannot unwind by injection. -/
theorem no_inj {s s' : St K V Q} {c} (hb : Benign s.w) (h : InjPanic s s' c) : False := h.2.1 hb.1

/-! ### `insert_unchecked` -/

/-- Room in the map: `insert_unchecked(k, v)` and `insert(k, v)` have THE SAME OUTCOME — the same
    returned old value and the same final state (all slots, `len`, the world with its event log
    and leak list), or the same panic in the same state — for every `==` whatsoever (lawful or
    not, time-varying) and every injection point, in both profiles.  The hand-rolled loop makes the
    same comparisons in the same order; move-out + write-back is one overwrite of the slot. -/
theorem insert_unchecked_eq_room {s : St K V Q} {l : List (K × V)} (hr : Rep s.r l) (k : K) (v : V)
    (hroom : l.length < s.r.cap) : insert_unchecked E k v s = insert E k v s :=
  insert_unchecked_eq_insert E hr k v (Or.inl hroom)

/-- Key present (pure `==`): the same equality of outcomes, also on a full map. -/
theorem insert_unchecked_eq_present (hE : E.Pure) {s : St K V Q} {l : List (K × V)} (hr : Rep s.r l)
    (k : K) (v : V) (hp : findKey E l (.key k) ≠ none) : insert_unchecked E k v s = insert E k v s :=
  insert_unchecked_eq_insert E hr k v (Or.inr (Or.inl (scan_ne_none_of_present E hE hr k hp)))

/-- the contract as documented: "not full, or the key is already present". -/
theorem insert_unchecked_eq (hE : E.Pure) {s : St K V Q} {l : List (K × V)} (hr : Rep s.r l)
    (k : K) (v : V) (hc : l.length < s.r.cap ∨ findKey E l (.key k) ≠ none) :
    insert_unchecked E k v s = insert E k v s := by
  rcases hc with h | h
  · exact insert_unchecked_eq_room E hr k v h
  · exact insert_unchecked_eq_present E hE hr k v h

/-- the same for the cores (`update_key` either way, so also for a would-be unchecked
    `insert_key_value`): `insert_i = insert_ii` inside the contract, any `==`, any injection. -/
theorem insert_i_eq {s : St K V Q} {l : List (K × V)} (hr : Rep s.r l) (k : K) (v : V) (upd : Bool)
    (hroom : l.length < s.r.cap) : insert_i E k v upd s = insert_ii E k v upd s :=
  insert_i_eq_insert_ii E hr k v upd (Or.inl hroom)

/-- even outside the contract the two agree while `debug_assert!` is compiled in: both panic
    `.overflow` with the container untouched. -/
theorem insert_unchecked_eq_debug {s : St K V Q} {l : List (K × V)} (hr : Rep s.r l) (k : K) (v : V)
    (hd : s.w.profile = .debug) : insert_unchecked E k v s = insert E k v s :=
  insert_unchecked_eq_insert E hr k v (Or.inr (Or.inr hd))

/-- Hence every guarantee of `insert` transfers: with room, for any `==` and any injection point,
    `insert_unchecked` never reaches UB and satisfies the full triple of `insert` (result, final
    list — value replaced in place or pair appended, key uniqueness and stored-key identity as
    for `insert` —, effects, capacity, and the same exception-safety postcondition). -/
theorem insert_unchecked_sat {s : St K V Q} {l : List (K × V)} (hr : Rep s.r l) (k : K) (v : V)
    (hroom : l.length < s.r.cap) :
    Sat (insert_unchecked E k v) s
      (fun res s' => s'.r.cap = s.r.cap ∧
        ((∃ i, ∃ hi : i < l.length, res = some l[i].2 ∧ Rep s'.r (l.set i (l[i].1, v)) ∧
            WRel s.w s'.w [.dropK k] ∧ (E.Pure → findKey E l (.key k) = some i)) ∨
         (res = none ∧ l.length < s.r.cap ∧ Rep s'.r (l ++ [(k, v)]) ∧ WRel s.w s'.w [] ∧
            (E.Pure → findKey E l (.key k) = none))))
      (fun c s' => s'.r.cap = s.r.cap ∧ InjPanic s s' c ∧
        ∃ l', Rep s'.r l' ∧ (l' = l ∨ ∃ i, ∃ hi : i < l.length, l' = l.set i (l[i].1, v))) := by
  unfold Sat
  rw [insert_unchecked_eq_room E hr k v hroom]
  refine Sat.mono (insert_sat E hr k v) (fun _ _ h => h) ?_
  intro c s' ⟨hc, h⟩
  rcases h with h | ⟨_, _, hfull, _⟩
  · exact ⟨hc, h⟩
  · omega

/-- never UB inside the contract (room), for any `==`, any injection point, both profiles. -/
theorem insert_unchecked_no_ub {s : St K V Q} {l : List (K × V)} (hr : Rep s.r l) (k : K) (v : V)
    (hroom : l.length < s.r.cap) : insert_unchecked E k v s ≠ .ub :=
  (insert_unchecked_sat E hr k v hroom).not_ub

/-- key present on a (possibly full) map, pure `==`, benign world: `insert_unchecked` returns the
    old value and replaces exactly that value, like `insert`. -/
theorem insert_unchecked_present (hE : E.Pure) {s : St K V Q} {l : List (K × V)} (hr : Rep s.r l)
    (hb : Benign s.w) (k : K) (v : V) {i} (hpres : findKey E l (.key k) = some i) :
    ∃ (hi : i < l.length) (s' : St K V Q), insert_unchecked E k v s = .ok (some l[i].2) s' ∧
      Rep s'.r (l.set i (l[i].1, v)) ∧ s'.r.cap = s.r.cap := by
  rw [insert_unchecked_eq_present E hE hr k v (by rw [hpres]; simp)]
  exact C03.insert_present_on_full E hE hr hb k v hpres

/-- OUTSIDE the contract — full map, absent key, release build — the model of `insert_unchecked`
    yields `ub` (the write past the array).  This is the documented UB of the `unsafe fn`; nothing
    is claimed about it.  It shows the contract hypothesis above cannot be dropped. -/
theorem insert_unchecked_ub_outside (hE : E.Pure) {s : St K V Q} {l : List (K × V)} (hr : Rep s.r l)
    (hb : Benign s.w) (k : K) (v : V) (hfull : l.length = s.r.cap) (hrel : s.w.profile = .release)
    (habs : findKey E l (.key k) = none) : insert_unchecked E k v s = .ub := by
  obtain ⟨o, s1, h1, _, _, _, h2⟩ := (scan_cb' E hr (.key k)).must_return (by
    intro c s' ⟨_, _, h, _⟩; exact h hb.1)
  have : o = none := by rw [h2 hE, habs]
  subst this
  unfold insert_unchecked
  simp only [bind_apply, insert_i_ub_outside E hr k v false hfull hrel h1]

/-! ### `get_disjoint_unchecked_mut` -/

/-- whenever the pre-check passes, `get_disjoint_mut` is literally `get_disjoint_unchecked_mut`
    continued from the state the pre-check leaves (same container; only comparisons happened). -/
theorem get_disjoint_mut_is_unchecked {s s1 : St K V Q} (ks : List (Probe K Q))
    (h : overlapCheck E ks s = .ok () s1) :
    get_disjoint_mut E ks s = get_disjoint_unchecked_mut E ks s1 ∧ s1.r = s.r ∧
      WRel s.w s1.w [] :=
  ⟨get_disjoint_mut_of_check_ok E ks h, ((overlapCheck_sat E ks s).ok_of h).1,
    ((overlapCheck_sat E ks s).ok_of h).2.1⟩

/-- Pairwise unequal requests (pure `==`, benign world): from the same state the two functions
    have the same outcome — the same list of slots with the container unchanged, or (only
    possible for an unlawful `==`) both panic at the checked stack index. -/
theorem get_disjoint_unchecked_eq (hE : E.Pure) {s : St K V Q} {l : List (K × V)} (hr : Rep s.r l)
    (hb : Benign s.w) {ks : List (Probe K Q)} (hu : Unequal E ks) :
    (∃ res s1 s2, get_disjoint_unchecked_mut E ks s = .ok res s1 ∧
        get_disjoint_mut E ks s = .ok res s2 ∧ s1.r = s.r ∧ s2.r = s.r) ∨
    (∃ s1 s2, get_disjoint_unchecked_mut E ks s = .panic .oob s1 ∧
        get_disjoint_mut E ks s = .panic .oob s2 ∧ s1.r = s.r ∧ s2.r = s.r) := by
  by_cases ho : Overfull E l ks
  · obtain ⟨c1, s1, h1, hs1, g1⟩ := (unchecked_sat E hr ks).must_panic (by
      intro res s' ⟨_, _, _, _, _, h⟩; exact (h hE).2 ho)
    obtain ⟨c2, s2, h2, hs2, g2⟩ := (checked_sat E hr ks).must_panic (by
      intro res s' ⟨_, _, _, _, _, h⟩; exact (h hE).2.1 ho)
    rcases g1 with g1 | ⟨rfl, _⟩
    · exact (no_inj hb g1).elim
    rcases g2 with g2 | ⟨rfl, _⟩ | ⟨_, _, g2⟩
    · exact (no_inj hb g2).elim
    · exact Or.inr ⟨s1, s2, h1, h2, hs1, hs2⟩
    · exact (g2 hE hu).elim
  · obtain ⟨r1, s1, h1, hs1, _, _, _, _, g1⟩ := (unchecked_sat E hr ks).must_return (by
      intro c s' ⟨_, h⟩
      rcases h with h | ⟨_, _, h⟩
      · exact no_inj hb h
      · exact ho (h hE))
    obtain ⟨r2, s2, h2, hs2, _, _, _, _, g2⟩ := (checked_sat E hr ks).must_return (by
      intro c s' ⟨_, h⟩
      rcases h with h | ⟨_, _, h⟩ | ⟨_, _, h⟩
      · exact no_inj hb h
      · exact ho (h hE).1
      · exact h hE hu)
    have : r1 = r2 := by rw [(g1 hE).1, (g2 hE).1]
    subst this
    exact Or.inl ⟨r1, s1, s2, h1, h2, hs1, hs2⟩

/-- lawful `==`, unique keys, pairwise unequal requests: both return exactly the slots the scan
    (`get_mut`) finds, position by position; the container is unchanged. -/
theorem get_disjoint_unchecked_agrees (hE : E.Lawful) {s : St K V Q} {l : List (K × V)}
    (hr : Rep s.r l) (hn : NodupKeys E.keq l) (hb : Benign s.w) {ks : List (Probe K Q)}
    (hu : Unequal E ks) :
    ∃ s1 s2, get_disjoint_unchecked_mut E ks s = .ok (ks.map (findKey E l)) s1 ∧
      get_disjoint_mut E ks s = .ok (ks.map (findKey E l)) s2 ∧ s1.r = s.r ∧ s2.r = s.r := by
  rcases get_disjoint_unchecked_eq E hE.toPure hr hb hu with ⟨res, s1, s2, h1, h2, hs1, hs2⟩ |
    ⟨s1, s2, h1, _, _, _⟩
  · have := ((unchecked_sat E hr ks).ok_of h1).2.2.2.2.2 hE.toPure
    rw [this.1, resSpec_lawful E hE hn hu] at h1 h2
    exact ⟨s1, s2, h1, h2, hs1, hs2⟩
  · have := (unchecked_sat E hr ks).panic_of h1
    rcases this.2 with h | ⟨_, _, h⟩
    · exact (no_inj hb h).elim
    · exact (not_overfull E hE hn ks (h hE.toPure)).elim

/-- within (and even outside) its precondition `get_disjoint_unchecked_mut` upholds every other
    guarantee, for any `==` and any injection point: no UB, container untouched, one result per
    request, live slots only, no two returned references alias. -/
theorem get_disjoint_unchecked_safe {s : St K V Q} {l : List (K × V)} (hr : Rep s.r l)
    (ks : List (Probe K Q)) :
    Sat (get_disjoint_unchecked_mut E ks) s
      (fun res s' => s'.r = s.r ∧ res.length = ks.length ∧
        (∀ (t j : Nat), res[t]? = some (some j) → j < l.length) ∧
        (∀ (t₁ t₂ j : Nat), res[t₁]? = some (some j) → res[t₂]? = some (some j) → t₁ = t₂))
      (fun c s' => s'.r = s.r ∧ (c = .oob ∨ InjPanic s s' c)) := by
  refine Sat.mono (unchecked_sat E hr ks) ?_ ?_
  · intro res s' ⟨h1, _, h3, h4, h5, _⟩; exact ⟨h1, h3, h4, h5⟩
  · intro c s' ⟨h1, h2⟩
    refine ⟨h1, ?_⟩
    rcases h2 with h | ⟨h, _⟩
    · exact Or.inr h
    · exact Or.inl h

/-! Non-vacuity and the documented UB on concrete data (tests, not proofs). -/

def exEnv : Env Nat Nat Nat :=
  { eqK := fun _ a b => a == b, eqQ := fun _ a b => a == b, eqV := fun a b => a == b, borrow := id,
    clK := fun _ k => k, clV := fun _ v => v }

/-- a full map. -/
def exRaw : Raw Nat Nat :=
  { cap := 2, len := 2, slots := fun i => if i = 0 then some (7, 70) else if i = 1 then some (8, 80) else none }

/-- a map with room. -/
def exRaw3 : Raw Nat Nat := { exRaw with cap := 3 }

example : exEnv.Pure := ⟨fun _ _ _ => rfl, fun _ _ _ => rfl⟩
example : Rep exRaw [(7, 70), (8, 80)] :=
  ⟨rfl, by decide, fun i hi => by
    have : i = 0 ∨ i = 1 := by simp at hi; omega
    rcases this with rfl | rfl <;> rfl⟩
example : Rep exRaw3 [(7, 70), (8, 80)] :=
  ⟨rfl, by decide, fun i hi => by
    have : i = 0 ∨ i = 1 := by simp at hi; omega
    rcases this with rfl | rfl <;> rfl⟩
example : [(7, 70), (8, 80)].length < exRaw3.cap := by decide
example : findKey exEnv [(7, 70), (8, 80)] (.key 8) ≠ none := by decide
example : findKey exEnv [(7, 70), (8, 80)] (.key 9) = none := by decide
example : Unequal exEnv [.key 8, .q 9, .key 7] := by
  simp [Unequal, reqHit, Env.keq, Env.qeq, exEnv]

/-- outside the contract (full, absent key, release profile) the model yields `ub`. -/
example : (match insert_unchecked exEnv 9 90 ⟨exRaw, { profile := .release }⟩ with
    | .ub => true | _ => false) = true := by rfl
/-- the safe `insert` panics instead (bounds check of `pairs[i]`). -/
example : (match insert exEnv 9 90 ⟨exRaw, { profile := .release }⟩ with
    | .panic .oob _ => true | _ => false) = true := by rfl
/-- inside the contract (key present on the full map, release profile): no UB, old value back. -/
example : (match insert_unchecked exEnv 8 81 ⟨exRaw, { profile := .release }⟩ with
    | .ok (some 80) _ => true | _ => false) = true := by rfl

end Micromap.Props.C18
