/-
C18 — The unsafe fast paths equal their safe counterparts whenever their contract is met.

Property theorems only (helpers live in `Micromap/Proofs/Unchecked.lean`, `Disjoint.lean`).  All
statements are about the L0 model functions `insert_unchecked` / `insert_i` / `insert` /
`insert_ii` and `get_disjoint_unchecked_mut` / `get_disjoint_mut` of `Micromap/Model/Map.lean`.
-/
import Micromap.Proofs.Unchecked
import Micromap.Props.C03
import Micromap.Proofs.UncheckedInv

namespace Micromap.Props.C18
open Micromap Micromap.Unchecked Micromap.Disjoint
open Micromap.SetAlg (NodupKeys)
variable {K V Q : Type} (E : Env K V Q)

/-- In a world where no injected fault is armed an operation cannot unwind by injection. -/
theorem no_inj {s s' : St K V Q} {c} (hb : Benign s.w) (h : InjPanic s s' c) : False := h.2.1 hb.1

/-! ### `insert_unchecked` -/

/-- Room in the map: `insert_unchecked(k, v)` and `insert(k, v)` have THE SAME OUTCOME — the same
    returned old value and the same final state (all slots, `len`, the world with its event log
    and leak list), or the same panic in the same state — for every `==` whatsoever (lawful or
    not, time-varying) and every injection point, in both profiles.  The hand-rolled loop makes the
    same comparisons in the same order; move-out + write-back is one overwrite of the slot. -/
theorem insert_unchecked_eq_room {s : St K V Q} {l : List (K × V)} (hr : Rep s.r l) (k : K) (v : V)
    (hroom : l.length < s.r.cap) : insert_unchecked E k v s = insert E k v s :=
  insert_unchecked_eq_insert E hr k v (Or.inl hroom)

/-- Key present (pure `==`): the same equality of outcomes, also on a full map. -/
theorem insert_unchecked_eq_present (hE : E.Pure) {s : St K V Q} {l : List (K × V)} (hr : Rep s.r l)
    (k : K) (v : V) (hp : findKey E l (.key k) ≠ none) : insert_unchecked E k v s = insert E k v s :=
  insert_unchecked_eq_insert E hr k v (Or.inr (Or.inl (scan_ne_none_of_present E hE hr k hp)))

/-- the contract as documented: "not full, or the key is already present". -/
theorem insert_unchecked_eq (hE : E.Pure) {s : St K V Q} {l : List (K × V)} (hr : Rep s.r l)
    (k : K) (v : V) (hc : l.length < s.r.cap ∨ findKey E l (.key k) ≠ none) :
    insert_unchecked E k v s = insert E k v s := by
  rcases hc with h | h
  · exact insert_unchecked_eq_room E hr k v h
  · exact insert_unchecked_eq_present E hE hr k v h

/-- the same for the cores (`update_key` either way, so also for a would-be unchecked
    `insert_key_value`): `insert_i = insert_ii` inside the contract, any `==`, any injection. -/
theorem insert_i_eq {s : St K V Q} {l : List (K × V)} (hr : Rep s.r l) (k : K) (v : V) (upd : Bool)
    (hroom : l.length < s.r.cap) : insert_i E k v upd s = insert_ii E k v upd s :=
  insert_i_eq_insert_ii E hr k v upd (Or.inl hroom)

/-- even outside the contract the two agree while `debug_assert!` is compiled in: both panic
    `.overflow` with the container untouched. -/
theorem insert_unchecked_eq_debug {s : St K V Q} {l : List (K × V)} (hr : Rep s.r l) (k : K) (v : V)
    (hd : s.w.profile = .debug) : insert_unchecked E k v s = insert E k v s :=
  insert_unchecked_eq_insert E hr k v (Or.inr (Or.inr hd))

/-- Hence every guarantee of `insert` transfers: with room, for any `==` and any injection point,
    `insert_unchecked` never reaches UB and satisfies the full triple of `insert` (result, final
    list — value replaced in place or pair appended, key uniqueness and stored-key identity as
    for `insert` —, effects, capacity, and the same exception-safety postcondition). -/
theorem insert_unchecked_sat {s : St K V Q} {l : List (K × V)} (hr : Rep s.r l) (k : K) (v : V)
    (hroom : l.length < s.r.cap) :
    Sat (insert_unchecked E k v) s
      (fun res s' => s'.r.cap = s.r.cap ∧
        ((∃ i, ∃ hi : i < l.length, res = some l[i].2 ∧ Rep s'.r (l.set i (l[i].1, v)) ∧
            WRel s.w s'.w [.dropK k] ∧ (E.Pure → findKey E l (.key k) = some i)) ∨
         (res = none ∧ l.length < s.r.cap ∧ Rep s'.r (l ++ [(k, v)]) ∧ WRel s.w s'.w [] ∧
            (E.Pure → findKey E l (.key k) = none))))
      (fun c s' => s'.r.cap = s.r.cap ∧ InjPanic s s' c ∧
        ∃ l', Rep s'.r l' ∧ (l' = l ∨ ∃ i, ∃ hi : i < l.length, l' = l.set i (l[i].1, v))) := by
  unfold Sat
  rw [insert_unchecked_eq_room E hr k v hroom]
  refine Sat.mono (insert_sat E hr k v) (fun _ _ h => h) ?_
  intro c s' ⟨hc, h⟩
  rcases h with h | ⟨_, _, hfull, _⟩
  · exact ⟨hc, h⟩
  · omega

/-- never UB inside the contract (room), for any `==`, any injection point, both profiles. -/
theorem insert_unchecked_no_ub {s : St K V Q} {l : List (K × V)} (hr : Rep s.r l) (k : K) (v : V)
    (hroom : l.length < s.r.cap) : insert_unchecked E k v s ≠ .ub :=
  (insert_unchecked_sat E hr k v hroom).not_ub

/-- key present on a (possibly full) map, pure `==`, benign world: `insert_unchecked` returns the
    old value and replaces exactly that value, like `insert`. -/
theorem insert_unchecked_present (hE : E.Pure) {s : St K V Q} {l : List (K × V)} (hr : Rep s.r l)
    (hb : Benign s.w) (k : K) (v : V) {i} (hpres : findKey E l (.key k) = some i) :
    ∃ (hi : i < l.length) (s' : St K V Q), insert_unchecked E k v s = .ok (some l[i].2) s' ∧
      Rep s'.r (l.set i (l[i].1, v)) ∧ s'.r.cap = s.r.cap := by
  rw [insert_unchecked_eq_present E hE hr k v (by rw [hpres]; simp)]
  exact C03.insert_present_on_full E hE hr hb k v hpres

/-- OUTSIDE the contract — full map, absent key, release build — the model of `insert_unchecked`
    yields `ub` (the write past the array).  This is the documented UB of the `unsafe fn`; nothing
    is claimed about it.  It shows the contract hypothesis above cannot be dropped. -/
theorem insert_unchecked_ub_outside (hE : E.Pure) {s : St K V Q} {l : List (K × V)} (hr : Rep s.r l)
    (hb : Benign s.w) (k : K) (v : V) (hfull : l.length = s.r.cap) (hrel : s.w.profile = .release)
    (habs : findKey E l (.key k) = none) : insert_unchecked E k v s = .ub := by
  obtain ⟨o, s1, h1, _, _, _, h2⟩ := (scan_cb' E hr (.key k)).must_return (by
    intro c s' ⟨_, _, h, _⟩; exact h hb.1)
  have : o = none := by rw [h2 hE, habs]
  subst this
  unfold insert_unchecked
  simp only [bind_apply, insert_i_ub_outside E hr k v false hfull hrel h1]

/-! ### `get_disjoint_unchecked_mut` -/

/-- whenever the pre-check passes, `get_disjoint_mut` is literally `get_disjoint_unchecked_mut`
    continued from the state the pre-check leaves (same container; only comparisons happened). -/
theorem get_disjoint_mut_is_unchecked {s s1 : St K V Q} (ks : List (Probe K Q))
    (h : overlapCheck E ks s = .ok () s1) :
    get_disjoint_mut E ks s = get_disjoint_unchecked_mut E ks s1 ∧ s1.r = s.r ∧
      WRel s.w s1.w [] :=
  ⟨get_disjoint_mut_of_check_ok E ks h, ((overlapCheck_sat E ks s).ok_of h).1,
    ((overlapCheck_sat E ks s).ok_of h).2.1⟩

/-- Pairwise unequal requests (pure `==`, benign world): from the same state the two functions
    have the same outcome — the same list of slots with the container unchanged, or (only
    possible for an unlawful `==`) both panic at the checked stack index. -/
theorem get_disjoint_unchecked_eq (hE : E.Pure) {s : St K V Q} {l : List (K × V)} (hr : Rep s.r l)
    (hb : Benign s.w) {ks : List (Probe K Q)} (hu : Unequal E ks) :
    (∃ res s1 s2, get_disjoint_unchecked_mut E ks s = .ok res s1 ∧
        get_disjoint_mut E ks s = .ok res s2 ∧ s1.r = s.r ∧ s2.r = s.r) ∨
    (∃ s1 s2, get_disjoint_unchecked_mut E ks s = .panic .oob s1 ∧
        get_disjoint_mut E ks s = .panic .oob s2 ∧ s1.r = s.r ∧ s2.r = s.r) := by
  by_cases ho : Overfull E l ks
  · obtain ⟨c1, s1, h1, hs1, g1⟩ := (unchecked_sat E hr ks).must_panic (by
      intro res s' ⟨_, _, _, _, _, h⟩; exact (h hE).2 ho)
    obtain ⟨c2, s2, h2, hs2, g2⟩ := (checked_sat E hr ks).must_panic (by
      intro res s' ⟨_, _, _, _, _, h⟩; exact (h hE).2.1 ho)
    rcases g1 with g1 | ⟨rfl, _⟩
    · exact (no_inj hb g1).elim
    rcases g2 with g2 | ⟨rfl, _⟩ | ⟨_, _, g2⟩
    · exact (no_inj hb g2).elim
    · exact Or.inr ⟨s1, s2, h1, h2, hs1, hs2⟩
    · exact (g2 hE hu).elim
  · obtain ⟨r1, s1, h1, hs1, _, _, _, _, g1⟩ := (unchecked_sat E hr ks).must_return (by
      intro c s' ⟨_, h⟩
      rcases h with h | ⟨_, _, h⟩
      · exact no_inj hb h
      · exact ho (h hE))
    obtain ⟨r2, s2, h2, hs2, _, _, _, _, g2⟩ := (checked_sat E hr ks).must_return (by
      intro c s' ⟨_, h⟩
      rcases h with h | ⟨_, _, h⟩ | ⟨_, _, h⟩
      · exact no_inj hb h
      · exact ho (h hE).1
      · exact h hE hu)
    have : r1 = r2 := by rw [(g1 hE).1, (g2 hE).1]
    subst this
    exact Or.inl ⟨r1, s1, s2, h1, h2, hs1, hs2⟩

/-- lawful `==`, unique keys, pairwise unequal requests: both return exactly the slots the scan
    (`get_mut`) finds, position by position; the container is unchanged. -/
theorem get_disjoint_unchecked_agrees (hE : E.Lawful) {s : St K V Q} {l : List (K × V)}
    (hr : Rep s.r l) (hn : NodupKeys E.keq l) (hb : Benign s.w) {ks : List (Probe K Q)}
    (hu : Unequal E ks) :
    ∃ s1 s2, get_disjoint_unchecked_mut E ks s = .ok (ks.map (findKey E l)) s1 ∧
      get_disjoint_mut E ks s = .ok (ks.map (findKey E l)) s2 ∧ s1.r = s.r ∧ s2.r = s.r := by
  rcases get_disjoint_unchecked_eq E hE.toPure hr hb hu with ⟨res, s1, s2, h1, h2, hs1, hs2⟩ |
    ⟨s1, s2, h1, _, _, _⟩
  · have := ((unchecked_sat E hr ks).ok_of h1).2.2.2.2.2 hE.toPure
    rw [this.1, resSpec_lawful E hE hn hu] at h1 h2
    exact ⟨s1, s2, h1, h2, hs1, hs2⟩
  · have := (unchecked_sat E hr ks).panic_of h1
    rcases this.2 with h | ⟨_, _, h⟩
    · exact (no_inj hb h).elim
    · exact (not_overfull E hE hn ks (h hE.toPure)).elim

/-- within (and even outside) its precondition `get_disjoint_unchecked_mut` upholds every other
    guarantee, for any `==` and any injection point: no UB, container untouched, one result per
    request, live slots only, no two returned references alias. -/
theorem get_disjoint_unchecked_safe {s : St K V Q} {l : List (K × V)} (hr : Rep s.r l)
    (ks : List (Probe K Q)) :
    Sat (get_disjoint_unchecked_mut E ks) s
      (fun res s' => s'.r = s.r ∧ res.length = ks.length ∧
        (∀ (t j : Nat), res[t]? = some (some j) → j < l.length) ∧
        (∀ (t₁ t₂ j : Nat), res[t₁]? = some (some j) → res[t₂]? = some (some j) → t₁ = t₂))
      (fun c s' => s'.r = s.r ∧ (c = .oob ∨ InjPanic s s' c)) := by
  refine Sat.mono (unchecked_sat E hr ks) ?_ ?_
  · intro res s' ⟨h1, _, h3, h4, h5, _⟩; exact ⟨h1, h3, h4, h5⟩
  · intro c s' ⟨h1, h2⟩
    refine ⟨h1, ?_⟩
    rcases h2 with h | ⟨h, _⟩
    · exact Or.inr h
    · exact Or.inl h

/-! Non-vacuity and the documented UB on concrete data (tests, not proofs). -/

def exEnv : Env Nat Nat Nat :=
  { eqK := fun _ a b => a == b, eqQ := fun _ a b => a == b, eqV := fun a b => a == b, borrow := id,
    clK := fun _ k => k, clV := fun _ v => v }

/-- a full map. -/
def exRaw : Raw Nat Nat :=
  { cap := 2, len := 2, slots := fun i => if i = 0 then some (7, 70) else if i = 1 then some (8, 80) else none }

/-- a map with room. -/
def exRaw3 : Raw Nat Nat := { exRaw with cap := 3 }

example : exEnv.Pure := ⟨fun _ _ _ => rfl, fun _ _ _ => rfl⟩
example : Rep exRaw [(7, 70), (8, 80)] :=
  ⟨rfl, by decide, fun i hi => by
    have : i = 0 ∨ i = 1 := by simp at hi; omega
    rcases this with rfl | rfl <;> rfl⟩
example : Rep exRaw3 [(7, 70), (8, 80)] :=
  ⟨rfl, by decide, fun i hi => by
    have : i = 0 ∨ i = 1 := by simp at hi; omega
    rcases this with rfl | rfl <;> rfl⟩
example : [(7, 70), (8, 80)].length < exRaw3.cap := by decide
example : findKey exEnv [(7, 70), (8, 80)] (.key 8) ≠ none := by decide
example : findKey exEnv [(7, 70), (8, 80)] (.key 9) = none := by decide
example : Unequal exEnv [.key 8, .q 9, .key 7] := by
  simp [Unequal, reqHit, Env.keq, Env.qeq, exEnv]

/-- outside the contract (full, absent key, release profile) the model yields `ub`. -/
example : (match insert_unchecked exEnv 9 90 ⟨exRaw, { profile := .release }⟩ with
    | .ub => true | _ => false) = true := by rfl
/-- the safe `insert` panics instead (bounds check of `pairs[i]`). -/
example : (match insert exEnv 9 90 ⟨exRaw, { profile := .release }⟩ with
    | .panic .oob _ => true | _ => false) = true := by rfl
/-- inside the contract (key present on the full map, release profile): no UB, old value back. -/
example : (match insert_unchecked exEnv 8 81 ⟨exRaw, { profile := .release }⟩ with
    | .ok (some 80) _ => true | _ => false) = true := by rfl

/-! ### histories that use the unsafe fast paths within their contract -/

section Histories
open Micromap.UncheckedInv
variable (R : Render K V)

/-! ### no `ub`, invariant preserved -/

/-- **One step inside the contract.**  If all registers satisfy the invariant and the operation —
    a safe one, `insert_unchecked` on a register that is not full or holds the key, or
    `get_disjoint_unchecked_mut` with pairwise different requests — meets its contract in the
    current state, the step does not reach `ub` and all registers satisfy the invariant
    afterwards, whether the step returned, panicked or unwound from an injected panic.  Any user
    equality, any world. -/
theorem unchecked_step_inv {sys : Sys K V Q} (hs : SysInv E sys) (op : Op K V Q)
    (hc : op.contractOk E sys) :
    (step E R sys op).2.outcome ≠ .ub ∧ SysInv E (step E R sys op).1 :=
  step_inv_contract E R hs op hc

/-- **No history inside the contract reaches `ub`** — no dead slot is read, compared, returned or
    dropped and nothing is written past the array — from any well-formed state, for any user
    equality, any armed injections, either profile. -/
theorem unchecked_history_no_ub (ops : List (Op K V Q)) (sys : Sys K V Q) (hs : SysInv E sys)
    (hc : ContractAlong E R sys ops) : ∀ o, o ∈ (run E R sys ops).2 → o.outcome ≠ .ub :=
  (run_inv_contract E R ops sys hs hc).1

/-- the same from `new()` registers of any capacities. -/
theorem unchecked_history_no_ub_init (capM capS : Nat → Nat) (w : World K V Q) (ops : List (Op K V Q))
    (hc : ContractAlong E R (Sys.init capM capS w) ops) :
    ∀ o, o ∈ (run E R (Sys.init capM capS w) ops).2 → o.outcome ≠ .ub :=
  unchecked_history_no_ub E R ops _ (SysInv.init E capM capS w) hc

/-- the invariant at the end of a history inside the contract (hence, by
    `contractAlong_append`, after every prefix of it). -/
theorem unchecked_history_inv (ops : List (Op K V Q)) (sys : Sys K V Q) (hs : SysInv E sys)
    (hc : ContractAlong E R sys ops) : SysInv E (run E R sys ops).1 :=
  (run_inv_contract E R ops sys hs hc).2

/-- **Every state reached inside the contract is well-formed** (bounds and key uniqueness).  For
    every map register and every set register after the history:
    * `Safe`: `len ≤ capacity` and every slot below `len` holds a live pair — what every accessor
      of the crate relies on;
    * iteration yields exactly `len()` entries (the abstract list has length `len`);
    * for a lawful key type whose `Clone` respects `Eq` (`E.Good`) the keys are pairwise unequal.
    No hypothesis on the world: panics injected into user code at any point are covered. -/
theorem unchecked_history_wf (ops : List (Op K V Q)) (sys : Sys K V Q) (hs : SysInv E sys)
    (hc : ContractAlong E R sys ops) (i : Nat) :
    let sys' := (run E R sys ops).1
    (Safe (sys'.maps i) ∧ (sys'.maps i).len ≤ (sys'.maps i).cap ∧
      (sys'.maps i).abs.length = (sys'.maps i).len ∧ (E.Good → NodupKeys E.keq (sys'.maps i).abs)) ∧
    (Safe (sys'.sets i) ∧ (sys'.sets i).len ≤ (sys'.sets i).cap ∧
      (sys'.sets i).abs.length = (sys'.sets i).len ∧ (E.Good → NodupKeys E.toUnit.keq (sys'.sets i).abs)) := by
  intro sys'
  have h := unchecked_history_inv E R ops sys hs hc
  obtain ⟨hm, hn⟩ := (h.1 i).abs
  obtain ⟨hm', hn'⟩ := (h.2 i).abs
  exact ⟨⟨hm.safe, hm.safe.1, hm.1.symm, hn⟩, ⟨hm'.safe, hm'.safe.1, hm'.1.symm, fun hg => hn' hg.toUnit⟩⟩

/-- after every PREFIX of a history inside the contract the registers are well-formed too. -/
theorem unchecked_history_wf_prefix (ops₁ ops₂ : List (Op K V Q)) (sys : Sys K V Q) (hs : SysInv E sys)
    (hc : ContractAlong E R sys (ops₁ ++ ops₂)) : SysInv E (run E R sys ops₁).1 :=
  unchecked_history_inv E R ops₁ sys hs ((contractAlong_append E R ops₁ ops₂ sys).mp hc).1

/-- `get_disjoint_unchecked_mut` needs NO contract for safety in this implementation: with
    arbitrary requests (repeated ones included) the step — the call followed by a write through
    every returned reference — does not reach `ub` and keeps the invariant.  (The contract only
    matters for WHICH slots are returned, `get_disjoint_unchecked_eq` / `_agrees` in `C18.lean`.) -/
theorem gdm_unchecked_step_inv {sys : Sys K V Q} (hs : SysInv E sys) (reg : Nat) (g : V → V)
    (ks : List (Probe K Q)) :
    (step E R sys (.map reg (.get_disjoint_mut true g ks))).2.outcome ≠ .ub ∧
      SysInv E (step E R sys (.map reg (.get_disjoint_mut true g ks))).1 :=
  step_inv_insertContract E R hs _ trivial

/-- the documented wording of the contract suffices for a time-independent `==`: a history in
    which every `insert_unchecked(k, _)` finds its register not full or `k` present in its abstract
    list (`findKey … ≠ none`), and every `get_disjoint_unchecked_mut` gets pairwise unequal
    requests, is inside the contract — in any world. -/
theorem contractAlong_of_pure (hE : E.Pure) (ops : List (Op K V Q)) (sys : Sys K V Q) (hs : SysInv E sys)
    (hc : ContractAlongPure E R sys ops) : ContractAlong E R sys ops :=
  ContractAlong.of_pure E R hE ops sys hs hc

/-! ### `insert_unchecked` refines to `insert` along histories -/

/-- **One step**: on a register that is not full, or on which the scan finds the key,
    `step (insert_unchecked k v) = step (insert k v)` — the same output record (outcome, returned
    old value, events, callback count, touched registers) and the same next state, for ANY `==`,
    any armed injection, either profile. -/
theorem insert_unchecked_step_refines {sys : Sys K V Q} (hs : SysInv E sys) (reg : Nat) (k : K) (v : V)
    (hc : (Op.map reg (.insert_unchecked k v) : Op K V Q).contractOk E sys) :
    step E R sys (.map reg (.insert_unchecked k v)) = step E R sys (.map reg (.insert k v)) :=
  step_insert_unchecked_eq E R reg (hs.1 reg) k v hc

/-- with `debug_assert!` compiled in the two steps agree even OUTSIDE the contract (both panic
    `.overflow` on a full map without the key, registers untouched). -/
theorem insert_unchecked_step_refines_debug {sys : Sys K V Q} (hs : SysInv E sys) (reg : Nat) (k : K) (v : V)
    (hd : sys.w.profile = .debug) :
    step E R sys (.map reg (.insert_unchecked k v)) = step E R sys (.map reg (.insert k v)) :=
  step_insert_unchecked_eq' E R reg (hs.1 reg) k v (Or.inr hd)

/-- the same with the contract as documented (pure `==`): `len < cap` or the key is present. -/
theorem insert_unchecked_step_refines_pure (hE : E.Pure) {sys : Sys K V Q} (hs : SysInv E sys) (reg : Nat)
    (k : K) (v : V)
    (hc : (sys.maps reg).len < (sys.maps reg).cap ∨ findKey E (sys.maps reg).abs (.key k : Probe K Q) ≠ none) :
    step E R sys (.map reg (.insert_unchecked k v)) = step E R sys (.map reg (.insert k v)) :=
  insert_unchecked_step_refines E R hs reg k v
    (contractOk_of_pure E hE hs (op := .map reg (.insert_unchecked k v)) hc)

/-- **Histories**: a history in which every `insert_unchecked` meets its contract produces
    exactly the outputs (per step: outcome, return value, events, callback count; at `endCase`
    the leak report) and the final register contents of the history with `insert` in its place
    (`toChecked`).  Stronger than asked: no lawfulness and no benign world are needed. -/
theorem insert_unchecked_history_refines (ops : List (Op K V Q)) (sys : Sys K V Q) (hs : SysInv E sys)
    (hc : ContractAlong E R sys ops) : run E R sys ops = run E R sys (ops.map toChecked) :=
  run_toChecked_eq E R ops sys hs (InsertContractAlong.of_contractAlong E R ops sys hc)

/-- the history form for a lawful key type with the contract as documented. -/
theorem insert_unchecked_history_refines_lawful (hE : E.Lawful) (ops : List (Op K V Q)) (sys : Sys K V Q)
    (hs : SysInv E sys) (hc : ContractAlongPure E R sys ops) :
    run E R sys ops = run E R sys (ops.map toChecked) :=
  insert_unchecked_history_refines E R ops sys hs (contractAlong_of_pure E R hE.toPure ops sys hs hc)

/-- a history without `get_disjoint_unchecked_mut` refines to a history of the SAFE API, to which
    all history theorems of C01–C17 apply as they stand. -/
theorem toChecked_history_safe (ops : List (Op K V Q))
    (h : ∀ op, op ∈ ops → (∀ reg g ks, op ≠ .map reg (.get_disjoint_mut true g ks)) ∧
      (∀ reg g ks, op ≠ .umap reg (.get_disjoint_mut true g ks))) :
    ∀ op, op ∈ ops.map toChecked → op.safeApi = true := by
  intro op hop
  obtain ⟨op', hop', rfl⟩ := List.mem_map.mp hop
  exact toChecked_safe op' (h op' hop').1 (h op' hop').2

/-! ### the contract cannot be dropped -/

/-- **Outside the contract the step is `ub`**: full register, key absent (pure `==`), no
    injection armed, release profile — the system-level counterpart of
    `insert_unchecked_ub_outside`.  With `unchecked_step_inv` this makes the contract of
    `insert_unchecked` exactly the condition under which the step is defined. -/
theorem step_insert_unchecked_ub_outside (hE : E.Pure) {sys : Sys K V Q} (reg : Nat)
    (hs : Safe (sys.maps reg)) (hb : Benign sys.w) (k : K) (v : V)
    (hfull : (sys.maps reg).len = (sys.maps reg).cap) (hrel : sys.w.profile = .release)
    (habs : findKey E (sys.maps reg).abs (.key k : Probe K Q) = none) :
    (step E R sys (.map reg (.insert_unchecked k v))).2.outcome = .ub := by
  have h := insert_unchecked_ub_outside E hE (s := mapSt sys reg) hs.rep ⟨hb.1, hb.2⟩ k v
    (by rw [← hs.rep.1]; exact hfull) hrel habs
  have h2 : stepCore E R { sys with w := { sys.w with events := [] } } (.map reg (.insert_unchecked k v)) = .ub := by
    show runOnMap _ reg _ = _
    unfold runOnMap
    have : stepMapOp E R sys.maps (.insert_unchecked k v) (mapSt sys reg) = .ub := by
      show (insert_unchecked E k v >>= _) _ = _
      simp only [bind_apply, h]
    unfold mapSt at this
    simp only [this]
  unfold step
  simp only [h2]

/-- in that situation the contract indeed fails (it is not merely unprovable). -/
theorem contract_fails_outside (hE : E.Pure) {sys : Sys K V Q} (hs : SysInv E sys) (reg : Nat)
    (hb : Benign sys.w) (k : K) (v : V) (hfull : (sys.maps reg).len = (sys.maps reg).cap)
    (hrel : sys.w.profile = .release)
    (habs : findKey E (sys.maps reg).abs (.key k : Probe K Q) = none) :
    ¬ (Op.map reg (.insert_unchecked k v) : Op K V Q).contractOk E sys := fun hc =>
  let R0 : Render K V := ⟨fun _ _ => "", fun _ _ => "", fun _ => "", fun _ => ""⟩
  (unchecked_step_inv E R0 hs _ hc).1
    (step_insert_unchecked_ub_outside E R0 hE reg (hs.1 reg).safe hb k v hfull hrel habs)

/-! ### non-vacuity on concrete data (tests, not proofs) -/

def exR : Render Nat Nat :=
  { dbgK := fun _ _ => "", dbgV := fun _ _ => "", dspK := fun _ => "", dspV := fun _ => "" }

/-- two map and two set registers of capacity 2, fresh. -/
def exSys (p : Profile) : Sys Nat Nat Nat := Sys.init (fun _ => 2) (fun _ => 2) { profile := p }

/-- `insert`, `insert_unchecked` with room, `insert_unchecked` of a present key on the now FULL
    map, `get_disjoint_unchecked_mut` with different keys (a hit and a miss), `insert_unchecked`
    on a `Map<K, (), 2>`, then the end of the test case. -/
def exHist : List (Op Nat Nat Nat) :=
  [ .map 0 (.insert 7 70), .map 0 (.insert_unchecked 8 80), .map 0 (.insert_unchecked 8 81),
    .map 0 (.get_disjoint_mut true (· + 1) [.key 8, .q 9, .key 7]),
    .umap 1 (.insert_unchecked 3 ()), .endCase ]

example : SysInv exEnv (exSys .release) := SysInv.init exEnv _ _ _

/-- the history is inside the contract (documented form, checked by evaluation). -/
example : ContractAlongPure exEnv exR (exSys .release) exHist :=
  ⟨trivial, Or.inl (by decide +kernel), Or.inr (by decide +kernel),
    (show Unequal exEnv _ by simp [Unequal, reqHit, Env.keq, Env.qeq, exEnv]), Or.inl (by decide +kernel),
    trivial, trivial⟩

example : ContractAlong exEnv exR (exSys .release) exHist :=
  contractAlong_of_pure exEnv exR ⟨fun _ _ _ => rfl, fun _ _ _ => rfl⟩ _ _ (SysInv.init exEnv _ _ _)
    ⟨trivial, Or.inl (by decide +kernel), Or.inr (by decide +kernel),
      (show Unequal exEnv _ by simp [Unequal, reqHit, Env.keq, Env.qeq, exEnv]), Or.inl (by decide +kernel),
      trivial, trivial⟩

/-- what the history does, step by step (release profile). -/
example : (run exEnv exR (exSys .release) exHist).2.map (·.outcome) = [.ok, .ok, .ok, .ok, .ok, .ok] := by
  decide +kernel

/-- outside the contract: the third pair goes into a full map of capacity 2. -/
def exBad : List (Op Nat Nat Nat) :=
  [ .map 0 (.insert 7 70), .map 0 (.insert 8 80), .map 0 (.insert_unchecked 9 90) ]

/-- release build: the last step is `ub` … -/
example : (run exEnv exR (exSys .release) exBad).2.map (·.outcome) = [.ok, .ok, .ub] := by decide +kernel

/-- … so the history is not inside the contract … -/
example : ¬ ContractAlong exEnv exR (exSys .release) exBad := fun h => by
  have h1 := unchecked_history_no_ub exEnv exR exBad _ (SysInv.init exEnv _ _ _) h
  have h2 : Outcome.ub ∈ (run exEnv exR (exSys .release) exBad).2.map (·.outcome) := by decide +kernel
  obtain ⟨o, ho, hu⟩ := List.mem_map.mp h2
  exact h1 o ho hu

/-- … while with `debug_assert!` compiled in the same call panics like `insert` does. -/
example : (run exEnv exR (exSys .debug) exBad).2.map (·.outcome) = [.ok, .ok, .panic .overflow] := by decide +kernel



end Histories

end Micromap.Props.C18
