/-
Entry chains: `entryOp` computes `lEntryOp`.
-/
import Micromap.Proofs.ListSysMap2

namespace Micromap.ListSys
open Micromap Refine EntryOps
variable {K V Q : Type} (E : Env K V Q)
variable {prof : Profile} {cap : Nat}

theorem RegOK.mapRet {res : RRes K V} {m : SM K V Q (RV K V)} {s : St K V Q} (f : RV K V → RV K V)
    (h : RegOK prof cap res m s) : RegOK prof cap (res.mapRet f) (m >>= fun r => pure (f r)) s := by
  cases res with
  | ok r l =>
    obtain ⟨s', h1, h2⟩ := h
    exact ⟨s', by simp [bind_apply, h1], h2⟩
  | panic c l =>
    obtain ⟨s', h1, h2⟩ := h
    exact ⟨s', by simp [bind_apply, h1], h2⟩

/-- `Map::entry`: occupied at the slot of the first stored key equal to `k`, vacant otherwise. -/
theorem entry_cases (hE : E.Pure) {l : List (K × V)} {s : St K V Q} (hc : Ctx prof cap l s) (k : K) :
    (∃ i, ∃ hi : i < l.length, lookup E l (.key k) = some (i, l[i]) ∧
      Ret (entry E k) s (.occ i) (Ctx prof cap l)) ∨
    (findKey E l (.key k) = none ∧ Ret (entry E k) s (.vac k) (Ctx prof cap l)) := by
  rcases outcome (entry_sat E hc.rep k) with ⟨e, s', hm, hs, hq⟩ | ⟨c, s', _, _, hi'⟩
  · rcases hq with ⟨i, rfl, hi, hw, hf⟩ | ⟨rfl, hw, hf⟩
    · exact Or.inl ⟨i, hi, lookup_some E (hf hE) hi, s', hm, hc.frame hs hw⟩
    · exact Or.inr ⟨hf hE, s', hm, hc.frame hs hw⟩
  · exact (no_inj hc.benign hi').elim

/-- the `and_modify` closures on an occupied entry: applied in order to the stored value. -/
theorem entryMods_occ : ∀ (mods : List (V → V)) (l : List (K × V)) (s : St K V Q), Ctx prof cap l s →
    ∀ {i} (hi : i < l.length),
    Ret (entryMods (Q := Q) mods (.occ i)) s (.occ i)
      (Ctx prof cap (l.set i (l[i].1, mods.foldl (fun v g => g v) l[i].2)))
  | [], l, s, hc, i, hi => by
    refine ⟨s, rfl, ?_⟩
    show Ctx prof cap (l.set i l[i]) s
    rw [List.set_getElem_self]; exact hc
  | g :: gs, l, s, hc, i, hi => by
    rcases outcome (and_modify_occ_sat (Q := Q) hc.rep g hi) with
      ⟨e, s1, hm, he, hcap, hrep, hw⟩ | ⟨c, s1, _, _, hi'⟩
    · subst he
      have hc1 := hc.step hrep hcap hw
      have hi1 : i < (l.set i (l[i].1, g l[i].2)).length := by simpa using hi
      obtain ⟨s2, g1, g2⟩ := entryMods_occ gs _ s1 hc1 hi1
      refine ⟨s2, ?_, ?_⟩
      · simp only [entryMods, bind_apply, hm, g1]
      · simpa using g2
    · exact (no_inj hc.benign hi').elim

theorem entryMods_vac : ∀ (mods : List (V → V)) (k : K) (s : St K V Q),
    entryMods mods (.vac k) s = .ok (.vac k) s
  | [], _, _ => rfl
  | g :: gs, k, s => by
    simp only [entryMods, bind_apply, and_modify_vac g k s, entryMods_vac gs k s]

theorem refVal_ret {l : List (K × V)} {s : St K V Q} (hc : Ctx prof cap l s) {i} (hi : i < l.length) :
    Ret (refVal i) s (RV.ref i (.val l[i].2)) (Ctx prof cap l) := by
  refine ⟨s, ?_, hc⟩
  simp [refVal, bind_apply, itemRef_ok (s := s) (hc.rep.cap_lt hi) (hc.rep.slot hi)]

/-- the terminals on an occupied entry. -/
theorem entryFinish_occ {l : List (K × V)} {s : St K V Q} (hc : Ctx prof cap l s) {i} (hi : i < l.length)
    (fin : EntryEnd V) :
    Ret (entryFinish E fin (.occ i)) s (lEntryOcc l i l[i] fin).1 (Ctx prof cap (lEntryOcc l i l[i] fin).2) := by
  have hiref := itemRef_ok (s := s) (hc.rep.cap_lt hi) (hc.rep.slot hi)
  cases fin with
  | or_insert v =>
    rcases outcome (or_insert_occ_sat E hc.rep v hi) with ⟨idx, s1, hm, hidx, hs, hw⟩ | ⟨c, s1, _, _, hi'⟩
    · subst hidx
      have hc1 := hc.frame hs hw
      obtain ⟨s2, g1, g2⟩ := refVal_ret hc1 hi
      exact ⟨s2, by simp only [entryFinish, bind_apply, hm, g1, lEntryOcc], g2⟩
    · exact (no_inj hc.benign hi').elim
  | or_insert_with v =>
    obtain ⟨s2, g1, g2⟩ := refVal_ret hc hi
    exact ⟨s2, by simp only [entryFinish, bind_apply, or_insert_with_occ E hc.rep 2 v hi, g1, lEntryOcc], g2⟩
  | or_insert_with_key v =>
    obtain ⟨s2, g1, g2⟩ := refVal_ret hc hi
    exact ⟨s2, by simp only [entryFinish, bind_apply, or_insert_with_occ E hc.rep 3 v hi, g1, lEntryOcc], g2⟩
  | or_default v =>
    obtain ⟨s2, g1, g2⟩ := refVal_ret hc hi
    exact ⟨s2, by simp only [entryFinish, bind_apply, or_insert_with_occ E hc.rep 4 v hi, g1, lEntryOcc], g2⟩
  | key =>
    exact ⟨s, by simp [entryFinish, bind_apply, entry_key_occ hc.rep hi, dropEntry, lEntryOcc], hc⟩
  | drop => exact ⟨s, by simp [entryFinish, bind_apply, dropEntry, lEntryOcc], hc⟩
  | occ_key => exact ⟨s, by simp [entryFinish, bind_apply, occ_get, hiref, lEntryOcc], hc⟩
  | occ_get => exact ⟨s, by simp [entryFinish, bind_apply, occ_get, hiref, lEntryOcc], hc⟩
  | occ_get_mut g =>
    refine ⟨{ s with r := setSlot s.r i (some (l[i].1, g l[i].2)) },
      by simp only [entryFinish, bind_apply, occ_get_mut_eq hc.rep hi g, pure_apply, lEntryOcc], ?_⟩
    exact hc.step' (hc.rep.set hi (l[i].1, g l[i].2)) rfl rfl
  | occ_insert v =>
    refine ⟨{ s with r := setSlot s.r i (some (l[i].1, v)) },
      by simp only [entryFinish, bind_apply, occ_insert_eq E hc.rep hi v, pure_apply, lEntryOcc], ?_⟩
    exact hc.step' (hc.rep.set hi (l[i].1, v)) rfl rfl
  | occ_remove =>
    rcases outcome (occ_remove_sat (Q := Q) hc.rep hi) with ⟨v, s1, hm, hv, hrep, hcap, hw⟩ | ⟨c, s1, _, _, _, hi'⟩
    · subst hv
      exact ⟨s1, by simp only [entryFinish, bind_apply, hm, pure_apply, lEntryOcc], hc.step hrep hcap hw⟩
    · exact (no_inj hc.benign hi').elim
  | occ_remove_entry =>
    rcases outcome (occ_remove_entry_sat (Q := Q) hc.rep hi (P := fun _ _ => False)) with
      ⟨p, s1, hm, hp, hrep, hcap, hw⟩ | ⟨c, s1, _, hf⟩
    · subst hp
      exact ⟨s1, by simp only [entryFinish, bind_apply, hm, pure_apply, lEntryOcc], hc.step hrep hcap hw⟩
    · exact hf.elim
  | occ_into_mut =>
    obtain ⟨s2, g1, g2⟩ := refVal_ret hc hi
    exact ⟨s2, by simp only [entryFinish, g1, lEntryOcc], g2⟩
  | vac_key => exact ⟨s, by simp [entryFinish, lEntryOcc], hc⟩
  | vac_into_key => exact ⟨s, by simp [entryFinish, lEntryOcc], hc⟩
  | vac_insert v => exact ⟨s, by simp [entryFinish, lEntryOcc], hc⟩

/-- `VacantEntry::insert` of an absent key. -/
theorem vacant_insert_ok (hE : E.Pure) {l : List (K × V)} {s : St K V Q} (hc : Ctx prof cap l s) (k : K)
    (v : V) (hf : findKey E l (.key k) = none) :
    (l.length < cap ∧ Ret (vacant_insert E k v) s l.length (Ctx prof cap (l ++ [(k, v)]))) ∨
    (¬ l.length < cap ∧ Pan (vacant_insert E k v) s (fullPanic prof) (Ctx prof cap l)) := by
  rcases outcome (vacant_insert_sat E hc.rep k v) with ⟨idx, s1, hm, hcap, hq⟩ | ⟨c, s1, hm, hcap, hq⟩
  · rcases hq with ⟨hi, _, _, hfi⟩ | ⟨hidx, hroom, hrep, hw, _⟩
    · rw [hf] at hfi; exact absurd (hfi hE) (by simp)
    · subst hidx
      exact Or.inl ⟨hc.cap ▸ hroom, s1, hm, hc.step hrep hcap hw⟩
  · rcases hq with ⟨hi', _⟩ | ⟨hs, ho, hfull, _, hw⟩
    · exact (no_inj hc.benign hi').elim
    · refine Or.inr ⟨by rw [← hc.cap]; omega, s1, ?_, hc.frame hs hw⟩
      rw [← overflow_class ho hc.prof]; exact hm

/-- the terminals on a vacant entry. -/
theorem entryFinish_vac (hE : E.Pure) {l : List (K × V)} {s : St K V Q} (hc : Ctx prof cap l s) (k : K)
    (hf : findKey E l (.key k) = none) (fin : EntryEnd V) :
    RegOK prof cap (lEntryVac prof cap l k fin) (entryFinish E fin (.vac k)) s := by
  -- `VacantEntry::insert` then `refVal`
  have hins : ∀ (v : V) (s0 : St K V Q), Ctx prof cap l s0 →
      RegOK prof cap
        (if l.length < cap then .ok (.ref l.length (.val v)) (l ++ [(k, v)]) else .panic (fullPanic prof) l)
        (vacant_insert E k v >>= refVal) s0 := by
    intro v s0 hc0
    rcases vacant_insert_ok E hE hc0 k v hf with ⟨hroom, h⟩ | ⟨hfull, h⟩
    · rw [if_pos hroom]
      refine Ret.bind h (fun s1 hc1 => ?_)
      have := refVal_ret hc1 (i := l.length) (by simp)
      simpa using this
    · rw [if_neg hfull]
      exact Pan.bind h
  have hdrop : ∀ (r : RV K V), Ret (dropK k >>= fun _ => (pure r : SM K V Q (RV K V))) s r (Ctx prof cap l) :=
    fun r => Ret.bind (cb_ret_unit (dropK_cb k) hc) (fun s1 hc1 => Ret.pure hc1)
  have hcall : ∀ tag : Nat, Ret (Micromap.unwindWith (dropK k) (callF tag) : SM K V Q Unit) s ()
      (Ctx prof cap l) := fun tag => Ret.unwindWith (cb_ret_unit (callF_cb tag) hc)
  cases fin with
  | or_insert v => exact hins v s hc
  | vac_insert v => exact hins v s hc
  | or_insert_with v =>
    show RegOK prof cap _ ((Micromap.unwindWith (dropK k) (callF 2) >>= fun _ => vacant_insert E k v) >>= refVal) s
    rw [M_bind_assoc]
    exact RegOK.bind_ret (hcall 2) (fun s1 hc1 => hins v s1 hc1)
  | or_insert_with_key v =>
    show RegOK prof cap _ ((Micromap.unwindWith (dropK k) (callF 3) >>= fun _ => vacant_insert E k v) >>= refVal) s
    rw [M_bind_assoc]
    exact RegOK.bind_ret (hcall 3) (fun s1 hc1 => hins v s1 hc1)
  | or_default v =>
    show RegOK prof cap _ ((Micromap.unwindWith (dropK k) (callF 4) >>= fun _ => vacant_insert E k v) >>= refVal) s
    rw [M_bind_assoc]
    exact RegOK.bind_ret (hcall 4) (fun s1 hc1 => hins v s1 hc1)
  | key =>
    obtain ⟨s1, h1, h2⟩ := hdrop (.key k)
    exact ⟨s1, by simpa [entryFinish, entry_key, dropEntry, bind_apply] using h1, h2⟩
  | vac_into_key => exact ⟨s, rfl, hc⟩
  | drop => exact hdrop .unit
  | vac_key => exact hdrop (.key k)
  | occ_key => exact hdrop (.tag "vacant")
  | occ_get => exact hdrop (.tag "vacant")
  | occ_get_mut g => exact hdrop (.tag "vacant")
  | occ_insert v => exact hdrop (.tag "vacant")
  | occ_remove => exact hdrop (.tag "vacant")
  | occ_remove_entry => exact hdrop (.tag "vacant")
  | occ_into_mut => exact hdrop (.tag "vacant")

/-- **entry chains**: `map.entry(k)`, the `and_modify` closures, the terminal. -/
theorem entryOp_ok (hE : E.Pure) {l : List (K × V)} {s : St K V Q} (hc : Ctx prof cap l s) (k : K)
    (mods : List (V → V)) (fin : EntryEnd V) :
    RegOK prof cap (lEntryOp E prof cap l k mods fin) (entryOp E k mods fin) s := by
  unfold lEntryOp entryOp
  rcases entry_cases E hE hc k with ⟨i, hi, hl, he⟩ | ⟨hf, he⟩
  · rw [hl]
    refine Ret.bind he (fun s1 hc1 => ?_)
    refine Ret.bind (entryMods_occ mods l s1 hc1 hi) (fun s2 hc2 => ?_)
    have hi2 : i < (l.set i (l[i].1, mods.foldl (fun v g => g v) l[i].2)).length := by simpa using hi
    have := entryFinish_occ E hc2 hi2 fin
    simp only [List.getElem_set_self] at this
    exact Ret.bind this (fun s3 hc3 => Ret.pure hc3)
  · rw [lookup_none E hf]
    refine RegOK.bind_ret he (fun s1 hc1 => ?_)
    refine RegOK.bind_ret ⟨s1, entryMods_vac mods k s1, hc1⟩ (fun s2 hc2 => ?_)
    exact RegOK.mapRet _ (entryFinish_vac E hE hc2 k hf fin)

end Micromap.ListSys
