/-
Triples of the public dictionary API of `map.rs` / `index.rs`.
-/
import Micromap.Proofs.MapOps

namespace Micromap
open Dict (swapRemove)
variable {K V Q : Type} (E : Env K V Q)

/-- `Map::insert_key_value`. -/
theorem insert_key_value_sat {s : St K V Q} {l : List (K × V)} (hr : Rep s.r l) (k : K) (v : V) :
    Sat (insert_key_value E k v) s
      (fun res s' => s'.r.cap = s.r.cap ∧ WRel s.w s'.w [] ∧
        ((∃ i, ∃ hi : i < l.length, res = some l[i] ∧ Rep s'.r (l.set i (k, v)) ∧
            (E.Pure → findKey E l (.key k) = some i)) ∨
         (res = none ∧ l.length < s.r.cap ∧ Rep s'.r (l ++ [(k, v)]) ∧
            (E.Pure → findKey E l (.key k) = none))))
      (fun c s' => s'.r = s.r ∧
        (InjPanic s s' c ∨
         (OverflowPanic s c ∧ l.length = s.r.cap ∧ (E.Pure → findKey E l (.key k) = none) ∧
            WRel s.w s'.w (dropVTr E v ++ [.dropK k])))) := by
  unfold insert_key_value
  refine Sat.bind (insert_ii_sat E hr k v true) ?_
  intro res s1 h
  obtain ⟨i, old⟩ := res
  dsimp only at h
  obtain ⟨hcap, hw, hcase⟩ := h
  rcases hcase with ⟨hi, hold, hrep, hfind⟩ | ⟨_, hold, hroom, hrep, hfind⟩
  · exact Sat.pure ⟨hcap, hw, Or.inl ⟨i, hi, by simpa using hold, by simpa using hrep, hfind⟩⟩
  · exact Sat.pure ⟨hcap, hw, Or.inr ⟨hold, hroom, hrep, hfind⟩⟩

/-- `insert_ii_for_full`: replace-only. -/
theorem insert_ii_for_full_sat {s : St K V Q} {l : List (K × V)} (hr : Rep s.r l) (k : K) (v : V)
    (upd : Bool) :
    Sat (insert_ii_for_full E k v upd) s
      (fun res s' => s'.r.cap = s.r.cap ∧
        ((∃ i, ∃ hi : i < l.length,
            res = some (i, if upd then l[i] else (k, l[i].2)) ∧
            Rep s'.r (l.set i (if upd then (k, v) else (l[i].1, v))) ∧ WRel s.w s'.w [] ∧
            (E.Pure → findKey E l (.key k) = some i)) ∨
         (res = none ∧ s'.r = s.r ∧ WRel s.w s'.w (dropVTr E v ++ [.dropK k]) ∧
            (E.Pure → findKey E l (.key k) = none))))
      (fun c s' => s'.r = s.r ∧ InjPanic s s' c) := by
  unfold insert_ii_for_full
  refine Sat.bind (m := Micromap.unwindWith (dropArgs E k v) (scan E (.key k)))
    (Q₁ := fun o s' => s'.r = s.r ∧ WRel s.w s'.w [] ∧ (∀ j, o = some j → j < l.length) ∧
        (E.Pure → o = findKey E l (.key k))) ?_ ?_
  · refine Sat.unwindWith (scan_cb' E hr (.key k)) ?_
    intro c s' ⟨h1, h2, h3, h4, tr', h5⟩
    refine Sat.mono ((dropArgs_cb E k v).unw (s'.setUnw true) rfl) ?_ (fun _ _ h => h)
    intro _ s'' ⟨g1, g2, _⟩
    exact ⟨by simpa using g1.trans h1, h2, h3, h4, _, h5.trans g2.through_unw⟩
  · intro o s1 ⟨h1, h2, h3, h4⟩
    have hr1 : Rep s1.r l := h1 ▸ hr
    cases o with
    | some i =>
      have hi := h3 i rfl
      simp only
      cases upd with
      | true =>
        simp only [if_true]
        refine Sat.bind (Sat.of_ok (pairReplace_ok (s := s1) (k, v) (hr1.cap_lt hi) (hr1.slot hi))
          (Q := fun old s' => old = l[i] ∧ s' = { s1 with r := setSlot s1.r i (some (k, v)) }) ⟨rfl, rfl⟩) ?_
        rintro _ _ ⟨rfl, rfl⟩
        exact Sat.pure ⟨by simp [h1], Or.inl ⟨i, hi, rfl, by simpa using hr1.set hi (k, v), h2,
          fun hp => (h4 hp).symm⟩⟩
      | false =>
        simp only [Bool.false_eq_true, if_false]
        refine Sat.bind (Sat.of_ok (valueReplace_ok (s := s1) v (hr1.cap_lt hi) (hr1.slot hi))
          (Q := fun old s' => old = l[i].2 ∧ s' = { s1 with r := setSlot s1.r i (some (l[i].1, v)) })
          ⟨rfl, rfl⟩) ?_
        rintro _ _ ⟨rfl, rfl⟩
        exact Sat.pure ⟨by simp [h1], Or.inl ⟨i, hi, rfl, by simpa using hr1.set hi (l[i].1, v), h2,
          fun hp => (h4 hp).symm⟩⟩
    | none =>
      simp only
      refine Sat.cb (dropArgs_cb E k v) ?_ ?_
      · intro _ s2 g1 g2 _
        exact Sat.pure ⟨by rw [g1, h1], Or.inr ⟨rfl, g1.trans h1, by simpa using h2.trans g2,
          fun hp => (h4 hp).symm⟩⟩
      · intro s2 tr' g1 g2 g3 g4
        exact ⟨g1.trans h1, rfl, fun hn => g2 (h2.inj hn), h2.unw ▸ g3, _, h2.trans g4⟩

/-- any lookup that only scans: `contains_key`. -/
theorem contains_key_cb {s : St K V Q} {l : List (K × V)} (hr : Rep s.r l) (pr : Probe K Q) :
    Sat (contains_key E pr) s
      (fun b s' => s'.r = s.r ∧ WRel s.w s'.w [] ∧ (E.Pure → b = (findKey E l pr).isSome))
      (fun c s' => s'.r = s.r ∧ InjPanic s s' c) := by
  unfold contains_key
  refine Sat.bind (Sat.mono (scan_cb' E hr pr) (fun _ _ h => h) ?_) ?_
  · intro c s' ⟨h1, h2, h3, h4, h5⟩; exact ⟨h1, h2, h3, h4, h5⟩
  · intro o s1 ⟨h1, h2, _, h4⟩
    exact Sat.pure ⟨h1, h2, fun hp => by rw [h4 hp]⟩

/-- `get` / `get_key_value`: slot position and the stored pair. -/
theorem get_sat {s : St K V Q} {l : List (K × V)} (hr : Rep s.r l) (pr : Probe K Q) :
    Sat (get E pr) s
      (fun o s' => s'.r = s.r ∧ WRel s.w s'.w [] ∧
        (∀ i p, o = some (i, p) → ∃ hi : i < l.length, p = l[i]) ∧
        (E.Pure → o.map (·.1) = findKey E l pr))
      (fun c s' => s'.r = s.r ∧ InjPanic s s' c) := by
  unfold get
  refine Sat.bind (Sat.mono (scan_cb' E hr pr) (fun _ _ h => h) ?_) ?_
  · intro c s' ⟨h1, h2, h3, h4, h5⟩; exact ⟨h1, h2, h3, h4, h5⟩
  · intro o s1 ⟨h1, h2, h3, h4⟩
    have hr1 : Rep s1.r l := h1 ▸ hr
    cases o with
    | none => exact Sat.pure ⟨h1, h2, fun _ _ h => (by cases h), fun hp => by rw [← h4 hp]; rfl⟩
    | some i =>
      have hi := h3 i rfl
      simp only
      refine Sat.bind (Sat.of_ok (itemRef_ok (s := s1) (hr1.cap_lt hi) (hr1.slot hi))
        (Q := fun p s' => p = l[i] ∧ s1 = s') ⟨rfl, rfl⟩) ?_
      rintro _ _ ⟨rfl, rfl⟩
      refine Sat.pure ⟨h1, h2, fun j p h => ?_, fun hp => by rw [← h4 hp]; rfl⟩
      cases h; exact ⟨hi, rfl⟩

/-- `get_mut` followed by a write through the reference. -/
theorem get_mut_sat {s : St K V Q} {l : List (K × V)} (hr : Rep s.r l) (pr : Probe K Q) (g : V → V) :
    Sat (get_mut E pr g) s
      (fun o s' => s'.r.cap = s.r.cap ∧ WRel s.w s'.w [] ∧
        ((o = none ∧ s'.r = s.r) ∨
         (∃ i, ∃ hi : i < l.length, o = some (i, (l[i].1, g l[i].2)) ∧ Rep s'.r (l.set i (l[i].1, g l[i].2)))) ∧
        (E.Pure → o.map (·.1) = findKey E l pr))
      (fun c s' => s'.r = s.r ∧ InjPanic s s' c) := by
  unfold get_mut
  refine Sat.bind (Sat.mono (scan_cb' E hr pr) (fun _ _ h => h) ?_) ?_
  · intro c s' ⟨h1, h2, h3, h4, h5⟩; exact ⟨h1, h2, h3, h4, h5⟩
  · intro o s1 ⟨h1, h2, h3, h4⟩
    have hr1 : Rep s1.r l := h1 ▸ hr
    cases o with
    | none => exact Sat.pure ⟨by rw [h1], h2, Or.inl ⟨rfl, h1⟩, fun hp => by rw [← h4 hp]; rfl⟩
    | some i =>
      have hi := h3 i rfl
      simp only
      refine Sat.bind (Sat.of_ok (itemRef_ok (s := s1) (hr1.cap_lt hi) (hr1.slot hi))
        (Q := fun p s' => p = l[i] ∧ s1 = s') ⟨rfl, rfl⟩) ?_
      rintro _ _ ⟨rfl, rfl⟩
      refine Sat.bind (Sat.of_ok (valueReplace_ok (s := s1) (g l[i].2) (hr1.cap_lt hi) (hr1.slot hi))
        (Q := fun _ s' => s' = { s1 with r := setSlot s1.r i (some (l[i].1, g l[i].2)) }) rfl) ?_
      rintro _ _ rfl
      exact Sat.pure ⟨by simp [h1], h2, Or.inr ⟨i, hi, rfl, by simpa using hr1.set hi _⟩,
        fun hp => by rw [← h4 hp]; rfl⟩

/-- `Index::index`: panics `noentry` exactly when the scan finds nothing. -/
theorem index_sat {s : St K V Q} {l : List (K × V)} (hr : Rep s.r l) (pr : Probe K Q) :
    Sat (index E pr) s
      (fun r s' => s'.r = s.r ∧ WRel s.w s'.w [] ∧ (∃ hi : r.1 < l.length, r.2 = l[r.1]) ∧
        (E.Pure → findKey E l pr = some r.1))
      (fun c s' => s'.r = s.r ∧ (InjPanic s s' c ∨
        (c = .noentry ∧ WRel s.w s'.w [] ∧ (E.Pure → findKey E l pr = none)))) := by
  unfold index
  refine Sat.bind (Sat.mono (get_sat E hr pr) (fun _ _ h => h) ?_) ?_
  · intro c s' ⟨h1, h2⟩; exact ⟨h1, Or.inl h2⟩
  · intro o s1 ⟨h1, h2, h3, h4⟩
    cases o with
    | none => exact Sat.throwP ⟨h1, Or.inr ⟨rfl, h2, fun hp => by rw [← h4 hp]; rfl⟩⟩
    | some r =>
      obtain ⟨i, p⟩ := r
      obtain ⟨hi, hp⟩ := h3 i p rfl
      exact Sat.pure ⟨h1, h2, ⟨hi, hp⟩, fun hpu => by rw [← h4 hpu]; rfl⟩

/-- `remove_entry`. -/
theorem remove_entry_sat {s : St K V Q} {l : List (K × V)} (hr : Rep s.r l) (pr : Probe K Q) :
    Sat (remove_entry E pr) s
      (fun o s' => s'.r.cap = s.r.cap ∧ WRel s.w s'.w [] ∧
        ((o = none ∧ s'.r = s.r) ∨
         (∃ i, ∃ hi : i < l.length, o = some l[i] ∧ Rep s'.r (swapRemove l i) ∧
            (E.Pure → findKey E l pr = some i))) ∧
        (E.Pure → o.isSome = (findKey E l pr).isSome))
      (fun c s' => s'.r = s.r ∧ InjPanic s s' c) := by
  unfold remove_entry
  refine Sat.bind (Sat.mono (scan_cb' E hr pr) (fun _ _ h => h) ?_) ?_
  · intro c s' ⟨h1, h2, h3, h4, h5⟩; exact ⟨h1, h2, h3, h4, h5⟩
  · intro o s1 ⟨h1, h2, h3, h4⟩
    have hr1 : Rep s1.r l := h1 ▸ hr
    cases o with
    | none => exact Sat.pure ⟨by rw [h1], h2, Or.inl ⟨rfl, h1⟩, fun hp => by rw [← h4 hp]; rfl⟩
    | some i =>
      have hi := h3 i rfl
      simp only
      refine Sat.bind (remove_index_read_sat hr1 hi) ?_
      intro p s2 ⟨g1, g2, g3, g4⟩
      subst g1
      exact Sat.pure ⟨by rw [g3, h1], by simpa using h2.trans g4,
        Or.inr ⟨i, hi, rfl, g2, fun hp => (h4 hp).symm⟩, fun hp => by rw [← h4 hp]; rfl⟩

/-- `remove`: the value is returned, the stored key is dropped. -/
theorem remove_sat {s : St K V Q} {l : List (K × V)} (hr : Rep s.r l) (pr : Probe K Q) :
    Sat (remove E pr) s
      (fun o s' => s'.r.cap = s.r.cap ∧
        ((o = none ∧ s'.r = s.r ∧ WRel s.w s'.w []) ∨
         (∃ i, ∃ hi : i < l.length, o = some l[i].2 ∧ Rep s'.r (swapRemove l i) ∧
            WRel s.w s'.w [.dropK l[i].1] ∧ (E.Pure → findKey E l pr = some i))) ∧
        (E.Pure → o.isSome = (findKey E l pr).isSome))
      (fun c s' => s'.r.cap = s.r.cap ∧ InjPanic s s' c ∧
        (s'.r = s.r ∨ ∃ i, ∃ _ : i < l.length, Rep s'.r (swapRemove l i))) := by
  unfold remove
  refine Sat.bind (Sat.mono (scan_cb' E hr pr) (fun _ _ h => h) ?_) ?_
  · intro c s' ⟨h1, h2, h3, h4, h5⟩; exact ⟨by rw [h1], ⟨h2, h3, h4, h5⟩, Or.inl h1⟩
  · intro o s1 ⟨h1, h2, h3, h4⟩
    have hr1 : Rep s1.r l := h1 ▸ hr
    cases o with
    | none => exact Sat.pure ⟨by rw [h1], Or.inl ⟨rfl, h1, h2⟩, fun hp => by rw [← h4 hp]; rfl⟩
    | some i =>
      have hi := h3 i rfl
      simp only
      refine Sat.bind (remove_index_read_sat hr1 hi) ?_
      intro p s2 ⟨g1, g2, g3, g4⟩
      subst g1
      refine Sat.cb (CbOk.unwindWith (leak_cb (.v l[i].2)) (dropK_cb l[i].1)) ?_ ?_
      · intro _ s3 k1 k2 _
        exact Sat.pure ⟨by rw [k1, g3, h1], Or.inr ⟨i, hi, rfl, k1 ▸ g2,
          by simpa using (h2.trans g4).trans k2, fun hp => (h4 hp).symm⟩, fun hp => by rw [← h4 hp]; rfl⟩
      · intro s3 tr' k1 k2 k3 k4
        have hw := h2.trans g4
        exact ⟨by rw [k1, g3, h1], ⟨rfl, fun hn => k2 (hw.inj hn), hw.unw ▸ k3, _, hw.trans k4⟩,
          Or.inr ⟨i, hi, k1 ▸ g2⟩⟩

end Micromap

namespace Micromap
variable {K V Q : Type} (E : Env K V Q)

/-- `checked_insert`: as `insert` while there is room or the key is present; on a full container
    with an absent key it returns `None`, leaves the container untouched and drops both arguments. -/
theorem checked_insert_sat {s : St K V Q} {l : List (K × V)} (hr : Rep s.r l) (k : K) (v : V) :
    Sat (checked_insert E k v) s
      (fun res s' => s'.r.cap = s.r.cap ∧
        ((∃ i, ∃ hi : i < l.length, res = some (some l[i].2) ∧ Rep s'.r (l.set i (l[i].1, v)) ∧
            WRel s.w s'.w [.dropK k] ∧ (E.Pure → findKey E l (.key k) = some i)) ∨
         (res = some none ∧ l.length < s.r.cap ∧ Rep s'.r (l ++ [(k, v)]) ∧ WRel s.w s'.w [] ∧
            (E.Pure → findKey E l (.key k) = none)) ∨
         (res = none ∧ l.length = s.r.cap ∧ s'.r = s.r ∧ WRel s.w s'.w (dropVTr E v ++ [.dropK k]) ∧
            (E.Pure → findKey E l (.key k) = none))))
      (fun c s' => s'.r.cap = s.r.cap ∧ InjPanic s s' c ∧
        ∃ l', Rep s'.r l' ∧ (l' = l ∨ ∃ i, ∃ hi : i < l.length, l' = l.set i (l[i].1, v))) := by
  unfold checked_insert
  show Sat (getLen >>= _) s _ _
  refine Sat.bind (Q₁ := fun n s' => n = l.length ∧ s = s') (show Sat getLen s _ _ from ⟨hr.1, rfl⟩) ?_
  rintro _ _ ⟨rfl, rfl⟩
  show Sat (getCap >>= _) s _ _
  refine Sat.bind (Q₁ := fun n s' => n = s.r.cap ∧ s = s') (show Sat getCap s _ _ from ⟨rfl, rfl⟩) ?_
  rintro _ _ ⟨rfl, rfl⟩
  by_cases hroom : l.length < s.r.cap
  · rw [if_pos hroom]
    refine Sat.bind (Sat.mono (insert_ii_sat E hr k v false) (fun _ _ h => h) ?_) ?_
    · intro c s' ⟨h1, h2⟩
      rcases h2 with h | ⟨_, hf, _, _⟩
      · exact ⟨by rw [h1], h, l, h1 ▸ hr, Or.inl rfl⟩
      · omega
    · intro res s1 h
      obtain ⟨i, old⟩ := res
      dsimp only at h
      obtain ⟨hcap, hw, hcase⟩ := h
      rcases hcase with ⟨hi, hold, hrep, hfind⟩ | ⟨_, hold, _, hrep, hfind⟩
      · subst hold
        refine Sat.cb (dropReturnedKey_cb _) ?_ ?_
        · intro r s2 g1 g2 g3
          refine Sat.pure ⟨by rw [g1, hcap], Or.inl ⟨i, hi, by simpa using g3, g1 ▸ hrep,
            by simpa using hw.trans g2, hfind⟩⟩
        · intro s2 tr' g1 g2 g3 g4
          exact ⟨by rw [g1, hcap], ⟨rfl, fun hn => g2 (hw.inj hn), hw.unw ▸ g3, _, hw.trans g4⟩,
            _, g1 ▸ hrep, Or.inr ⟨i, hi, rfl⟩⟩
      · subst hold
        exact Sat.pure ⟨hcap, Or.inr (Or.inl ⟨rfl, hroom, hrep, hw, hfind⟩)⟩
  · rw [if_neg hroom]
    have hfull : l.length = s.r.cap := by have := hr.2.1; omega
    refine Sat.bind (Sat.mono (insert_ii_for_full_sat E hr k v false) (fun _ _ h => h) ?_) ?_
    · intro c s' ⟨h1, h2⟩
      exact ⟨by rw [h1], h2, l, h1 ▸ hr, Or.inl rfl⟩
    · intro res s1 ⟨hcap, hcase⟩
      rcases hcase with ⟨i, hi, hres, hrep, hw, hfind⟩ | ⟨hres, hsame, hw, hfind⟩
      · subst hres
        simp only [Bool.false_eq_true, if_false]
        simp only [Bool.false_eq_true, if_false] at hrep
        refine Sat.cb (dropReturnedKey_cb _) ?_ ?_
        · intro r s2 g1 g2 g3
          refine Sat.pure ⟨by rw [g1, hcap], Or.inl ⟨i, hi, by simpa using g3, g1 ▸ hrep,
            by simpa using hw.trans g2, hfind⟩⟩
        · intro s2 tr' g1 g2 g3 g4
          exact ⟨by rw [g1, hcap], ⟨rfl, fun hn => g2 (hw.inj hn), hw.unw ▸ g3, _, hw.trans g4⟩,
            _, g1 ▸ hrep, Or.inr ⟨i, hi, rfl⟩⟩
      · subst hres
        exact Sat.pure ⟨hcap, Or.inr (Or.inr ⟨rfl, hfull, hsame, hw, hfind⟩)⟩

end Micromap
