/-
Sets are maps with `V = ()`: the reference finite set, and its relation to the reference
dictionary at `V = Unit`, so that `Refine.sim_step` carries over to every `Set` operation.
-/
import Micromap.Proofs.RefineStep

namespace Micromap.RefineSet
open SetAlg Dict Refine
variable {K Q : Type}

/-- the `Set` operations of property C07 (each forwards to the `Map<T, (), N>` method shown in
    `toD`, exactly as `src/set/methods.rs` does). -/
inductive SOp (K Q : Type) where
  | insert (k : K)
  | replace (k : K)
  | contains (pr : Probe K Q)
  | get (pr : Probe K Q)
  | remove (pr : Probe K Q)
  | take (pr : Probe K Q)
  | retain (f : K → Bool)
  | clear
  | len
  | is_empty
  | iter

inductive SOut (K : Type) where
  | unit
  | bool (b : Bool)
  | nat (n : Nat)
  | optK (o : Option K)
  | list (l : List K)

/-- the map operation behind a set operation. -/
def toD : SOp K Q → DOp K Unit Q
  | .insert k => .insert k ()
  | .replace k => .insert_key_value k ()
  | .contains pr => .contains_key pr
  | .get pr => .get pr
  | .remove pr => .remove pr
  | .take pr => .remove_entry pr
  | .retain f => .retain fun k u => (f k, u)
  | .clear => .clear
  | .len => .len
  | .is_empty => .is_empty
  | .iter => .iter

/-- what the `Set` method makes of the map method's result (`.is_none()`, `.is_some()`,
    `.map(|p| p.0)` …). -/
def outS : SOp K Q → DOut K Unit → SOut K
  | .insert _, .optV o => .bool o.isNone
  | .replace _, .optKV o => .optK (o.map (·.1))
  | .contains _, .bool b => .bool b
  | .get _, .optKV o => .optK (o.map (·.1))
  | .remove _, .optV o => .bool o.isSome
  | .take _, .optKV o => .optK (o.map (·.1))
  | .len, .nat n => .nat n
  | .is_empty, .bool b => .bool b
  | .iter, .list l => .list (l.map (·.1))
  | _, _ => .unit

variable (F : Env K Unit Q)

/-- the set operation on the slot machine. -/
def smrun (op : SOp K Q) : SM K Unit Q (SOut K) := do
  let o ← mrun F (toD op)
  pure (outS op o)

/-- the ideal finite set of capacity `cap`, as a duplicate-free list of elements. -/
def sset (op : SOp K Q) (ks : List K) (cap : Nat) : RefDict.Res (SOut K) (List K) :=
  match op with
  | .insert k =>
    if ks.any (F.hitP (.key k)) then .ok (.bool false) ks
    else if ks.length < cap then .ok (.bool true) (ks ++ [k]) else .overflow
  | .replace k =>
    match ks.find? (F.hitP (.key k)) with
    | some old => .ok (.optK (some old)) (ks.map fun x => if F.hitP (.key k) x then k else x)
    | none => if ks.length < cap then .ok (.optK none) (ks ++ [k]) else .overflow
  | .contains pr => .ok (.bool (ks.any (F.hitP pr))) ks
  | .get pr => .ok (.optK (ks.find? (F.hitP pr))) ks
  | .remove pr => .ok (.bool (ks.any (F.hitP pr))) (ks.filter fun x => !F.hitP pr x)
  | .take pr => .ok (.optK (ks.find? (F.hitP pr))) (ks.filter fun x => !F.hitP pr x)
  | .retain f => .ok .unit (ks.filter f)
  | .clear => .ok .unit []
  | .len => .ok (.nat ks.length) ks
  | .is_empty => .ok (.bool (ks.length == 0)) ks
  | .iter => .ok (.list ks) ks

def SOutRel : SOut K → SOut K → Prop
  | .list a, .list b => a.Perm b
  | x, y => x = y

theorem find_map_fst (hit : K → Bool) (d : List (K × Unit)) :
    (d.map (·.1)).find? hit = (RefDict.find hit d).map (·.1) := by
  unfold RefDict.find
  induction d with
  | nil => rfl
  | cons p d ih =>
    simp only [List.map_cons, List.find?_cons]
    cases hit p.1 <;> simp [ih]

theorem any_map_fst (hit : K → Bool) (d : List (K × Unit)) :
    (d.map (·.1)).any hit = (RefDict.find hit d).isSome := by
  unfold RefDict.find
  induction d with
  | nil => rfl
  | cons p d ih =>
    simp only [List.map_cons, List.any_cons, List.find?_cons]
    cases hit p.1 <;> simp [ih]

theorem setVal_unit (hit : K → Bool) (d : List (K × Unit)) : RefDict.setVal hit () d = d := by
  unfold RefDict.setVal
  conv => rhs; rw [← List.map_id d]
  apply List.map_congr_left
  intro q _; split <;> rfl

theorem setPair_map_fst (hit : K → Bool) (k : K) (d : List (K × Unit)) :
    (RefDict.setPair hit k () d).map (·.1) = (d.map (·.1)).map fun x => if hit x then k else x := by
  unfold RefDict.setPair
  rw [List.map_map, List.map_map]
  apply List.map_congr_left
  intro q _
  simp only [Function.comp]
  split <;> rfl

theorem erase_map_fst (hit : K → Bool) (d : List (K × Unit)) :
    (RefDict.erase hit d).map (·.1) = (d.map (·.1)).filter fun x => !hit x := by
  unfold RefDict.erase
  induction d with
  | nil => rfl
  | cons p d ih =>
    simp only [List.filter_cons, List.map_cons]
    cases hit p.1 <;> simp [ih]

theorem retain_map_fst (f : K → Bool) (d : List (K × Unit)) :
    (RefDict.retain (fun k u => (f k, u)) d).map (·.1) = (d.map (·.1)).filter f := by
  unfold RefDict.retain
  induction d with
  | nil => rfl
  | cons p d ih =>
    simp only [List.filterMap_cons, List.map_cons, List.filter_cons]
    cases f p.1 <;> simp [ih]

/-- the reference set is the reference dictionary at `V = ()`, seen through its keys. -/
theorem sset_eq_srun (op : SOp K Q) (d : List (K × Unit)) (cap : Nat) :
    sset F op (d.map (·.1)) cap =
      match srun F (toD op) d cap with
      | .ok o d' => .ok (outS op o) (d'.map (·.1))
      | .overflow => .overflow
      | .noentry => .noentry := by
  cases op with
  | insert k =>
    simp only [sset, srun, toD, any_map_fst, List.length_map]
    cases hf : RefDict.find (F.hitP (.key k)) d with
    | some p => simp [outS, setVal_unit]
    | none =>
      simp only [Option.isSome_none, Bool.false_eq_true, if_false]
      split <;> simp [outS]
  | replace k =>
    simp only [sset, srun, toD, find_map_fst, List.length_map]
    cases hf : RefDict.find (F.hitP (.key k)) d with
    | some p => simp [outS, setPair_map_fst]
    | none =>
      simp only [Option.map_none]
      split <;> simp [outS]
  | contains pr => simp only [sset, srun, toD, outS, any_map_fst]
  | get pr => simp only [sset, srun, toD, outS, find_map_fst]
  | remove pr =>
    simp only [sset, srun, toD, outS, any_map_fst, erase_map_fst]
    cases RefDict.find (F.hitP pr) d <;> rfl
  | take pr => simp only [sset, srun, toD, outS, find_map_fst, erase_map_fst]
  | retain f => simp [sset, srun, toD, outS, retain_map_fst]
  | clear => simp [sset, srun, toD, outS]
  | len => simp [sset, srun, toD, outS]
  | is_empty => simp [sset, srun, toD, outS]
  | iter => simp [sset, srun, toD, outS]

end Micromap.RefineSet
