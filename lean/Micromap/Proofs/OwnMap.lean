/-
Ownership triples (`Own.Cons`) of the primitives, the callbacks and the functions of `Model/Map.lean`.
-/
import Micromap.Proofs.Own

set_option linter.unusedSectionVars false

namespace Micromap.Own
open Micromap Ledger
variable {K V Q : Type} {P : Event K V Q → Prop} [EvP P] {w : Obj K V → Nat}

/-- side conditions of `ConsAt.bind`. -/
macro "own_np" : tactic => `(tactic| (intro q h; cases h))
macro "own_p" : tactic =>
  `(tactic| (intro q h; cases h; first | rfl | (congr 1; omega) | (simp; try omega)))

theorem Bal.of_world {s s' : St K V Q} {ev lk} {inn out : Nat} (hr : s'.r = s.r) (hw : WExt P s.w s'.w ev lk)
    (h : inn + wsum w (createdOf ev) = out + wsum w (droppedOf ev) + wsum w lk) : Bal P w s s' inn out :=
  ⟨ev, lk, hw, by rw [hr]; omega⟩

/-! ### world primitives -/

theorem tick_inj : Cons P w (tick : SM K V Q Unit) 0 (fun _ => 0) none := by
  intro s
  obtain ⟨r, ⟨profile, inject, unwinding, calls, nextId, events, leaked⟩⟩ := s
  unfold ConsAt tick
  cases unwinding with
  | true => exact Bal.of_world rfl (ev := []) (lk := []) ⟨rfl, rfl, id, by simp, by simp, by simp⟩ (by simp [createdOf, droppedOf])
  | false =>
    cases inject with
    | none => exact Bal.of_world rfl (ev := []) (lk := []) ⟨rfl, rfl, id, by simp, by simp, by simp⟩ (by simp [createdOf, droppedOf])
    | some n =>
      cases n with
      | zero => exact Or.inl ⟨rfl, by simp⟩
      | succ n =>
        exact Bal.of_world rfl (ev := []) (lk := []) ⟨rfl, rfl, fun h => by simp at h, by simp, by simp, by simp⟩
          (by simp [createdOf, droppedOf])

theorem tick_cons : Cons P w (tick : SM K V Q Unit) 0 (fun _ => 0) (some 0) :=
  fun s => (tick_inj s).congr rfl (fun _ => rfl) (by own_np)

theorem logE_cons (e : Event K V Q) (he : P e) :
    Cons P w (logE e) (wsum w (droppedOf [e])) (fun _ => wsum w (createdOf [e])) none := by
  intro s
  unfold ConsAt logE modS
  exact Bal.of_world rfl (ev := [e]) (lk := []) ⟨rfl, rfl, id, rfl, by simp, by simpa using he⟩ (by simp; omega)

theorem leak_cons (o : Obj K V) : Cons P w (leak o : SM K V Q Unit) (w o) (fun _ => 0) none := by
  intro s
  unfold ConsAt leak modS
  exact Bal.of_world rfl (ev := []) (lk := [o]) ⟨rfl, rfl, id, by simp, rfl, by simp⟩ (by simp [createdOf, droppedOf])


theorem setS_world {s t : St K V Q} (hr : t.r = s.r) (hw : WExt P s.w t.w [] []) :
    ConsAt P w (setS t : SM K V Q Unit) s 0 (fun _ => 0) none := by
  unfold ConsAt setS
  exact Bal.of_world hr hw (by simp [createdOf, droppedOf])

/-! ### callbacks -/

variable (E : Env K V Q)

/-- values have drop glue, or the weighting does not see values (`V = ()`). -/
def HV (E : Env K V Q) (w : Obj K V → Nat) : Prop := E.vGlue = true ∨ ∀ v, w (.v v) = 0

theorem dropK_cons (k : K) : Cons P w (dropK k : SM K V Q Unit) (w (.k k)) (fun _ => 0) (some 0) := by
  intro s
  unfold dropK
  have h1 := logE_cons (P := P) (w := w) (Event.dropK k : Event K V Q) (EvP.of_notClone _ trivial) s
  simp only [droppedOf, createdOf, wsum_cons, wsum_nil, Nat.add_zero] at h1
  refine ConsAt.bind h1 (Nat.le_refl _) (by own_np) (fun _ s' _ => ?_)
  exact (tick_cons s').congr (by omega) (fun _ => rfl) (fun _ h => h)

theorem dropV_cons (hv : HV E w) (v : V) : Cons P w (dropV E v) (w (.v v)) (fun _ => 0) (some 0) := by
  intro s
  unfold dropV
  split
  · have h1 := logE_cons (P := P) (w := w) (Event.dropV v : Event K V Q) (EvP.of_notClone _ trivial) s
    simp only [droppedOf, createdOf, wsum_cons, wsum_nil, Nat.add_zero] at h1
    refine ConsAt.bind h1 (Nat.le_refl _) (by own_np) (fun _ s' _ => ?_)
    exact (tick_cons s').congr (by omega) (fun _ => rfl) (fun _ h => h)
  · rename_i hg
    rcases hv with hv | hv
    · exact absurd hv hg
    · exact ConsAt.pure (hv v)

theorem dropPair_cons (hv : HV E w) (p : K × V) :
    Cons P w (dropPair E p) (w (.k p.1) + w (.v p.2)) (fun _ => 0) (some 0) := by
  intro s
  unfold dropPair
  refine ConsAt.bind (i1 := w (.k p.1) + w (.v p.2)) (o1 := fun _ => w (.v p.2)) (p1 := some 0) ?_
    (Nat.le_refl _) (by own_p) (fun _ s' _ => ?_)
  · refine ConsAt.unwindWith (p0 := some (w (.v p.2))) (q := 0) (pc := some 0)
      ((dropK_cons p.1 s).framed (w (.v p.2)) rfl (fun _ => by omega) (by own_p)) (fun x hx s1 => ?_)
    cases hx
    exact dropV_cons E hv p.2 s1
  · exact (dropV_cons E hv p.2 s').congr (by omega) (fun _ => rfl) (fun _ h => h)


theorem dropArgs_cons (hv : HV E w) (k : K) (v : V) :
    Cons P w (dropArgs E k v) (w (.k k) + w (.v v)) (fun _ => 0) (some 0) := by
  intro s
  unfold dropArgs
  refine ConsAt.bind (i1 := w (.k k) + w (.v v)) (o1 := fun _ => w (.k k)) (p1 := some 0) ?_
    (Nat.le_refl _) (by own_p) (fun _ s' _ => ?_)
  · refine ConsAt.unwindWith (p0 := some (w (.k k))) (q := 0) (pc := some 0)
      ((dropV_cons E hv v s).framed (w (.k k)) (by omega) (fun _ => by omega) (by own_p)) (fun x hx s1 => ?_)
    cases hx
    exact dropK_cons k s1
  · exact (dropK_cons k s').congr (by omega) (fun _ => rfl) (fun _ h => h)

/-- logging an event that neither destroys nor creates. -/
theorem logE_neutral (e : Event K V Q) (he : notClone e) (hd : droppedOf [e] = []) (hc : createdOf [e] = []) :
    Cons P w (logE e) 0 (fun _ => 0) none := by
  have := logE_cons (P := P) (w := w) e (EvP.of_notClone _ he)
  simpa [hd, hc] using this

theorem callF_cons (tag : Nat) : Cons P w (callF tag : SM K V Q Unit) 0 (fun _ => 0) (some 0) := by
  intro s
  unfold callF
  refine ConsAt.bind0 (tick_cons s) (by own_p) (fun _ s' _ => ?_)
  exact (logE_neutral _ (by exact trivial) rfl rfl s').congr rfl (fun _ => rfl) (by own_np)

theorem pullSrc_cons : Cons P w (pullSrc : SM K V Q Unit) 0 (fun _ => 0) (some 0) := by
  intro s
  unfold pullSrc
  refine ConsAt.bind0 (tick_cons s) (by own_p) (fun _ s' _ => ?_)
  exact (logE_neutral _ (by exact trivial) rfl rfl s').congr rfl (fun _ => rfl) (by own_np)

theorem eqK_cons (a b : K) : Cons P w (eqK E a b) 0 (fun _ => 0) (some 0) := by
  intro s
  unfold eqK
  refine ConsAt.bind0 (tick_cons s) (by own_p) (fun _ s' _ => ?_)
  refine ConsAt.getS_bind ?_
  refine ConsAt.bind0 (logE_neutral _ (by exact trivial) rfl rfl s') (by own_np) (fun _ s'' _ => ?_)
  exact ConsAt.pure rfl

theorem eqQ_cons (a b : Q) : Cons P w (eqQ E a b) 0 (fun _ => 0) (some 0) := by
  intro s
  unfold eqQ
  refine ConsAt.bind0 (tick_cons s) (by own_p) (fun _ s' _ => ?_)
  refine ConsAt.getS_bind ?_
  refine ConsAt.bind0 (logE_neutral _ (by exact trivial) rfl rfl s') (by own_np) (fun _ s'' _ => ?_)
  exact ConsAt.pure rfl

theorem eqV_cons (a b : V) : Cons P w (eqV E a b) 0 (fun _ => 0) (some 0) := by
  intro s
  unfold eqV
  split
  · refine ConsAt.bind0 (tick_cons s) (by own_p) (fun _ s' _ => ?_)
    refine ConsAt.bind0 (logE_neutral _ (by exact trivial) rfl rfl s') (by own_np) (fun _ s'' _ => ?_)
    exact ConsAt.pure rfl
  · exact ConsAt.pure rfl

theorem cloneK_cons (hall : ∀ e, P e) (k : K) : Cons P w (cloneK E k) 0 (fun k' => w (.k k')) (some 0) := by
  intro s
  unfold cloneK
  refine ConsAt.bind0 (tick_cons s) (by own_p) (fun _ s' _ => ?_)
  refine ConsAt.getS_bind ?_
  refine ConsAt.bind0 (setS_world rfl ⟨rfl, rfl, id, by simp, by simp, by simp⟩) (by own_np) (fun _ s'' _ => ?_)
  have h1 := logE_cons (P := P) (w := w) (Event.cloneK k (E.clK s'.w.nextId k) : Event K V Q) (hall _) s''
  simp only [droppedOf, createdOf, wsum_cons, wsum_nil, Nat.add_zero] at h1
  refine ConsAt.bind h1 (Nat.le_refl _) (by own_np) (fun _ s3 _ => ?_)
  exact ConsAt.pure (by omega)

theorem cloneV_cons (hall : ∀ e, P e) (hv : HV E w) (v : V) : Cons P w (cloneV E v) 0 (fun v' => w (.v v')) (some 0) := by
  intro s
  unfold cloneV
  split
  · refine ConsAt.bind0 (tick_cons s) (by own_p) (fun _ s' _ => ?_)
    refine ConsAt.getS_bind ?_
    refine ConsAt.bind0 (setS_world rfl ⟨rfl, rfl, id, by simp, by simp, by simp⟩) (by own_np) (fun _ s'' _ => ?_)
    have h1 := logE_cons (P := P) (w := w) (Event.cloneV v (E.clV s'.w.nextId v) : Event K V Q) (hall _) s''
    simp only [droppedOf, createdOf, wsum_cons, wsum_nil, Nat.add_zero] at h1
    refine ConsAt.bind h1 (Nat.le_refl _) (by own_np) (fun _ s3 _ => ?_)
    exact ConsAt.pure (by omega)
  · rename_i hg
    rcases hv with hv | hv
    · exact absurd hv hg
    · exact ConsAt.pure (hv v).symm

theorem clonePair_cons (hall : ∀ e, P e) (hv : HV E w) (p : K × V) :
    Cons P w (clonePair E p) 0 (fun p' => w (.k p'.1) + w (.v p'.2)) (some 0) := by
  intro s
  unfold clonePair
  refine ConsAt.bind (cloneK_cons E hall p.1 s) (Nat.le_refl _) (by own_p) (fun k' s' _ => ?_)
  refine ConsAt.bind (i1 := w (.k k')) (o1 := fun v' => w (.k k') + w (.v v')) (p1 := some 0) ?_
    (by omega) (by own_p) (fun v' s'' _ => ?_)
  · refine ConsAt.unwindWith (p0 := some (w (.k k'))) (q := 0) (pc := some 0)
      ((cloneV_cons E hall hv p.2 s').framed (w (.k k')) (by omega) (fun _ => by omega) (by own_p)) (fun x hx s1 => ?_)
    cases hx
    exact dropK_cons k' s1
  · exact ConsAt.pure (by simp)

theorem probeEq_cons (stored : K) (pr : Probe K Q) : Cons P w (probeEq E stored pr) 0 (fun _ => 0) (some 0) := by
  cases pr with
  | key k => exact eqK_cons E stored k
  | q q => exact eqQ_cons E (E.borrow stored) q

/-! ### container fields and slots -/

theorem getLen_cons : Cons P w (getLen : SM K V Q Nat) 0 (fun _ => 0) none := fun s => Bal.refl s 0
theorem getCap_cons : Cons P w (getCap : SM K V Q Nat) 0 (fun _ => 0) none := fun s => Bal.refl s 0
theorem getProfile_cons : Cons P w (getProfile : SM K V Q Profile) 0 (fun _ => 0) none := fun s => Bal.refl s 0

theorem setLen_cons (n : Nat) : Cons P w (setLen n : SM K V Q Unit) 0 (fun _ => 0) none := by
  intro s
  unfold ConsAt setLen modS
  exact ⟨[], [], WExt.refl _, by simp [createdOf, droppedOf]⟩

theorem sliceToLen_cons : Cons P w (sliceToLen : SM K V Q Nat) 0 (fun _ => 0) (some 0) := by
  intro s
  unfold ConsAt sliceToLen
  by_cases h : s.r.len ≤ s.r.cap
  · simp only [h, if_true]; exact Bal.refl s 0
  · simp only [h, if_false]; exact Or.inr ⟨0, rfl, Bal.refl s 0⟩

theorem debugAssert_cons (c : Bool) (cls : PanicClass) :
    Cons P w (debugAssert c cls : SM K V Q Unit) 0 (fun _ => 0) (some 0) := by
  intro s
  unfold ConsAt debugAssert
  cases s.w.profile <;> cases c <;> first | exact Bal.refl s 0 | exact Or.inr ⟨0, rfl, Bal.refl s 0⟩

theorem assertP_cons (c : Bool) (cls : PanicClass) :
    Cons P w (assertP c cls : SM K V Q Unit) 0 (fun _ => 0) (some 0) := by
  intro s
  unfold ConsAt assertP
  cases c <;> first | exact Bal.refl s 0 | exact Or.inr ⟨0, rfl, Bal.refl s 0⟩

theorem itemRefR_cons (r : Raw K V) (i : Nat) : Cons P w (itemRefR r i : SM K V Q (K × V)) 0 (fun _ => 0) none := by
  intro s
  unfold ConsAt itemRefR
  by_cases hi : i < r.cap
  · cases hs : r.slots i with
    | none => simp [hi]
    | some p => simp only [hi, if_true]; exact Bal.refl s 0
  · simp [hi]

theorem itemRef_cons (i : Nat) : Cons P w (itemRef i : SM K V Q (K × V)) 0 (fun _ => 0) none :=
  fun s => itemRefR_cons s.r i s

theorem itemRead_cons (i : Nat) :
    Cons P w (itemRead i : SM K V Q (K × V)) 0 (fun p => w (.k p.1) + w (.v p.2)) none := by
  intro s
  unfold ConsAt itemRead
  by_cases hi : i < s.r.cap
  · cases hs : s.r.slots i with
    | none => simp [hi]
    | some p =>
      simp only [hi, if_true]
      have := live_setSlot w hi (none : Option (K × V))
      rw [hs] at this
      exact ⟨[], [], WExt.refl _, by simp [createdOf, droppedOf] at this ⊢; omega⟩
  · simp [hi]

theorem itemWrite_cons (i : Nat) (p : K × V) :
    Cons P w (itemWrite i p : SM K V Q Unit) (w (.k p.1) + w (.v p.2)) (fun _ => 0) none := by
  intro s
  unfold ConsAt itemWrite
  by_cases hi : i < s.r.cap
  · have := live_setSlot w hi (some p)
    cases hs : s.r.slots i with
    | none =>
      simp only [hi, if_true]
      rw [hs] at this
      exact ⟨[], [], WExt.refl _, by simp [createdOf, droppedOf] at this ⊢; omega⟩
    | some old =>
      simp only [hi, if_true]
      rw [hs] at this
      exact ⟨[], [.k old.1, .v old.2], ⟨rfl, rfl, id, by simp, rfl, by simp⟩,
        by simp [createdOf, droppedOf] at this ⊢; omega⟩
  · simp [hi]

theorem valueReplace_cons (i : Nat) (v : V) :
    Cons P w (valueReplace i v : SM K V Q V) (w (.v v)) (fun old => w (.v old)) none := by
  intro s
  unfold ConsAt valueReplace
  by_cases hi : i < s.r.cap
  · cases hs : s.r.slots i with
    | none => simp [hi]
    | some p =>
      simp only [hi, if_true]
      have := live_setSlot w hi (some (p.1, v))
      rw [hs] at this
      exact ⟨[], [], WExt.refl _, by simp [createdOf, droppedOf] at this ⊢; omega⟩
  · simp [hi]

theorem pairReplace_cons (i : Nat) (p : K × V) :
    Cons P w (pairReplace i p : SM K V Q (K × V)) (w (.k p.1) + w (.v p.2))
      (fun old => w (.k old.1) + w (.v old.2)) none := by
  intro s
  unfold ConsAt pairReplace
  by_cases hi : i < s.r.cap
  · cases hs : s.r.slots i with
    | none => simp [hi]
    | some old =>
      simp only [hi, if_true]
      have := live_setSlot w hi (some p)
      rw [hs] at this
      exact ⟨[], [], WExt.refl _, by simp [createdOf, droppedOf] at this ⊢; omega⟩
  · simp [hi]

theorem checkedWrite_cons (i : Nat) (p : K × V) :
    Cons P w (checkedWrite i p : SM K V Q Unit) (w (.k p.1) + w (.v p.2)) (fun _ => 0)
      (some (w (.k p.1) + w (.v p.2))) := by
  intro s
  unfold ConsAt checkedWrite
  by_cases hi : i < s.r.cap
  · simp only [hi, if_true]
    exact (itemWrite_cons i p s).congr rfl (fun _ => rfl) (by own_np)
  · simp only [hi, if_false]
    exact Or.inr ⟨_, rfl, Bal.refl s _⟩

theorem itemDrop_cons (hv : HV E w) (i : Nat) : Cons P w (itemDrop E i) 0 (fun _ => 0) (some 0) := by
  intro s
  unfold itemDrop
  refine ConsAt.bind (itemRead_cons i s) (Nat.le_refl _) (by own_np) (fun p s' _ => ?_)
  exact (dropPair_cons E hv p s').congr (by omega) (fun _ => rfl) (fun _ h => h)


/-! ### state-aware facts for writes through `&mut V` -/

theorem itemRef_inv {i : Nat} {p : K × V} {s s' : St K V Q} (h : itemRef i s = .ok p s') :
    s' = s ∧ i < s.r.cap ∧ s.r.slots i = some p := by
  unfold itemRef itemRefR at h
  by_cases hi : i < s.r.cap
  · cases hs : s.r.slots i with
    | none => simp [hi, hs] at h
    | some p' =>
      simp only [hi, hs, if_true] at h
      injection h with h1 h2
      exact ⟨h2.symm, hi, by rw [h1]⟩
  · simp [hi] at h

/-- `*v = v'` on a live slot, for a weighting that does not tell the old value from the new. -/
theorem modify_cons {i : Nat} {p : K × V} {v' : V} {s : St K V Q} (hc : i < s.r.cap)
    (hs : s.r.slots i = some p) (hw : w (.v v') = w (.v p.2)) :
    ConsAt P w (valueReplace i v' : SM K V Q V) s 0 (fun _ => 0) none := by
  have := valueReplace_cons (P := P) (w := w) i v' s
  unfold ConsAt at this ⊢
  rw [valueReplace_ok v' hc hs] at this ⊢
  obtain ⟨ev, lk, h1, h2⟩ := this
  exact ⟨ev, lk, h1, by dsimp only at h2 ⊢; omega⟩

theorem callF_r {t : Nat} {s s' : St K V Q} {u : Unit} (h : callF t s = .ok u s') : s'.r = s.r :=
  (Sat.ok_of (callF_cb t s) h).1

/-! ### `Model/Map.lean` -/

theorem scanFromR_cons (r : Raw K V) (pr : Probe K Q) : ∀ n i,
    Cons P w (scanFromR E r pr n i) 0 (fun _ => 0) (some 0)
  | 0, _ => fun _ => ConsAt.pure rfl
  | n + 1, i => by
    intro s
    unfold scanFromR
    refine ConsAt.bind0 (itemRefR_cons r i s) (by own_np) (fun p s' _ => ?_)
    refine ConsAt.bind0 (probeEq_cons E p.1 pr s') (by own_p) (fun b s'' _ => ?_)
    split
    · exact ConsAt.pure rfl
    · exact scanFromR_cons r pr n (i + 1) s''

theorem scanR_cons (r : Raw K V) (pr : Probe K Q) : Cons P w (scanR E r pr) 0 (fun _ => 0) (some 0) := by
  intro s
  unfold scanR
  split
  · exact scanFromR_cons E r pr _ _ s
  · exact ConsAt.throwP

theorem scan_cons (pr : Probe K Q) : Cons P w (scan E pr) 0 (fun _ => 0) (some 0) :=
  fun s => scanR_cons E s.r pr s

theorem remove_index_read_cons (i : Nat) :
    Cons P w (remove_index_read i : SM K V Q (K × V)) 0 (fun p => w (.k p.1) + w (.v p.2)) none := by
  intro s
  unfold remove_index_read
  refine ConsAt.bind (itemRead_cons i s) (Nat.le_refl _) (by own_np) (fun result s1 _ => ?_)
  refine ConsAt.bind (getLen_cons s1) (Nat.zero_le _) (by own_np) (fun len s2 _ => ?_)
  split
  · exact ConsAt.ub
  · refine ConsAt.bind (setLen_cons _ s2) (Nat.zero_le _) (by own_np) (fun _ s3 _ => ?_)
    dsimp only
    split
    · refine ConsAt.bind (itemRead_cons _ s3) (Nat.zero_le _) (by own_np) (fun value s4 _ => ?_)
      refine ConsAt.bind (itemWrite_cons i value s4) (by omega) (by own_np) (fun _ s5 _ => ?_)
      exact ConsAt.pure (by simp)
    · exact ConsAt.pure (by simp)

theorem remove_index_drop_cons (hv : HV E w) (i : Nat) :
    Cons P w (remove_index_drop E i) 0 (fun _ => 0) (some 0) := by
  intro s
  unfold remove_index_drop
  refine ConsAt.bind (remove_index_read_cons i s) (Nat.le_refl _) (by own_np) (fun p s' _ => ?_)
  exact (dropPair_cons E hv p s').congr (by omega) (fun _ => rfl) (fun _ h => h)

theorem insert_ii_cons (hv : HV E w) (k : K) (v : V) (upd : Bool) :
    Cons P w (insert_ii E k v upd) (w (.k k) + w (.v v)) (fun r => wo w r.2) (some 0) := by
  intro s
  unfold insert_ii
  refine ConsAt.unwindWith (p0 := some (w (.k k) + w (.v v))) (q := 0) (pc := some 0) ?_
    (fun x hx s1 => by cases hx; exact dropArgs_cons E hv k v s1)
  refine ConsAt.bind0 (scan_cons E (.key k) s) (by own_p) (fun o s1 _ => ?_)
  cases o with
  | some i =>
    simp only
    split
    · refine ConsAt.bind (pairReplace_cons i (k, v) s1) (Nat.le_refl _) (by own_np) (fun old s2 _ => ?_)
      exact ConsAt.pure (by simp)
    · refine ConsAt.bind (valueReplace_cons i v s1) (by omega) (by own_np) (fun oldv s2 _ => ?_)
      exact ConsAt.pure (by simp; omega)
  | none =>
    simp only
    refine ConsAt.bind0 (getLen_cons s1) (by own_np) (fun i s2 _ => ?_)
    refine ConsAt.bind0 (getCap_cons s2) (by own_np) (fun cap s3 _ => ?_)
    refine ConsAt.bind0 (debugAssert_cons _ _ s3) (by own_p) (fun _ s4 _ => ?_)
    refine ConsAt.bind (checkedWrite_cons i (k, v) s4) (Nat.le_refl _) (by own_p) (fun _ s5 _ => ?_)
    refine ConsAt.bind0 (setLen_cons _ s5) (by own_np) (fun _ s6 _ => ?_)
    exact ConsAt.pure (by simp)

theorem insert_ii_for_full_cons (hv : HV E w) (k : K) (v : V) (upd : Bool) :
    Cons P w (insert_ii_for_full E k v upd) (w (.k k) + w (.v v)) (fun r => wo w (r.map (·.2))) (some 0) := by
  intro s
  unfold insert_ii_for_full
  refine ConsAt.bind (i1 := w (.k k) + w (.v v)) (o1 := fun _ => w (.k k) + w (.v v)) (p1 := some 0) ?_
    (Nat.le_refl _) (by own_p) (fun found s1 _ => ?_)
  · refine ConsAt.unwindWith (p0 := some (w (.k k) + w (.v v))) (q := 0) (pc := some 0)
      ((scan_cons E (.key k) s).framed (w (.k k) + w (.v v)) (by omega) (fun _ => by omega) (by own_p))
      (fun x hx s1 => by cases hx; exact dropArgs_cons E hv k v s1)
  · cases found with
    | some i =>
      simp only
      split
      · refine ConsAt.bind (pairReplace_cons i (k, v) s1) (by simp) (by own_np) (fun old s2 _ => ?_)
        exact ConsAt.pure (by simp)
      · refine ConsAt.bind (valueReplace_cons i v s1) (by omega) (by own_np) (fun oldv s2 _ => ?_)
        exact ConsAt.pure (by simp; omega)
    | none =>
      simp only
      refine ConsAt.bind (dropArgs_cons E hv k v s1) (by omega) (by own_p) (fun _ s2 _ => ?_)
      exact ConsAt.pure (by simp)

theorem dropRange_cons (hv : HV E w) : ∀ n i, Cons P w (dropRange E n i) 0 (fun _ => 0) (some 0)
  | 0, _ => fun _ => ConsAt.pure rfl
  | n + 1, i => by
    intro s
    unfold dropRange
    refine ConsAt.bind0 (itemDrop_cons E hv i s) (by own_p) (fun _ s' _ => ?_)
    exact dropRange_cons hv n (i + 1) s'

theorem clear_cons (hv : HV E w) : Cons P w (clear E) 0 (fun _ => 0) (some 0) := by
  intro s
  unfold clear
  refine ConsAt.bind0 (getLen_cons s) (by own_np) (fun len s1 _ => ?_)
  refine ConsAt.bind0 (setLen_cons 0 s1) (by own_np) (fun _ s2 _ => ?_)
  exact dropRange_cons E hv len 0 s2

theorem dropMap_cons (hv : HV E w) : Cons P w (dropMap E) 0 (fun _ => 0) (some 0) := by
  intro s
  unfold dropMap
  refine ConsAt.bind0 (getLen_cons s) (by own_np) (fun len s1 _ => ?_)
  exact dropRange_cons E hv len 0 s1


/-- `retain`, for a weighting that does not tell the value the closure writes from the one it
    found (the closure changes the value in place; it neither creates nor destroys one). -/
theorem retainLoop_cons (hv : HV E w) (f : Nat → K → V → Bool × V)
    (hf : ∀ n k v, w (.v (f n k v).2) = w (.v v)) : ∀ fuel i,
    Cons P w (retainLoop E f fuel i) 0 (fun _ => 0) (some 0)
  | 0, i => by
    intro s
    unfold retainLoop
    refine ConsAt.bind0 (getLen_cons s) (by own_np) (fun len s1 _ => ?_)
    split
    · exact ConsAt.ub
    · exact ConsAt.pure rfl
  | fuel + 1, i => by
    intro s
    unfold retainLoop
    refine ConsAt.bind0 (getLen_cons s) (by own_np) (fun len s1 _ => ?_)
    split
    · refine ConsAt.bind0 (itemRef_cons i s1) (by own_np) (fun p s2 hp => ?_)
      obtain ⟨rfl, hc, hs⟩ := itemRef_inv hp
      refine ConsAt.bind0 (callF_cons 0 s2) (by own_p) (fun _ s3 h3 => ?_)
      have hr3 : s3.r = s2.r := callF_r h3
      refine ConsAt.getS_bind ?_
      have hm := modify_cons (P := P) (w := w) (i := i) (p := p) (v' := (f s3.w.calls p.1 p.2).2) (s := s3)
        (by rw [hr3]; exact hc) (by rw [hr3]; exact hs) (hf _ _ _)
      show ConsAt P w (valueReplace i (f s3.w.calls p.1 p.2).2 >>= fun _ =>
        if (f s3.w.calls p.1 p.2).1 = true then retainLoop E f fuel (i + 1)
        else remove_index_drop E i >>= fun _ => retainLoop E f fuel i) s3 _ _ _
      refine ConsAt.bind0 hm (by own_np) (fun _ s4 _ => ?_)
      split
      · exact retainLoop_cons hv f hf fuel (i + 1) s4
      · refine ConsAt.bind0 (remove_index_drop_cons E hv i s4) (by own_p) (fun _ s5 _ => ?_)
        exact retainLoop_cons hv f hf fuel i s5
    · exact ConsAt.pure rfl

theorem retain_cons (hv : HV E w) (f : Nat → K → V → Bool × V)
    (hf : ∀ n k v, w (.v (f n k v).2) = w (.v v)) : Cons P w (retain E f) 0 (fun _ => 0) (some 0) := by
  intro s
  unfold retain
  refine ConsAt.bind0 (getLen_cons s) (by own_np) (fun len s1 _ => ?_)
  exact retainLoop_cons E hv f hf len 0 s1

theorem contains_key_cons (pr : Probe K Q) : Cons P w (contains_key E pr) 0 (fun _ => 0) (some 0) := by
  intro s
  unfold contains_key
  refine ConsAt.bind0 (scan_cons E pr s) (by own_p) (fun o s1 _ => ?_)
  exact ConsAt.pure rfl

theorem get_cons (pr : Probe K Q) : Cons P w (get E pr) 0 (fun _ => 0) (some 0) := by
  intro s
  unfold get
  refine ConsAt.bind0 (scan_cons E pr s) (by own_p) (fun o s1 _ => ?_)
  cases o with
  | none => exact ConsAt.pure rfl
  | some i =>
    simp only
    refine ConsAt.bind0 (itemRef_cons i s1) (by own_np) (fun p s2 _ => ?_)
    exact ConsAt.pure rfl

theorem remove_cons (pr : Probe K Q) : Cons P w (remove E pr) 0 (fun o => wov w o) (some 0) := by
  intro s
  unfold remove
  refine ConsAt.bind0 (scan_cons E pr s) (by own_p) (fun o s1 _ => ?_)
  cases o with
  | none => exact ConsAt.pure rfl
  | some i =>
    simp only
    refine ConsAt.bind (remove_index_read_cons i s1) (Nat.le_refl _) (by own_np) (fun p s2 _ => ?_)
    refine ConsAt.bind (i1 := w (.k p.1) + w (.v p.2)) (o1 := fun _ => w (.v p.2)) (p1 := some 0) ?_
      (by omega) (by own_p) (fun _ s3 _ => ?_)
    · refine ConsAt.unwindWith (p0 := some (w (.v p.2))) (q := 0) (pc := none)
        ((dropK_cons p.1 s2).framed (w (.v p.2)) rfl (fun _ => by omega) (by own_p)) (fun x hx s' => ?_)
      cases hx
      exact leak_cons (.v p.2) s'
    · exact ConsAt.pure (by simp)

theorem remove_entry_cons (pr : Probe K Q) : Cons P w (remove_entry E pr) 0 (fun o => wo w o) (some 0) := by
  intro s
  unfold remove_entry
  refine ConsAt.bind0 (scan_cons E pr s) (by own_p) (fun o s1 _ => ?_)
  cases o with
  | none => exact ConsAt.pure rfl
  | some i =>
    simp only
    refine ConsAt.bind (remove_index_read_cons i s1) (Nat.le_refl _) (by own_np) (fun p s2 _ => ?_)
    exact ConsAt.pure (by simp)

theorem dropReturnedKey_cons (o : Option (K × V)) :
    Cons P w (dropReturnedKey o : SM K V Q (Option V)) (wo w o) (fun r => wov w r) (some 0) := by
  intro s
  cases o with
  | none => exact ConsAt.pure rfl
  | some p =>
    obtain ⟨k, v⟩ := p
    unfold dropReturnedKey
    simp only [wo_some]
    refine ConsAt.bind (i1 := w (.k k) + w (.v v)) (o1 := fun _ => w (.v v)) (p1 := some 0) ?_
      (by omega) (by own_p) (fun _ s3 _ => ?_)
    · refine ConsAt.unwindWith (p0 := some (w (.v v))) (q := 0) (pc := none)
        ((dropK_cons k s).framed (w (.v v)) rfl (fun _ => by omega) (by own_p)) (fun x hx s' => ?_)
      cases hx
      exact leak_cons (.v v) s'
    · exact ConsAt.pure (by simp)

theorem insert_cons (hv : HV E w) (k : K) (v : V) :
    Cons P w (insert E k v) (w (.k k) + w (.v v)) (fun r => wov w r) (some 0) := by
  intro s
  unfold insert
  refine ConsAt.bind (insert_ii_cons E hv k v false s) (Nat.le_refl _) (by own_p) (fun r s1 _ => ?_)
  obtain ⟨j, ex⟩ := r
  exact (dropReturnedKey_cons ex s1).congr (by simp) (fun _ => rfl) (fun _ h => h)

theorem insert_key_value_cons (hv : HV E w) (k : K) (v : V) :
    Cons P w (insert_key_value E k v) (w (.k k) + w (.v v)) (fun r => wo w r) (some 0) := by
  intro s
  unfold insert_key_value
  refine ConsAt.bind (insert_ii_cons E hv k v true s) (Nat.le_refl _) (by own_p) (fun r s1 _ => ?_)
  obtain ⟨j, ex⟩ := r
  exact ConsAt.pure (by simp)

/-- weight of the result of `checked_insert`. -/
def wovv (w : Obj K V → Nat) : Option (Option V) → Nat
  | some (some v) => w (.v v)
  | _ => 0

theorem checked_insert_cons (hv : HV E w) (k : K) (v : V) :
    Cons P w (checked_insert E k v) (w (.k k) + w (.v v)) (fun r => wovv w r) (some 0) := by
  intro s
  unfold checked_insert
  refine ConsAt.bind0 (getLen_cons s) (by own_np) (fun len s1 _ => ?_)
  refine ConsAt.bind0 (getCap_cons s1) (by own_np) (fun cap s2 _ => ?_)
  split
  · refine ConsAt.bind (insert_ii_cons E hv k v false s2) (Nat.le_refl _) (by own_p) (fun r s3 _ => ?_)
    obtain ⟨j, ex⟩ := r
    refine ConsAt.bind (dropReturnedKey_cons ex s3) (by simp) (by own_p) (fun o s4 _ => ?_)
    cases o <;> exact ConsAt.pure (by simp [wovv])
  · refine ConsAt.bind (insert_ii_for_full_cons E hv k v false s2) (Nat.le_refl _) (by own_p) (fun r s3 _ => ?_)
    cases r with
    | none => exact ConsAt.pure (by simp [wovv])
    | some x =>
      obtain ⟨j, p⟩ := x
      simp only
      refine ConsAt.bind (dropReturnedKey_cons (some p) s3) (by simp) (by own_p) (fun o s4 _ => ?_)
      cases o <;> exact ConsAt.pure (by simp [wovv])

/-- `get_mut` and a write `*r = g(*r)`, for a weighting that does not tell `g v` from `v`. -/
theorem get_mut_cons (pr : Probe K Q) (g : V → V) (hg : ∀ v, w (.v (g v)) = w (.v v)) :
    Cons P w (get_mut E pr g) 0 (fun _ => 0) (some 0) := by
  intro s
  unfold get_mut
  refine ConsAt.bind0 (scan_cons E pr s) (by own_p) (fun o s1 _ => ?_)
  cases o with
  | none => exact ConsAt.pure rfl
  | some i =>
    simp only
    refine ConsAt.bind0 (itemRef_cons i s1) (by own_np) (fun p s2 hp => ?_)
    obtain ⟨rfl, hc, hs⟩ := itemRef_inv hp
    refine ConsAt.bind0 (modify_cons hc hs (hg _)) (by own_np) (fun _ s3 _ => ?_)
    exact ConsAt.pure rfl

theorem index_cons (pr : Probe K Q) : Cons P w (index E pr) 0 (fun _ => 0) (some 0) := by
  intro s
  unfold index
  refine ConsAt.bind0 (get_cons E pr s) (by own_p) (fun o s1 _ => ?_)
  cases o with
  | none => exact ConsAt.throwP
  | some r => exact ConsAt.pure rfl

theorem index_mut_cons (pr : Probe K Q) (g : V → V) (hg : ∀ v, w (.v (g v)) = w (.v v)) :
    Cons P w (index_mut E pr g) 0 (fun _ => 0) (some 0) := by
  intro s
  unfold index_mut
  refine ConsAt.bind0 (get_mut_cons E pr g hg s) (by own_p) (fun o s1 _ => ?_)
  cases o with
  | none => exact ConsAt.throwP
  | some r => exact ConsAt.pure rfl

/-! ### `get_disjoint_mut` (owns nothing; the writes through the returned references are in place) -/

theorem reqEq_cons (a b : Probe K Q) : Cons P w (reqEq E a b) 0 (fun _ => 0) (some 0) := by
  cases a <;> cases b <;> first | exact eqK_cons E _ _ | exact eqQ_cons E _ _

theorem reqEqStored_cons (stored : K) (k : Probe K Q) : Cons P w (reqEqStored E stored k) 0 (fun _ => 0) (some 0) := by
  cases k <;> first | exact eqK_cons E _ _ | exact eqQ_cons E _ _

theorem overlapInner_cons (k : Probe K Q) : ∀ ks : List (Probe K Q),
    Cons P w (overlapInner E k ks) 0 (fun _ => 0) (some 0)
  | [] => fun _ => ConsAt.pure rfl
  | kb :: rest => by
    intro s
    unfold overlapInner
    refine ConsAt.bind0 (reqEq_cons E k kb s) (by own_p) (fun e s1 _ => ?_)
    refine ConsAt.bind0 (assertP_cons _ _ s1) (by own_p) (fun _ s2 _ => ?_)
    exact overlapInner_cons k rest s2

theorem overlapCheck_cons : ∀ ks : List (Probe K Q), Cons P w (overlapCheck E ks) 0 (fun _ => 0) (some 0)
  | [] => fun _ => ConsAt.pure rfl
  | k :: rest => by
    intro s
    unfold overlapCheck
    refine ConsAt.bind0 (overlapInner_cons E k rest s) (by own_p) (fun _ s1 _ => ?_)
    exact overlapCheck_cons rest s1

theorem positionOf_cons (stored : K) : ∀ (ks : List (Probe K Q)) (t : Nat),
    Cons P w (positionOf E stored ks t) 0 (fun _ => 0) (some 0)
  | [], _ => fun _ => ConsAt.pure rfl
  | k :: rest, t => by
    intro s
    unfold positionOf
    refine ConsAt.bind0 (reqEqStored_cons E stored k s) (by own_p) (fun b s1 _ => ?_)
    split
    · exact ConsAt.pure rfl
    · exact positionOf_cons stored rest (t + 1) s1

theorem disjointCollect_cons (ks : List (Probe K Q)) : ∀ (n i : Nat) (stack : List (Nat × Nat)),
    Cons P w (disjointCollect E ks n i stack) 0 (fun _ => 0) (some 0)
  | 0, _, _ => fun _ => ConsAt.pure rfl
  | n + 1, i, stack => by
    intro s
    unfold disjointCollect
    refine ConsAt.bind0 (itemRef_cons i s) (by own_np) (fun p s1 _ => ?_)
    refine ConsAt.bind0 (positionOf_cons E p.1 ks 0 s1) (by own_p) (fun o s2 _ => ?_)
    cases o with
    | some ks_i =>
      simp only
      refine ConsAt.bind0 (assertP_cons _ _ s2) (by own_p) (fun _ s3 _ => ?_)
      exact disjointCollect_cons ks n (i + 1) _ s3
    | none => exact disjointCollect_cons ks n (i + 1) stack s2

theorem disjointSplit_cons : ∀ (l : List (Nat × Nat)) (restLen : Nat) (ret : List (Option Nat)),
    Cons P w (disjointSplit l restLen ret : SM K V Q (List (Option Nat))) 0 (fun _ => 0) (some 0)
  | [], _, _ => fun _ => ConsAt.pure rfl
  | (pair_i, ks_i) :: rest, restLen, ret => by
    intro s
    unfold disjointSplit
    refine ConsAt.bind0 (assertP_cons _ _ s) (by own_p) (fun _ s1 _ => ?_)
    refine ConsAt.bind0 (assertP_cons _ _ s1) (by own_p) (fun _ s2 _ => ?_)
    refine ConsAt.bind0 (itemRef_cons pair_i s2) (by own_np) (fun _ s3 _ => ?_)
    refine ConsAt.bind0 (assertP_cons _ _ s3) (by own_p) (fun _ s4 _ => ?_)
    exact disjointSplit_cons rest pair_i _ s4

theorem get_disjoint_unchecked_mut_cons (ks : List (Probe K Q)) :
    Cons P w (get_disjoint_unchecked_mut E ks) 0 (fun _ => 0) (some 0) := by
  intro s
  unfold get_disjoint_unchecked_mut
  split
  · exact ConsAt.pure rfl
  · rename_i k
    refine ConsAt.bind0 (scan_cons E k s) (by own_p) (fun o s1 _ => ?_)
    cases o with
    | none => exact ConsAt.pure rfl
    | some i =>
      simp only
      refine ConsAt.bind0 (itemRef_cons i s1) (by own_np) (fun _ s2 _ => ?_)
      exact ConsAt.pure rfl
  · refine ConsAt.bind0 (getLen_cons s) (by own_np) (fun len s1 _ => ?_)
    refine ConsAt.bind0 (disjointCollect_cons E ks len 0 [] s1) (by own_p) (fun stack s2 _ => ?_)
    refine ConsAt.bind0 (sliceToLen_cons s2) (by own_p) (fun n s3 _ => ?_)
    exact disjointSplit_cons _ _ _ s3

theorem get_disjoint_mut_cons (ks : List (Probe K Q)) :
    Cons P w (get_disjoint_mut E ks) 0 (fun _ => 0) (some 0) := by
  intro s
  unfold get_disjoint_mut
  split
  · exact ConsAt.pure rfl
  · refine ConsAt.bind0 (overlapCheck_cons E ks s) (by own_p) (fun _ s1 _ => ?_)
    exact get_disjoint_unchecked_mut_cons E ks s1

/-- the writes `*r = g(*r)` through the returned references, for a weighting that does not tell
    `g v` from `v`. -/
theorem writeSlots_cons (g : V → V) (hg : ∀ v, w (.v (g v)) = w (.v v)) : ∀ slots : List (Option Nat),
    Cons P w (writeSlots g slots : SM K V Q Unit) 0 (fun _ => 0) none
  | [] => fun _ => ConsAt.pure rfl
  | none :: rest => by
    intro s
    unfold writeSlots
    exact writeSlots_cons g hg rest s
  | some i :: rest => by
    intro s
    unfold writeSlots
    refine ConsAt.bind0 (itemRef_cons i s) (by own_np) (fun p s1 hp => ?_)
    obtain ⟨rfl, hc, hs⟩ := itemRef_inv hp
    refine ConsAt.bind0 (modify_cons hc hs (hg _)) (by own_np) (fun _ s2 _ => ?_)
    exact writeSlots_cons g hg rest s2

/-! ### bulk insertion -/

theorem dropList_cons (hv : HV E w) : ∀ l : List (K × V),
    Cons P w (dropList E l) (wpairs w l) (fun _ => 0) (some 0)
  | [] => fun _ => ConsAt.pure rfl
  | p :: rest => by
    intro s
    unfold dropList
    simp only [wpairs_cons]
    refine ConsAt.bind (i1 := w (.k p.1) + w (.v p.2) + wpairs w rest) (o1 := fun _ => wpairs w rest)
      (p1 := some 0) ?_ (Nat.le_refl _) (by own_p) (fun _ s1 _ => ?_)
    · refine ConsAt.unwindWith (p0 := some (wpairs w rest)) (q := 0) (pc := some 0)
        ((dropPair_cons E hv p s).framed (wpairs w rest) rfl (fun _ => by omega) (by own_p)) (fun x hx s' => ?_)
      cases hx
      exact dropList_cons hv rest s'
    · exact (dropList_cons hv rest s1).congr (by omega) (fun _ => rfl) (fun _ h => h)

/-- `extend` / the body of `from_iter`: every pair of the source is stored, or dropped (the
    displaced old value, the supplied key of a duplicate; on an unwinding: the pair being inserted
    and the un-pulled rest of the source). -/
theorem extendLoop_cons (hv : HV E w) (pulls : Bool) : ∀ xs : List (K × V),
    Cons P w (extendLoop E pulls xs) (wpairs w xs) (fun _ => 0) (some 0)
  | [] => by
    intro s
    unfold extendLoop
    split
    · exact pullSrc_cons s
    · exact ConsAt.pure rfl
  | (k, v) :: rest => by
    intro s
    unfold extendLoop
    simp only [wpairs_cons]
    have hrest : ∀ s1 : St K V Q, ConsAt P w (do
        let o ← unwindWith (dropList E rest) (insert E k v)
        match o with
          | some old => do
            unwindWith (dropList E rest) (dropV E old)
            extendLoop E pulls rest
          | none => extendLoop E pulls rest) s1 (w (.k k) + w (.v v) + wpairs w rest) (fun _ => 0) (some 0) := by
      intro s1
      refine ConsAt.bind (i1 := w (.k k) + w (.v v) + wpairs w rest)
        (o1 := fun o => wov w o + wpairs w rest) (p1 := some 0) ?_ (by omega) (by own_p) (fun o s2 _ => ?_)
      · refine ConsAt.unwindWith (p0 := some (wpairs w rest)) (q := 0) (pc := some 0)
          ((insert_cons E hv k v s1).framed (wpairs w rest) rfl (fun _ => rfl) (by own_p)) (fun x hx s' => ?_)
        cases hx
        exact dropList_cons E hv rest s'
      · cases o with
        | none => exact (extendLoop_cons hv pulls rest s2).congr (by simp) (fun _ => rfl) (fun _ h => h)
        | some old =>
          simp only
          refine ConsAt.bind (i1 := w (.v old) + wpairs w rest) (o1 := fun _ => wpairs w rest) (p1 := some 0) ?_
            (by simp) (by own_p) (fun _ s3 _ => ?_)
          · refine ConsAt.unwindWith (p0 := some (wpairs w rest)) (q := 0) (pc := some 0)
              ((dropV_cons E hv old s2).framed (wpairs w rest) (by simp) (fun _ => by omega) (by own_p))
              (fun x hx s' => ?_)
            cases hx
            exact dropList_cons E hv rest s'
          · exact (extendLoop_cons hv pulls rest s3).congr (by simp) (fun _ => rfl) (fun _ h => h)
    split
    · refine ConsAt.bind (i1 := w (.k k) + w (.v v) + wpairs w rest)
        (o1 := fun _ => w (.k k) + w (.v v) + wpairs w rest) (p1 := some 0) ?_ (Nat.le_refl _) (by own_p)
        (fun _ s1 _ => ?_)
      · refine ConsAt.unwindWith (p0 := some (w (.k k) + w (.v v) + wpairs w rest)) (q := 0) (pc := some 0)
          ((pullSrc_cons s).framed (w (.k k) + w (.v v) + wpairs w rest) (by omega) (fun _ => by omega)
            (by own_p)) (fun x hx s' => ?_)
        cases hx
        exact (dropList_cons E hv ((k, v) :: rest) s').congr (by simp) (fun _ => rfl) (fun _ h => h)
      · exact (hrest s1).congr (by omega) (fun _ => rfl) (fun _ h => h)
    · exact hrest s

/-! ### drain and the consuming iterator -/

theorem drainStart_cons : Cons P w (drainStart : SM K V Q Nat) 0 (fun _ => 0) (some 0) := by
  intro s
  unfold drainStart
  refine ConsAt.bind0 (sliceToLen_cons s) (by own_p) (fun n s1 _ => ?_)
  refine ConsAt.bind0 (setLen_cons 0 s1) (by own_np) (fun _ s2 _ => ?_)
  exact ConsAt.pure rfl

theorem drainNext_cons (lo hi : Nat) :
    Cons P w (drainNext lo hi : SM K V Q (Option (K × V))) 0 (fun o => wo w o) none := by
  intro s
  unfold drainNext
  split
  · refine ConsAt.bind (itemRead_cons lo s) (Nat.le_refl _) (by own_np) (fun p s1 _ => ?_)
    exact ConsAt.pure (by simp)
  · exact ConsAt.pure rfl

theorem drainDrop_cons (hv : HV E w) (lo hi : Nat) : Cons P w (drainDrop E lo hi) 0 (fun _ => 0) (some 0) :=
  dropRange_cons E hv _ _

theorem intoIterNext_cons : Cons P w (intoIterNext : SM K V Q (Option (K × V))) 0 (fun o => wo w o) none := by
  intro s
  unfold intoIterNext
  refine ConsAt.bind0 (getLen_cons s) (by own_np) (fun len s1 _ => ?_)
  split
  · refine ConsAt.bind0 (setLen_cons _ s1) (by own_np) (fun _ s2 _ => ?_)
    refine ConsAt.bind (itemRead_cons _ s2) (Nat.le_refl _) (by own_np) (fun p s3 _ => ?_)
    exact ConsAt.pure (by simp)
  · exact ConsAt.pure rfl


/-! ### `clone` and `from_iter` (run on a scratch register) -/

theorem cloneLoop_cons (hall : ∀ e, P e) (hv : HV E w) (src : Raw K V) : ∀ n i,
    Cons P w (cloneLoop E src n i) 0 (fun _ => 0) (some 0)
  | 0, _ => fun _ => ConsAt.pure rfl
  | n + 1, i => by
    intro s
    unfold cloneLoop
    refine ConsAt.bind0 (getCap_cons s) (by own_np) (fun cap s1 _ => ?_)
    split
    · refine ConsAt.bind0 (itemRefR_cons src i s1) (by own_np) (fun p s2 _ => ?_)
      refine ConsAt.bind (clonePair_cons E hall hv p s2) (Nat.le_refl _) (by own_p) (fun p' s3 _ => ?_)
      refine ConsAt.bind (itemWrite_cons i p' s3) (by omega) (by own_np) (fun _ s4 _ => ?_)
      refine ConsAt.bind0 (setLen_cons _ s4) (by own_np) (fun _ s5 _ => ?_)
      exact (cloneLoop_cons hall hv src n (i + 1) s5).congr (by omega) (fun _ => rfl) (fun _ h => h)
    · exact ConsAt.pure rfl

/-- `clone` into a scratch register: every object that ends up live in the destination, dropped
    or leaked is a clone result (created), whether or not a `clone` unwinds. -/
theorem cloneInto_cons (hall : ∀ e, P e) (hv : HV E w) (src : Raw K V) : Cons P w (cloneInto E src) 0 (fun _ => 0) (some 0) := by
  intro s
  unfold cloneInto
  refine ConsAt.unwindWith (p0 := some 0) (q := 0) (pc := some 0) ?_
    (fun x hx s1 => by cases hx; exact dropMap_cons E hv s1)
  split
  · exact cloneLoop_cons E hall hv src _ _ s
  · exact ConsAt.throwP

/-- `from_iter` into a scratch register: every pair of the source ends up stored, dropped or leaked. -/
theorem from_iter_cons (hv : HV E w) (pulls : Bool) (xs : List (K × V)) :
    Cons P w (from_iter E pulls xs) (wpairs w xs) (fun _ => 0) (some 0) := by
  intro s
  unfold from_iter
  exact ConsAt.unwindWith (p0 := some 0) (q := 0) (pc := some 0) (extendLoop_cons E hv pulls xs s)
    (fun x hx s1 => by cases hx; exact dropMap_cons E hv s1)

/-! ### the drops unwind only by injected panics

The same triples with `pown = none`: used where the enclosing frame owns something the model has no
name for (the items a drain or a consuming iterator has already handed to its caller). -/

theorem dropK_inj (k : K) : Cons P w (dropK k : SM K V Q Unit) (w (.k k)) (fun _ => 0) none := by
  intro s
  unfold dropK
  have h1 := logE_cons (P := P) (w := w) (Event.dropK k : Event K V Q) (EvP.of_notClone _ trivial) s
  simp only [droppedOf, createdOf, wsum_cons, wsum_nil, Nat.add_zero] at h1
  refine ConsAt.bind h1 (Nat.le_refl _) (by own_np) (fun _ s' _ => ?_)
  exact (tick_inj s').congr (by omega) (fun _ => rfl) (by own_np)

theorem dropV_inj (hv : HV E w) (v : V) : Cons P w (dropV E v) (w (.v v)) (fun _ => 0) none := by
  intro s
  unfold dropV
  split
  · have h1 := logE_cons (P := P) (w := w) (Event.dropV v : Event K V Q) (EvP.of_notClone _ trivial) s
    simp only [droppedOf, createdOf, wsum_cons, wsum_nil, Nat.add_zero] at h1
    refine ConsAt.bind h1 (Nat.le_refl _) (by own_np) (fun _ s' _ => ?_)
    exact (tick_inj s').congr (by omega) (fun _ => rfl) (by own_np)
  · rename_i hg
    rcases hv with hv | hv
    · exact absurd hv hg
    · exact ConsAt.pure (hv v)

theorem dropPair_inj (hv : HV E w) (p : K × V) :
    Cons P w (dropPair E p) (w (.k p.1) + w (.v p.2)) (fun _ => 0) none := by
  intro s
  unfold dropPair
  refine ConsAt.bind (i1 := w (.k p.1) + w (.v p.2)) (o1 := fun _ => w (.v p.2)) (p1 := none) ?_
    (Nat.le_refl _) (by own_np) (fun _ s' _ => ?_)
  · exact ConsAt.unwindWith_inj ((dropK_inj p.1 s).framed (w (.v p.2)) rfl (fun _ => by omega) (by own_np))
  · exact (dropV_inj E hv p.2 s').congr (by omega) (fun _ => rfl) (by own_np)

theorem itemDrop_inj (hv : HV E w) (i : Nat) : Cons P w (itemDrop E i) 0 (fun _ => 0) none := by
  intro s
  unfold itemDrop
  refine ConsAt.bind (itemRead_cons i s) (Nat.le_refl _) (by own_np) (fun p s' _ => ?_)
  exact (dropPair_inj E hv p s').congr (by omega) (fun _ => rfl) (by own_np)

theorem dropRange_inj (hv : HV E w) : ∀ n i, Cons P w (dropRange E n i) 0 (fun _ => 0) none
  | 0, _ => fun _ => ConsAt.pure rfl
  | n + 1, i => by
    intro s
    unfold dropRange
    refine ConsAt.bind0 (itemDrop_inj E hv i s) (by own_np) (fun _ s' _ => ?_)
    exact dropRange_inj hv n (i + 1) s'

theorem dropMap_inj (hv : HV E w) : Cons P w (dropMap E) 0 (fun _ => 0) none := by
  intro s
  unfold dropMap
  refine ConsAt.bind0 (getLen_cons s) (by own_np) (fun len s1 _ => ?_)
  exact dropRange_inj E hv len 0 s1

theorem drainDrop_inj (hv : HV E w) (lo hi : Nat) : Cons P w (drainDrop E lo hi) 0 (fun _ => 0) none :=
  dropRange_inj E hv _ _

theorem callF_inj (tag : Nat) : Cons P w (callF tag : SM K V Q Unit) 0 (fun _ => 0) none := by
  intro s
  unfold callF
  refine ConsAt.bind0 (tick_inj s) (by own_np) (fun _ s' _ => ?_)
  exact logE_neutral _ (by exact trivial) rfl rfl s'

theorem eqK_inj (a b : K) : Cons P w (eqK E a b) 0 (fun _ => 0) none := by
  intro s
  unfold eqK
  refine ConsAt.bind0 (tick_inj s) (by own_np) (fun _ s' _ => ?_)
  refine ConsAt.getS_bind ?_
  refine ConsAt.bind0 (logE_neutral _ (by exact trivial) rfl rfl s') (by own_np) (fun _ s'' _ => ?_)
  exact ConsAt.pure rfl

theorem eqQ_inj (a b : Q) : Cons P w (eqQ E a b) 0 (fun _ => 0) none := by
  intro s
  unfold eqQ
  refine ConsAt.bind0 (tick_inj s) (by own_np) (fun _ s' _ => ?_)
  refine ConsAt.getS_bind ?_
  refine ConsAt.bind0 (logE_neutral _ (by exact trivial) rfl rfl s') (by own_np) (fun _ s'' _ => ?_)
  exact ConsAt.pure rfl

theorem probeEq_inj (stored : K) (pr : Probe K Q) : Cons P w (probeEq E stored pr) 0 (fun _ => 0) none := by
  cases pr with
  | key k => exact eqK_inj E stored k
  | q q => exact eqQ_inj E (E.borrow stored) q

theorem scanFromR_inj (r : Raw K V) (pr : Probe K Q) : ∀ n i,
    Cons P w (scanFromR E r pr n i) 0 (fun _ => 0) none
  | 0, _ => fun _ => ConsAt.pure rfl
  | n + 1, i => by
    intro s
    unfold scanFromR
    refine ConsAt.bind0 (itemRefR_cons r i s) (by own_np) (fun p s' _ => ?_)
    refine ConsAt.bind0 (probeEq_inj E p.1 pr s') (by own_np) (fun b s'' _ => ?_)
    split
    · exact ConsAt.pure rfl
    · exact scanFromR_inj r pr n (i + 1) s''

/-- the scan of a container with `len ≤ cap` unwinds only by an injected panic. -/
theorem scan_inj (pr : Probe K Q) {s : St K V Q} (h : s.r.len ≤ s.r.cap) :
    ConsAt P w (scan E pr) s 0 (fun _ => 0) none := by
  show ConsAt P w (scanR E s.r pr) s 0 (fun _ => 0) none
  unfold scanR
  simp only [h, if_true]
  exact scanFromR_inj E s.r pr _ _ s

theorem unwindWith_ok {α : Type} {cleanup : SM K V Q Unit} {body : SM K V Q α} {s s' : St K V Q} {a : α}
    (h : Micromap.unwindWith cleanup body s = .ok a s') : body s = .ok a s' := by
  unfold Micromap.unwindWith at h
  cases hb : body s with
  | ok a1 s1 => rw [hb] at h; exact h
  | ub => rw [hb] at h; cases h
  | panic c s1 =>
    rw [hb] at h
    simp only at h
    cases hc : cleanup (s1.setUnw true) <;> rw [hc] at h <;> cases h

end Micromap.Own
