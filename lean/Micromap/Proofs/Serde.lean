/-
serde over the abstract data model: what `serialize` emits, and that `deserialize` of it
rebuilds an equal container whenever the target capacity suffices.
-/
import Micromap.Proofs.StepInv

namespace Micromap.Serde
open SetAlg Dict EqClone
variable {K V Q : Type} (E : Env K V Q)

/-- the token stream of a container holding `l`. -/
def tokens (l : List (K × V)) : List (Tok K V) :=
  .start (some l.length) :: l.map (fun p => Tok.entry p.1 p.2) ++ [.fin]

theorem ClonesOf.snoc {E : Env K V Q} : ∀ {a a' : List (K × V)} {p p' : K × V}, ClonesOf E a a' →
    IsCloneOf E p p' → ClonesOf E (a ++ [p]) (a' ++ [p'])
  | [], [], _, _, _, hp => ⟨hp, trivial⟩
  | x :: a, x' :: a', _, _, hc, hp => ⟨hc.1, ClonesOf.snoc hc.2 hp⟩
  | [], _ :: _, _, _, h, _ => h.elim
  | _ :: _, [], _, _, h, _ => h.elim

theorem decodeK_ok (k : K) (s : St K V Q) :
    decodeK E k s = .ok (E.clK s.w.nextId k) { s with w := { s.w with nextId := s.w.nextId + 1 } } := rfl

theorem decodeV_ok (v : V) (s : St K V Q) :
    ∃ v' s', decodeV E v s = .ok v' s' ∧ s'.r = s.r ∧ Benign s'.w = Benign s.w ∧ IsCloneV E v v' := by
  unfold decodeV IsCloneV
  cases h : E.vGlue with
  | true =>
    exact ⟨E.clV s.w.nextId v, { s with w := { s.w with nextId := s.w.nextId + 1 } }, by simp, rfl, rfl,
      by rw [if_pos rfl]; exact ⟨_, rfl⟩⟩
  | false => exact ⟨v, s, by simp, rfl, rfl, by simp⟩

/-- in a benign pure world, `insert` of a key that no stored key equals, with room, appends. -/
theorem insert_appends (hE : E.Pure) {s : St K V Q} {l : List (K × V)} (hr : Rep s.r l)
    (hb : Benign s.w) (k : K) (v : V) (habs : findKey E l (.key k) = none) (hroom : l.length < s.r.cap) :
    ∃ s', insert E k v s = .ok none s' ∧ Rep s'.r (l ++ [(k, v)]) ∧ s'.r.cap = s.r.cap ∧ Benign s'.w := by
  rcases Refine.outcome (insert_sat E hr k v) with ⟨a, s', hm, hc, hq⟩ | ⟨c, s', _, _, hq⟩
  · rcases hq with ⟨j, _, _, _, _, hfj⟩ | ⟨ha, _, hrep, hw, _⟩
    · rw [habs] at hfj; exact absurd (hfj hE) (by simp)
    · subst ha; exact ⟨s', hm, hrep, hc, hw.benign hb⟩
  · rcases hq with ⟨hi', _⟩ | ⟨_, _, hfull, _⟩
    · exact (Refine.no_inj hb hi').elim
    · omega

/-- the visitor loop on the entries of a duplicate-free container that fits: every entry is
    decoded once and appended; the result consists of the decoded copies, in order. -/
theorem visitLoop_roundtrip (hE : E.Lawful) (hk : ∀ n k, E.keq (E.clK n k) k = true) :
    ∀ (rest : List (K × V)) (s : St K V Q) (done lp : List (K × V)), Rep s.r lp → Benign s.w →
      ClonesOf E done lp → NodupKeys E.keq (done ++ rest) → (done ++ rest).length ≤ s.r.cap →
      ∃ s' l', visitLoop E (rest.map (fun p => Tok.entry p.1 p.2) ++ [.fin]) s = .ok () s' ∧
        Rep s'.r l' ∧ ClonesOf E (done ++ rest) l' ∧ s'.r.cap = s.r.cap ∧ Benign s'.w
  | [], s, done, lp, hr, hb, hc, _, _ => ⟨s, lp, rfl, hr, by simpa using hc, rfl, hb⟩
  | (k, v) :: rest, s, done, lp, hr, hb, hc, hn, hcap => by
    have hlen := hc.length_eq
    obtain ⟨v', s2, hv, hr2, hb2, hcv⟩ := decodeV_ok E v
      ({ s with w := { s.w with nextId := s.w.nextId + 1 } } : St K V Q)
    have hb1 : Benign ({ s with w := { s.w with nextId := s.w.nextId + 1 } } : St K V Q).w := hb
    have hbs2 : Benign s2.w := by rw [hb2]; exact hb1
    have hrs2 : Rep s2.r lp := by rw [hr2]; exact hr
    -- the decoded key equals no key decoded so far
    have habs : findKey E lp (.key (E.clK s.w.nextId k)) = none := by
      rw [findKey_none_iff]
      intro p hp
      obtain ⟨j, hj, rfl⟩ := List.mem_iff_getElem.1 hp
      have hj' : j < done.length := hlen ▸ hj
      show E.keq lp[j].1 (E.clK s.w.nextId k) = false
      cases hkk : E.keq lp[j].1 (E.clK s.w.nextId k) with
      | false => rfl
      | true =>
        have h1 : E.keq done[j].1 lp[j].1 = true := by rw [hE.symm]; exact hc.keq_get hk hj' hj
        have h2 := hE.trans _ _ _ (hE.trans _ _ _ h1 hkk) (hk s.w.nextId k)
        have hnn := (nodupKeys_iff_getElem hE.equivB).mp hn j done.length
          (by simp; omega) (by simp) (by omega)
        rw [List.getElem_append_left hj', List.getElem_append_right (Nat.le_refl _)] at hnn
        simp at hnn
        rw [hnn] at h2; cases h2
    have hroom : lp.length < s2.r.cap := by
      rw [hr2, hlen]; simp at hcap; simp; omega
    obtain ⟨s3, hi, hr3, hc3, hb3⟩ := insert_appends E hE.toPure hrs2 hbs2 (E.clK s.w.nextId k) v' habs hroom
    have hc' : ClonesOf E (done ++ [(k, v)]) (lp ++ [(E.clK s.w.nextId k, v')]) :=
      ClonesOf.snoc hc ⟨⟨_, rfl⟩, hcv⟩
    have hn' : NodupKeys E.keq ((done ++ [(k, v)]) ++ rest) := by simpa using hn
    have hcap' : ((done ++ [(k, v)]) ++ rest).length ≤ s3.r.cap := by
      rw [hc3, hr2]; simpa using hcap
    obtain ⟨s', l', h1, h2, h3, h4, h5⟩ :=
      visitLoop_roundtrip hE hk rest s3 (done ++ [(k, v)]) _ hr3 hb3 hc' hn' hcap'
    refine ⟨s', l', ?_, h2, by simpa using h3, by rw [h4, hc3, hr2], h5⟩
    simp only [List.map_cons, List.cons_append]
    unfold visitLoop
    simp only [bind_apply, decodeK_ok, hv, hi, pure_apply]
    exact h1

/-- **Round trip.**  Deserializing the serialization of a duplicate-free container into a local
    of capacity `cap ≥ len` returns a container holding the decoded copies of all entries. -/
theorem deserialize_roundtrip (hE : E.Lawful) (hk : ∀ n k, E.keq (E.clK n k) k = true)
    {l : List (K × V)} (hn : NodupKeys E.keq l) (cap : Nat) (hcap : l.length ≤ cap)
    (w : World K V Q) (hb : Benign w) :
    ∃ s' l', deserializeInto E (tokens l) ⟨Raw.new cap, w⟩ = .ok () s' ∧ Rep s'.r l' ∧
      ClonesOf E l l' ∧ s'.r.cap = cap ∧ Benign s'.w := by
  obtain ⟨s', l', h1, h2, h3, h4, h5⟩ := visitLoop_roundtrip E hE hk l ⟨Raw.new cap, w⟩ [] []
    (Rep.new cap) hb trivial (by simpa using hn) (by simpa [Raw.new] using hcap)
  refine ⟨s', l', ?_, h2, by simpa using h3, h4, h5⟩
  have hdef : deserializeInto E (tokens l) =
      Micromap.unwindWith (dropMap E) (visitLoop E (l.map (fun p => Tok.entry p.1 p.2) ++ [.fin])) := rfl
  rw [hdef]
  unfold Micromap.unwindWith
  rw [h1]

end Micromap.Serde
