/-
Laws of the list-level set algebra (used by C08 and C14).  Pure list reasoning over a
Boolean equivalence; no model, no monad.
-/
import Micromap.Spec.SetAlg

namespace Micromap.SetAlg
variable {K V : Type} {keq : K → K → Bool}

/-! ### helpers -/

theorem memB_eq_true {x : K} {l : List K} :
    memB keq x l = true ↔ ∃ y, y ∈ l ∧ keq y x = true := by
  simp [memB, List.any_eq_true]

theorem memB_eq_false {x : K} {l : List K} :
    memB keq x l = false ↔ ∀ y, y ∈ l → keq y x = false := by
  simp [memB, List.any_eq_false]

theorem mem_diffL {x : K} {a b : List K} :
    x ∈ diffL keq a b ↔ x ∈ a ∧ memB keq x b = false := by
  simp [diffL, List.mem_filter]

theorem mem_interL {x : K} {a b : List K} :
    x ∈ interL keq a b ↔ x ∈ a ∧ memB keq x b = true := by
  simp [interL, List.mem_filter]

theorem keq_congr_right (h : EquivB keq) {x y : K} (hxy : keq x y = true) (z : K) :
    keq z x = keq z y := by
  rw [Bool.eq_iff_iff]
  constructor
  · intro hz; exact h.trans _ _ _ hz hxy
  · intro hz
    have hyx : keq y x = true := by rw [h.symm]; exact hxy
    exact h.trans _ _ _ hz hyx

/-! ### membership -/

theorem memB_congr (h : EquivB keq) {x y : K} (hxy : keq x y = true) (l : List K) :
    memB keq x l = memB keq y l := by
  have hf : (fun z => keq z x) = (fun z => keq z y) := by
    funext z; exact keq_congr_right h hxy z
  unfold memB
  rw [hf]

theorem memB_diff (h : EquivB keq) (x : K) (a b : List K) :
    memB keq x (diffL keq a b) = (memB keq x a && !memB keq x b) := by
  rw [Bool.eq_iff_iff, Bool.and_eq_true, Bool.not_eq_true', memB_eq_true, memB_eq_true]
  constructor
  · rintro ⟨y, hy, hyx⟩
    rw [mem_diffL] at hy
    refine ⟨⟨y, hy.1, hyx⟩, ?_⟩
    rw [← memB_congr h hyx b]; exact hy.2
  · rintro ⟨⟨y, hya, hyx⟩, hxb⟩
    refine ⟨y, mem_diffL.mpr ⟨hya, ?_⟩, hyx⟩
    rw [memB_congr h hyx b]; exact hxb

theorem memB_inter (h : EquivB keq) (x : K) (a b : List K) :
    memB keq x (interL keq a b) = (memB keq x a && memB keq x b) := by
  rw [Bool.eq_iff_iff, Bool.and_eq_true, memB_eq_true, memB_eq_true]
  constructor
  · rintro ⟨y, hy, hyx⟩
    rw [mem_interL] at hy
    refine ⟨⟨y, hy.1, hyx⟩, ?_⟩
    rw [← memB_congr h hyx b]; exact hy.2
  · rintro ⟨⟨y, hya, hyx⟩, hxb⟩
    refine ⟨y, mem_interL.mpr ⟨hya, ?_⟩, hyx⟩
    rw [memB_congr h hyx b]; exact hxb

theorem memB_append (x : K) (a b : List K) :
    memB keq x (a ++ b) = (memB keq x a || memB keq x b) := by
  simp [memB, List.any_append]

theorem memB_union (h : EquivB keq) (x : K) (a b : List K) :
    memB keq x (unionL keq a b) = (memB keq x a || memB keq x b) := by
  unfold unionL
  rw [memB_append, memB_diff h]
  cases memB keq x a <;> cases memB keq x b <;> rfl

theorem memB_symm (h : EquivB keq) (x : K) (a b : List K) :
    memB keq x (symmL keq a b) = ((memB keq x a && !memB keq x b) || (memB keq x b && !memB keq x a)) := by
  unfold symmL
  rw [memB_append, memB_diff h, memB_diff h]

/-! ### no repeats -/

theorem nodup_diff (a b : List K) (ha : NodupB keq a) : NodupB keq (diffL keq a b) := by
  unfold NodupB diffL at *
  exact ha.filter _

theorem nodup_inter (a b : List K) (ha : NodupB keq a) : NodupB keq (interL keq a b) := by
  unfold NodupB interL at *
  exact ha.filter _

-- (`h` is not needed for this one; kept for a uniform signature.)
set_option linter.unusedVariables false in
theorem nodup_union (h : EquivB keq) (a b : List K) (ha : NodupB keq a) (hb : NodupB keq b) :
    NodupB keq (unionL keq a b) := by
  have hd := nodup_diff (keq := keq) a b ha
  unfold NodupB unionL at *
  rw [List.pairwise_append]
  refine ⟨hb, hd, ?_⟩
  intro y hy x hx
  rw [mem_diffL] at hx
  exact memB_eq_false.mp hx.2 y hy

theorem nodup_symm (h : EquivB keq) (a b : List K) (ha : NodupB keq a) (hb : NodupB keq b) :
    NodupB keq (symmL keq a b) := by
  have hd := nodup_diff (keq := keq) a b ha
  have hd' := nodup_diff (keq := keq) b a hb
  unfold NodupB symmL at *
  rw [List.pairwise_append]
  refine ⟨hd, hd', ?_⟩
  intro x hx y hy
  rw [mem_diffL] at hx hy
  rw [h.symm]
  exact memB_eq_false.mp hx.2 y hy.1

/-- intersection and difference yield the left operand's own elements, in its order. -/
theorem diff_sublist (a b : List K) : (diffL keq a b).Sublist a := by
  unfold diffL; exact List.filter_sublist

theorem inter_sublist (a b : List K) : (interL keq a b).Sublist a := by
  unfold interL; exact List.filter_sublist

/-! ### pigeonhole and the predicates -/

/-- pairwise-unequal elements that all occur in `b` are at most `|b|` many. -/
theorem pigeon (h : EquivB keq) (a b : List K) (ha : NodupB keq a)
    (hsub : ∀ x, x ∈ a → memB keq x b = true) : a.length ≤ b.length := by
  induction a generalizing b with
  | nil => simp
  | cons x a ih =>
    unfold NodupB at ha
    rw [List.pairwise_cons] at ha
    obtain ⟨hx, ha⟩ := ha
    obtain ⟨y, hyb, hyx⟩ := memB_eq_true.mp (hsub x (List.mem_cons_self))
    obtain ⟨b₁, b₂, rfl⟩ := List.append_of_mem hyb
    have hxy : keq x y = true := by rw [h.symm]; exact hyx
    have hsub' : ∀ z, z ∈ a → memB keq z (b₁ ++ b₂) = true := by
      intro z hz
      obtain ⟨w, hw, hwz⟩ := memB_eq_true.mp (hsub z (List.mem_cons_of_mem _ hz))
      rw [memB_eq_true]
      refine ⟨w, ?_, hwz⟩
      rw [List.mem_append, List.mem_cons] at hw
      rw [List.mem_append]
      rcases hw with hw | hw | hw
      · exact Or.inl hw
      · subst hw
        have : keq x z = true := h.trans _ _ _ hxy hwz
        rw [hx z hz] at this
        cases this
      · exact Or.inr hw
    have := ih (b₁ ++ b₂) ha hsub'
    simp only [List.length_append, List.length_cons] at this ⊢
    omega

/-- strict pigeonhole: if moreover some element of `b` is not (up to `keq`) in `a`. -/
theorem pigeon_lt (h : EquivB keq) (a b : List K) (ha : NodupB keq a)
    (hsub : ∀ x, x ∈ a → memB keq x b = true) (y : K) (hyb : y ∈ b)
    (hya : memB keq y a = false) : a.length < b.length := by
  obtain ⟨b₁, b₂, rfl⟩ := List.append_of_mem hyb
  have hsub' : ∀ z, z ∈ a → memB keq z (b₁ ++ b₂) = true := by
    intro z hz
    obtain ⟨w, hw, hwz⟩ := memB_eq_true.mp (hsub z hz)
    rw [memB_eq_true]
    refine ⟨w, ?_, hwz⟩
    rw [List.mem_append, List.mem_cons] at hw
    rw [List.mem_append]
    rcases hw with hw | hw | hw
    · exact Or.inl hw
    · subst hw
      have hzw : keq z w = true := by rw [h.symm]; exact hwz
      rw [memB_eq_false.mp hya z hz] at hzw
      cases hzw
    · exact Or.inr hw
  have := pigeon h a (b₁ ++ b₂) ha hsub'
  simp only [List.length_append, List.length_cons] at this ⊢
  omega

theorem subsetB_iff (a b : List K) :
    subsetB keq a b = true ↔ ∀ x, x ∈ a → memB keq x b = true := by
  unfold subsetB
  rw [List.all_eq_true]

theorem disjointB_iff (a b : List K) :
    disjointB keq a b = true ↔ ∀ x, x ∈ a → memB keq x b = false := by
  unfold disjointB
  rw [List.all_eq_true]
  simp only [Bool.not_eq_true']

/-- the length shortcut of `is_subset` is sound for duplicate-free sets. -/
theorem isSubsetCode_eq (h : EquivB keq) (a b : List K) (ha : NodupB keq a) :
    isSubsetCode keq a b = subsetB keq a b := by
  unfold isSubsetCode
  by_cases hl : a.length ≤ b.length
  · rw [if_pos hl]; rfl
  · rw [if_neg hl]
    cases hs : subsetB keq a b with
    | false => rfl
    | true =>
      exact absurd (pigeon h a b ha ((subsetB_iff a b).mp hs)) hl

/-- disjointness is symmetric, so iterating the shorter operand is sound. -/
theorem disjointB_symm (h : EquivB keq) (a b : List K) : disjointB keq a b = disjointB keq b a := by
  rw [Bool.eq_iff_iff, disjointB_iff, disjointB_iff]
  constructor
  · intro H y hy
    rw [memB_eq_false]
    intro x hx
    rw [h.symm]
    exact memB_eq_false.mp (H x hx) y hy
  · intro H y hy
    rw [memB_eq_false]
    intro x hx
    rw [h.symm]
    exact memB_eq_false.mp (H x hx) y hy

theorem isDisjointCode_eq (h : EquivB keq) (a b : List K) :
    isDisjointCode keq a b = disjointB keq a b := by
  unfold isDisjointCode
  by_cases hl : a.length ≤ b.length
  · rw [if_pos hl]; rfl
  · rw [if_neg hl]
    exact (disjointB_symm h a b).symm

/-! ### size hints bracket what is still to come -/

theorem length_inter_add_diff (a b : List K) :
    (interL keq a b).length + (diffL keq a b).length = a.length := by
  unfold interL diffL
  induction a with
  | nil => rfl
  | cons x a ih =>
    simp only [List.filter_cons]
    cases memB keq x b <;> simp <;> omega

theorem length_inter_le_right (h : EquivB keq) (a b : List K) (ha : NodupB keq a) :
    (interL keq a b).length ≤ b.length :=
  pigeon h _ b (nodup_inter a b ha) (fun _ hx => (mem_interL.mp hx).2)

/-- `Difference::size_hint`: with `rest` the not-yet-visited suffix of the left operand. -/
theorem diff_hint_brackets (h : EquivB keq) (rest b : List K) (hr : NodupB keq rest) :
    rest.length - b.length ≤ (diffL keq rest b).length ∧ (diffL keq rest b).length ≤ rest.length := by
  have h1 := length_inter_add_diff (keq := keq) rest b
  have h2 := length_inter_le_right h rest b hr
  omega

theorem inter_hint_brackets (h : EquivB keq) (rest b : List K) (hr : NodupB keq rest) :
    (interL keq rest b).length ≤ min rest.length b.length := by
  have h1 := length_inter_add_diff (keq := keq) rest b
  have h2 := length_inter_le_right h rest b hr
  omega

/-! ### maps: extensional equality -/

theorem lookupL_nil (k : K) : lookupL keq ([] : List (K × V)) k = none := rfl

theorem lookupL_cons (q : K × V) (l : List (K × V)) (k : K) :
    lookupL keq (q :: l) k = if keq q.1 k = true then some q.2 else lookupL keq l k := by
  unfold lookupL
  rw [List.find?_cons]
  cases keq q.1 k <;> simp

theorem lookupL_eq_none_iff (l : List (K × V)) (k : K) :
    lookupL keq l k = none ↔ ∀ p, p ∈ l → keq p.1 k = false := by
  unfold lookupL
  rw [Option.map_eq_none_iff, List.find?_eq_none]
  simp only [Bool.not_eq_true]

theorem lookupL_some_elim {l : List (K × V)} {k : K} {v : V} (hl : lookupL keq l k = some v) :
    ∃ p, p ∈ l ∧ keq p.1 k = true ∧ p.2 = v := by
  unfold lookupL at hl
  rw [Option.map_eq_some_iff] at hl
  obtain ⟨p, hp, hv⟩ := hl
  have hpk : keq p.1 k = true := List.find?_some (p := fun p : K × V => keq p.1 k) hp
  exact ⟨p, List.mem_of_find?_eq_some hp, hpk, hv⟩

theorem lookupL_some_intro (h : EquivB keq) (l : List (K × V)) (hn : NodupKeys keq l) (p : K × V)
    (hp : p ∈ l) (k : K) (hk : keq p.1 k = true) : lookupL keq l k = some p.2 := by
  induction l with
  | nil => cases hp
  | cons q l ih =>
    unfold NodupKeys NodupB at hn
    rw [List.map_cons, List.pairwise_cons] at hn
    obtain ⟨hq, hn⟩ := hn
    rw [lookupL_cons]
    rw [List.mem_cons] at hp
    rcases hp with rfl | hp
    · rw [if_pos hk]
    · have hqk : ¬ keq q.1 k = true := by
        intro hqk
        have hkp : keq k p.1 = true := by rw [h.symm]; exact hk
        have : keq q.1 p.1 = true := h.trans _ _ _ hqk hkp
        rw [hq p.1 (List.mem_map_of_mem hp)] at this
        cases this
      rw [if_neg hqk]
      exact ih hn hp

theorem lookupL_some_of_mem (h : EquivB keq) (l : List (K × V)) (hn : NodupKeys keq l) (p : K × V)
    (hp : p ∈ l) : lookupL keq l p.1 = some p.2 :=
  lookupL_some_intro h l hn p hp p.1 (h.refl _)

theorem lookupL_congr (h : EquivB keq) (l : List (K × V)) {k k' : K} (hk : keq k k' = true) :
    lookupL keq l k = lookupL keq l k' := by
  have hf : (fun p : K × V => keq p.1 k) = (fun p : K × V => keq p.1 k') := by
    funext p; exact keq_congr_right h hk p.1
  unfold lookupL
  rw [hf]

/-- membership of a key among the keys, in terms of `lookupL`. -/
theorem memB_keys_iff (l : List (K × V)) (k : K) :
    memB keq k (l.map (·.1)) = true ↔ lookupL keq l k ≠ none := by
  rw [Ne, lookupL_eq_none_iff, memB_eq_true]
  constructor
  · rintro ⟨y, hy, hyk⟩ H
    rw [List.mem_map] at hy
    obtain ⟨p, hp, rfl⟩ := hy
    rw [H p hp] at hyk
    cases hyk
  · intro H
    apply Classical.byContradiction
    intro H'
    apply H
    intro p hp
    cases hpk : keq p.1 k with
    | false => rfl
    | true => exact absurd ⟨p.1, List.mem_map_of_mem hp, hpk⟩ H'

theorem lookupL_perm (h : EquivB keq) (l l' : List (K × V)) (hn : NodupKeys keq l)
    (hp : l.Perm l') (k : K) : lookupL keq l k = lookupL keq l' k := by
  have hn' : NodupKeys keq l' := by
    unfold NodupKeys NodupB at *
    refine ((hp.map (·.1)).pairwise_iff ?_).mp hn
    intro x y hxy
    rw [h.symm]; exact hxy
  cases hl : lookupL keq l k with
  | none =>
    symm
    rw [lookupL_eq_none_iff] at hl ⊢
    intro p hp'
    exact hl p (hp.mem_iff.mpr hp')
  | some v =>
    obtain ⟨p, hpl, hpk, rfl⟩ := lookupL_some_elim hl
    exact (lookupL_some_intro h l' hn' p (hp.mem_iff.mp hpl) k hpk).symm

theorem mapEqCode_eq_true (veq : V → V → Bool) (a b : List (K × V)) :
    mapEqCode keq veq a b = true ↔
      a.length = b.length ∧
        ∀ p, p ∈ a → ∃ v, lookupL keq b p.1 = some v ∧ veq v p.2 = true := by
  unfold mapEqCode
  rw [Bool.and_eq_true, beq_iff_eq, List.all_eq_true]
  apply and_congr Iff.rfl
  apply forall_congr'
  intro p
  apply imp_congr Iff.rfl
  cases lookupL keq b p.1 <;> simp

theorem mapExtEq_iff (veq : V → V → Bool) (a b : List (K × V)) :
    MapExtEq keq veq a b ↔
      (∀ k x, lookupL keq a k = some x → ∃ y, lookupL keq b k = some y ∧ veq y x = true) ∧
      (∀ k, lookupL keq a k = none → lookupL keq b k = none) := by
  unfold MapExtEq
  constructor
  · intro H
    constructor
    · intro k x hx
      have := H k
      rw [hx] at this
      cases hb : lookupL keq b k with
      | none => rw [hb] at this; exact this.elim
      | some y => rw [hb] at this; exact ⟨y, rfl, this⟩
    · intro k hk
      have := H k
      rw [hk] at this
      cases hb : lookupL keq b k with
      | none => rfl
      | some y => rw [hb] at this; exact this.elim
  · rintro ⟨H1, H2⟩ k
    cases ha : lookupL keq a k with
    | none => rw [H2 k ha]; trivial
    | some x =>
      obtain ⟨y, hy, hv⟩ := H1 k x ha
      rw [hy]; exact hv

/-- `Map::eq` is exactly "same keys with equal values" when keys are unique on both sides
    (the length test turns one inclusion into the other by the pigeonhole principle). -/
theorem mapEqCode_iff (h : EquivB keq) (veq : V → V → Bool) (a b : List (K × V))
    (ha : NodupKeys keq a) (hb : NodupKeys keq b) :
    mapEqCode keq veq a b = true ↔ MapExtEq keq veq a b := by
  rw [mapEqCode_eq_true, mapExtEq_iff]
  constructor
  · rintro ⟨hlen, hall⟩
    have hsub : ∀ x, x ∈ a.map (·.1) → memB keq x (b.map (·.1)) = true := by
      intro x hx
      rw [List.mem_map] at hx
      obtain ⟨p, hp, rfl⟩ := hx
      rw [memB_keys_iff]
      obtain ⟨v, hv, _⟩ := hall p hp
      rw [hv]; exact Option.some_ne_none v
    constructor
    · intro k x hx
      obtain ⟨p, hp, hpk, rfl⟩ := lookupL_some_elim hx
      obtain ⟨v, hv, hveq⟩ := hall p hp
      exact ⟨v, by rw [← lookupL_congr h b hpk]; exact hv, hveq⟩
    · intro k hk
      apply Classical.byContradiction
      intro hbk
      cases hbk' : lookupL keq b k with
      | none => exact hbk hbk'
      | some y =>
        obtain ⟨q, hq, hqk, _⟩ := lookupL_some_elim hbk'
        have hqa : memB keq q.1 (a.map (·.1)) = false := by
          cases hm : memB keq q.1 (a.map (·.1)) with
          | false => rfl
          | true =>
            rw [memB_keys_iff, lookupL_congr h a hqk] at hm
            exact absurd hk hm
        have ha' : NodupB keq (a.map (·.1)) := ha
        have := pigeon_lt h _ _ ha' hsub q.1 (List.mem_map_of_mem hq) hqa
        simp only [List.length_map] at this
        omega
  · rintro ⟨H1, H2⟩
    have hall : ∀ p, p ∈ a → ∃ v, lookupL keq b p.1 = some v ∧ veq v p.2 = true :=
      fun p hp => H1 p.1 p.2 (lookupL_some_of_mem h a ha p hp)
    refine ⟨?_, hall⟩
    have h1 : (a.map (·.1)).length ≤ (b.map (·.1)).length := by
      apply pigeon h _ _ ha
      intro x hx
      rw [List.mem_map] at hx
      obtain ⟨p, hp, rfl⟩ := hx
      rw [memB_keys_iff]
      obtain ⟨v, hv, _⟩ := hall p hp
      rw [hv]; exact Option.some_ne_none v
    have h2 : (b.map (·.1)).length ≤ (a.map (·.1)).length := by
      apply pigeon h _ _ hb
      intro x hx
      rw [List.mem_map] at hx
      obtain ⟨q, hq, rfl⟩ := hx
      rw [memB_keys_iff]
      intro hnone
      have := H2 q.1 hnone
      rw [lookupL_some_of_mem h b hb q hq] at this
      cases this
    simp only [List.length_map] at h1 h2
    omega

theorem mapExtEq_symm (veq : V → V → Bool) (hv : ∀ x y, veq x y = veq y x)
    (a b : List (K × V)) (H : MapExtEq keq veq a b) : MapExtEq keq veq b a := by
  intro k
  have := H k
  revert this
  cases lookupL keq a k <;> cases lookupL keq b k <;> simp
  rename_i x y
  rw [hv]; exact id

/-- hence it is symmetric whenever value equality is. -/
theorem mapEqCode_symm (h : EquivB keq) (veq : V → V → Bool) (hv : ∀ x y, veq x y = veq y x)
    (a b : List (K × V)) (ha : NodupKeys keq a) (hb : NodupKeys keq b) :
    mapEqCode keq veq a b = mapEqCode keq veq b a := by
  rw [Bool.eq_iff_iff, mapEqCode_iff h veq a b ha hb, mapEqCode_iff h veq b a hb ha]
  exact ⟨mapExtEq_symm veq hv a b, mapExtEq_symm veq hv b a⟩

theorem mapEqCode_refl (h : EquivB keq) (veq : V → V → Bool) (hv : ∀ x, veq x x = true)
    (a : List (K × V)) (ha : NodupKeys keq a) : mapEqCode keq veq a a = true := by
  rw [mapEqCode_eq_true]
  refine ⟨rfl, ?_⟩
  intro p hp
  exact ⟨p.2, lookupL_some_of_mem h a ha p hp, hv _⟩

-- (`ha` is not needed: only lookups in `b` depend on key uniqueness.)
set_option linter.unusedVariables false in
/-- and does not depend on the internal order of either operand. -/
theorem mapEqCode_perm (h : EquivB keq) (veq : V → V → Bool) (a a' b b' : List (K × V))
    (ha : NodupKeys keq a) (hb : NodupKeys keq b) (hpa : a.Perm a') (hpb : b.Perm b') :
    mapEqCode keq veq a b = mapEqCode keq veq a' b' := by
  rw [Bool.eq_iff_iff, mapEqCode_eq_true, mapEqCode_eq_true, hpa.length_eq, hpb.length_eq]
  apply and_congr Iff.rfl
  constructor
  · intro H p hp
    obtain ⟨v, hv, hveq⟩ := H p (hpa.mem_iff.mpr hp)
    exact ⟨v, by rw [← lookupL_perm h b b' hb hpb]; exact hv, hveq⟩
  · intro H p hp
    obtain ⟨v, hv, hveq⟩ := H p (hpa.mem_iff.mp hp)
    exact ⟨v, by rw [lookupL_perm h b b' hb hpb]; exact hv, hveq⟩

end Micromap.SetAlg
