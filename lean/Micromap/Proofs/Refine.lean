/-
L0 ⊑ L2 for the dictionary API: every operation of `Map`, run on the slot machine in a benign
world with a lawful key type, returns what the reference dictionary (`Spec/RefDict.lean`) returns
and leaves a container whose live prefix is a permutation of the reference association list.
-/
import Micromap.Proofs.RefineList
import Micromap.Proofs.Bulk
import Micromap.Model.Step

namespace Micromap.Refine
open SetAlg Dict RefineList
variable {K V Q : Type}

/-- the dictionary operations of property C01. -/
inductive DOp (K V Q : Type) where
  | insert (k : K) (v : V)
  | insert_key_value (k : K) (v : V)
  | checked_insert (k : K) (v : V)
  | get (pr : Probe K Q)                    -- `get` and `get_key_value`: the stored pair
  | get_mut (pr : Probe K Q) (g : V → V)    -- followed by the write `*r = g(*r)`
  | contains_key (pr : Probe K Q)
  | index (pr : Probe K Q)
  | index_mut (pr : Probe K Q) (g : V → V)
  | remove (pr : Probe K Q)
  | remove_entry (pr : Probe K Q)
  | retain (f : K → V → Bool × V)
  | clear
  | len
  | is_empty
  | iter                                     -- the entries `iter()` yields

/-- what the caller observes (slot positions erased). -/
inductive DOut (K V : Type) where
  | unit
  | bool (b : Bool)
  | nat (n : Nat)
  | optV (o : Option V)
  | optKV (o : Option (K × V))
  | optOptV (o : Option (Option V))
  | kv (p : K × V)
  | list (l : List (K × V))

/-- outputs agree; iteration order is not part of the dictionary abstraction. -/
def OutRel : DOut K V → DOut K V → Prop
  | .list a, .list b => a.Perm b
  | x, y => x = y

/-- for everything but iteration the outputs are equal. -/
theorem OutRel.eq_of {x y : DOut K V} (h : OutRel x y) (hy : ∀ l, y ≠ .list l) : x = y := by
  cases y with
  | list l => exact absurd rfl (hy l)
  | _ => cases x <;> first | exact h | (simp only [OutRel] at h)

variable (E : Env K V Q)

/-- the operation on the slot machine: exactly the model functions `stepMapOp` runs. -/
def mrun : DOp K V Q → SM K V Q (DOut K V)
  | .insert k v => do pure (.optV (← insert E k v))
  | .insert_key_value k v => do pure (.optKV (← insert_key_value E k v))
  | .checked_insert k v => do pure (.optOptV (← checked_insert E k v))
  | .get pr => do pure (.optKV ((← get E pr).map (·.2)))
  | .get_mut pr g => do pure (.optKV ((← get_mut E pr g).map (·.2)))
  | .contains_key pr => do pure (.bool (← contains_key E pr))
  | .index pr => do pure (.kv (← index E pr).2)
  | .index_mut pr g => do pure (.kv (← index_mut E pr g).2)
  | .remove pr => do pure (.optV (← remove E pr))
  | .remove_entry pr => do pure (.optKV (← remove_entry E pr))
  | .retain f => do retain E (fun _ k v => f k v); pure .unit
  | .clear => do clear E; pure .unit
  | .len => do pure (.nat (← len))
  | .is_empty => do pure (.bool (← is_empty))
  | .iter => do
    let s ← getS
    pure (.list (← entriesOf s.r))

/-- the same operation on the reference dictionary of capacity `cap`. -/
def srun (op : DOp K V Q) (d : List (K × V)) (cap : Nat) : RefDict.Res (DOut K V) (List (K × V)) :=
  match op with
  | .insert k v =>
    match RefDict.find (E.hitP (.key k)) d with
    | some p => .ok (.optV (some p.2)) (RefDict.setVal (E.hitP (.key k)) v d)
    | none => if d.length < cap then .ok (.optV none) (d ++ [(k, v)]) else .overflow
  | .insert_key_value k v =>
    match RefDict.find (E.hitP (.key k)) d with
    | some p => .ok (.optKV (some p)) (RefDict.setPair (E.hitP (.key k)) k v d)
    | none => if d.length < cap then .ok (.optKV none) (d ++ [(k, v)]) else .overflow
  | .checked_insert k v =>
    match RefDict.find (E.hitP (.key k)) d with
    | some p => .ok (.optOptV (some (some p.2))) (RefDict.setVal (E.hitP (.key k)) v d)
    | none => if d.length < cap then .ok (.optOptV (some none)) (d ++ [(k, v)]) else .ok (.optOptV none) d
  | .get pr => .ok (.optKV (RefDict.find (E.hitP pr) d)) d
  | .get_mut pr g =>
    .ok (.optKV ((RefDict.find (E.hitP pr) d).map fun p => (p.1, g p.2))) (RefDict.modVal (E.hitP pr) g d)
  | .contains_key pr => .ok (.bool (RefDict.find (E.hitP pr) d).isSome) d
  | .index pr =>
    match RefDict.find (E.hitP pr) d with
    | some p => .ok (.kv p) d
    | none => .noentry
  | .index_mut pr g =>
    match RefDict.find (E.hitP pr) d with
    | some p => .ok (.kv (p.1, g p.2)) (RefDict.modVal (E.hitP pr) g d)
    | none => .noentry
  | .remove pr => .ok (.optV ((RefDict.find (E.hitP pr) d).map (·.2))) (RefDict.erase (E.hitP pr) d)
  | .remove_entry pr => .ok (.optKV (RefDict.find (E.hitP pr) d)) (RefDict.erase (E.hitP pr) d)
  | .retain f => .ok .unit (RefDict.retain f d)
  | .clear => .ok .unit []
  | .len => .ok (.nat d.length) d
  | .is_empty => .ok (.bool (d.length == 0)) d
  | .iter => .ok (.list d) d

/-- simulation relation: same capacity, the live prefix is a permutation of the reference list,
    keys pairwise unequal. -/
def Sim (r : Raw K V) (d : List (K × V)) : Prop :=
  ∃ l, Rep r l ∧ NodupKeys E.keq l ∧ l.Perm d

/-- a triple in a world without an armed fault: the run returns or unwinds, never `ub`. -/
theorem outcome {α : Type} {m : SM K V Q α} {s : St K V Q} {Qp P} (h : Sat m s Qp P) :
    (∃ a s', m s = .ok a s' ∧ Qp a s') ∨ (∃ c s', m s = .panic c s' ∧ P c s') := by
  unfold Sat at h
  cases hm : m s with
  | ok a s' => rw [hm] at h; exact Or.inl ⟨a, s', rfl, h⟩
  | panic c s' => rw [hm] at h; exact Or.inr ⟨c, s', rfl, h⟩
  | ub => rw [hm] at h; exact h.elim

theorem no_inj {s s' : St K V Q} {c} (hb : Benign s.w) (h : InjPanic s s' c) : False := h.2.1 hb.1

/-- what the scan finds, in reference terms. -/
theorem find_cases {E : Env K V Q} (hE : E.Lawful) {l d : List (K × V)} (hn : NodupKeys E.keq l)
    (hperm : l.Perm d) (pr : Probe K Q) :
    (∃ i, ∃ hi : i < l.length, findKey E l pr = some i ∧ E.hitP pr l[i].1 = true ∧
        RefDict.find (E.hitP pr) d = some l[i]) ∨
    (findKey E l pr = none ∧ (∀ p, p ∈ l → E.hitP pr p.1 = false) ∧
        (∀ p, p ∈ d → E.hitP pr p.1 = false) ∧ RefDict.find (E.hitP pr) d = none) := by
  have hfind : RefDict.find (E.hitP pr) d = lookupP (E.hitP pr) l :=
    (lookupP_perm hE.equivB (hE.probeOK pr) hn hperm).symm
  cases hf : findKey E l pr with
  | some i =>
    left
    obtain ⟨hi, hh⟩ := (findKey_some_iff hE hn pr).mp hf
    refine ⟨i, hi, rfl, hh, ?_⟩
    rw [hfind]
    rw [findKey_eq_findIdxP] at hf
    obtain ⟨_, h2, _⟩ := lookupP_eq_of_findIdxP hf
    exact h2
  | none =>
    right
    have hnone := (findKey_none_iff E pr).mp hf
    refine ⟨rfl, hnone, fun p hp => hnone p (hperm.mem_iff.mpr hp), ?_⟩
    rw [hfind]
    exact lookupP_eq_none_iff.mpr hnone

theorem index_mut_sat {s : St K V Q} {l : List (K × V)} (hr : Rep s.r l) (pr : Probe K Q) (g : V → V) :
    Sat (index_mut E pr g) s
      (fun r s' => s'.r.cap = s.r.cap ∧ WRel s.w s'.w [] ∧
        (∃ hi : r.1 < l.length, r.2 = (l[r.1].1, g l[r.1].2) ∧ Rep s'.r (l.set r.1 (l[r.1].1, g l[r.1].2))) ∧
        (E.Pure → findKey E l pr = some r.1))
      (fun c s' => s'.r = s.r ∧ (InjPanic s s' c ∨
        (c = .noentry ∧ WRel s.w s'.w [] ∧ (E.Pure → findKey E l pr = none)))) := by
  unfold index_mut
  refine Sat.bind (Sat.mono (get_mut_sat E hr pr g) (fun _ _ h => h) ?_) ?_
  · intro c s' ⟨h1, h2⟩; exact ⟨h1, Or.inl h2⟩
  · intro o s1 ⟨h1, h2, h3, h4⟩
    rcases h3 with ⟨ho, hs⟩ | ⟨i, hi, ho, hrep⟩
    · subst ho
      exact Sat.throwP ⟨hs, Or.inr ⟨rfl, h2, fun hp => by rw [← h4 hp]; rfl⟩⟩
    · subst ho
      exact Sat.pure ⟨h1, h2, ⟨hi, rfl, hrep⟩, fun hp => by rw [← h4 hp]; rfl⟩

theorem iterRestR_ok {r : Raw K V} {l : List (K × V)} (hr : Rep r l) (s : St K V Q) :
    ∀ n i, i + n = l.length → iterRestR r n i s = .ok (l.drop i) s
  | 0, i, h => by
    have : l.drop i = [] := List.drop_eq_nil_of_le (by omega)
    simp [iterRestR, this]
  | n + 1, i, h => by
    have hi : i < l.length := by omega
    unfold iterRestR
    have h1 : itemRefR r i s = .ok l[i] s := by
      unfold itemRefR; simp [hr.cap_lt hi, hr.slot hi]
    simp only [bind_apply, h1, iterRestR_ok hr s n (i + 1) (by omega), pure_apply]
    rw [List.drop_eq_getElem_cons hi]

theorem entriesOf_ok {r : Raw K V} {l : List (K × V)} (hr : Rep r l) (s : St K V Q) :
    entriesOf r s = .ok l s := by
  unfold entriesOf
  have : r.len ≤ r.cap := hr.1 ▸ hr.2.1
  simp only [this, if_true]
  rw [hr.1, iterRestR_ok hr s l.length 0 (by omega)]
  simp

end Micromap.Refine
